package main

// Translated functions of internal/utils/ringbuffer (the queue behind the framer's stream queue;
// property C18 depends on it for "many concurrent requests on one connection").
func init() {
	registerTrans("Ring",
		TFunc{Dir: "internal/utils/ringbuffer", Recv: "RingBuffer", Name: "Len"},
		TFunc{Dir: "internal/utils/ringbuffer", Recv: "RingBuffer", Name: "Empty"},
	)
}
