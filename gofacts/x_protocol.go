package main

func init() {
	register("Protocol", func(c *Ctx, w *LeanFile) error {
		p, err := c.Load("internal/protocol")
		if err != nil {
			return err
		}
		c.EmitAllIntConsts(w, p, map[string]bool{"params.go": true, "protocol.go": true, "stream.go": true, "packet_number.go": true, "connection_id.go": true, "encryption_level.go": true, "perspective.go": true, "key_phase.go": true})
		return nil
	})
	register("Ackhandler", func(c *Ctx, w *LeanFile) error {
		p, err := c.Load("internal/ackhandler")
		if err != nil {
			return err
		}
		c.EmitAllIntConsts(w, p, nil)
		return nil
	})
}
