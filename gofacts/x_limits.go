package main

import (
	"fmt"
	"go/ast"
	"go/parser"
	"go/token"
	"path/filepath"
	"strconv"
	"strings"
)

// Limits (C12): constants the enforcing side uses, transport parameter ids, transport error codes, and — as
// DATA — the integer-valued transport parameters each built-in QUICID2Spec case lists (u_parrot.go).
func init() {
	register("Limits", func(c *Ctx, w *LeanFile) error {
		// wire.MaxDatagramSize is a package variable initialised with a literal
		wirePkg, err := c.Load("internal/wire")
		if err != nil {
			return err
		}
		found := false
		for _, f := range wirePkg.Files {
			for _, d := range f.Decls {
				gd, ok := d.(*ast.GenDecl)
				if !ok || gd.Tok != token.VAR {
					continue
				}
				for _, s := range gd.Specs {
					vs := s.(*ast.ValueSpec)
					for i, n := range vs.Names {
						if n.Name == "MaxDatagramSize" && i < len(vs.Values) {
							v, err := intLit(vs.Values[i])
							if err != nil {
								return fmt.Errorf("wire.MaxDatagramSize: %v", err)
							}
							w.P("/-- %s `MaxDatagramSize` (package variable, initial value) -/", c.pos(n.Pos()))
							w.P("def MaxDatagramSize : Int := %d", v)
							found = true
						}
					}
				}
			}
		}
		if !found {
			return fmt.Errorf("wire.MaxDatagramSize not found")
		}
		for _, n := range []string{"maxIdleTimeoutParameterID", "maxUDPPayloadSizeParameterID", "initialMaxDataParameterID",
			"initialMaxStreamDataBidiLocalParameterID", "initialMaxStreamDataBidiRemoteParameterID", "initialMaxStreamDataUniParameterID",
			"initialMaxStreamsBidiParameterID", "initialMaxStreamsUniParameterID", "ackDelayExponentParameterID", "maxAckDelayParameterID",
			"disableActiveMigrationParameterID", "activeConnectionIDLimitParameterID", "initialSourceConnectionIDParameterID",
			"maxDatagramFrameSizeParameterID"} {
			if err := c.EmitIntConst(w, wirePkg, n, n); err != nil {
				return err
			}
		}
		qerrPkg, err := c.Load("internal/qerr")
		if err != nil {
			return err
		}
		for _, n := range []string{"FlowControlError", "StreamLimitError", "FrameEncodingError", "ConnectionIDLimitError", "ProtocolViolation"} {
			if err := c.EmitIntConst(w, qerrPkg, n, n); err != nil {
				return err
			}
		}
		// which parameter ids PopulateFromUQUIC recognises (case labels of its switch)
		if fd := wirePkg.FuncDecl("TransportParameters", "PopulateFromUQUIC"); fd != nil {
			var ids []string
			ast.Inspect(fd, func(n ast.Node) bool {
				cc, ok := n.(*ast.CaseClause)
				if !ok {
					return true
				}
				for _, e := range cc.List {
					ast.Inspect(e, func(m ast.Node) bool {
						if id, ok := m.(*ast.Ident); ok && strings.HasSuffix(id.Name, "ParameterID") {
							ids = append(ids, id.Name)
						}
						return true
					})
				}
				return true
			})
			w.P("/-- internal/wire/u_transport_parameters.go: parameter ids with a case in PopulateFromUQUIC's switch -/")
			w.P("def populateRecognises : List Int := [%s]", strings.Join(ids, ", "))
		} else {
			return fmt.Errorf("PopulateFromUQUIC not found")
		}
		// shape fact: does newUClientConnection recompute s.config from the populated transport parameters
		// (`s.config = f(…, params)`) BEFORE s.preSetup() builds the enforcing components from s.config?
		{
			uf, err := parser.ParseFile(c.Fset, filepath.Join(c.Repo, "u_connection.go"), nil, 0)
			if err != nil {
				return err
			}
			var body *ast.BlockStmt
			ast.Inspect(uf, func(n ast.Node) bool {
				vs, ok := n.(*ast.ValueSpec)
				if ok && len(vs.Names) == 1 && vs.Names[0].Name == "newUClientConnection" && len(vs.Values) == 1 {
					if fl, ok := vs.Values[0].(*ast.FuncLit); ok {
						body = fl.Body
					}
				}
				if fd, ok := n.(*ast.FuncDecl); ok && fd.Name.Name == "newUClientConnection" {
					body = fd.Body
				}
				return true
			})
			if body == nil {
				return fmt.Errorf("newUClientConnection not found in u_connection.go")
			}
			// (receiver and local variable names are not significant: `<x>.config = f(…, <local>)` before `<x>.preSetup()`)
			selName := func(e ast.Expr, sel string) bool {
				se, ok := e.(*ast.SelectorExpr)
				if !ok || se.Sel.Name != sel {
					return false
				}
				_, ok = se.X.(*ast.Ident)
				return ok
			}
			preSetupPos, assignPos := token.NoPos, token.NoPos
			coverFn := ""
			ast.Inspect(body, func(n ast.Node) bool {
				switch x := n.(type) {
				case *ast.CallExpr:
					if selName(x.Fun, "preSetup") && preSetupPos == token.NoPos {
						preSetupPos = x.Pos()
					}
				case *ast.AssignStmt:
					if len(x.Lhs) == 1 && len(x.Rhs) == 1 && selName(x.Lhs[0], "config") {
						if call, ok := x.Rhs[0].(*ast.CallExpr); ok {
							for _, a := range call.Args {
								if _, ok := a.(*ast.Ident); ok && assignPos == token.NoPos {
									assignPos = x.Pos()
									if id, ok := call.Fun.(*ast.Ident); ok {
										coverFn = id.Name
									}
								}
							}
						}
					}
				}
				return true
			})
			if preSetupPos == token.NoPos {
				return fmt.Errorf("newUClientConnection: no call of preSetup()")
			}
			covers := assignPos != token.NoPos && assignPos < preSetupPos
			w.P("/-- u_connection.go newUClientConnection: `s.config = f(…, params)` precedes `s.preSetup()` (the enforced")
			w.P("    limits are derived from a Config recomputed from the advertised transport parameters) -/")
			w.P("def specConfigCoversAdvertised : Bool := %v", covers)

			// HOW that function derives a Config field: `exact` = the assignment to the field does not read the field
			// itself (c.F = conv(p.X)); otherwise it combines the caller's value with the advertised one (max(c.F, …)).
			exact := map[string]bool{}
			if coverFn != "" {
				var fbody *ast.BlockStmt
				for _, d := range uf.Decls {
					if fd, ok := d.(*ast.FuncDecl); ok && fd.Recv == nil && fd.Name.Name == coverFn {
						fbody = fd.Body
					}
				}
				if fbody != nil {
					ast.Inspect(fbody, func(n ast.Node) bool {
						as, ok := n.(*ast.AssignStmt)
						if !ok || len(as.Lhs) != 1 || len(as.Rhs) != 1 {
							return true
						}
						lhs, ok := as.Lhs[0].(*ast.SelectorExpr)
						if !ok {
							return true
						}
						readsSelf := false
						ast.Inspect(as.Rhs[0], func(m ast.Node) bool {
							if se, ok := m.(*ast.SelectorExpr); ok && se.Sel.Name == lhs.Sel.Name {
								readsSelf = true
							}
							return true
						})
						// (the last assignment to a field decides)
						exact[lhs.Sel.Name] = !readsSelf
						return true
					})
				}
			}
			w.P("/-- u_connection.go %s: MaxIncomingStreams and MaxIncomingUniStreams are assigned from the advertised", coverFn)
			w.P("    parameters alone (the assignment does not read the Config field itself): enforced = advertised -/")
			w.P("def specStreamCountsExact : Bool := %v", covers && exact["MaxIncomingStreams"] && exact["MaxIncomingUniStreams"])
			w.P("/-- … and so is InitialConnectionReceiveWindow -/")
			w.P("def specConnWindowExact : Bool := %v", covers && exact["InitialConnectionReceiveWindow"])
		}
		// shape fact: the function of connection.go that builds a stream flow controller (the caller of
		// flowcontrol.NewStreamFlowController): does the receive window it passes (3rd argument) depend on the
		// stream id it was called with, i.e. on the KIND of stream? (local names are followed through assignments)
		{
			cf, err := parser.ParseFile(c.Fset, filepath.Join(c.Repo, "connection.go"), nil, 0)
			if err != nil {
				return err
			}
			found, depends := false, false
			for _, d := range cf.Decls {
				fd, ok := d.(*ast.FuncDecl)
				if !ok || fd.Body == nil {
					continue
				}
				var call *ast.CallExpr
				ast.Inspect(fd.Body, func(n ast.Node) bool {
					if ce, ok := n.(*ast.CallExpr); ok && call == nil {
						if se, ok := ce.Fun.(*ast.SelectorExpr); ok && se.Sel.Name == "NewStreamFlowController" {
							call = ce
						}
					}
					return true
				})
				if call == nil || len(call.Args) < 4 {
					continue
				}
				found = true
				idParams := map[string]bool{}
				for _, f := range fd.Type.Params.List {
					if se, ok := f.Type.(*ast.SelectorExpr); ok && se.Sel.Name == "StreamID" {
						for _, n := range f.Names {
							idParams[n.Name] = true
						}
					}
				}
				assigns := map[string][]ast.Expr{}
				ast.Inspect(fd.Body, func(n ast.Node) bool {
					if as, ok := n.(*ast.AssignStmt); ok && len(as.Lhs) == len(as.Rhs) {
						for i, l := range as.Lhs {
							if id, ok := l.(*ast.Ident); ok {
								assigns[id.Name] = append(assigns[id.Name], as.Rhs[i])
							}
						}
					}
					return true
				})
				seen := map[string]bool{}
				var visit func(e ast.Expr)
				visit = func(e ast.Expr) {
					ast.Inspect(e, func(m ast.Node) bool {
						id, ok := m.(*ast.Ident)
						if !ok {
							return true
						}
						if idParams[id.Name] {
							depends = true
						}
						if !seen[id.Name] {
							seen[id.Name] = true
							for _, r := range assigns[id.Name] {
								visit(r)
							}
						}
						return true
					})
				}
				visit(call.Args[2])
			}
			if !found {
				return fmt.Errorf("connection.go: no caller of flowcontrol.NewStreamFlowController found")
			}
			w.P("/-- connection.go (the caller of flowcontrol.NewStreamFlowController): the receive window a new stream starts")
			w.P("    with depends on the stream id, i.e. a spec-driven client uses the window advertised for that KIND of stream -/")
			w.P("def streamWindowPerKind : Bool := %v", depends)
		}
		// the built-in specs
		fn := filepath.Join(c.Repo, "u_parrot.go")
		af, err := parser.ParseFile(c.Fset, fn, nil, 0)
		if err != nil {
			return err
		}
		var sw *ast.SwitchStmt
		for _, d := range af.Decls {
			if fd, ok := d.(*ast.FuncDecl); ok && fd.Name.Name == "QUICID2Spec" && fd.Recv == nil {
				ast.Inspect(fd.Body, func(n ast.Node) bool {
					if s, ok := n.(*ast.SwitchStmt); ok && sw == nil {
						sw = s
						return false
					}
					return true
				})
			}
		}
		if sw == nil {
			return fmt.Errorf("QUICID2Spec switch not found")
		}
		var names []string
		for _, st := range sw.Body.List {
			cc := st.(*ast.CaseClause)
			for _, lab := range cc.List {
				id, ok := lab.(*ast.Ident)
				if !ok {
					return fmt.Errorf("QUICID2Spec: unexpected case label")
				}
				var lit *ast.CompositeLit
				ast.Inspect(cc, func(n ast.Node) bool {
					cl, ok := n.(*ast.CompositeLit)
					if ok && lit == nil && isTLSSel(cl.Type, "TransportParameters") {
						lit = cl
						return false
					}
					return true
				})
				if lit == nil {
					return fmt.Errorf("QUICID2Spec case %s: no tls.TransportParameters literal", id.Name)
				}
				var items, idItems []string
				idConst := func(typeName string) string { // uTLS type name -> wire constant, by naming convention
					c := strings.ToLower(typeName[:1]) + typeName[1:] + "ParameterID"
					if _, _, _, ok := wirePkg.Const(c); ok {
						return c
					}
					return ""
				}
				for _, e := range lit.Elts {
					// a flag parameter: &tls.DisableActiveMigration{}
					if ue, ok := e.(*ast.UnaryExpr); ok && ue.Op == token.AND {
						if cl, ok := ue.X.(*ast.CompositeLit); ok && isTLSSel(cl.Type, "DisableActiveMigration") {
							items = append(items, fmt.Sprintf("(%q, %d)", "DisableActiveMigration", 1))
							idItems = append(idItems, "(disableActiveMigrationParameterID, 1)")
						}
						continue
					}
					call, ok := e.(*ast.CallExpr)
					if !ok || len(call.Args) != 1 {
						continue
					}
					sel, ok := call.Fun.(*ast.SelectorExpr)
					if !ok || !isTLSSel(sel, sel.Sel.Name) {
						continue
					}
					v, err := intLit(call.Args[0])
					if err != nil {
						continue // not an integer-valued parameter (e.g. InitialSourceConnectionID([]byte{}))
					}
					items = append(items, fmt.Sprintf("(%q, %d)", sel.Sel.Name, v))
					if c := idConst(sel.Sel.Name); c != "" {
						idItems = append(idItems, fmt.Sprintf("(%s, %d)", c, v))
					} else {
						return fmt.Errorf("QUICID2Spec case %s: no wire parameter id constant for tls.%s", id.Name, sel.Sel.Name)
					}
				}
				w.P("/-- u_parrot.go QUICID2Spec case %s: integer-valued transport parameters listed (uTLS type name, value), source order -/", id.Name)
				w.P("def spec_%s : List (String × Int) := [%s]", id.Name, strings.Join(items, ", "))
				w.P("/-- the same list as (parameter id, value); uTLS type name ↔ wire id constant by name -/")
				w.P("def specParams_%s : List (Int × Int) := [%s]", id.Name, strings.Join(idItems, ", "))
				w.P("/-- number of elements of that tls.TransportParameters literal (all kinds) -/")
				w.P("def specLen_%s : Nat := %d", id.Name, len(lit.Elts))
				names = append(names, id.Name)
			}
		}
		var all []string
		for _, n := range names {
			all = append(all, fmt.Sprintf("(%q, spec_%s, specLen_%s)", n, n, n))
		}
		w.P("def builtinSpecs : List (String × List (String × Int) × Nat) := [%s]", strings.Join(all, ", "))
		var allP []string
		for _, n := range names {
			allP = append(allP, "specParams_"+n)
		}
		w.P("def builtinParamLists : List (List (Int × Int)) := [%s]", strings.Join(allP, ", "))
		return nil
	})
}

func isTLSSel(e ast.Expr, name string) bool {
	sel, ok := e.(*ast.SelectorExpr)
	if !ok || sel.Sel.Name != name {
		return false
	}
	x, ok := sel.X.(*ast.Ident)
	return ok && x.Name == "tls"
}

func intLit(e ast.Expr) (int64, error) {
	bl, ok := e.(*ast.BasicLit)
	if !ok || bl.Kind != token.INT {
		return 0, fmt.Errorf("not an integer literal")
	}
	return strconv.ParseInt(strings.ReplaceAll(bl.Value, "_", ""), 0, 64)
}
