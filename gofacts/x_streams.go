package main

import (
	"fmt"
	"go/ast"
	"go/parser"
	"path/filepath"
	"sort"
	"strings"
)

// Shape facts for property C15: the methods of the stream maps that the Lean model treats as one
// atomic step take the map's mutex in their first statement (Lock or RLock on the receiver's
// `mutex` field). AST only, no type checking.
func init() {
	register("Streams", func(c *Ctx, w *LeanFile) error {
		want := map[string][]string{
			"streams_map_incoming.go": {"GetOrOpenStream", "DeleteStream", "CloseWithError"},
			"streams_map_outgoing.go": {"OpenStream", "OpenStreamSync", "GetStream", "DeleteStream", "SetMaxStream", "CloseWithError"},
		}
		files := make([]string, 0, len(want))
		for f := range want {
			files = append(files, f)
		}
		sort.Strings(files)
		var rows []string
		all := true
		for _, fn := range files {
			af, err := parser.ParseFile(c.Fset, filepath.Join(c.Repo, fn), nil, 0)
			if err != nil {
				return err
			}
			for _, m := range want[fn] {
				found, locks := false, false
				for _, d := range af.Decls {
					fd, ok := d.(*ast.FuncDecl)
					if !ok || fd.Recv == nil || fd.Name.Name != m || fd.Body == nil || len(fd.Body.List) == 0 {
						continue
					}
					found = true
					locks = isMutexLock(fd.Body.List[0], recvName(fd))
				}
				if !found {
					return fmt.Errorf("method %s not found in %s", m, fn)
				}
				if !locks {
					all = false
				}
				rows = append(rows, fmt.Sprintf("(%q, %v)", strings.TrimSuffix(fn, ".go")+"."+m, locks))
			}
		}
		w.P("/-- streams_map_incoming.go / streams_map_outgoing.go: does the method lock `mutex` in its first statement? -/")
		w.P("def lockAtEntry : List (String × Bool) := [%s]", strings.Join(rows, ", "))
		w.P("def allLockAtEntry : Bool := %v", all)
		if err := emitCoverSources(c, w); err != nil {
			return err
		}
		return emitSkipGuards(c, w)
	})
}

// emitCoverSources: in u_connection.go configCoveringAdvertised, how the enforced incoming stream limits
// (MaxIncomingStreams / MaxIncomingUniStreams of the returned Config) are derived. Two shapes are known,
// matched on what the right-hand side reads, not on identifier names of locals:
//
//	"advertised":  X.MaxIncomingStreams = conv(P.<field>)                      (the fixed tree, ad4f2a6)
//	"max":         X.MaxIncomingStreams = max(X.MaxIncomingStreams, conv(P.<field>)…)   (before the fix)
//
// where P is the parameter of type *…TransportParameters, X is any Config-valued identifier (the clone or
// the parameter) and conv is zero or more numeric conversions / parentheses. Anything else — a third
// expression, a conditional assignment, two assignments to the same field, two different shapes for the
// two fields — is an error: the model must be looked at by a human.
func emitCoverSources(c *Ctx, w *LeanFile) error {
	af, err := parser.ParseFile(c.Fset, filepath.Join(c.Repo, "u_connection.go"), nil, 0)
	if err != nil {
		return err
	}
	var fd *ast.FuncDecl
	for _, d := range af.Decls {
		if f, ok := d.(*ast.FuncDecl); ok && f.Name.Name == "configCoveringAdvertised" && f.Body != nil {
			fd = f
		}
	}
	if fd == nil {
		return fmt.Errorf("configCoveringAdvertised not found in u_connection.go")
	}
	// the transport-parameters argument, by type
	pName := ""
	for _, fl := range fd.Type.Params.List {
		mentions := false
		ast.Inspect(fl.Type, func(n ast.Node) bool {
			if id, ok := n.(*ast.Ident); ok && id.Name == "TransportParameters" {
				mentions = true
			}
			return true
		})
		if mentions && len(fl.Names) == 1 {
			pName = fl.Names[0].Name
		}
	}
	if pName == "" {
		return fmt.Errorf("configCoveringAdvertised: no parameter of type TransportParameters")
	}
	fields := []string{"MaxIncomingStreams", "MaxIncomingUniStreams"}
	isField := func(n string) bool { return n == fields[0] || n == fields[1] }
	var strip func(e ast.Expr) ast.Expr
	strip = func(e ast.Expr) ast.Expr {
		for {
			switch x := e.(type) {
			case *ast.ParenExpr:
				e = x.X
				continue
			case *ast.CallExpr:
				if id, ok := x.Fun.(*ast.Ident); ok && len(x.Args) == 1 {
					switch id.Name {
					case "int64", "uint64", "int", "uint", "int32", "uint32":
						e = x.Args[0]
						continue
					}
				}
			}
			return e
		}
	}
	// every assignment to one of the two fields anywhere in the body …
	total := 0
	ast.Inspect(fd.Body, func(n ast.Node) bool {
		switch x := n.(type) {
		case *ast.AssignStmt:
			for _, l := range x.Lhs {
				if se, ok := l.(*ast.SelectorExpr); ok && isField(se.Sel.Name) {
					total++
				}
			}
		case *ast.IncDecStmt:
			if se, ok := x.X.(*ast.SelectorExpr); ok && isField(se.Sel.Name) {
				total++
			}
		}
		return true
	})
	// … must be one of the unconditional top-level statements classified here
	src := map[string][]string{}
	shape := map[string]string{}
	for _, st := range fd.Body.List {
		as, ok := st.(*ast.AssignStmt)
		if !ok {
			continue
		}
		for i, l := range as.Lhs {
			lhs, ok := l.(*ast.SelectorExpr)
			if !ok || !isField(lhs.Sel.Name) {
				continue
			}
			name := lhs.Sel.Name
			if as.Tok.String() != "=" || len(as.Lhs) != len(as.Rhs) {
				return fmt.Errorf("configCoveringAdvertised: unrecognised assignment form for %s (line %d)", name, c.Fset.Position(as.Pos()).Line)
			}
			if _, dup := shape[name]; dup {
				return fmt.Errorf("configCoveringAdvertised: %s assigned more than once", name)
			}
			pField := func(e ast.Expr) (string, bool) {
				se, ok := strip(e).(*ast.SelectorExpr)
				if !ok {
					return "", false
				}
				id, ok := se.X.(*ast.Ident)
				if !ok || id.Name != pName {
					return "", false
				}
				return se.Sel.Name, true
			}
			ownField := func(e ast.Expr) bool {
				se, ok := strip(e).(*ast.SelectorExpr)
				if !ok || se.Sel.Name != name {
					return false
				}
				id, ok := se.X.(*ast.Ident)
				return ok && id.Name != pName
			}
			rhs := strip(as.Rhs[i])
			if f, ok := pField(rhs); ok {
				shape[name] = "advertised"
				src[name] = []string{f}
				continue
			}
			call, _ := rhs.(*ast.CallExpr)
			var fun *ast.Ident
			if call != nil {
				fun, _ = call.Fun.(*ast.Ident)
			}
			if fun == nil || fun.Name != "max" {
				return fmt.Errorf("configCoveringAdvertised: unrecognised right-hand side for %s (line %d): neither <params>.<field> nor max(<config>.%s, <params>.<field>…)", name, c.Fset.Position(as.Pos()).Line, name)
			}
			own := false
			for _, a := range call.Args {
				if f, ok := pField(a); ok {
					src[name] = append(src[name], f)
				} else if ownField(a) {
					own = true
				} else {
					return fmt.Errorf("configCoveringAdvertised: unrecognised argument of max for %s (line %d)", name, c.Fset.Position(a.Pos()).Line)
				}
			}
			if !own || len(src[name]) == 0 {
				return fmt.Errorf("configCoveringAdvertised: max for %s must read both the Config value and a transport parameter (line %d)", name, c.Fset.Position(as.Pos()).Line)
			}
			shape[name] = "max"
		}
	}
	for _, f := range fields {
		if shape[f] == "" {
			return fmt.Errorf("configCoveringAdvertised: unconditional assignment to %s not found", f)
		}
	}
	if total != 2 {
		return fmt.Errorf("configCoveringAdvertised: %d writes to MaxIncomingStreams / MaxIncomingUniStreams, expected exactly the two unconditional assignments", total)
	}
	if shape[fields[0]] != shape[fields[1]] {
		return fmt.Errorf("configCoveringAdvertised: MaxIncomingStreams is derived by shape %q but MaxIncomingUniStreams by %q", shape[fields[0]], shape[fields[1]])
	}
	q := func(l []string) string {
		var o []string
		for _, x := range l {
			o = append(o, fmt.Sprintf("%q", x))
		}
		return "[" + strings.Join(o, ", ") + "]"
	}
	w.P("/-- u_connection.go configCoveringAdvertised: the transport-parameter fields the enforced bidi / uni stream limit is derived from -/")
	w.P("def coverBidiSources : List String := %s", q(src[fields[0]]))
	w.P("def coverUniSources : List String := %s", q(src[fields[1]]))
	w.P("/-- shape of the two assignments: \"advertised\" = `c.X = p.<field>`, \"max\" = `c.X = max(c.X, p.<field>…)` (any other shape fails the extraction) -/")
	w.P("def coverShape : String := %q", shape[fields[0]])
	w.P("/-- … i.e. does the (populated) Config value take part (`max` shape)? -/")
	w.P("def coverKeepsConfig : Bool := %v", shape[fields[0]] == "max")
	return nil
}

// emitSkipGuards: connection.go handleFrames — does each branch of the frame dispatch (STREAM, ACK,
// DATAGRAM, everything else) contain `if skipHandling { continue }` before it handles the frame?
func emitSkipGuards(c *Ctx, w *LeanFile) error {
	af, err := parser.ParseFile(c.Fset, filepath.Join(c.Repo, "connection.go"), nil, 0)
	if err != nil {
		return err
	}
	var fd *ast.FuncDecl
	for _, d := range af.Decls {
		if f, ok := d.(*ast.FuncDecl); ok && f.Name.Name == "handleFrames" && f.Body != nil {
			fd = f
		}
	}
	if fd == nil {
		return fmt.Errorf("handleFrames not found in connection.go")
	}
	guards := map[string]bool{}
	seen := map[string]bool{}
	hasGuard := func(b *ast.BlockStmt) bool {
		for _, st := range b.List {
			is, ok := st.(*ast.IfStmt)
			if !ok {
				continue
			}
			if id, ok := is.Cond.(*ast.Ident); !ok || id.Name != "skipHandling" {
				continue
			}
			for _, bs := range is.Body.List {
				if br, ok := bs.(*ast.BranchStmt); ok && br.Tok.String() == "continue" {
					return true
				}
			}
		}
		return false
	}
	condName := func(e ast.Expr) string {
		if call, ok := e.(*ast.CallExpr); ok {
			if se, ok := call.Fun.(*ast.SelectorExpr); ok {
				switch se.Sel.Name {
				case "IsStreamFrameType":
					return "stream"
				case "IsAckFrameType":
					return "ack"
				case "IsDatagramFrameType":
					return "datagram"
				}
			}
		}
		return ""
	}
	ast.Inspect(fd.Body, func(n ast.Node) bool {
		is, ok := n.(*ast.IfStmt)
		if !ok || condName(is.Cond) != "stream" {
			return true
		}
		for cur := is; cur != nil; {
			name := condName(cur.Cond)
			if name != "" {
				seen[name] = true
				guards[name] = hasGuard(cur.Body)
			}
			switch e := cur.Else.(type) {
			case *ast.IfStmt:
				cur = e
			case *ast.BlockStmt:
				seen["other"] = true
				guards["other"] = hasGuard(e)
				cur = nil
			default:
				cur = nil
			}
		}
		return false
	})
	var rows []string
	all := true
	for _, k := range []string{"stream", "ack", "datagram", "other"} {
		if !seen[k] {
			return fmt.Errorf("handleFrames: dispatch branch %q not found", k)
		}
		if !guards[k] {
			all = false
		}
		rows = append(rows, fmt.Sprintf("(%q, %v)", k, guards[k]))
	}
	w.P("/-- connection.go handleFrames: branch ↦ contains `if skipHandling { continue }` -/")
	w.P("def skipGuards : List (String × Bool) := [%s]", strings.Join(rows, ", "))
	w.P("def allSkipGuards : Bool := %v", all)
	return nil
}

func recvName(fd *ast.FuncDecl) string {
	if len(fd.Recv.List) == 1 && len(fd.Recv.List[0].Names) == 1 {
		return fd.Recv.List[0].Names[0].Name
	}
	return ""
}

// isMutexLock recognises `<recv>.mutex.Lock()` and `<recv>.mutex.RLock()`.
func isMutexLock(s ast.Stmt, recv string) bool {
	es, ok := s.(*ast.ExprStmt)
	if !ok {
		return false
	}
	call, ok := es.X.(*ast.CallExpr)
	if !ok {
		return false
	}
	sel, ok := call.Fun.(*ast.SelectorExpr)
	if !ok || (sel.Sel.Name != "Lock" && sel.Sel.Name != "RLock") {
		return false
	}
	inner, ok := sel.X.(*ast.SelectorExpr)
	if !ok || inner.Sel.Name != "mutex" {
		return false
	}
	id, ok := inner.X.(*ast.Ident)
	return ok && id.Name == recv
}
