package main

import (
	"fmt"
	"go/ast"
	"go/parser"
	"path/filepath"
	"sort"
	"strings"
)

// Shape facts for property C15: the methods of the stream maps that the Lean model treats as one
// atomic step take the map's mutex in their first statement (Lock or RLock on the receiver's
// `mutex` field). AST only, no type checking.
func init() {
	register("Streams", func(c *Ctx, w *LeanFile) error {
		want := map[string][]string{
			"streams_map_incoming.go": {"GetOrOpenStream", "DeleteStream", "CloseWithError"},
			"streams_map_outgoing.go": {"OpenStream", "OpenStreamSync", "GetStream", "DeleteStream", "SetMaxStream", "CloseWithError"},
		}
		files := make([]string, 0, len(want))
		for f := range want {
			files = append(files, f)
		}
		sort.Strings(files)
		var rows []string
		all := true
		for _, fn := range files {
			af, err := parser.ParseFile(c.Fset, filepath.Join(c.Repo, fn), nil, 0)
			if err != nil {
				return err
			}
			for _, m := range want[fn] {
				found, locks := false, false
				for _, d := range af.Decls {
					fd, ok := d.(*ast.FuncDecl)
					if !ok || fd.Recv == nil || fd.Name.Name != m || fd.Body == nil || len(fd.Body.List) == 0 {
						continue
					}
					found = true
					locks = isMutexLock(fd.Body.List[0], recvName(fd))
				}
				if !found {
					return fmt.Errorf("method %s not found in %s", m, fn)
				}
				if !locks {
					all = false
				}
				rows = append(rows, fmt.Sprintf("(%q, %v)", strings.TrimSuffix(fn, ".go")+"."+m, locks))
			}
		}
		w.P("/-- streams_map_incoming.go / streams_map_outgoing.go: does the method lock `mutex` in its first statement? -/")
		w.P("def lockAtEntry : List (String × Bool) := [%s]", strings.Join(rows, ", "))
		w.P("def allLockAtEntry : Bool := %v", all)
		return nil
	})
}

func recvName(fd *ast.FuncDecl) string {
	if len(fd.Recv.List) == 1 && len(fd.Recv.List[0].Names) == 1 {
		return fd.Recv.List[0].Names[0].Name
	}
	return ""
}

// isMutexLock recognises `<recv>.mutex.Lock()` and `<recv>.mutex.RLock()`.
func isMutexLock(s ast.Stmt, recv string) bool {
	es, ok := s.(*ast.ExprStmt)
	if !ok {
		return false
	}
	call, ok := es.X.(*ast.CallExpr)
	if !ok {
		return false
	}
	sel, ok := call.Fun.(*ast.SelectorExpr)
	if !ok || (sel.Sel.Name != "Lock" && sel.Sel.Name != "RLock") {
		return false
	}
	inner, ok := sel.X.(*ast.SelectorExpr)
	if !ok || inner.Sel.Name != "mutex" {
		return false
	}
	id, ok := inner.X.(*ast.Ident)
	return ok && id.Name == recv
}
