package main

import (
	"fmt"
	"go/ast"
	"go/parser"
	"path/filepath"
	"sort"
	"strings"
)

// Shape facts for property C15: the methods of the stream maps that the Lean model treats as one
// atomic step take the map's mutex in their first statement (Lock or RLock on the receiver's
// `mutex` field). AST only, no type checking.
func init() {
	register("Streams", func(c *Ctx, w *LeanFile) error {
		want := map[string][]string{
			"streams_map_incoming.go": {"GetOrOpenStream", "DeleteStream", "CloseWithError"},
			"streams_map_outgoing.go": {"OpenStream", "OpenStreamSync", "GetStream", "DeleteStream", "SetMaxStream", "CloseWithError"},
		}
		files := make([]string, 0, len(want))
		for f := range want {
			files = append(files, f)
		}
		sort.Strings(files)
		var rows []string
		all := true
		for _, fn := range files {
			af, err := parser.ParseFile(c.Fset, filepath.Join(c.Repo, fn), nil, 0)
			if err != nil {
				return err
			}
			for _, m := range want[fn] {
				found, locks := false, false
				for _, d := range af.Decls {
					fd, ok := d.(*ast.FuncDecl)
					if !ok || fd.Recv == nil || fd.Name.Name != m || fd.Body == nil || len(fd.Body.List) == 0 {
						continue
					}
					found = true
					locks = isMutexLock(fd.Body.List[0], recvName(fd))
				}
				if !found {
					return fmt.Errorf("method %s not found in %s", m, fn)
				}
				if !locks {
					all = false
				}
				rows = append(rows, fmt.Sprintf("(%q, %v)", strings.TrimSuffix(fn, ".go")+"."+m, locks))
			}
		}
		w.P("/-- streams_map_incoming.go / streams_map_outgoing.go: does the method lock `mutex` in its first statement? -/")
		w.P("def lockAtEntry : List (String × Bool) := [%s]", strings.Join(rows, ", "))
		w.P("def allLockAtEntry : Bool := %v", all)
		if err := emitCoverSources(c, w); err != nil {
			return err
		}
		return emitSkipGuards(c, w)
	})
}

// emitCoverSources: in u_connection.go configCoveringAdvertised, which transport-parameter fields (p.X)
// feed the assignments to c.MaxIncomingStreams and c.MaxIncomingUniStreams.
func emitCoverSources(c *Ctx, w *LeanFile) error {
	af, err := parser.ParseFile(c.Fset, filepath.Join(c.Repo, "u_connection.go"), nil, 0)
	if err != nil {
		return err
	}
	var fd *ast.FuncDecl
	for _, d := range af.Decls {
		if f, ok := d.(*ast.FuncDecl); ok && f.Name.Name == "configCoveringAdvertised" && f.Body != nil {
			fd = f
		}
	}
	if fd == nil {
		return fmt.Errorf("configCoveringAdvertised not found in u_connection.go")
	}
	src := map[string][]string{}
	keepsOwn := map[string]bool{}
	for _, st := range fd.Body.List {
		as, ok := st.(*ast.AssignStmt)
		if !ok || len(as.Lhs) != 1 || len(as.Rhs) != 1 {
			continue
		}
		lhs, ok := as.Lhs[0].(*ast.SelectorExpr)
		if !ok {
			continue
		}
		name := lhs.Sel.Name
		if name != "MaxIncomingStreams" && name != "MaxIncomingUniStreams" {
			continue
		}
		isMax := false
		if call, ok := as.Rhs[0].(*ast.CallExpr); ok {
			if id, ok := call.Fun.(*ast.Ident); ok && id.Name == "max" {
				isMax = true
			}
		}
		ast.Inspect(as.Rhs[0], func(n ast.Node) bool {
			if se, ok := n.(*ast.SelectorExpr); ok {
				if id, ok := se.X.(*ast.Ident); ok {
					if id.Name == "p" {
						src[name] = append(src[name], se.Sel.Name)
					}
					if id.Name == "c" && se.Sel.Name == name && isMax {
						keepsOwn[name] = true
					}
				}
			}
			return true
		})
	}
	q := func(l []string) string {
		var o []string
		for _, x := range l {
			o = append(o, fmt.Sprintf("%q", x))
		}
		return "[" + strings.Join(o, ", ") + "]"
	}
	if len(src["MaxIncomingStreams"]) == 0 || len(src["MaxIncomingUniStreams"]) == 0 {
		return fmt.Errorf("configCoveringAdvertised: assignments to MaxIncomingStreams / MaxIncomingUniStreams not found")
	}
	w.P("/-- u_connection.go configCoveringAdvertised: the enforced bidi limit is `max(Config value, p.<these>)` -/")
	w.P("def coverBidiSources : List String := %s", q(src["MaxIncomingStreams"]))
	w.P("def coverUniSources : List String := %s", q(src["MaxIncomingUniStreams"]))
	w.P("/-- … and the assignments have the form `c.X = max(c.X, …)` -/")
	w.P("def coverKeepsConfig : Bool := %v", keepsOwn["MaxIncomingStreams"] && keepsOwn["MaxIncomingUniStreams"])
	return nil
}

// emitSkipGuards: connection.go handleFrames — does each branch of the frame dispatch (STREAM, ACK,
// DATAGRAM, everything else) contain `if skipHandling { continue }` before it handles the frame?
func emitSkipGuards(c *Ctx, w *LeanFile) error {
	af, err := parser.ParseFile(c.Fset, filepath.Join(c.Repo, "connection.go"), nil, 0)
	if err != nil {
		return err
	}
	var fd *ast.FuncDecl
	for _, d := range af.Decls {
		if f, ok := d.(*ast.FuncDecl); ok && f.Name.Name == "handleFrames" && f.Body != nil {
			fd = f
		}
	}
	if fd == nil {
		return fmt.Errorf("handleFrames not found in connection.go")
	}
	guards := map[string]bool{}
	seen := map[string]bool{}
	hasGuard := func(b *ast.BlockStmt) bool {
		for _, st := range b.List {
			is, ok := st.(*ast.IfStmt)
			if !ok {
				continue
			}
			if id, ok := is.Cond.(*ast.Ident); !ok || id.Name != "skipHandling" {
				continue
			}
			for _, bs := range is.Body.List {
				if br, ok := bs.(*ast.BranchStmt); ok && br.Tok.String() == "continue" {
					return true
				}
			}
		}
		return false
	}
	condName := func(e ast.Expr) string {
		if call, ok := e.(*ast.CallExpr); ok {
			if se, ok := call.Fun.(*ast.SelectorExpr); ok {
				switch se.Sel.Name {
				case "IsStreamFrameType":
					return "stream"
				case "IsAckFrameType":
					return "ack"
				case "IsDatagramFrameType":
					return "datagram"
				}
			}
		}
		return ""
	}
	ast.Inspect(fd.Body, func(n ast.Node) bool {
		is, ok := n.(*ast.IfStmt)
		if !ok || condName(is.Cond) != "stream" {
			return true
		}
		for cur := is; cur != nil; {
			name := condName(cur.Cond)
			if name != "" {
				seen[name] = true
				guards[name] = hasGuard(cur.Body)
			}
			switch e := cur.Else.(type) {
			case *ast.IfStmt:
				cur = e
			case *ast.BlockStmt:
				seen["other"] = true
				guards["other"] = hasGuard(e)
				cur = nil
			default:
				cur = nil
			}
		}
		return false
	})
	var rows []string
	all := true
	for _, k := range []string{"stream", "ack", "datagram", "other"} {
		if !seen[k] {
			return fmt.Errorf("handleFrames: dispatch branch %q not found", k)
		}
		if !guards[k] {
			all = false
		}
		rows = append(rows, fmt.Sprintf("(%q, %v)", k, guards[k]))
	}
	w.P("/-- connection.go handleFrames: branch ↦ contains `if skipHandling { continue }` -/")
	w.P("def skipGuards : List (String × Bool) := [%s]", strings.Join(rows, ", "))
	w.P("def allSkipGuards : Bool := %v", all)
	return nil
}

func recvName(fd *ast.FuncDecl) string {
	if len(fd.Recv.List) == 1 && len(fd.Recv.List[0].Names) == 1 {
		return fd.Recv.List[0].Names[0].Name
	}
	return ""
}

// isMutexLock recognises `<recv>.mutex.Lock()` and `<recv>.mutex.RLock()`.
func isMutexLock(s ast.Stmt, recv string) bool {
	es, ok := s.(*ast.ExprStmt)
	if !ok {
		return false
	}
	call, ok := es.X.(*ast.CallExpr)
	if !ok {
		return false
	}
	sel, ok := call.Fun.(*ast.SelectorExpr)
	if !ok || (sel.Sel.Name != "Lock" && sel.Sel.Name != "RLock") {
		return false
	}
	inner, ok := sel.X.(*ast.SelectorExpr)
	if !ok || inner.Sel.Name != "mutex" {
		return false
	}
	id, ok := inner.X.(*ast.Ident)
	return ok && id.Name == recv
}
