package main

import (
	"fmt"
	"go/ast"
	"go/parser"
	"path/filepath"
	"sort"
	"strings"
)

// Shape facts for property C15: the methods of the stream maps that the Lean model treats as one
// atomic step take the map's mutex in their first statement (Lock or RLock on the receiver's
// `mutex` field). AST only, no type checking.
func init() {
	register("Streams", func(c *Ctx, w *LeanFile) error {
		want := map[string][]string{
			"streams_map_incoming.go": {"GetOrOpenStream", "DeleteStream", "CloseWithError"},
			"streams_map_outgoing.go": {"OpenStream", "OpenStreamSync", "GetStream", "DeleteStream", "SetMaxStream", "CloseWithError"},
		}
		files := make([]string, 0, len(want))
		for f := range want {
			files = append(files, f)
		}
		sort.Strings(files)
		var rows []string
		all := true
		for _, fn := range files {
			af, err := parser.ParseFile(c.Fset, filepath.Join(c.Repo, fn), nil, 0)
			if err != nil {
				return err
			}
			for _, m := range want[fn] {
				found, locks := false, false
				for _, d := range af.Decls {
					fd, ok := d.(*ast.FuncDecl)
					if !ok || fd.Recv == nil || fd.Name.Name != m || fd.Body == nil || len(fd.Body.List) == 0 {
						continue
					}
					found = true
					locks = isMutexLock(fd.Body.List[0], recvName(fd))
				}
				if !found {
					return fmt.Errorf("method %s not found in %s", m, fn)
				}
				if !locks {
					all = false
				}
				rows = append(rows, fmt.Sprintf("(%q, %v)", strings.TrimSuffix(fn, ".go")+"."+m, locks))
			}
		}
		w.P("/-- streams_map_incoming.go / streams_map_outgoing.go: does the method lock `mutex` in its first statement? -/")
		w.P("def lockAtEntry : List (String × Bool) := [%s]", strings.Join(rows, ", "))
		w.P("def allLockAtEntry : Bool := %v", all)
		if err := emitCoverSources(c, w); err != nil {
			return err
		}
		return emitSkipGuards(c, w)
	})
}

// emitCoverSources: in u_connection.go configCoveringAdvertised, how the enforced incoming stream limits
// (MaxIncomingStreams / MaxIncomingUniStreams of the returned Config) are derived. Two shapes are known,
// matched on what the right-hand side reads, not on identifier names of locals:
//
//	"advertised":  X.MaxIncomingStreams = conv(P.<field>)                      (the fixed tree, ad4f2a6)
//	"max":         X.MaxIncomingStreams = max(X.MaxIncomingStreams, conv(P.<field>)…)   (before the fix)
//
// where P is the parameter of type *…TransportParameters, X is any Config-valued identifier (the clone or
// the parameter) and conv is zero or more numeric conversions / parentheses. Anything else — a third
// expression, a conditional assignment, two assignments to the same field, two different shapes for the
// two fields — is an error: the model must be looked at by a human.
func emitCoverSources(c *Ctx, w *LeanFile) error {
	af, err := parser.ParseFile(c.Fset, filepath.Join(c.Repo, "u_connection.go"), nil, 0)
	if err != nil {
		return err
	}
	var fd *ast.FuncDecl
	for _, d := range af.Decls {
		if f, ok := d.(*ast.FuncDecl); ok && f.Name.Name == "configCoveringAdvertised" && f.Body != nil {
			fd = f
		}
	}
	if fd == nil {
		return fmt.Errorf("configCoveringAdvertised not found in u_connection.go")
	}
	// the transport-parameters argument, by type
	pName := ""
	for _, fl := range fd.Type.Params.List {
		mentions := false
		ast.Inspect(fl.Type, func(n ast.Node) bool {
			if id, ok := n.(*ast.Ident); ok && id.Name == "TransportParameters" {
				mentions = true
			}
			return true
		})
		if mentions && len(fl.Names) == 1 {
			pName = fl.Names[0].Name
		}
	}
	if pName == "" {
		return fmt.Errorf("configCoveringAdvertised: no parameter of type TransportParameters")
	}
	fields := []string{"MaxIncomingStreams", "MaxIncomingUniStreams"}
	isField := func(n string) bool { return n == fields[0] || n == fields[1] }
	var strip func(e ast.Expr) ast.Expr
	strip = func(e ast.Expr) ast.Expr {
		for {
			switch x := e.(type) {
			case *ast.ParenExpr:
				e = x.X
				continue
			case *ast.CallExpr:
				if id, ok := x.Fun.(*ast.Ident); ok && len(x.Args) == 1 {
					switch id.Name {
					case "int64", "uint64", "int", "uint", "int32", "uint32":
						e = x.Args[0]
						continue
					}
				}
			}
			return e
		}
	}
	// every assignment to one of the two fields anywhere in the body …
	total := 0
	ast.Inspect(fd.Body, func(n ast.Node) bool {
		switch x := n.(type) {
		case *ast.AssignStmt:
			for _, l := range x.Lhs {
				if se, ok := l.(*ast.SelectorExpr); ok && isField(se.Sel.Name) {
					total++
				}
			}
		case *ast.IncDecStmt:
			if se, ok := x.X.(*ast.SelectorExpr); ok && isField(se.Sel.Name) {
				total++
			}
		}
		return true
	})
	// … must be one of the unconditional top-level statements classified here
	src := map[string][]string{}
	shape := map[string]string{}
	for _, st := range fd.Body.List {
		as, ok := st.(*ast.AssignStmt)
		if !ok {
			continue
		}
		for i, l := range as.Lhs {
			lhs, ok := l.(*ast.SelectorExpr)
			if !ok || !isField(lhs.Sel.Name) {
				continue
			}
			name := lhs.Sel.Name
			if as.Tok.String() != "=" || len(as.Lhs) != len(as.Rhs) {
				return fmt.Errorf("configCoveringAdvertised: unrecognised assignment form for %s (line %d)", name, c.Fset.Position(as.Pos()).Line)
			}
			if _, dup := shape[name]; dup {
				return fmt.Errorf("configCoveringAdvertised: %s assigned more than once", name)
			}
			pField := func(e ast.Expr) (string, bool) {
				se, ok := strip(e).(*ast.SelectorExpr)
				if !ok {
					return "", false
				}
				id, ok := se.X.(*ast.Ident)
				if !ok || id.Name != pName {
					return "", false
				}
				return se.Sel.Name, true
			}
			ownField := func(e ast.Expr) bool {
				se, ok := strip(e).(*ast.SelectorExpr)
				if !ok || se.Sel.Name != name {
					return false
				}
				id, ok := se.X.(*ast.Ident)
				return ok && id.Name != pName
			}
			rhs := strip(as.Rhs[i])
			if f, ok := pField(rhs); ok {
				shape[name] = "advertised"
				src[name] = []string{f}
				continue
			}
			call, _ := rhs.(*ast.CallExpr)
			var fun *ast.Ident
			if call != nil {
				fun, _ = call.Fun.(*ast.Ident)
			}
			if fun == nil || fun.Name != "max" {
				return fmt.Errorf("configCoveringAdvertised: unrecognised right-hand side for %s (line %d): neither <params>.<field> nor max(<config>.%s, <params>.<field>…)", name, c.Fset.Position(as.Pos()).Line, name)
			}
			own := false
			for _, a := range call.Args {
				if f, ok := pField(a); ok {
					src[name] = append(src[name], f)
				} else if ownField(a) {
					own = true
				} else {
					return fmt.Errorf("configCoveringAdvertised: unrecognised argument of max for %s (line %d)", name, c.Fset.Position(a.Pos()).Line)
				}
			}
			if !own || len(src[name]) == 0 {
				return fmt.Errorf("configCoveringAdvertised: max for %s must read both the Config value and a transport parameter (line %d)", name, c.Fset.Position(as.Pos()).Line)
			}
			shape[name] = "max"
		}
	}
	for _, f := range fields {
		if shape[f] == "" {
			return fmt.Errorf("configCoveringAdvertised: unconditional assignment to %s not found", f)
		}
	}
	if total != 2 {
		return fmt.Errorf("configCoveringAdvertised: %d writes to MaxIncomingStreams / MaxIncomingUniStreams, expected exactly the two unconditional assignments", total)
	}
	if shape[fields[0]] != shape[fields[1]] {
		return fmt.Errorf("configCoveringAdvertised: MaxIncomingStreams is derived by shape %q but MaxIncomingUniStreams by %q", shape[fields[0]], shape[fields[1]])
	}
	q := func(l []string) string {
		var o []string
		for _, x := range l {
			o = append(o, fmt.Sprintf("%q", x))
		}
		return "[" + strings.Join(o, ", ") + "]"
	}
	w.P("/-- u_connection.go configCoveringAdvertised: the transport-parameter fields the enforced bidi / uni stream limit is derived from -/")
	w.P("def coverBidiSources : List String := %s", q(src[fields[0]]))
	w.P("def coverUniSources : List String := %s", q(src[fields[1]]))
	w.P("/-- shape of the two assignments: \"advertised\" = `c.X = p.<field>`, \"max\" = `c.X = max(c.X, p.<field>…)` (any other shape fails the extraction) -/")
	w.P("def coverShape : String := %q", shape[fields[0]])
	w.P("/-- … i.e. does the (populated) Config value take part (`max` shape)? -/")
	w.P("def coverKeepsConfig : Bool := %v", shape[fields[0]] == "max")
	return nil
}

// emitSkipGuards: connection.go handleFrames — does each branch of the frame dispatch (STREAM, ACK,
// DATAGRAM, everything else) skip the handling of a frame once an earlier frame of the packet failed?
//
// Matched on the semantic shape, not on local names, statement positions or the dispatch syntax:
//   - the "skip" variable is any variable X that is set by `X = true` inside an `if E != nil { … }`
//     (E: the loop's error variable); in the unchanged tree X = skipHandling, E = handleErr;
//   - the dispatch is either an if / else-if / else chain or a tagless `switch { case …: … default: … }`;
//     a branch is identified by the frame-type predicate its condition calls (IsStreamFrameType,
//     IsAckFrameType, IsDatagramFrameType); the final else / the default clause is "other";
//   - a branch is guarded when `if X { continue }` comes before every statement that handles the frame
//     (a call of a method named handle… / Handle…, or an assignment of a call result to E), or when all
//     such statements sit inside `if !X { … }`.
// A branch that genuinely lacks its guard is reported as guard = false (the proofs then fail); only a
// dispatch that cannot be found at all is an extraction error.
func emitSkipGuards(c *Ctx, w *LeanFile) error {
	af, err := parser.ParseFile(c.Fset, filepath.Join(c.Repo, "connection.go"), nil, 0)
	if err != nil {
		return err
	}
	var fd *ast.FuncDecl
	for _, d := range af.Decls {
		if f, ok := d.(*ast.FuncDecl); ok && f.Name.Name == "handleFrames" && f.Body != nil {
			fd = f
		}
	}
	if fd == nil {
		return fmt.Errorf("handleFrames not found in connection.go")
	}
	unparen := func(e ast.Expr) ast.Expr {
		for {
			p, ok := e.(*ast.ParenExpr)
			if !ok {
				return e
			}
			e = p.X
		}
	}
	identName := func(e ast.Expr) string {
		if id, ok := unparen(e).(*ast.Ident); ok {
			return id.Name
		}
		return ""
	}
	// E != nil (either operand order)
	errVarOfCond := func(e ast.Expr) string {
		be, ok := unparen(e).(*ast.BinaryExpr)
		if !ok || be.Op.String() != "!=" {
			return ""
		}
		x, y := identName(be.X), identName(be.Y)
		switch {
		case y == "nil" && x != "" && x != "nil":
			return x
		case x == "nil" && y != "" && y != "nil":
			return y
		}
		return ""
	}
	skipVars := map[string]bool{}
	errVars := map[string]bool{}
	ast.Inspect(fd.Body, func(n ast.Node) bool {
		is, ok := n.(*ast.IfStmt)
		if !ok {
			return true
		}
		ev := errVarOfCond(is.Cond)
		if ev == "" {
			return true
		}
		for _, st := range is.Body.List {
			as, ok := st.(*ast.AssignStmt)
			if !ok || len(as.Lhs) != 1 || len(as.Rhs) != 1 || as.Tok.String() != "=" {
				continue
			}
			if x := identName(as.Lhs[0]); x != "" && identName(as.Rhs[0]) == "true" {
				skipVars[x] = true
				errVars[ev] = true
			}
		}
		return true
	})
	// `if X { … continue … }` with X a skip variable
	isGuard := func(st ast.Stmt) bool {
		is, ok := st.(*ast.IfStmt)
		if !ok || is.Init != nil || !skipVars[identName(is.Cond)] {
			return false
		}
		for _, bs := range is.Body.List {
			if br, ok := bs.(*ast.BranchStmt); ok && br.Tok.String() == "continue" && br.Label == nil {
				return true
			}
		}
		return false
	}
	// `if !X { … }` without else: its body only runs while nothing has failed
	isNegatedBlock := func(st ast.Stmt) bool {
		is, ok := st.(*ast.IfStmt)
		if !ok || is.Init != nil || is.Else != nil {
			return false
		}
		ue, ok := unparen(is.Cond).(*ast.UnaryExpr)
		return ok && ue.Op.String() == "!" && skipVars[identName(ue.X)]
	}
	handles := func(st ast.Stmt) bool {
		found := false
		ast.Inspect(st, func(n ast.Node) bool {
			switch x := n.(type) {
			case *ast.CallExpr:
				name := ""
				switch f := x.Fun.(type) {
				case *ast.SelectorExpr:
					name = f.Sel.Name
				case *ast.Ident:
					name = f.Name
				}
				if strings.HasPrefix(name, "handle") || strings.HasPrefix(name, "Handle") {
					found = true
				}
			case *ast.AssignStmt:
				for i, l := range x.Lhs {
					if errVars[identName(l)] && len(x.Rhs) > 0 {
						r := x.Rhs[min(i, len(x.Rhs)-1)]
						if _, isCall := unparen(r).(*ast.CallExpr); isCall {
							found = true
						}
					}
				}
			}
			return !found
		})
		return found
	}
	branchGuarded := func(list []ast.Stmt) bool {
		guarded, sawGuard := false, false
		for _, st := range list {
			switch {
			case isGuard(st):
				guarded, sawGuard = true, true
			case isNegatedBlock(st):
				if handles(st) {
					sawGuard = true
				}
			case !guarded && handles(st):
				return false
			}
		}
		return sawGuard
	}
	condNames := func(e ast.Expr) []string {
		var out []string
		if call, ok := unparen(e).(*ast.CallExpr); ok {
			if se, ok := call.Fun.(*ast.SelectorExpr); ok {
				switch se.Sel.Name {
				case "IsStreamFrameType":
					out = append(out, "stream")
				case "IsAckFrameType":
					out = append(out, "ack")
				case "IsDatagramFrameType":
					out = append(out, "datagram")
				}
			}
		}
		return out
	}
	guards := map[string]bool{}
	seen := map[string]bool{}
	record := func(name string, list []ast.Stmt) {
		g := branchGuarded(list)
		if seen[name] {
			g = g && guards[name] // the same predicate dispatched twice: every occurrence needs the guard
		}
		seen[name] = true
		guards[name] = g
	}
	ast.Inspect(fd.Body, func(n ast.Node) bool {
		switch x := n.(type) {
		case *ast.IfStmt:
			if len(condNames(x.Cond)) == 0 {
				return true
			}
			// head of an if / else-if / else chain on frame-type predicates
			for cur := x; cur != nil; {
				for _, name := range condNames(cur.Cond) {
					record(name, cur.Body.List)
				}
				switch e := cur.Else.(type) {
				case *ast.IfStmt:
					cur = e
				case *ast.BlockStmt:
					record("other", e.List)
					cur = nil
				default:
					cur = nil
				}
			}
			return false
		case *ast.SwitchStmt:
			if x.Tag != nil || x.Body == nil {
				return true
			}
			isDispatch := false
			for _, cs := range x.Body.List {
				if cc, ok := cs.(*ast.CaseClause); ok {
					for _, e := range cc.List {
						if len(condNames(e)) > 0 {
							isDispatch = true
						}
					}
				}
			}
			if !isDispatch {
				return true
			}
			for _, cs := range x.Body.List {
				cc, ok := cs.(*ast.CaseClause)
				if !ok {
					continue
				}
				if cc.List == nil {
					record("other", cc.Body)
					continue
				}
				for _, e := range cc.List {
					for _, name := range condNames(e) {
						record(name, cc.Body)
					}
				}
			}
			return false
		}
		return true
	})
	var rows []string
	all := true
	for _, k := range []string{"stream", "ack", "datagram", "other"} {
		if !seen[k] {
			return fmt.Errorf("handleFrames: dispatch branch %q not found", k)
		}
		if !guards[k] {
			all = false
		}
		rows = append(rows, fmt.Sprintf("(%q, %v)", k, guards[k]))
	}
	w.P("/-- connection.go handleFrames: branch ↦ the frame is not handled once an earlier frame of the packet failed (`if skipHandling { continue }` before the handler) -/")
	w.P("def skipGuards : List (String × Bool) := [%s]", strings.Join(rows, ", "))
	w.P("def allSkipGuards : Bool := %v", all)
	return nil
}

func recvName(fd *ast.FuncDecl) string {
	if len(fd.Recv.List) == 1 && len(fd.Recv.List[0].Names) == 1 {
		return fd.Recv.List[0].Names[0].Name
	}
	return ""
}

// isMutexLock recognises `<recv>.mutex.Lock()` and `<recv>.mutex.RLock()`.
func isMutexLock(s ast.Stmt, recv string) bool {
	es, ok := s.(*ast.ExprStmt)
	if !ok {
		return false
	}
	call, ok := es.X.(*ast.CallExpr)
	if !ok {
		return false
	}
	sel, ok := call.Fun.(*ast.SelectorExpr)
	if !ok || (sel.Sel.Name != "Lock" && sel.Sel.Name != "RLock") {
		return false
	}
	inner, ok := sel.X.(*ast.SelectorExpr)
	if !ok || inner.Sel.Name != "mutex" {
		return false
	}
	id, ok := inner.X.(*ast.Ident)
	return ok && id.Name == recv
}
