package main

import (
	"fmt"
	"go/ast"
	"go/token"
)

// Shape facts for C14 (receive path of the connection): WHEN the sent packet handler is told about received bytes
// and received packets.  Name-based call graph over the root package (all files: moving a function to another file
// changes nothing); no local variable names, no helper names in the facts.
//
//	receivedPacketOnlyAfterUnpack  every call site of <x>.sentPacketHandler.ReceivedPacket is executed only after the
//	      packet was unpacked: in its function an unpack call (unpacker.UnpackLongHeader / UnpackShortHeader, or a call
//	      of a helper that reaches one and does not itself reach ReceivedPacket) textually precedes it — or, when the
//	      function has no unpack call of its own, the same holds for EVERY call site of that function (recursively).
//	      Textual order of two statements that depend on each other (unpack result -> accounting) is not a harmless
//	      permutation; inlining / extracting helpers keeps the fact.
//	requeuedPacketsCreditedAgain   the loop of `run` over undecryptablePacketsToProcess (packets that were buffered until
//	      their keys arrived) calls into a function from which sentPacketHandler.ReceivedBytes is reachable: the bytes of a
//	      buffered packet are credited a second time.
//
// Named anchors: func run, field undecryptablePacketsToProcess, selectors sentPacketHandler.ReceivedPacket /
// sentPacketHandler.ReceivedBytes / unpacker.UnpackLongHeader / unpacker.UnpackShortHeader.
func init() {
	register("AmpRecv", func(c *Ctx, w *LeanFile) error {
		root, err := c.Load(".")
		if err != nil {
			return err
		}
		type site struct {
			pos    token.Pos
			callee string // function name, or "@ReceivedPacket" / "@ReceivedBytes" / "@Unpack"
		}
		sites := map[string][]site{} // function -> its call sites in textual order
		decls := map[string]*ast.FuncDecl{}
		selOn := func(fn *ast.SelectorExpr, field string) bool {
			inner, ok := fn.X.(*ast.SelectorExpr)
			return ok && inner.Sel.Name == field
		}
		for _, f := range root.Files {
			for _, d := range f.Decls {
				fd, ok := d.(*ast.FuncDecl)
				if !ok || fd.Body == nil {
					continue
				}
				name := fd.Name.Name
				onConn := false
				if fd.Recv != nil && len(fd.Recv.List) == 1 {
					t := fd.Recv.List[0].Type
					if st, ok := t.(*ast.StarExpr); ok {
						t = st.X
					}
					if id, ok := t.(*ast.Ident); ok && id.Name == "Conn" {
						onConn = true
					}
				}
				// same method name on several types: the connection's wins, otherwise the first (the graph is name based)
				if _, dup := decls[name]; dup && !onConn {
					continue
				}
				decls[name] = fd
			}
		}
		for name, fd := range decls {
			ast.Inspect(fd.Body, func(n ast.Node) bool {
				ce, ok := n.(*ast.CallExpr)
				if !ok {
					return true
				}
				switch fn := ce.Fun.(type) {
				case *ast.Ident:
					sites[name] = append(sites[name], site{ce.Pos(), fn.Name})
				case *ast.SelectorExpr:
					switch {
					case fn.Sel.Name == "ReceivedPacket" && selOn(fn, "sentPacketHandler"):
						sites[name] = append(sites[name], site{ce.Pos(), "@ReceivedPacket"})
					case fn.Sel.Name == "ReceivedBytes" && selOn(fn, "sentPacketHandler"):
						sites[name] = append(sites[name], site{ce.Pos(), "@ReceivedBytes"})
					case (fn.Sel.Name == "UnpackLongHeader" || fn.Sel.Name == "UnpackShortHeader") && selOn(fn, "unpacker"):
						sites[name] = append(sites[name], site{ce.Pos(), "@Unpack"})
					default:
						sites[name] = append(sites[name], site{ce.Pos(), fn.Sel.Name})
					}
				}
				return true
			})
		}
		reaches := func(start, target string) bool {
			seen := map[string]bool{}
			var walk func(string) bool
			walk = func(fn string) bool {
				if seen[fn] {
					return false
				}
				seen[fn] = true
				for _, s := range sites[fn] {
					if s.callee == target {
						return true
					}
					if _, isFunc := decls[s.callee]; isFunc && walk(s.callee) {
						return true
					}
				}
				return false
			}
			return walk(start)
		}
		nRP, nUnpack := 0, 0
		for _, ss := range sites {
			for _, s := range ss {
				if s.callee == "@ReceivedPacket" {
					nRP++
				}
				if s.callee == "@Unpack" {
					nUnpack++
				}
			}
		}
		if nRP == 0 || nUnpack == 0 {
			return fmt.Errorf("root package: no sentPacketHandler.ReceivedPacket (%d) / unpacker.Unpack* (%d) call found", nRP, nUnpack)
		}
		// is this call an "unpack step"?
		isUnpack := func(s site) bool {
			if s.callee == "@Unpack" {
				return true
			}
			_, isFunc := decls[s.callee]
			return isFunc && reaches(s.callee, "@Unpack") && !reaches(s.callee, "@ReceivedPacket")
		}
		// needs[f]: f accounts a received packet (directly or through callees) without having unpacked before that point
		var siteOK func(fn string, pos token.Pos, depth int) bool
		siteOK = func(fn string, pos token.Pos, depth int) bool {
			for _, s := range sites[fn] {
				if s.pos < pos && isUnpack(s) {
					return true
				}
			}
			if depth > 6 {
				return false
			}
			// every call site of fn must be fine
			callers := 0
			for g, ss := range sites {
				for _, s := range ss {
					if s.callee == fn && g != fn {
						callers++
						if !siteOK(g, s.pos, depth+1) {
							return false
						}
					}
				}
			}
			return callers > 0
		}
		afterUnpack := true
		for fn, ss := range sites {
			for _, s := range ss {
				if s.callee == "@ReceivedPacket" && !siteOK(fn, s.pos, 0) {
					afterUnpack = false
				}
			}
		}
		// the re-processing loop of run
		run, ok := decls["run"]
		if !ok {
			return fmt.Errorf("root package: func run not found")
		}
		isQueueExpr := func(e ast.Expr, aliases map[string]bool) bool {
			switch x := e.(type) {
			case *ast.SelectorExpr:
				return x.Sel.Name == "undecryptablePacketsToProcess"
			case *ast.Ident:
				return aliases[x.Name]
			}
			return false
		}
		aliases := map[string]bool{}
		ast.Inspect(run.Body, func(n ast.Node) bool {
			if as, ok := n.(*ast.AssignStmt); ok && len(as.Lhs) == len(as.Rhs) {
				for i := range as.Lhs {
					if id, ok := as.Lhs[i].(*ast.Ident); ok && isQueueExpr(as.Rhs[i], aliases) {
						aliases[id.Name] = true
					}
				}
			}
			return true
		})
		loops, again := 0, false
		ast.Inspect(run.Body, func(n ast.Node) bool {
			rs, ok := n.(*ast.RangeStmt)
			if !ok || !isQueueExpr(rs.X, aliases) {
				return true
			}
			loops++
			ast.Inspect(rs.Body, func(m ast.Node) bool {
				ce, ok := m.(*ast.CallExpr)
				if !ok {
					return true
				}
				name := ""
				switch fn := ce.Fun.(type) {
				case *ast.Ident:
					name = fn.Name
				case *ast.SelectorExpr:
					name = fn.Sel.Name
					if fn.Sel.Name == "ReceivedBytes" && selOn(fn, "sentPacketHandler") {
						again = true
					}
				}
				if _, isFunc := decls[name]; isFunc && reaches(name, "@ReceivedBytes") {
					again = true
				}
				return true
			})
			return true
		})
		if loops == 0 {
			return fmt.Errorf("root package: func run has no loop over undecryptablePacketsToProcess")
		}
		w.P("/-- root package: every `sentPacketHandler.ReceivedPacket` call runs only after the packet was unpacked (see gofacts/x_amprecv.go) -/")
		w.P("def receivedPacketOnlyAfterUnpack : Bool := %v", afterUnpack)
		w.P("/-- root package: the loop of `run` that re-processes buffered packets reaches `sentPacketHandler.ReceivedBytes` again -/")
		w.P("def requeuedPacketsCreditedAgain : Bool := %v", again)
		return nil
	})
}
