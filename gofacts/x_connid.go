package main

import (
	"fmt"
	"go/ast"
	"go/constant"
	"go/parser"
	"go/token"
	"go/types"
	"path/filepath"
	"strings"
)

// ConnID facts (property C16). The root package is only parsed (type-checking it would pull in
// uTLS); expressions are resolved syntactically: an integer literal, or `protocol.<Const>` looked up
// in the type-checked internal/protocol package. Anything else is an error, so that a changed call
// site breaks the dependent proofs instead of being guessed.
func init() {
	register("ConnID", func(c *Ctx, w *LeanFile) error {
		proto, err := c.Load("internal/protocol")
		if err != nil {
			return err
		}
		parse := func(name string) (*ast.File, error) {
			return parser.ParseFile(c.Fset, filepath.Join(c.Repo, name), nil, 0)
		}
		evalInt := func(e ast.Expr) (string, error) {
			switch x := e.(type) {
			case *ast.BasicLit:
				if x.Kind == token.INT {
					v := constant.MakeFromLiteral(x.Value, token.INT, 0)
					return v.ExactString(), nil
				}
			case *ast.SelectorExpr:
				if id, ok := x.X.(*ast.Ident); ok && id.Name == "protocol" {
					if v, _, _, ok := proto.Const(x.Sel.Name); ok {
						iv := constant.ToInt(v)
						if iv.Kind() == constant.Int {
							return iv.ExactString(), nil
						}
					}
				}
			case *ast.ParenExpr:
				return "", fmt.Errorf("parenthesised expression not supported")
			}
			return "", fmt.Errorf("cannot evaluate expression at %s syntactically", c.Fset.Position(e.Pos()))
		}

		// 1. active_connection_id_limit the plain endpoint advertises: every composite literal field
		//    `ActiveConnectionIDLimit: <expr>` in connection.go (server, client) and u_connection.go (client without spec)
		var adv []string
		for _, fn := range []string{"connection.go", "u_connection.go"} {
			f, err := parse(fn)
			if err != nil {
				return err
			}
			var ierr error
			n := 0
			ast.Inspect(f, func(nd ast.Node) bool {
				kv, ok := nd.(*ast.KeyValueExpr)
				if !ok {
					return true
				}
				if k, ok := kv.Key.(*ast.Ident); ok && k.Name == "ActiveConnectionIDLimit" {
					// skip `ActiveConnectionIDLimit: params.ActiveConnectionIDLimit` (copies of the peer's value for qlog / 0-RTT)
					if se, ok := kv.Value.(*ast.SelectorExpr); ok {
						if id, ok := se.X.(*ast.Ident); ok && id.Name != "protocol" {
							return true
						}
					}
					v, err := evalInt(kv.Value)
					if err != nil {
						ierr = err
						return false
					}
					adv = append(adv, v)
					n++
				}
				return true
			})
			if ierr != nil {
				return ierr
			}
			if n == 0 {
				return fmt.Errorf("%s: no ActiveConnectionIDLimit transport parameter literal found", fn)
			}
		}
		w.P("/-- connection.go, u_connection.go: the `ActiveConnectionIDLimit:` fields of the endpoint's own transport parameters -/")
		w.P("def advertisedLimitCallSites : List Int := [%s]", strings.Join(adv, ", "))

		// 2. the bound enforced by connIDManager.Add: `[uint64(]len(h.queue)[)] >= max(<const>, h.connIDLimit)`
		mf, err := parse("conn_id_manager.go")
		if err != nil {
			return err
		}
		isLenQueue := func(e ast.Expr) bool {
			if ce, ok := e.(*ast.CallExpr); ok { // uint64(len(h.queue))
				if id, ok := ce.Fun.(*ast.Ident); ok && id.Name == "uint64" && len(ce.Args) == 1 {
					e = ce.Args[0]
				}
			}
			ce, ok := e.(*ast.CallExpr)
			if !ok {
				return false
			}
			id, ok := ce.Fun.(*ast.Ident)
			if !ok || id.Name != "len" || len(ce.Args) != 1 {
				return false
			}
			se, ok := ce.Args[0].(*ast.SelectorExpr)
			return ok && se.Sel.Name == "queue"
		}
		var bound, boundOp string
		usesLimit := false
		found := false
		for _, d := range mf.Decls {
			fd, ok := d.(*ast.FuncDecl)
			if !ok || fd.Recv == nil || fd.Body == nil || fd.Name.Name != "Add" {
				continue
			}
			var ierr error
			ast.Inspect(fd.Body, func(nd ast.Node) bool {
				be, ok := nd.(*ast.BinaryExpr)
				if !ok || !isLenQueue(be.X) {
					return true
				}
				found = true
				boundOp = be.Op.String()
				y := be.Y
				if ce, ok := y.(*ast.CallExpr); ok {
					if id, ok := ce.Fun.(*ast.Ident); ok && id.Name == "max" && len(ce.Args) == 2 {
						if se, ok := ce.Args[1].(*ast.SelectorExpr); ok && se.Sel.Name == "connIDLimit" {
							usesLimit = true
							y = ce.Args[0]
						} else {
							ierr = fmt.Errorf("conn_id_manager.go: Add compares with max(…) of an unexpected shape")
							return false
						}
					}
				}
				v, err := evalInt(y)
				if err != nil {
					ierr = err
					return false
				}
				bound = v
				return true
			})
			if ierr != nil {
				return ierr
			}
		}
		if !found || bound == "" {
			return fmt.Errorf("conn_id_manager.go: the queue-length comparison of connIDManager.Add was not found")
		}
		w.P("/-- conn_id_manager.go `Add`: CONNECTION_ID_LIMIT_ERROR when `len(h.queue) >= max(enforcedQueueBound, h.connIDLimit)` -/")
		w.P("def enforcedQueueBound : Int := %s", bound)
		w.P("/-- conn_id_manager.go `Add`: the comparison operator is `>=` (it is %q) -/", boundOp)
		w.P("def enforcedBoundIsGE : Bool := %v", boundOp == ">=")
		w.P("/-- conn_id_manager.go `Add`: the bound is `max(<const>, h.connIDLimit)` (false: the constant alone) -/")
		w.P("def enforcedBoundUsesConnIDLimit : Bool := %v", usesLimit)

		// 3. SetConnectionIDLimit (u_conn_id_manager.go) stores its argument in h.connIDLimit
		uf, err := parse("u_conn_id_manager.go")
		if err != nil {
			return err
		}
		var stores *bool
		for _, d := range uf.Decls {
			fd, ok := d.(*ast.FuncDecl)
			if !ok || fd.Name.Name != "SetConnectionIDLimit" || fd.Body == nil {
				continue
			}
			b := false
			if len(fd.Body.List) == 1 && fd.Type.Params != nil && len(fd.Type.Params.List) == 1 && len(fd.Type.Params.List[0].Names) == 1 {
				param := fd.Type.Params.List[0].Names[0].Name
				if as, ok := fd.Body.List[0].(*ast.AssignStmt); ok && as.Tok == token.ASSIGN && len(as.Lhs) == 1 && len(as.Rhs) == 1 {
					l, lok := as.Lhs[0].(*ast.SelectorExpr)
					r, rok := as.Rhs[0].(*ast.Ident)
					b = lok && rok && l.Sel.Name == "connIDLimit" && r.Name == param
				}
			}
			stores = &b
		}
		if stores == nil {
			return fmt.Errorf("u_conn_id_manager.go: SetConnectionIDLimit not found")
		}
		w.P("/-- u_conn_id_manager.go: the body of `SetConnectionIDLimit(limit)` is exactly `h.connIDLimit = limit` -/")
		w.P("def setConnectionIDLimitStores : Bool := %v", *stores)

		// 3b. newUClientConnection passes the spec's populated value: `SetConnectionIDLimit(params.ActiveConnectionIDLimit)`
		ucf, err := parse("u_connection.go")
		if err != nil {
			return err
		}
		passes := false
		ast.Inspect(ucf, func(nd ast.Node) bool {
			ce, ok := nd.(*ast.CallExpr)
			if !ok {
				return true
			}
			if se, ok := ce.Fun.(*ast.SelectorExpr); ok && se.Sel.Name == "SetConnectionIDLimit" && len(ce.Args) == 1 {
				if a, ok := ce.Args[0].(*ast.SelectorExpr); ok && a.Sel.Name == "ActiveConnectionIDLimit" {
					passes = true
				}
			}
			return true
		})
		w.P("/-- u_connection.go: the spec-driven client calls `SetConnectionIDLimit(params.ActiveConnectionIDLimit)` -/")
		w.P("def specClientSetsConnIDLimit : Bool := %v", passes)

		// 4. active_connection_id_limit values of the built-in parrot specs: `tls.ActiveConnectionIDLimit(<lit>)` in u_parrot.go
		pf, err := parse("u_parrot.go")
		if err != nil {
			return err
		}
		var parrot []string
		var perr error
		ast.Inspect(pf, func(nd ast.Node) bool {
			ce, ok := nd.(*ast.CallExpr)
			if !ok {
				return true
			}
			if se, ok := ce.Fun.(*ast.SelectorExpr); ok && se.Sel.Name == "ActiveConnectionIDLimit" && len(ce.Args) == 1 {
				v, err := evalInt(ce.Args[0])
				if err != nil {
					perr = err
					return false
				}
				parrot = append(parrot, v)
			}
			return true
		})
		if perr != nil {
			return perr
		}
		// 5. transport.go: the expiry callback of packetHandlerMap.ReplaceWithClosed deletes an ID only under
		//    `if h.handlers[id] == handler`
		tf, err := parse("transport.go")
		if err != nil {
			return err
		}
		guarded, unguarded, seen := false, false, false
		for _, d := range tf.Decls {
			fd, ok := d.(*ast.FuncDecl)
			if !ok || fd.Recv == nil || fd.Body == nil || fd.Name.Name != "ReplaceWithClosed" {
				continue
			}
			seen = true
			isDelete := func(st ast.Stmt) bool {
				es, ok := st.(*ast.ExprStmt)
				if !ok {
					return false
				}
				ce, ok := es.X.(*ast.CallExpr)
				if !ok {
					return false
				}
				id, ok := ce.Fun.(*ast.Ident)
				return ok && id.Name == "delete"
			}
			ast.Inspect(fd.Body, func(nd ast.Node) bool {
				fl, ok := nd.(*ast.FuncLit) // the time.AfterFunc callback
				if !ok {
					return true
				}
				ast.Inspect(fl.Body, func(n2 ast.Node) bool {
					switch x := n2.(type) {
					case *ast.IfStmt:
						be, ok := x.Cond.(*ast.BinaryExpr)
						if ok && be.Op == token.EQL {
							ix, iok := be.X.(*ast.IndexExpr)
							rh, rok := be.Y.(*ast.Ident)
							if iok && rok && rh.Name == "handler" {
								if se, ok := ix.X.(*ast.SelectorExpr); ok && se.Sel.Name == "handlers" {
									for _, st := range x.Body.List {
										if isDelete(st) {
											guarded = true
										}
									}
									return false
								}
							}
						}
					case *ast.RangeStmt:
						for _, st := range x.Body.List {
							if isDelete(st) {
								unguarded = true
							}
						}
					}
					return true
				})
				return false
			})
		}
		if !seen {
			return fmt.Errorf("transport.go: packetHandlerMap.ReplaceWithClosed not found")
		}
		w.P("/-- transport.go `ReplaceWithClosed`: the expiry callback deletes an ID only under `if h.handlers[id] == handler` -/")
		w.P("def expiryDeletesOnlyOwnHandler : Bool := %v", guarded && !unguarded)

		// 6. glue: the server connection's generator is told about exactly the two IDs the server routes to it:
		//    connection.go newConnection: newConnIDGenerator(runner, srcConnID, &clientDestConnID, …) with clientDestConnID /
		//    srcConnID being parameters k1 / k2; server.go: the arguments k1 / k2 of s.newConn(…) are the two IDs given to
		//    s.tr.AddWithConnID(…).
		cf, err := parse("connection.go")
		if err != nil {
			return err
		}
		k1, k2 := -1, -1
		genOK := false
		ast.Inspect(cf, func(nd ast.Node) bool {
			vs, ok := nd.(*ast.ValueSpec)
			if !ok || len(vs.Names) != 1 || vs.Names[0].Name != "newConnection" || len(vs.Values) != 1 {
				return true
			}
			fl, ok := vs.Values[0].(*ast.FuncLit)
			if !ok {
				return true
			}
			idx := 0
			for _, f := range fl.Type.Params.List {
				for _, n := range f.Names {
					if n.Name == "clientDestConnID" {
						k1 = idx
					}
					if n.Name == "srcConnID" {
						k2 = idx
					}
					idx++
				}
			}
			ast.Inspect(fl.Body, func(n2 ast.Node) bool {
				ce, ok := n2.(*ast.CallExpr)
				if !ok {
					return true
				}
				if id, ok := ce.Fun.(*ast.Ident); ok && id.Name == "newConnIDGenerator" && len(ce.Args) >= 3 {
					genOK = types.ExprString(ce.Args[1]) == "srcConnID" && types.ExprString(ce.Args[2]) == "&clientDestConnID"
				}
				return true
			})
			return false
		})
		sf, err := parse("server.go")
		if err != nil {
			return err
		}
		var newConnArgs, addArgs []string
		ast.Inspect(sf, func(nd ast.Node) bool {
			ce, ok := nd.(*ast.CallExpr)
			if !ok {
				return true
			}
			if se, ok := ce.Fun.(*ast.SelectorExpr); ok {
				if se.Sel.Name == "newConn" {
					newConnArgs = nil
					for _, a := range ce.Args {
						newConnArgs = append(newConnArgs, types.ExprString(a))
					}
				}
				if se.Sel.Name == "AddWithConnID" {
					addArgs = nil
					for _, a := range ce.Args {
						addArgs = append(addArgs, types.ExprString(a))
					}
				}
			}
			return true
		})
		glue := genOK && k1 >= 0 && k2 >= 0 && len(newConnArgs) > k1 && len(newConnArgs) > k2 && len(addArgs) >= 2 &&
			newConnArgs[k1] == addArgs[0] && newConnArgs[k2] == addArgs[1]
		w.P("/-- connection.go newConnection + server.go: the generator of a server connection is created with exactly the two connection IDs that Transport.AddWithConnID routes to it -/")
		w.P("def serverGeneratorTracksRoutedIDs : Bool := %v", glue)

		// 7. path_manager.go: `const maxPaths = <int>`, `const pathTimeout = <int> * time.Second`
		pmf, err := parse("path_manager.go")
		if err != nil {
			return err
		}
		maxPaths, pathTimeout := "", ""
		for _, d := range pmf.Decls {
			gd, ok := d.(*ast.GenDecl)
			if !ok || gd.Tok != token.CONST {
				continue
			}
			for _, sp := range gd.Specs {
				vs := sp.(*ast.ValueSpec)
				for i, n := range vs.Names {
					if i >= len(vs.Values) {
						continue
					}
					switch n.Name {
					case "maxPaths":
						if v, err := evalInt(vs.Values[i]); err == nil {
							maxPaths = v
						}
					case "pathTimeout":
						if be, ok := vs.Values[i].(*ast.BinaryExpr); ok && be.Op == token.MUL {
							if types.ExprString(be.Y) == "time.Second" {
								if v, err := evalInt(be.X); err == nil {
									pathTimeout = v + "000000000"
								}
							}
						}
					}
				}
			}
		}
		if maxPaths == "" || pathTimeout == "" {
			return fmt.Errorf("path_manager.go: maxPaths / pathTimeout not found in the expected shape")
		}
		w.P("/-- path_manager.go -/")
		w.P("def maxPaths : Int := %s", maxPaths)
		w.P("/-- path_manager.go (nanoseconds) -/")
		w.P("def pathTimeout : Int := %s", pathTimeout)

		w.P("/-- u_parrot.go: every `tls.ActiveConnectionIDLimit(n)` of the built-in QUIC specs (a spec without it advertises the default) -/")
		w.P("def parrotAdvertisedLimits : List Int := [%s]", strings.Join(parrot, ", "))
		return nil
	})
}
