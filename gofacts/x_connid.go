package main

import (
	"fmt"
	"go/ast"
	"go/constant"
	"go/parser"
	"go/token"
	"go/types"
	"os"
	"path/filepath"
	"strings"
)

// ConnID facts (property C16). The root package is only parsed (type-checking it would pull in
// uTLS); expressions are resolved syntactically: an integer literal, or `protocol.<Const>` looked up
// in the type-checked internal/protocol package. Anything else is an error, so that a changed call
// site breaks the dependent proofs instead of being guessed.
func init() {
	register("ConnID", func(c *Ctx, w *LeanFile) error {
		proto, err := c.Load("internal/protocol")
		if err != nil {
			return err
		}
		parse := func(name string) (*ast.File, error) {
			return parser.ParseFile(c.Fset, filepath.Join(c.Repo, name), nil, 0)
		}
		evalInt := func(e ast.Expr) (string, error) {
			switch x := e.(type) {
			case *ast.BasicLit:
				if x.Kind == token.INT {
					v := constant.MakeFromLiteral(x.Value, token.INT, 0)
					return v.ExactString(), nil
				}
			case *ast.SelectorExpr:
				if id, ok := x.X.(*ast.Ident); ok && id.Name == "protocol" {
					if v, _, _, ok := proto.Const(x.Sel.Name); ok {
						iv := constant.ToInt(v)
						if iv.Kind() == constant.Int {
							return iv.ExactString(), nil
						}
					}
				}
			case *ast.ParenExpr:
				return "", fmt.Errorf("parenthesised expression not supported")
			}
			return "", fmt.Errorf("cannot evaluate expression at %s syntactically", c.Fset.Position(e.Pos()))
		}

		// 1. active_connection_id_limit the plain endpoint advertises: every composite literal field
		//    `ActiveConnectionIDLimit: <expr>` in connection.go (server, client) and u_connection.go (client without spec)
		var adv []string
		for _, fn := range []string{"connection.go", "u_connection.go"} {
			f, err := parse(fn)
			if err != nil {
				return err
			}
			var ierr error
			n := 0
			ast.Inspect(f, func(nd ast.Node) bool {
				kv, ok := nd.(*ast.KeyValueExpr)
				if !ok {
					return true
				}
				if k, ok := kv.Key.(*ast.Ident); ok && k.Name == "ActiveConnectionIDLimit" {
					// skip `ActiveConnectionIDLimit: params.ActiveConnectionIDLimit` (copies of the peer's value for qlog / 0-RTT)
					if se, ok := kv.Value.(*ast.SelectorExpr); ok {
						if id, ok := se.X.(*ast.Ident); ok && id.Name != "protocol" {
							return true
						}
					}
					v, err := evalInt(kv.Value)
					if err != nil {
						ierr = err
						return false
					}
					adv = append(adv, v)
					n++
				}
				return true
			})
			if ierr != nil {
				return ierr
			}
			if n == 0 {
				return fmt.Errorf("%s: no ActiveConnectionIDLimit transport parameter literal found", fn)
			}
		}
		w.P("/-- connection.go, u_connection.go: the `ActiveConnectionIDLimit:` fields of the endpoint's own transport parameters -/")
		w.P("def advertisedLimitCallSites : List Int := [%s]", strings.Join(adv, ", "))

		// 2. the bound enforced by connIDManager.Add: `[uint64(]len(h.queue)[)] >= max(<const>, h.connIDLimit)`
		mf, err := parse("conn_id_manager.go")
		if err != nil {
			return err
		}
		isLenQueue := func(e ast.Expr) bool {
			if ce, ok := e.(*ast.CallExpr); ok { // uint64(len(h.queue))
				if id, ok := ce.Fun.(*ast.Ident); ok && id.Name == "uint64" && len(ce.Args) == 1 {
					e = ce.Args[0]
				}
			}
			ce, ok := e.(*ast.CallExpr)
			if !ok {
				return false
			}
			id, ok := ce.Fun.(*ast.Ident)
			if !ok || id.Name != "len" || len(ce.Args) != 1 {
				return false
			}
			se, ok := ce.Args[0].(*ast.SelectorExpr)
			return ok && se.Sel.Name == "queue"
		}
		var bound, boundOp string
		usesLimit := false
		found := false
		for _, d := range mf.Decls {
			fd, ok := d.(*ast.FuncDecl)
			if !ok || fd.Recv == nil || fd.Body == nil || fd.Name.Name != "Add" {
				continue
			}
			var ierr error
			ast.Inspect(fd.Body, func(nd ast.Node) bool {
				be, ok := nd.(*ast.BinaryExpr)
				if !ok || !isLenQueue(be.X) {
					return true
				}
				found = true
				boundOp = be.Op.String()
				y := be.Y
				if ce, ok := y.(*ast.CallExpr); ok {
					if id, ok := ce.Fun.(*ast.Ident); ok && id.Name == "max" && len(ce.Args) == 2 {
						if se, ok := ce.Args[1].(*ast.SelectorExpr); ok && se.Sel.Name == "connIDLimit" {
							usesLimit = true
							y = ce.Args[0]
						} else {
							ierr = fmt.Errorf("conn_id_manager.go: Add compares with max(…) of an unexpected shape")
							return false
						}
					}
				}
				v, err := evalInt(y)
				if err != nil {
					ierr = err
					return false
				}
				bound = v
				return true
			})
			if ierr != nil {
				return ierr
			}
		}
		if !found || bound == "" {
			return fmt.Errorf("conn_id_manager.go: the queue-length comparison of connIDManager.Add was not found")
		}
		w.P("/-- conn_id_manager.go `Add`: CONNECTION_ID_LIMIT_ERROR when `len(h.queue) >= max(enforcedQueueBound, h.connIDLimit)` -/")
		w.P("def enforcedQueueBound : Int := %s", bound)
		w.P("/-- conn_id_manager.go `Add`: the comparison operator is `>=` (it is %q) -/", boundOp)
		w.P("def enforcedBoundIsGE : Bool := %v", boundOp == ">=")
		w.P("/-- conn_id_manager.go `Add`: the bound is `max(<const>, h.connIDLimit)` (false: the constant alone) -/")
		w.P("def enforcedBoundUsesConnIDLimit : Bool := %v", usesLimit)

		// 3. SetConnectionIDLimit (u_conn_id_manager.go) stores its argument in h.connIDLimit
		uf, err := parse("u_conn_id_manager.go")
		if err != nil {
			return err
		}
		var stores *bool
		for _, d := range uf.Decls {
			fd, ok := d.(*ast.FuncDecl)
			if !ok || fd.Name.Name != "SetConnectionIDLimit" || fd.Body == nil {
				continue
			}
			b := false
			if len(fd.Body.List) == 1 && fd.Type.Params != nil && len(fd.Type.Params.List) == 1 && len(fd.Type.Params.List[0].Names) == 1 {
				param := fd.Type.Params.List[0].Names[0].Name
				if as, ok := fd.Body.List[0].(*ast.AssignStmt); ok && as.Tok == token.ASSIGN && len(as.Lhs) == 1 && len(as.Rhs) == 1 {
					l, lok := as.Lhs[0].(*ast.SelectorExpr)
					r, rok := as.Rhs[0].(*ast.Ident)
					b = lok && rok && l.Sel.Name == "connIDLimit" && r.Name == param
				}
			}
			stores = &b
		}
		if stores == nil {
			return fmt.Errorf("u_conn_id_manager.go: SetConnectionIDLimit not found")
		}
		w.P("/-- u_conn_id_manager.go: the body of `SetConnectionIDLimit(limit)` is exactly `h.connIDLimit = limit` -/")
		w.P("def setConnectionIDLimitStores : Bool := %v", *stores)

		// 3b. newUClientConnection passes the spec's populated value: `SetConnectionIDLimit(params.ActiveConnectionIDLimit)`
		ucf, err := parse("u_connection.go")
		if err != nil {
			return err
		}
		passes := false
		ast.Inspect(ucf, func(nd ast.Node) bool {
			ce, ok := nd.(*ast.CallExpr)
			if !ok {
				return true
			}
			if se, ok := ce.Fun.(*ast.SelectorExpr); ok && se.Sel.Name == "SetConnectionIDLimit" && len(ce.Args) == 1 {
				if a, ok := ce.Args[0].(*ast.SelectorExpr); ok && a.Sel.Name == "ActiveConnectionIDLimit" {
					passes = true
				}
			}
			return true
		})
		w.P("/-- u_connection.go: the spec-driven client calls `SetConnectionIDLimit(params.ActiveConnectionIDLimit)` -/")
		w.P("def specClientSetsConnIDLimit : Bool := %v", passes)

		// 4. active_connection_id_limit values of the built-in parrot specs: `tls.ActiveConnectionIDLimit(<lit>)` in u_parrot.go
		pf, err := parse("u_parrot.go")
		if err != nil {
			return err
		}
		var parrot []string
		var perr error
		ast.Inspect(pf, func(nd ast.Node) bool {
			ce, ok := nd.(*ast.CallExpr)
			if !ok {
				return true
			}
			if se, ok := ce.Fun.(*ast.SelectorExpr); ok && se.Sel.Name == "ActiveConnectionIDLimit" && len(ce.Args) == 1 {
				v, err := evalInt(ce.Args[0])
				if err != nil {
					perr = err
					return false
				}
				parrot = append(parrot, v)
			}
			return true
		})
		if perr != nil {
			return perr
		}
		// 5. the expiry path of packetHandlerMap.ReplaceWithClosed (the time.AfterFunc callback and every same-package
		//    helper it calls) deletes an entry of the handler map only under a comparison of the CURRENT entry with the
		//    closed stand-in that is being expired. Decided on the semantic shape, see expiryFact below.
		own, err := expiryFact(c)
		if err != nil {
			return err
		}
		w.P("/-- transport.go `ReplaceWithClosed`: on the expiry path (timer callback + helpers) every delete from the handler map is guarded by `h.handlers[id] == <the closed stand-in being expired>` -/")
		w.P("def expiryDeletesOnlyOwnHandler : Bool := %v", own)

		// 6. glue: the server connection's generator is told about exactly the two IDs the server routes to it:
		//    connection.go newConnection: newConnIDGenerator(runner, srcConnID, &clientDestConnID, …) with clientDestConnID /
		//    srcConnID being parameters k1 / k2; server.go: the arguments k1 / k2 of s.newConn(…) are the two IDs given to
		//    s.tr.AddWithConnID(…).
		cf, err := parse("connection.go")
		if err != nil {
			return err
		}
		k1, k2 := -1, -1
		genOK := false
		ast.Inspect(cf, func(nd ast.Node) bool {
			vs, ok := nd.(*ast.ValueSpec)
			if !ok || len(vs.Names) != 1 || vs.Names[0].Name != "newConnection" || len(vs.Values) != 1 {
				return true
			}
			fl, ok := vs.Values[0].(*ast.FuncLit)
			if !ok {
				return true
			}
			idx := 0
			for _, f := range fl.Type.Params.List {
				for _, n := range f.Names {
					if n.Name == "clientDestConnID" {
						k1 = idx
					}
					if n.Name == "srcConnID" {
						k2 = idx
					}
					idx++
				}
			}
			ast.Inspect(fl.Body, func(n2 ast.Node) bool {
				ce, ok := n2.(*ast.CallExpr)
				if !ok {
					return true
				}
				if id, ok := ce.Fun.(*ast.Ident); ok && id.Name == "newConnIDGenerator" && len(ce.Args) >= 3 {
					genOK = types.ExprString(ce.Args[1]) == "srcConnID" && types.ExprString(ce.Args[2]) == "&clientDestConnID"
				}
				return true
			})
			return false
		})
		sf, err := parse("server.go")
		if err != nil {
			return err
		}
		var newConnArgs, addArgs []string
		ast.Inspect(sf, func(nd ast.Node) bool {
			ce, ok := nd.(*ast.CallExpr)
			if !ok {
				return true
			}
			if se, ok := ce.Fun.(*ast.SelectorExpr); ok {
				if se.Sel.Name == "newConn" {
					newConnArgs = nil
					for _, a := range ce.Args {
						newConnArgs = append(newConnArgs, types.ExprString(a))
					}
				}
				if se.Sel.Name == "AddWithConnID" {
					addArgs = nil
					for _, a := range ce.Args {
						addArgs = append(addArgs, types.ExprString(a))
					}
				}
			}
			return true
		})
		glue := genOK && k1 >= 0 && k2 >= 0 && len(newConnArgs) > k1 && len(newConnArgs) > k2 && len(addArgs) >= 2 &&
			newConnArgs[k1] == addArgs[0] && newConnArgs[k2] == addArgs[1]
		w.P("/-- connection.go newConnection + server.go: the generator of a server connection is created with exactly the two connection IDs that Transport.AddWithConnID routes to it -/")
		w.P("def serverGeneratorTracksRoutedIDs : Bool := %v", glue)

		// 7. path_manager.go: `const maxPaths = <int>`, `const pathTimeout = <int> * time.Second`
		pmf, err := parse("path_manager.go")
		if err != nil {
			return err
		}
		maxPaths, pathTimeout := "", ""
		for _, d := range pmf.Decls {
			gd, ok := d.(*ast.GenDecl)
			if !ok || gd.Tok != token.CONST {
				continue
			}
			for _, sp := range gd.Specs {
				vs := sp.(*ast.ValueSpec)
				for i, n := range vs.Names {
					if i >= len(vs.Values) {
						continue
					}
					switch n.Name {
					case "maxPaths":
						if v, err := evalInt(vs.Values[i]); err == nil {
							maxPaths = v
						}
					case "pathTimeout":
						if be, ok := vs.Values[i].(*ast.BinaryExpr); ok && be.Op == token.MUL {
							if types.ExprString(be.Y) == "time.Second" {
								if v, err := evalInt(be.X); err == nil {
									pathTimeout = v + "000000000"
								}
							}
						}
					}
				}
			}
		}
		if maxPaths == "" || pathTimeout == "" {
			return fmt.Errorf("path_manager.go: maxPaths / pathTimeout not found in the expected shape")
		}
		w.P("/-- path_manager.go -/")
		w.P("def maxPaths : Int := %s", maxPaths)
		w.P("/-- path_manager.go (nanoseconds) -/")
		w.P("def pathTimeout : Int := %s", pathTimeout)

		w.P("/-- u_parrot.go: every `tls.ActiveConnectionIDLimit(n)` of the built-in QUIC specs (a spec without it advertises the default) -/")
		w.P("def parrotAdvertisedLimits : List Int := [%s]", strings.Join(parrot, ", "))
		return nil
	})
}

// ---------------------------------------------------------------------------------------------------------------
// expiryFact decides `expiryDeletesOnlyOwnHandler` for the root package, syntactically but on the semantic shape:
//
//   - the method ReplaceWithClosed with receiver packetHandlerMap is located (any file of the package);
//   - the "closed stand-in" names are the identifiers it stores into the handler map (`X.handlers[k] = name`);
//   - the expiry path starts at the function argument of every time.AfterFunc call reachable from it through
//     same-package calls: a function literal (captures the names), or a method value / function name (then the
//     stand-in cannot be followed by name and the fact is an ERROR, not a guess);
//   - on that path, through same-package helper calls (arguments mapped to parameters by position, so renamed
//     parameters are fine), every `delete(X.handlers, k)` must be dominated by a test that the current entry for the
//     same k (`X.handlers[k]`, or a local bound to it) EQUALS a stand-in name: `if cur == standin { delete }`,
//     a conjunct of `&&`, the else branch of `!=`, or a preceding `if cur != standin { continue / return / break }`.
//
// true: at least one delete on the path and all of them guarded. false: some delete is not guarded.
// error: ReplaceWithClosed, the timer, or any delete on the expiry path cannot be found (the code changed shape in a
// way this extractor does not understand: fail loudly instead of silently flipping the fact).
func expiryFact(c *Ctx) (bool, error) {
	files, err := filepath.Glob(filepath.Join(c.Repo, "*.go"))
	if err != nil {
		return false, err
	}
	type fn struct {
		recv string // receiver base type name, "" for functions
		decl *ast.FuncDecl
	}
	byName := map[string][]fn{}
	for _, path := range files {
		if strings.HasSuffix(path, "_test.go") {
			continue
		}
		f, err := parser.ParseFile(c.Fset, path, nil, 0)
		if err != nil {
			return false, err
		}
		for _, d := range f.Decls {
			fd, ok := d.(*ast.FuncDecl)
			if !ok || fd.Body == nil {
				continue
			}
			recv := ""
			if fd.Recv != nil && len(fd.Recv.List) == 1 {
				t := fd.Recv.List[0].Type
				if st, ok := t.(*ast.StarExpr); ok {
					t = st.X
				}
				if id, ok := t.(*ast.Ident); ok {
					recv = id.Name
				} else {
					continue // generic receivers: not the handler map
				}
			}
			byName[fd.Name.Name] = append(byName[fd.Name.Name], fn{recv, fd})
		}
	}
	var root *ast.FuncDecl
	for _, f := range byName["ReplaceWithClosed"] {
		if f.recv == "packetHandlerMap" {
			root = f.decl
		}
	}
	if root == nil {
		return false, fmt.Errorf("expiryDeletesOnlyOwnHandler: method packetHandlerMap.ReplaceWithClosed not found in the root package")
	}
	str := func(e ast.Expr) string { return types.ExprString(e) }
	isHandlers := func(e ast.Expr) (key string, ok bool) { // X.handlers[k]
		ix, ok := e.(*ast.IndexExpr)
		if !ok {
			return "", false
		}
		se, ok := ix.X.(*ast.SelectorExpr)
		if !ok || se.Sel.Name != "handlers" {
			return "", false
		}
		return str(ix.Index), true
	}
	paramNames := func(fd *ast.FuncDecl) []string {
		var out []string
		for _, f := range fd.Type.Params.List {
			if len(f.Names) == 0 {
				out = append(out, "_")
			}
			for _, n := range f.Names {
				out = append(out, n.Name)
			}
		}
		return out
	}
	// callees of a call expression inside the package: plain `f(…)` or `x.m(…)` with x an identifier
	callees := func(ce *ast.CallExpr) []*ast.FuncDecl {
		var name string
		method := false
		switch f := ce.Fun.(type) {
		case *ast.Ident:
			name = f.Name
		case *ast.SelectorExpr:
			if _, ok := f.X.(*ast.Ident); !ok {
				return nil
			}
			name, method = f.Sel.Name, true
		default:
			return nil
		}
		var pref, all []*ast.FuncDecl
		for _, cand := range byName[name] {
			if (cand.recv != "") != method {
				continue
			}
			all = append(all, cand.decl)
			if cand.recv == "packetHandlerMap" || cand.recv == "Transport" {
				pref = append(pref, cand.decl)
			}
		}
		if len(pref) > 0 {
			return pref
		}
		return all
	}

	// stand-in names of the root: identifiers stored into the handler map
	standins := map[string]bool{}
	ast.Inspect(root.Body, func(n ast.Node) bool {
		as, ok := n.(*ast.AssignStmt)
		if !ok || len(as.Lhs) != 1 || len(as.Rhs) != 1 {
			return true
		}
		if _, ok := isHandlers(as.Lhs[0]); ok {
			if id, ok := as.Rhs[0].(*ast.Ident); ok {
				standins[id.Name] = true
			}
		}
		return true
	})
	if len(standins) == 0 {
		return false, fmt.Errorf("expiryDeletesOnlyOwnHandler: %s: no `….handlers[id] = <stand-in>` in ReplaceWithClosed", c.pos(root.Pos()))
	}

	nGuarded, nUnguarded := 0, 0
	var firstUnguarded token.Pos
	var ferr error
	type frame struct {
		standins map[string]bool
		entries  map[string]string // local variable -> key it was read for (`cur := X.handlers[k]`)
	}
	var walkStmts func(list []ast.Stmt, fr *frame, guarded map[string]bool, depth int)
	var walkFunc func(fd *ast.FuncDecl, args []ast.Expr, callerFr *frame, callerGuarded map[string]bool, depth int)

	// does `cond` being TRUE imply entry(k) == stand-in? returns the keys; neg: does cond being FALSE imply it
	var guardKeys func(cond ast.Expr, fr *frame, positive bool) []string
	guardKeys = func(cond ast.Expr, fr *frame, positive bool) []string {
		switch x := cond.(type) {
		case *ast.ParenExpr:
			return guardKeys(x.X, fr, positive)
		case *ast.UnaryExpr:
			if x.Op == token.NOT {
				return guardKeys(x.X, fr, !positive)
			}
		case *ast.BinaryExpr:
			if (x.Op == token.LAND && positive) || (x.Op == token.LOR && !positive) {
				return append(guardKeys(x.X, fr, positive), guardKeys(x.Y, fr, positive)...)
			}
			if (x.Op == token.EQL && positive) || (x.Op == token.NEQ && !positive) {
				for _, p := range [][2]ast.Expr{{x.X, x.Y}, {x.Y, x.X}} {
					key, ok := isHandlers(p[0])
					if !ok {
						if id, isID := p[0].(*ast.Ident); isID {
							key, ok = fr.entries[id.Name]
						}
					}
					if !ok {
						continue
					}
					if id, isID := p[1].(*ast.Ident); isID && fr.standins[id.Name] {
						return []string{key}
					}
				}
			}
		}
		return nil
	}
	bindEntry := func(st ast.Stmt, fr *frame) {
		as, ok := st.(*ast.AssignStmt)
		if !ok || len(as.Rhs) != 1 || len(as.Lhs) == 0 {
			return
		}
		if key, ok := isHandlers(as.Rhs[0]); ok {
			if id, ok := as.Lhs[0].(*ast.Ident); ok {
				fr.entries[id.Name] = key
			}
		}
	}
	leaves := func(b *ast.BlockStmt) bool { // the block always leaves the enclosing iteration / function
		if b == nil || len(b.List) == 0 {
			return false
		}
		switch x := b.List[len(b.List)-1].(type) {
		case *ast.ReturnStmt:
			return true
		case *ast.BranchStmt:
			return x.Tok == token.CONTINUE || x.Tok == token.BREAK
		}
		return false
	}
	with := func(g map[string]bool, keys []string) map[string]bool {
		if len(keys) == 0 {
			return g
		}
		out := map[string]bool{}
		for k := range g {
			out[k] = true
		}
		for _, k := range keys {
			out[k] = true
		}
		return out
	}
	var visitCalls func(n ast.Node, fr *frame, guarded map[string]bool, depth int)
	visitCalls = func(n ast.Node, fr *frame, guarded map[string]bool, depth int) {
		if n == nil {
			return
		}
		ast.Inspect(n, func(nd ast.Node) bool {
			switch x := nd.(type) {
			case *ast.FuncLit:
				// a nested closure (e.g. a deferred func): part of the path, same names
				walkStmts(x.Body.List, fr, guarded, depth)
				return false
			case *ast.CallExpr:
				if id, ok := x.Fun.(*ast.Ident); ok && id.Name == "delete" && len(x.Args) == 2 {
					if se, ok := x.Args[0].(*ast.SelectorExpr); ok && se.Sel.Name == "handlers" {
						if guarded[str(x.Args[1])] {
							nGuarded++
						} else {
							if nUnguarded == 0 {
								firstUnguarded = x.Pos()
							}
							nUnguarded++
						}
						return true
					}
				}
				for _, fd := range callees(x) {
					walkFunc(fd, x.Args, fr, guarded, depth+1)
				}
			}
			return true
		})
	}
	walkStmts = func(list []ast.Stmt, fr *frame, guarded map[string]bool, depth int) {
		for _, st := range list {
			switch x := st.(type) {
			case *ast.BlockStmt:
				walkStmts(x.List, fr, guarded, depth)
			case *ast.LabeledStmt:
				walkStmts([]ast.Stmt{x.Stmt}, fr, guarded, depth)
			case *ast.IfStmt:
				if x.Init != nil {
					bindEntry(x.Init, fr)
					visitCalls(x.Init, fr, guarded, depth)
				}
				visitCalls(x.Cond, fr, guarded, depth)
				walkStmts(x.Body.List, fr, with(guarded, guardKeys(x.Cond, fr, true)), depth)
				neg := guardKeys(x.Cond, fr, false)
				if x.Else != nil {
					walkStmts([]ast.Stmt{x.Else}, fr, with(guarded, neg), depth)
				} else if leaves(x.Body) {
					guarded = with(guarded, neg) // `if cur != standin { continue }`: the rest of the block is guarded
				}
			case *ast.ForStmt:
				visitCalls(x.Init, fr, guarded, depth)
				if x.Cond != nil {
					visitCalls(x.Cond, fr, guarded, depth)
				}
				visitCalls(x.Post, fr, guarded, depth)
				walkStmts(x.Body.List, fr, guarded, depth)
			case *ast.RangeStmt:
				visitCalls(x.X, fr, guarded, depth)
				walkStmts(x.Body.List, fr, guarded, depth)
			case *ast.SwitchStmt:
				visitCalls(x.Init, fr, guarded, depth)
				if x.Tag != nil {
					visitCalls(x.Tag, fr, guarded, depth)
				}
				for _, cc := range x.Body.List {
					walkStmts(cc.(*ast.CaseClause).Body, fr, guarded, depth)
				}
			case *ast.TypeSwitchStmt:
				for _, cc := range x.Body.List {
					walkStmts(cc.(*ast.CaseClause).Body, fr, guarded, depth)
				}
			case *ast.SelectStmt:
				for _, cc := range x.Body.List {
					walkStmts(cc.(*ast.CommClause).Body, fr, guarded, depth)
				}
			default:
				bindEntry(st, fr)
				visitCalls(st, fr, guarded, depth)
			}
		}
	}
	visited := map[*ast.FuncDecl]int{}
	walkFunc = func(fd *ast.FuncDecl, args []ast.Expr, callerFr *frame, callerGuarded map[string]bool, depth int) {
		if depth > 6 || visited[fd] > 4 {
			return
		}
		visited[fd]++
		fr := &frame{standins: map[string]bool{}, entries: map[string]string{}}
		guarded := map[string]bool{}
		ps := paramNames(fd)
		for i, a := range args {
			if i >= len(ps) {
				break
			}
			if id, ok := a.(*ast.Ident); ok && callerFr.standins[id.Name] {
				fr.standins[ps[i]] = true
			}
			if callerGuarded[str(a)] { // a key that is guarded at the call site stays guarded under the parameter's name
				guarded[ps[i]] = true
			}
		}
		walkStmts(fd.Body.List, fr, guarded, depth)
	}

	// the timers reachable from ReplaceWithClosed
	timers := 0
	var findTimers func(body *ast.BlockStmt, fr *frame, depth int, seen map[*ast.FuncDecl]bool)
	findTimers = func(body *ast.BlockStmt, fr *frame, depth int, seen map[*ast.FuncDecl]bool) {
		ast.Inspect(body, func(nd ast.Node) bool {
			ce, ok := nd.(*ast.CallExpr)
			if !ok {
				return true
			}
			if se, ok := ce.Fun.(*ast.SelectorExpr); ok && se.Sel.Name == "AfterFunc" && len(ce.Args) == 2 {
				if pk, ok := se.X.(*ast.Ident); ok && pk.Name == "time" {
					timers++
					switch f := ce.Args[1].(type) {
					case *ast.FuncLit:
						walkStmts(f.Body.List, &frame{standins: fr.standins, entries: map[string]string{}}, map[string]bool{}, 0)
					default:
						if ferr == nil {
							ferr = fmt.Errorf("expiryDeletesOnlyOwnHandler: %s: time.AfterFunc is given %s, not a function literal: the closed stand-in cannot be followed by name into it", c.pos(ce.Pos()), str(ce.Args[1]))
						}
					}
					return false
				}
			}
			if depth < 4 {
				for _, fd := range callees(ce) {
					if seen[fd] {
						continue
					}
					seen[fd] = true
					sub := &frame{standins: map[string]bool{}, entries: map[string]string{}}
					ps := paramNames(fd)
					for i, a := range ce.Args {
						if id, ok := a.(*ast.Ident); ok && i < len(ps) && fr.standins[id.Name] {
							sub.standins[ps[i]] = true
						}
					}
					findTimers(fd.Body, sub, depth+1, seen)
				}
			}
			return true
		})
	}
	findTimers(root.Body, &frame{standins: standins, entries: map[string]string{}}, 0, map[*ast.FuncDecl]bool{root: true})
	if ferr != nil {
		return false, ferr
	}
	if timers == 0 {
		return false, fmt.Errorf("expiryDeletesOnlyOwnHandler: %s: no time.AfterFunc reachable from packetHandlerMap.ReplaceWithClosed: expiry path not found", c.pos(root.Pos()))
	}
	if nGuarded+nUnguarded == 0 {
		return false, fmt.Errorf("expiryDeletesOnlyOwnHandler: %s: the expiry path of ReplaceWithClosed contains no delete(….handlers, id) (looked through same-package helper calls)", c.pos(root.Pos()))
	}
	if nUnguarded > 0 {
		fmt.Fprintf(os.Stderr, "gofacts ConnID: unguarded delete from the handler map on the expiry path at %s\n", c.pos(firstUnguarded))
	}
	return nUnguarded == 0, nil
}
