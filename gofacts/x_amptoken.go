package main

import (
	"fmt"
	"go/ast"
	"go/parser"
	"go/token"
	"path/filepath"
	"strconv"
)

// Facts for C14 (tokens): constants of internal/handshake's token code and the age rules of server.go /
// config.go / transport.go (call-site literals; control flow is not translated).
func init() {
	register("AmpToken", func(c *Ctx, w *LeanFile) error {
		p, err := c.Load("internal/handshake")
		if err != nil {
			return err
		}
		for _, n := range []string{"tokenPrefixIP", "tokenPrefixString", "tokenNonceSize"} {
			if err := c.EmitIntConst(w, p, n, n); err != nil {
				return err
			}
		}
		// config.go: func (c *Config) handshakeTimeout() time.Duration { return 2 * c.HandshakeIdleTimeout }
		//            func (c *Config) maxRetryTokenAge() time.Duration { return c.handshakeTimeout() }
		cfg, err := parser.ParseFile(token.NewFileSet(), filepath.Join(c.Repo, "config.go"), nil, 0)
		if err != nil {
			return err
		}
		ret := func(f *ast.File, name string) ast.Expr {
			for _, d := range f.Decls {
				if fd, ok := d.(*ast.FuncDecl); ok && fd.Name.Name == name && fd.Body != nil && len(fd.Body.List) == 1 {
					if rs, ok := fd.Body.List[0].(*ast.ReturnStmt); ok && len(rs.Results) == 1 {
						return rs.Results[0]
					}
				}
			}
			return nil
		}
		be, ok := ret(cfg, "handshakeTimeout").(*ast.BinaryExpr)
		if !ok || be.Op != token.MUL {
			return fmt.Errorf("config.go handshakeTimeout: body is not `return <lit> * c.HandshakeIdleTimeout`")
		}
		lit, ok1 := be.X.(*ast.BasicLit)
		sel, ok2 := be.Y.(*ast.SelectorExpr)
		if !ok1 || !ok2 || lit.Kind != token.INT || sel.Sel.Name != "HandshakeIdleTimeout" {
			return fmt.Errorf("config.go handshakeTimeout: body is not `return <lit> * c.HandshakeIdleTimeout`")
		}
		w.P("/-- config.go `handshakeTimeout`: return <this> * c.HandshakeIdleTimeout -/")
		w.P("def handshakeTimeoutFactor : Int := %s", lit.Value)
		ce, ok := ret(cfg, "maxRetryTokenAge").(*ast.CallExpr)
		isHT := false
		if ok {
			if s, ok := ce.Fun.(*ast.SelectorExpr); ok && s.Sel.Name == "handshakeTimeout" && len(ce.Args) == 0 {
				isHT = true
			}
		}
		if !isHT {
			return fmt.Errorf("config.go maxRetryTokenAge: body is not `return c.handshakeTimeout()`")
		}
		w.P("/-- config.go `maxRetryTokenAge`: body is `return c.handshakeTimeout()` -/")
		w.P("def maxRetryTokenAgeIsHandshakeTimeout : Bool := true")
		// transport.go: `if maxTokenAge == 0 { maxTokenAge = 24 * time.Hour }`
		tr, err := parser.ParseFile(token.NewFileSet(), filepath.Join(c.Repo, "transport.go"), nil, 0)
		if err != nil {
			return err
		}
		var hours int64 = -1
		ast.Inspect(tr, func(n ast.Node) bool {
			as, ok := n.(*ast.AssignStmt)
			if !ok || as.Tok != token.ASSIGN || len(as.Lhs) != 1 || len(as.Rhs) != 1 {
				return true
			}
			if id, ok := as.Lhs[0].(*ast.Ident); !ok || id.Name != "maxTokenAge" {
				return true
			}
			if be, ok := as.Rhs[0].(*ast.BinaryExpr); ok && be.Op == token.MUL {
				l, ok1 := be.X.(*ast.BasicLit)
				s, ok2 := be.Y.(*ast.SelectorExpr)
				if ok1 && ok2 && l.Kind == token.INT && s.Sel.Name == "Hour" {
					if pk, ok := s.X.(*ast.Ident); ok && pk.Name == "time" {
						hours, _ = strconv.ParseInt(l.Value, 10, 64)
					}
				}
			}
			return true
		})
		if hours < 0 {
			return fmt.Errorf("transport.go: default `maxTokenAge = <n> * time.Hour` not found")
		}
		w.P("/-- transport.go: default of Transport.MaxTokenAge when zero (ns) -/")
		w.P("def defaultMaxTokenAge : Int := %d", hours*3600*1_000_000_000)
		return nil
	})
}
