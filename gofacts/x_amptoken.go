package main

import (
	"fmt"
	"go/ast"
	"go/constant"
	"go/parser"
	"go/token"
	"go/types"
	"path/filepath"
)

// Facts for C14 (tokens): constants of internal/handshake's token code and the age rules of server.go /
// config.go / transport.go (call-site literals; control flow is not translated).
func init() {
	register("AmpToken", func(c *Ctx, w *LeanFile) error {
		p, err := c.Load("internal/handshake")
		if err != nil {
			return err
		}
		for _, n := range []string{"tokenPrefixIP", "tokenPrefixString", "tokenNonceSize"} {
			if err := c.EmitIntConst(w, p, n, n); err != nil {
				return err
			}
		}
		// config.go: func (c *Config) handshakeTimeout() time.Duration { return 2 * c.HandshakeIdleTimeout }
		//            func (c *Config) maxRetryTokenAge() time.Duration { return c.handshakeTimeout() }
		cfg, err := parser.ParseFile(token.NewFileSet(), filepath.Join(c.Repo, "config.go"), nil, 0)
		if err != nil {
			return err
		}
		ret := func(f *ast.File, name string) ast.Expr {
			for _, d := range f.Decls {
				if fd, ok := d.(*ast.FuncDecl); ok && fd.Name.Name == name && fd.Body != nil && len(fd.Body.List) == 1 {
					if rs, ok := fd.Body.List[0].(*ast.ReturnStmt); ok && len(rs.Results) == 1 {
						return rs.Results[0]
					}
				}
			}
			return nil
		}
		be, ok := ret(cfg, "handshakeTimeout").(*ast.BinaryExpr)
		if !ok || be.Op != token.MUL {
			return fmt.Errorf("config.go handshakeTimeout: body is not `return <lit> * c.HandshakeIdleTimeout`")
		}
		lit, ok1 := be.X.(*ast.BasicLit)
		sel, ok2 := be.Y.(*ast.SelectorExpr)
		if !ok1 || !ok2 || lit.Kind != token.INT || sel.Sel.Name != "HandshakeIdleTimeout" {
			return fmt.Errorf("config.go handshakeTimeout: body is not `return <lit> * c.HandshakeIdleTimeout`")
		}
		w.P("/-- config.go `handshakeTimeout`: return <this> * c.HandshakeIdleTimeout -/")
		w.P("def handshakeTimeoutFactor : Int := %s", lit.Value)
		ce, ok := ret(cfg, "maxRetryTokenAge").(*ast.CallExpr)
		isHT := false
		if ok {
			if s, ok := ce.Fun.(*ast.SelectorExpr); ok && s.Sel.Name == "handshakeTimeout" && len(ce.Args) == 0 {
				isHT = true
			}
		}
		if !isHT {
			return fmt.Errorf("config.go maxRetryTokenAge: body is not `return c.handshakeTimeout()`")
		}
		w.P("/-- config.go `maxRetryTokenAge`: body is `return c.handshakeTimeout()` -/")
		w.P("def maxRetryTokenAgeIsHandshakeTimeout : Bool := true")
		// root package: the default of Transport.MaxTokenAge.  Semantic shape (no local names, no file, no literal form):
		// an `if X == 0 { X = <constant> }` where X is the exported field Transport.MaxTokenAge itself or a
		// variable / field that was assigned from it in the same function.
		root, err := c.Load(".")
		if err != nil {
			return err
		}
		objOf := func(e ast.Expr) types.Object {
			switch x := e.(type) {
			case *ast.Ident:
				if o := root.Info.Uses[x]; o != nil {
					return o
				}
				return root.Info.Defs[x]
			case *ast.SelectorExpr:
				if sel := root.Info.Selections[x]; sel != nil {
					return sel.Obj()
				}
			}
			return nil
		}
		isSource := func(e ast.Expr) bool {
			if p, ok := e.(*ast.ParenExpr); ok {
				e = p.X
			}
			se, ok := e.(*ast.SelectorExpr)
			if !ok || se.Sel.Name != "MaxTokenAge" {
				return false
			}
			sel := root.Info.Selections[se]
			if sel == nil {
				return false
			}
			t := sel.Recv()
			if pt, ok := t.(*types.Pointer); ok {
				t = pt.Elem()
			}
			nt, ok := t.(*types.Named)
			return ok && nt.Obj().Name() == "Transport"
		}
		var defaults []int64
		for _, f := range root.Files {
			for _, d := range f.Decls {
				fd, ok := d.(*ast.FuncDecl)
				if !ok || fd.Body == nil {
					continue
				}
				tainted := map[types.Object]bool{}
				ast.Inspect(fd.Body, func(n ast.Node) bool {
					switch st := n.(type) {
					case *ast.AssignStmt:
						if len(st.Lhs) == len(st.Rhs) {
							for i := range st.Lhs {
								if isSource(st.Rhs[i]) {
									if o := objOf(st.Lhs[i]); o != nil {
										tainted[o] = true
									}
								}
							}
						}
					case *ast.ValueSpec:
						if len(st.Names) == len(st.Values) {
							for i := range st.Names {
								if isSource(st.Values[i]) {
									if o := objOf(st.Names[i]); o != nil {
										tainted[o] = true
									}
								}
							}
						}
					}
					return true
				})
				isX := func(e ast.Expr) bool {
					if isSource(e) {
						return true
					}
					o := objOf(e)
					return o != nil && tainted[o]
				}
				ast.Inspect(fd.Body, func(n ast.Node) bool {
					is, ok := n.(*ast.IfStmt)
					if !ok {
						return true
					}
					be, ok := is.Cond.(*ast.BinaryExpr)
					if !ok || be.Op != token.EQL {
						return true
					}
					x, z := be.X, be.Y
					if tv, ok := root.Info.Types[x]; ok && tv.Value != nil {
						x, z = z, x
					}
					tv, ok := root.Info.Types[z]
					if !ok || tv.Value == nil || !isX(x) {
						return true
					}
					if zv, ok := constant.Int64Val(constant.ToInt(tv.Value)); !ok || zv != 0 {
						return true
					}
					for _, bs := range is.Body.List {
						as, ok := bs.(*ast.AssignStmt)
						if !ok || as.Tok != token.ASSIGN || len(as.Lhs) != 1 || len(as.Rhs) != 1 || !isX(as.Lhs[0]) {
							continue
						}
						if rv, ok := root.Info.Types[as.Rhs[0]]; ok && rv.Value != nil {
							if v, ok := constant.Int64Val(constant.ToInt(rv.Value)); ok {
								defaults = append(defaults, v)
							}
						}
					}
					return true
				})
			}
		}
		if len(defaults) == 0 {
			return fmt.Errorf("root package: no `if X == 0 { X = <constant> }` for Transport.MaxTokenAge found")
		}
		for _, v := range defaults {
			if v != defaults[0] {
				return fmt.Errorf("root package: Transport.MaxTokenAge is defaulted to different constants: %v", defaults)
			}
		}
		w.P("/-- transport.go: default of Transport.MaxTokenAge when zero (ns) -/")
		w.P("def defaultMaxTokenAge : Int := %d", defaults[0])
		return nil
	})
}
