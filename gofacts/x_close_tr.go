package main

import (
	"fmt"
	"go/ast"
	"go/parser"
	"go/token"
	"path/filepath"
	"strings"
)

// Facts for C17, round 5 (life cycle of a Transport's read loop): does packetHandlerMap.Remove - the routing
// side of an immediate close - look whether a single-use transport can stop reading (a call of
// maybeStopListening in its body or in a function of transport.go that it calls directly)?
// The fact is a PARAMETER of the model Uquic.Model.Close.TrLife (Cfg.removeStops); it does not depend on local
// names or statement order.
func init() {
	register("CloseTr", func(c *Ctx, w *LeanFile) error {
		fset := token.NewFileSet()
		f, err := parser.ParseFile(fset, filepath.Join(c.Repo, "transport.go"), nil, 0)
		if err != nil {
			return err
		}
		rm := closeFindFunc(f, "packetHandlerMap", "Remove")
		if rm == nil {
			return fmt.Errorf("transport.go: (*packetHandlerMap).Remove not found")
		}
		if closeFindFunc(f, "Transport", "maybeStopListening") == nil {
			return fmt.Errorf("transport.go: (*Transport).maybeStopListening not found")
		}
		byName := map[string][]*ast.FuncDecl{}
		for _, d := range f.Decls {
			if fd, ok := d.(*ast.FuncDecl); ok && fd.Body != nil {
				byName[fd.Name.Name] = append(byName[fd.Name.Name], fd)
			}
		}
		calleeName := func(call *ast.CallExpr) string {
			switch x := call.Fun.(type) {
			case *ast.Ident:
				return x.Name
			case *ast.SelectorExpr:
				return x.Sel.Name
			}
			return ""
		}
		var calls func(body *ast.BlockStmt, depth int) bool
		calls = func(body *ast.BlockStmt, depth int) bool {
			found := false
			ast.Inspect(body, func(n ast.Node) bool {
				call, ok := n.(*ast.CallExpr)
				if !ok || found {
					return !found
				}
				name := calleeName(call)
				if name == "maybeStopListening" {
					found = true
					return false
				}
				if depth > 0 && name != "Remove" {
					for _, fd := range byName[name] {
						if calls(fd.Body, depth-1) {
							found = true
							return false
						}
					}
				}
				return true
			})
			return found
		}
		w.P("/-- transport.go packetHandlerMap.Remove: does it (or a function of transport.go it calls) call maybeStopListening? -/")
		w.P("def removeStopsListening : Bool := %v", calls(rm.Body, 1))
		return closeConnCtxFacts(c, w)
	})
}

// closeConnCtxFacts: the function of server.go that calls the application's ConnContext callback (a call of a
// field / variable named connContext) builds the connection's context. Facts: the context constructors it uses,
// in source order, and - for every function literal with a single `error` parameter (the composed cancel
// function) - what each call inside passes on: the parameter ("cause"), nothing ("none") or something else.
// Local names, statement order of independent statements and the constructor's position are not looked at.
func closeConnCtxFacts(c *Ctx, w *LeanFile) error {
	fset := token.NewFileSet()
	f, err := parser.ParseFile(fset, filepath.Join(c.Repo, "server.go"), nil, 0)
	if err != nil {
		return err
	}
	var host *ast.FuncDecl
	for _, d := range f.Decls {
		fd, ok := d.(*ast.FuncDecl)
		if !ok || fd.Body == nil {
			continue
		}
		ast.Inspect(fd.Body, func(n ast.Node) bool {
			if call, ok := n.(*ast.CallExpr); ok {
				switch x := call.Fun.(type) {
				case *ast.SelectorExpr:
					if x.Sel.Name == "connContext" {
						host = fd
					}
				case *ast.Ident:
					if x.Name == "connContext" {
						host = fd
					}
				}
			}
			return host == nil
		})
		if host != nil {
			break
		}
	}
	if host == nil {
		return fmt.Errorf("server.go: no function calls connContext")
	}
	var ctors []string
	var args []string
	ast.Inspect(host.Body, func(n ast.Node) bool {
		switch x := n.(type) {
		case *ast.CallExpr:
			if se, ok := x.Fun.(*ast.SelectorExpr); ok {
				if id, ok := se.X.(*ast.Ident); ok && id.Name == "context" && strings.HasPrefix(se.Sel.Name, "With") && se.Sel.Name != "WithValue" && se.Sel.Name != "WithoutCancel" {
					ctors = append(ctors, se.Sel.Name)
				}
			}
		case *ast.FuncLit:
			ps := x.Type.Params
			if ps == nil || len(ps.List) != 1 || len(ps.List[0].Names) != 1 {
				return true
			}
			if t, ok := ps.List[0].Type.(*ast.Ident); !ok || t.Name != "error" {
				return true
			}
			param := ps.List[0].Names[0].Name
			ast.Inspect(x.Body, func(m ast.Node) bool {
				call, ok := m.(*ast.CallExpr)
				if !ok {
					return true
				}
				switch {
				case len(call.Args) == 0:
					args = append(args, "none")
				case len(call.Args) == 1:
					if id, ok := call.Args[0].(*ast.Ident); ok && id.Name == param {
						args = append(args, "cause")
					} else {
						args = append(args, "other")
					}
				default:
					args = append(args, "other")
				}
				return true
			})
			return false
		}
		return true
	})
	w.P("/-- server.go, the function calling the ConnContext callback: context constructors used (source order) -/")
	w.P("def connCtxConstructors : List String := [%s]", closeQuoteJoin(ctors))
	w.P("/-- server.go, same function: what the calls inside the composed cancel function (a func literal with one `error` parameter) pass on -/")
	w.P("def connCtxCancelArgs : List String := [%s]", closeQuoteJoin(args))
	return nil
}
