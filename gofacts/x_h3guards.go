package main

import (
	"fmt"
	"go/ast"
	"go/token"
	"go/types"
	"path/filepath"
	"sort"
	"strings"
)

// H3Guards: nil-guard facts for the optional pointers of package http3
// (*slog.Logger, qlogwriter.Recorder, qlogwriter.Trace, *httptrace.ClientTrace callbacks).
// Every method call (or callback field call) on a value of one of these types is listed with
// `guarded : Bool` = the call is dominated by a nil check of the same expression:
//   (1) it sits in the then-branch of an enclosing `if C {` where C true implies X != nil, or in the
//       else-branch of an `if C` where C false implies X != nil;
//   (2) an earlier statement of an enclosing block is `if C { return/panic/continue/break }` or
//       `if C { X = … }` where C false implies X != nil (`X == nil`, `err == nil || X == nil`, …), or
//       `if C { … } else { return }` where C true implies X != nil;
//   (2') it is the right operand of `C && …` (C true implies X != nil) / `C || …` (C false implies it);
//   (3) X is a parameter of the enclosing function or method and every call of that function / method
//       in the package passes an argument that is guarded by (1)/(2) at the call site.
// "implies" is decided structurally over !, &&, ||, parentheses and comparisons with nil, so that the
// fact does not depend on how a guard is spelled (nested ifs, early returns, merged conditions).
func init() {
	register("H3Guards", func(c *Ctx, w *LeanFile) error {
		p, err := c.Load("http3")
		if err != nil {
			return err
		}
		type site struct {
			file, fn, recv, method string
			guarded                bool
			how                    string
		}
		optional := func(e ast.Expr) (string, bool) {
			tv, ok := p.Info.Types[e]
			if !ok || tv.Type == nil {
				return "", false
			}
			s := tv.Type.String()
			switch {
			case s == "*log/slog.Logger":
				return "logger", true
			case strings.HasSuffix(s, "/qlogwriter.Recorder"):
				return "qlogger", true
			case strings.HasSuffix(s, "/qlogwriter.Trace"):
				return "tracer", true
			case s == "*net/http/httptrace.ClientTrace":
				return "tracer", true
			}
			return "", false
		}
		str := func(e ast.Expr) string { return types.ExprString(e) }

		// Conditions are judged by what they IMPLY, not by their shape:
		// condNonNil(cond, x): cond true  => x != nil   (`x != nil`, a conjunction with such a conjunct,
		//                      a disjunction all of whose disjuncts imply it, `!c` with c false => x != nil)
		// condIsNil(cond, x):  cond false => x != nil   (`x == nil`, a disjunction with such a disjunct,
		//                      a conjunction all of whose conjuncts have the property, `!c` with c true => x != nil)
		isNilCmp := func(e *ast.BinaryExpr, x string) bool {
			return (str(e.X) == x && str(e.Y) == "nil") || (str(e.Y) == x && str(e.X) == "nil")
		}
		var condNonNil, condIsNil func(cond ast.Expr, x string) bool
		condNonNil = func(cond ast.Expr, x string) bool {
			switch e := cond.(type) {
			case *ast.ParenExpr:
				return condNonNil(e.X, x)
			case *ast.UnaryExpr:
				return e.Op == token.NOT && condIsNil(e.X, x)
			case *ast.BinaryExpr:
				switch e.Op {
				case token.LAND:
					return condNonNil(e.X, x) || condNonNil(e.Y, x)
				case token.LOR:
					return condNonNil(e.X, x) && condNonNil(e.Y, x)
				case token.NEQ:
					return isNilCmp(e, x)
				}
			}
			return false
		}
		condIsNil = func(cond ast.Expr, x string) bool {
			switch e := cond.(type) {
			case *ast.ParenExpr:
				return condIsNil(e.X, x)
			case *ast.UnaryExpr:
				return e.Op == token.NOT && condNonNil(e.X, x)
			case *ast.BinaryExpr:
				switch e.Op {
				case token.LOR:
					return condIsNil(e.X, x) || condIsNil(e.Y, x)
				case token.LAND:
					return condIsNil(e.X, x) && condIsNil(e.Y, x)
				case token.EQL:
					return isNilCmp(e, x)
				}
			}
			return false
		}
		// the init statement of an `if` does not touch x
		initKeeps := func(init ast.Stmt, x string) bool {
			switch s := init.(type) {
			case nil:
				return true
			case *ast.AssignStmt:
				for _, l := range s.Lhs {
					if str(l) == x {
						return false
					}
				}
				return true
			case *ast.ExprStmt:
				return true
			}
			return false
		}
		terminates := func(b *ast.BlockStmt) bool {
			if len(b.List) == 0 {
				return false
			}
			switch s := b.List[len(b.List)-1].(type) {
			case *ast.ReturnStmt:
				return true
			case *ast.BranchStmt:
				return s.Tok == token.CONTINUE || s.Tok == token.BREAK || s.Tok == token.GOTO
			case *ast.ExprStmt:
				if ce, ok := s.X.(*ast.CallExpr); ok {
					if id, ok := ce.Fun.(*ast.Ident); ok && id.Name == "panic" {
						return true
					}
				}
			}
			return false
		}
		assigns := func(b *ast.BlockStmt, x string) bool {
			for _, s := range b.List {
				if as, ok := s.(*ast.AssignStmt); ok && as.Tok == token.ASSIGN {
					for i, l := range as.Lhs {
						if str(l) == x && i < len(as.Rhs) && str(as.Rhs[i]) != "nil" {
							return true
						}
					}
				}
			}
			return false
		}
		// guardedBy: is node `at` (with ancestor path) dominated by a nil check of expression x?
		guardedBy := func(path []ast.Node, x string) (bool, string) {
			for i := len(path) - 1; i >= 0; i-- {
				switch n := path[i].(type) {
				case *ast.IfStmt:
					if i+1 < len(path) {
						if path[i+1] == n.Body && condNonNil(n.Cond, x) {
							return true, "if-nonnil"
						}
						if n.Else != nil && path[i+1] == n.Else && condIsNil(n.Cond, x) {
							return true, "else-of-nil"
						}
					}
				case *ast.BinaryExpr:
					// short circuit: `X != nil && X.M()` / `X == nil || X.M()`
					if i+1 < len(path) && path[i+1] == n.Y {
						if n.Op == token.LAND && condNonNil(n.X, x) {
							return true, "short-circuit"
						}
						if n.Op == token.LOR && condIsNil(n.X, x) {
							return true, "short-circuit"
						}
					}
				case *ast.BlockStmt:
					if i+1 >= len(path) {
						continue
					}
					for _, s := range n.List {
						if s == path[i+1] {
							break
						}
						is, ok := s.(*ast.IfStmt)
						if !ok || !initKeeps(is.Init, x) {
							continue
						}
						if condIsNil(is.Cond, x) {
							if terminates(is.Body) {
								return true, "early-exit"
							}
							if assigns(is.Body, x) {
								return true, "defaulted"
							}
						}
						// `if x != nil { … } else { return }`
						if eb, ok := is.Else.(*ast.BlockStmt); ok && condNonNil(is.Cond, x) && terminates(eb) {
							return true, "early-exit"
						}
					}
				}
			}
			return false, ""
		}

		// collect, per function name, the guard status of each argument position at every call site
		type callInfo struct {
			path []ast.Node
			call *ast.CallExpr
		}
		callsOf := map[types.Object][]callInfo{}
		var sites []site
		type pending struct {
			idx   int
			fn    types.Object
			param int
		}
		var pend []pending

		for _, f := range p.Files {
			fname := filepath.Base(c.Fset.Position(f.Pos()).Filename)
			for _, d := range f.Decls {
				fd, ok := d.(*ast.FuncDecl)
				if !ok || fd.Body == nil {
					continue
				}
				fn := fd.Name.Name
				if fd.Recv != nil && len(fd.Recv.List) == 1 {
					t := fd.Recv.List[0].Type
					if st, ok := t.(*ast.StarExpr); ok {
						t = st.X
					}
					fn = str(t) + "." + fn
				}
				params := map[string]int{}
				{
					k := 0
					for _, fl := range fd.Type.Params.List {
						for _, nm := range fl.Names {
							params[nm.Name] = k
							k++
						}
						if len(fl.Names) == 0 {
							k++
						}
					}
				}
				var path []ast.Node
				ast.Inspect(fd.Body, func(n ast.Node) bool {
					if n == nil {
						path = path[:len(path)-1]
						return true
					}
					path = append(path, n)
					ce, ok := n.(*ast.CallExpr)
					if !ok {
						return true
					}
					if id, ok := ce.Fun.(*ast.Ident); ok {
						if obj := p.Info.Uses[id]; obj != nil {
							callsOf[obj] = append(callsOf[obj], callInfo{append([]ast.Node(nil), path...), ce})
						}
					}
					se, ok := ce.Fun.(*ast.SelectorExpr)
					if !ok {
						return true
					}
					// a call of a method declared in this package
					if obj := p.Info.Uses[se.Sel]; obj != nil && obj.Pkg() == p.Types {
						if _, isFunc := obj.(*types.Func); isFunc {
							callsOf[obj] = append(callsOf[obj], callInfo{append([]ast.Node(nil), path...), ce})
						}
					}
					// method call on an optional value, or callback field of a ClientTrace
					kind, isOpt := optional(se.X)
					if !isOpt {
						return true
					}
					x := str(se.X)
					full := append([]ast.Node(nil), path...)
					g, how := guardedBy(full, x)
					s := site{file: fname, fn: fn, recv: kind + ":" + x, method: se.Sel.Name, guarded: g, how: how}
					if !g {
						if k, isParam := params[x]; isParam {
							pend = append(pend, pending{len(sites), p.Info.Defs[fd.Name], k})
						}
					}
					sites = append(sites, s)
					return true
				})
			}
		}
		for _, pd := range pend {
			cs := callsOf[pd.fn]
			if len(cs) == 0 {
				continue
			}
			all := true
			for _, ci := range cs {
				if pd.param >= len(ci.call.Args) {
					all = false
					break
				}
				if g, _ := guardedBy(ci.path, str(ci.call.Args[pd.param])); !g {
					all = false
					break
				}
			}
			if all {
				sites[pd.idx].guarded = true
				sites[pd.idx].how = fmt.Sprintf("all-%d-callers", len(cs))
			}
		}
		sort.SliceStable(sites, func(i, j int) bool {
			if sites[i].file != sites[j].file {
				return sites[i].file < sites[j].file
			}
			return sites[i].fn < sites[j].fn
		})
		if len(sites) == 0 {
			return fmt.Errorf("http3: no logger/qlogger call sites found (type information missing?)")
		}
		w.P("structure Site where")
		w.P("  file : String")
		w.P("  func : String")
		w.P("  recv : String")
		w.P("  method : String")
		w.P("  guarded : Bool")
		w.P("  how : String")
		w.P("deriving DecidableEq, Repr")
		w.P("")
		w.P("/-- every method call on an optional logger / qlogger / tracer in http3/*.go (non-test files) -/")
		w.P("def sites : List Site := [")
		for i, s := range sites {
			comma := ","
			if i == len(sites)-1 {
				comma = ""
			}
			w.P("  { file := %q, func := %q, recv := %q, method := %q, guarded := %v, how := %q }%s", s.file, s.fn, s.recv, s.method, s.guarded, s.how, comma)
		}
		w.P("]")
		return nil
	})
}
