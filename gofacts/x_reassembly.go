package main

import (
	"fmt"
	"go/constant"
)

// Facts for property C03 (stream / CRYPTO reassembly): the transport error codes the
// reassembly path answers with, and the window-update threshold as an exact rational.
// (The sorter limits MinStreamFrameBufferSize, MaxStreamFrameSorterGaps, MaxCryptoStreamOffset and
// MaxByteCount come from the Protocol extractor.)
func init() {
	register("Reassembly", func(c *Ctx, w *LeanFile) error {
		q, err := c.Load("internal/qerr")
		if err != nil {
			return err
		}
		for _, n := range []string{"FlowControlError", "FinalSizeError", "ProtocolViolation", "CryptoBufferExceeded", "InternalError", "StreamStateError", "StreamLimitError"} {
			if err := c.EmitIntConst(w, q, n, n); err != nil {
				return err
			}
		}
		p, err := c.Load("internal/protocol")
		if err != nil {
			return err
		}
		v, _, pos, ok := p.Const("WindowUpdateThreshold")
		if !ok {
			return fmt.Errorf("constant WindowUpdateThreshold not found")
		}
		num, den := constant.Num(v), constant.Denom(v)
		if num.Kind() != constant.Int || den.Kind() != constant.Int {
			return fmt.Errorf("WindowUpdateThreshold is not an exact rational: %s", v)
		}
		w.P("/-- %s `WindowUpdateThreshold` = %s as an exact rational -/", c.pos(pos), v.ExactString())
		w.P("def WindowUpdateThresholdNum : Int := %s", num.ExactString())
		w.P("def WindowUpdateThresholdDen : Int := %s", den.ExactString())
		return nil
	})
}
