package main

// Translated functions of internal/congestion (C20), internal/utils + internal/ackhandler (C06/C14),
// the connection's idle timer arithmetic (C17) and the uQUIC Initial packet number (C10).
func init() {
	g := "internal/congestion"
	qlogIgnore := []string{"maybeQlogStateChange", "cubic.OnApplicationLimited"}
	registerTrans("Cong",
		TFunc{Dir: g, Name: "BandwidthFromDelta"},
		TFunc{Dir: g, Recv: "pacer", Name: "timeScaledBandwidth"},
		TFunc{Dir: g, Recv: "pacer", Name: "maxBurstSize"},
		TFunc{Dir: g, Recv: "pacer", Name: "Budget"},
		TFunc{Dir: g, Recv: "pacer", Name: "TimeUntilSend"},
		TFunc{Dir: g, Recv: "pacer", Name: "SentPacket", Writes: true},
		TFunc{Dir: g, Recv: "cubicSender", Name: "maxCongestionWindow"},
		TFunc{Dir: g, Recv: "cubicSender", Name: "minCongestionWindow"},
		TFunc{Dir: g, Recv: "cubicSender", Name: "InSlowStart"},
		TFunc{Dir: g, Recv: "cubicSender", Name: "InRecovery"},
		TFunc{Dir: g, Recv: "cubicSender", Name: "CanSend"},
		TFunc{Dir: g, Recv: "cubicSender", Name: "isCwndLimited"},
		TFunc{Dir: g, Recv: "cubicSender", Name: "BandwidthEstimate"},
		TFunc{Dir: g, Recv: "HybridSlowStart", Name: "IsEndOfRound"},
		TFunc{Dir: g, Recv: "HybridSlowStart", Name: "OnPacketAcked", Writes: true},
		TFunc{Dir: g, Recv: "cubicSender", Name: "maybeIncreaseCwnd", Writes: true, Ignore: qlogIgnore, Assume: map[string]string{"reno": "true"}},
	)
	registerTrans("Ack",
		TFunc{Dir: "internal/utils", Recv: "RTTStats", Name: "PTO"},
		TFunc{Dir: "internal/ackhandler", Recv: "sentPacketHandler", Name: "isAmplificationLimited"},
		TFunc{Dir: "internal/ackhandler", Recv: "sentPacketHandler", Name: "getScaledPTO"},
	)
	pto := map[string]string{"RTTStats.PTO": "pto"}
	registerTrans("Idle",
		TFunc{Dir: ".", Recv: "Conn", Name: "idleTimeoutStartTime"},
		TFunc{Dir: ".", Recv: "Conn", Name: "nextIdleTimeoutTime", Opaque: pto},
		TFunc{Dir: ".", Recv: "Conn", Name: "nextKeepAliveTime", Opaque: pto},
		TFunc{Dir: ".", Recv: "Config", Name: "handshakeTimeout"},
	)
	fc := "internal/flowcontrol"
	registerTrans("Flow",
		TFunc{Dir: fc, Recv: "baseFlowController", Name: "SendWindowSize"},
		TFunc{Dir: fc, Recv: "baseFlowController", Name: "IsNewlyBlocked", Writes: true},
		TFunc{Dir: fc, Recv: "baseFlowController", Name: "UpdateSendWindow", Writes: true},
		TFunc{Dir: fc, Recv: "baseFlowController", Name: "AddBytesSent", Writes: true},
		TFunc{Dir: fc, Recv: "baseFlowController", Name: "addBytesRead", Writes: true},
		TFunc{Dir: fc, Recv: "baseFlowController", Name: "checkFlowControlViolation"},
	)
	registerTrans("Initial",
		TFunc{Dir: ".", Recv: "InitialPacketSpec", Name: "initialPN"},
	)
}
