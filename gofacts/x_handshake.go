package main

import (
	"fmt"
	"go/ast"
	"go/constant"
	"go/token"
	"strconv"
	"strings"
)

// Facts of internal/handshake used by C05: salts, HKDF labels, Retry keys and nonces,
// the key-update label literal, the header-protection first-byte masks, FirstKeyUpdateInterval.
func init() {
	register("Handshake", func(c *Ctx, w *LeanFile) error {
		p, err := c.Load("internal/handshake")
		if err != nil {
			return err
		}
		// string constants (labels)
		for _, n := range []string{"hkdfLabelKeyV1", "hkdfLabelKeyV2", "hkdfLabelIVV1", "hkdfLabelIVV2"} {
			v, _, pos, ok := p.Const(n)
			if !ok || v.Kind() != constant.String {
				return fmt.Errorf("string constant %s not found", n)
			}
			w.P("/-- %s `%s` -/", c.pos(pos), n)
			w.P("def %s : String := %s", n, strconv.Quote(constant.StringVal(v)))
		}
		// byte-slice / byte-array package variables with composite literal initialisers
		for _, n := range []string{"quicSaltV1", "quicSaltV2", "retryNonceV1", "retryNonceV2"} {
			bs, pos, err := pkgVarBytes(p, n)
			if err != nil {
				return err
			}
			w.P("/-- %s `%s` -/", c.pos(pos), n)
			w.P("def %s : List UInt8 := %s", n, leanByteListHS(bs))
		}
		// var FirstKeyUpdateInterval uint64 = 100
		if v, pos, err := pkgVarInt(p, "FirstKeyUpdateInterval"); err != nil {
			return err
		} else {
			w.P("/-- %s `FirstKeyUpdateInterval` (initial value of the package variable) -/", c.pos(pos))
			w.P("def FirstKeyUpdateInterval : Int := %s", v)
		}
		// getNextTrafficSecret: hkdfExpandLabel(hash, ts, []byte{}, <label>, hash.Size()) with a literal label
		fd := p.FuncDecl("updatableAEAD", "getNextTrafficSecret")
		if fd == nil {
			return fmt.Errorf("updatableAEAD.getNextTrafficSecret not found")
		}
		// Two shapes are understood: a single constant label for every version, or
		//   label := "A"; if a.version == protocol.Version2 { label = "B" }; hkdfExpandLabel(..., label, ...)
		v1, v2, err := kuLabels(p, fd)
		if err != nil {
			return fmt.Errorf("getNextTrafficSecret: %v — the key-update model of C05 must be revisited", err)
		}
		w.P("/-- %s `getNextTrafficSecret`: label passed to hkdfExpandLabel for QUIC v1 / QUIC v2 -/", c.pos(fd.Pos()))
		w.P("def keyUpdateLabelV1 : String := %s", strconv.Quote(v1))
		w.P("def keyUpdateLabelV2 : String := %s", strconv.Quote(v2))
		// hkdfHeaderProtectionLabel(v): the two returned literals
		fd = p.FuncDecl("", "hkdfHeaderProtectionLabel")
		if fd == nil {
			return fmt.Errorf("hkdfHeaderProtectionLabel not found")
		}
		var rets []string
		ast.Inspect(fd.Body, func(n ast.Node) bool {
			if rs, ok := n.(*ast.ReturnStmt); ok && len(rs.Results) == 1 {
				if tv, ok := p.Info.Types[rs.Results[0]]; ok && tv.Value != nil && tv.Value.Kind() == constant.String {
					rets = append(rets, constant.StringVal(tv.Value))
				}
			}
			return true
		})
		if len(rets) != 2 {
			return fmt.Errorf("hkdfHeaderProtectionLabel: expected two constant returns, got %q", rets)
		}
		w.P("/-- %s `hkdfHeaderProtectionLabel`: returned for Version2 / otherwise -/", c.pos(fd.Pos()))
		w.P("def hpLabelV2 : String := %s", strconv.Quote(rets[0]))
		w.P("def hpLabelV1 : String := %s", strconv.Quote(rets[1]))
		// header protector: `*firstByte ^= p.mask[0] & <lit>` in the isLongHeader / else branches
		for _, recv := range []struct{ typ, fn, lean string }{
			{"aesHeaderProtector", "apply", "aes"}, {"chachaHeaderProtector", "applyMask", "chacha"},
		} {
			fd := p.FuncDecl(recv.typ, recv.fn)
			if fd == nil {
				return fmt.Errorf("%s.%s not found", recv.typ, recv.fn)
			}
			long, short, err := firstByteMasks(p, fd)
			if err != nil {
				return fmt.Errorf("%s.%s: %v", recv.typ, recv.fn, err)
			}
			w.P("/-- %s `%s.%s`: mask of the first byte for long / short headers -/", c.pos(fd.Pos()), recv.typ, recv.fn)
			w.P("def %sFirstByteMaskLong : Nat := %d", recv.lean, long)
			w.P("def %sFirstByteMaskShort : Nat := %d", recv.lean, short)
		}
		return nil
	})
}

// kuLabels extracts the key-update label(s) of getNextTrafficSecret.
func kuLabels(p *Pkg, fd *ast.FuncDecl) (v1, v2 string, err error) {
	constStr := func(e ast.Expr) (string, bool) {
		if tv, ok := p.Info.Types[e]; ok && tv.Value != nil && tv.Value.Kind() == constant.String {
			return constant.StringVal(tv.Value), true
		}
		return "", false
	}
	var calls []*ast.CallExpr
	ast.Inspect(fd.Body, func(n ast.Node) bool {
		if ce, ok := n.(*ast.CallExpr); ok {
			if id, ok := ce.Fun.(*ast.Ident); ok && id.Name == "hkdfExpandLabel" && len(ce.Args) == 5 {
				calls = append(calls, ce)
			}
		}
		return true
	})
	if len(calls) != 1 {
		return "", "", fmt.Errorf("expected exactly one hkdfExpandLabel call, found %d", len(calls))
	}
	if l, ok := constStr(calls[0].Args[3]); ok {
		return l, l, nil
	}
	id, ok := calls[0].Args[3].(*ast.Ident)
	if !ok {
		return "", "", fmt.Errorf("label argument is neither a constant nor a local variable")
	}
	// label := "A" ... if <x>.version == protocol.Version2 { label = "B" }
	found1, found2 := false, false
	for _, st := range fd.Body.List {
		switch s := st.(type) {
		case *ast.AssignStmt:
			if len(s.Lhs) == 1 && len(s.Rhs) == 1 {
				if l, ok := s.Lhs[0].(*ast.Ident); ok && l.Name == id.Name {
					if v, ok := constStr(s.Rhs[0]); ok {
						v1, v2, found1 = v, v, true
					}
				}
			}
		case *ast.IfStmt:
			be, ok := s.Cond.(*ast.BinaryExpr)
			if !ok || be.Op != token.EQL || s.Else != nil || len(s.Body.List) != 1 {
				continue
			}
			sel, ok := be.Y.(*ast.SelectorExpr)
			if !ok || sel.Sel.Name != "Version2" {
				continue
			}
			as, ok := s.Body.List[0].(*ast.AssignStmt)
			if !ok || len(as.Lhs) != 1 || len(as.Rhs) != 1 {
				continue
			}
			if l, ok := as.Lhs[0].(*ast.Ident); ok && l.Name == id.Name {
				if v, ok := constStr(as.Rhs[0]); ok {
					v2, found2 = v, true
				}
			}
		}
	}
	if !found1 || !found2 {
		return "", "", fmt.Errorf("label variable %s: pattern `label := A; if v == Version2 { label = B }` not recognised", id.Name)
	}
	return v1, v2, nil
}

func leanByteListHS(bs []byte) string {
	var sb strings.Builder
	sb.WriteString("[")
	for i, b := range bs {
		if i > 0 {
			sb.WriteString(", ")
		}
		fmt.Fprintf(&sb, "0x%02x", b)
	}
	sb.WriteString("]")
	return sb.String()
}

func pkgVarInit(p *Pkg, name string) (ast.Expr, token.Pos, error) {
	for _, f := range p.Files {
		for _, d := range f.Decls {
			gd, ok := d.(*ast.GenDecl)
			if !ok || gd.Tok != token.VAR {
				continue
			}
			for _, sp := range gd.Specs {
				vs := sp.(*ast.ValueSpec)
				for i, id := range vs.Names {
					if id.Name == name && i < len(vs.Values) {
						return vs.Values[i], id.Pos(), nil
					}
				}
			}
		}
	}
	return nil, 0, fmt.Errorf("package variable %s with initialiser not found", name)
}

func pkgVarBytes(p *Pkg, name string) ([]byte, token.Pos, error) {
	e, pos, err := pkgVarInit(p, name)
	if err != nil {
		return nil, 0, err
	}
	cl, ok := e.(*ast.CompositeLit)
	if !ok {
		return nil, 0, fmt.Errorf("%s: initialiser is not a composite literal", name)
	}
	var out []byte
	for _, el := range cl.Elts {
		tv, ok := p.Info.Types[el]
		if !ok || tv.Value == nil {
			return nil, 0, fmt.Errorf("%s: non-constant element", name)
		}
		v, ok := constant.Uint64Val(constant.ToInt(tv.Value))
		if !ok || v > 255 {
			return nil, 0, fmt.Errorf("%s: element out of byte range", name)
		}
		out = append(out, byte(v))
	}
	return out, pos, nil
}

func pkgVarInt(p *Pkg, name string) (string, token.Pos, error) {
	e, pos, err := pkgVarInit(p, name)
	if err != nil {
		return "", 0, err
	}
	tv, ok := p.Info.Types[e]
	if !ok || tv.Value == nil {
		return "", 0, fmt.Errorf("%s: non-constant initialiser", name)
	}
	return constant.ToInt(tv.Value).ExactString(), pos, nil
}

// firstByteMasks finds `if <x>.isLongHeader { *firstByte ^= <y>.mask[0] & L } else { *firstByte ^= <y>.mask[0] & S }`.
func firstByteMasks(p *Pkg, fd *ast.FuncDecl) (long, short uint64, err error) {
	found := false
	ast.Inspect(fd.Body, func(n ast.Node) bool {
		is, ok := n.(*ast.IfStmt)
		if !ok || found {
			return true
		}
		sel, ok := is.Cond.(*ast.SelectorExpr)
		if !ok || sel.Sel.Name != "isLongHeader" {
			return true
		}
		l, ok1 := maskLit(p, is.Body)
		eb, ok := is.Else.(*ast.BlockStmt)
		if !ok {
			return true
		}
		s, ok2 := maskLit(p, eb)
		if ok1 && ok2 {
			long, short, found = l, s, true
		}
		return true
	})
	if !found {
		return 0, 0, fmt.Errorf("first-byte mask pattern not found")
	}
	return long, short, nil
}

func maskLit(p *Pkg, b *ast.BlockStmt) (uint64, bool) {
	if len(b.List) != 1 {
		return 0, false
	}
	as, ok := b.List[0].(*ast.AssignStmt)
	if !ok || as.Tok != token.XOR_ASSIGN || len(as.Rhs) != 1 {
		return 0, false
	}
	be, ok := as.Rhs[0].(*ast.BinaryExpr)
	if !ok || be.Op != token.AND {
		return 0, false
	}
	tv, ok := p.Info.Types[be.Y]
	if !ok || tv.Value == nil {
		return 0, false
	}
	return constant.Uint64Val(constant.ToInt(tv.Value))
}
