package main

import (
	"fmt"
	"go/ast"
	"go/parser"
	"go/token"
	"path/filepath"
	"strings"
)

// Facts for C13 (handshake gate): QUIC version numbers, the undecryptable-packet queue bound and the
// shape `handshakeTimeout() = <factor> * HandshakeIdleTimeout` of config.go.
func init() {
	register("Gate", func(c *Ctx, w *LeanFile) error {
		p, err := c.Load("internal/protocol")
		if err != nil {
			return err
		}
		for _, n := range []string{"Version1", "Version2", "MaxUndecryptablePackets", "DefaultHandshakeIdleTimeout", "MaxConnUnprocessedPackets"} {
			if err := c.EmitIntConst(w, p, n, n); err != nil {
				return err
			}
		}
		// config.go: func (c *Config) handshakeTimeout() time.Duration { return <k> * c.HandshakeIdleTimeout }
		file := filepath.Join(c.Repo, "config.go")
		af, err := parser.ParseFile(c.Fset, file, nil, 0)
		if err != nil {
			return err
		}
		found := false
		for _, d := range af.Decls {
			fd, ok := d.(*ast.FuncDecl)
			if !ok || fd.Name.Name != "handshakeTimeout" || fd.Recv == nil || fd.Body == nil || len(fd.Body.List) != 1 {
				continue
			}
			ret, ok := fd.Body.List[0].(*ast.ReturnStmt)
			if !ok || len(ret.Results) != 1 {
				continue
			}
			be, ok := ret.Results[0].(*ast.BinaryExpr)
			if !ok || be.Op != token.MUL {
				continue
			}
			lit, ok := be.X.(*ast.BasicLit)
			sel, ok2 := be.Y.(*ast.SelectorExpr)
			if !ok || !ok2 || lit.Kind != token.INT || sel.Sel.Name != "HandshakeIdleTimeout" {
				continue
			}
			w.P("/-- config.go `handshakeTimeout() = %s * c.HandshakeIdleTimeout` -/", lit.Value)
			w.P("def handshakeTimeoutFactor : Int := %s", lit.Value)
			found = true
		}
		if !found {
			return fmt.Errorf("config.go: handshakeTimeout() is no longer `<int literal> * c.HandshakeIdleTimeout`")
		}
		// transport.go / u_transport.go: the connection re-created after a Version Negotiation packet
		// (`case params := <-recreateChan: return t.doDial(ctx, sendConn, tlsConf, config, params.nextPacketNumber,
		// <hasNegotiatedVersion>, use0RTT, params.nextVersion)`): the 6th argument, as written
		for _, f := range []struct{ file, lean string }{{"transport.go", "recreateArgTransport"}, {"u_transport.go", "recreateArgUTransport"}} {
			arg, err := recreateArg(c, filepath.Join(c.Repo, f.file))
			if err != nil {
				return err
			}
			w.P("/-- %s doDial: hasNegotiatedVersion argument of the re-dial after Version Negotiation, as written: `%s` -/", f.file, arg)
			w.P("def %sExpr : String := %q", f.lean, arg)
			w.P("def %s : Bool := %v", f.lean, arg == "true")
		}
		// the same two functions: which channels does `case <-ctx.Done():` wait on after conn.destroy(nil)?
		for _, f := range []struct{ file, lean string }{{"transport.go", "cancelWaitTransport"}, {"u_transport.go", "cancelWaitUTransport"}} {
			chans, err := cancelWaitChans(c, filepath.Join(c.Repo, f.file))
			if err != nil {
				return err
			}
			q := make([]string, len(chans))
			for i, x := range chans {
				q[i] = fmt.Sprintf("%q", x)
			}
			w.P("/-- %s doDial, `case <-ctx.Done():` — channels received from while waiting for the run goroutine -/", f.file)
			w.P("def %s : List String := [%s]", f.lean, strings.Join(q, ", "))
		}
		return nil
	})
}

// recreateArg returns the source text of the hasNegotiatedVersion argument of the recursive doDial call
// inside doDial's `case params := <-recreateChan` branch.
func recreateArg(c *Ctx, file string) (string, error) {
	af, err := parser.ParseFile(c.Fset, file, nil, 0)
	if err != nil {
		return "", err
	}
	var out []string
	for _, d := range af.Decls {
		fd, ok := d.(*ast.FuncDecl)
		if !ok || fd.Name.Name != "doDial" || fd.Body == nil {
			continue
		}
		// position of the hasNegotiatedVersion parameter
		idx, n := -1, 0
		for _, fl := range fd.Type.Params.List {
			for _, nm := range fl.Names {
				if nm.Name == "hasNegotiatedVersion" {
					idx = n
				}
				n++
			}
		}
		if idx < 0 {
			return "", fmt.Errorf("%s: doDial has no hasNegotiatedVersion parameter", file)
		}
		ast.Inspect(fd.Body, func(nd ast.Node) bool {
			ce, ok := nd.(*ast.CallExpr)
			if !ok {
				return true
			}
			sel, ok := ce.Fun.(*ast.SelectorExpr)
			if !ok || sel.Sel.Name != "doDial" || len(ce.Args) != n {
				return true
			}
			switch a := ce.Args[idx].(type) {
			case *ast.Ident:
				out = append(out, a.Name)
			case *ast.BasicLit:
				out = append(out, a.Value)
			default:
				out = append(out, fmt.Sprintf("<expr@%d>", c.Fset.Position(a.Pos()).Line))
			}
			return true
		})
	}
	if len(out) != 1 {
		return "", fmt.Errorf("%s: expected exactly one recursive doDial call in doDial, found %d", file, len(out))
	}
	return out[0], nil
}

// cancelWaitChans lists the channels the `case <-ctx.Done():` clause of doDial's select receives from
// (comm clauses of a nested select, or plain receive statements), in source order.
func cancelWaitChans(c *Ctx, file string) ([]string, error) {
	af, err := parser.ParseFile(c.Fset, file, nil, 0)
	if err != nil {
		return nil, err
	}
	var out []string
	found := 0
	recvChan := func(e ast.Expr) string {
		if u, ok := e.(*ast.UnaryExpr); ok && u.Op == token.ARROW {
			if id, ok := u.X.(*ast.Ident); ok {
				return id.Name
			}
			return "<expr>"
		}
		return ""
	}
	for _, d := range af.Decls {
		fd, ok := d.(*ast.FuncDecl)
		if !ok || fd.Name.Name != "doDial" || fd.Body == nil {
			continue
		}
		ast.Inspect(fd.Body, func(nd ast.Node) bool {
			cc, ok := nd.(*ast.CommClause)
			if !ok || cc.Comm == nil {
				return true
			}
			es, ok := cc.Comm.(*ast.ExprStmt)
			if !ok {
				return true
			}
			u, ok := es.X.(*ast.UnaryExpr)
			if !ok || u.Op != token.ARROW {
				return true
			}
			call, ok := u.X.(*ast.CallExpr)
			if !ok {
				return true
			}
			sel, ok := call.Fun.(*ast.SelectorExpr)
			if !ok || sel.Sel.Name != "Done" {
				return true
			}
			if id, ok := sel.X.(*ast.Ident); !ok || id.Name != "ctx" {
				return true
			}
			found++
			for _, st := range cc.Body {
				ast.Inspect(st, func(x ast.Node) bool {
					switch y := x.(type) {
					case *ast.CommClause:
						if y.Comm != nil {
							switch cm := y.Comm.(type) {
							case *ast.ExprStmt:
								if ch := recvChan(cm.X); ch != "" {
									out = append(out, ch)
								}
							case *ast.AssignStmt:
								if len(cm.Rhs) == 1 {
									if ch := recvChan(cm.Rhs[0]); ch != "" {
										out = append(out, ch)
									}
								}
							}
						}
						return false
					case *ast.ExprStmt:
						if ch := recvChan(y.X); ch != "" {
							out = append(out, ch)
						}
					}
					return true
				})
			}
			return false
		})
	}
	if found != 1 {
		return nil, fmt.Errorf("%s: expected exactly one `case <-ctx.Done():` in doDial, found %d", file, found)
	}
	return out, nil
}
