package main

import (
	"fmt"
	"go/ast"
	"go/parser"
	"go/token"
	"path/filepath"
)

// Facts for C13 (handshake gate): QUIC version numbers, the undecryptable-packet queue bound and the
// shape `handshakeTimeout() = <factor> * HandshakeIdleTimeout` of config.go.
func init() {
	register("Gate", func(c *Ctx, w *LeanFile) error {
		p, err := c.Load("internal/protocol")
		if err != nil {
			return err
		}
		for _, n := range []string{"Version1", "Version2", "MaxUndecryptablePackets", "DefaultHandshakeIdleTimeout", "MaxConnUnprocessedPackets"} {
			if err := c.EmitIntConst(w, p, n, n); err != nil {
				return err
			}
		}
		// config.go: func (c *Config) handshakeTimeout() time.Duration { return <k> * c.HandshakeIdleTimeout }
		file := filepath.Join(c.Repo, "config.go")
		af, err := parser.ParseFile(c.Fset, file, nil, 0)
		if err != nil {
			return err
		}
		found := false
		for _, d := range af.Decls {
			fd, ok := d.(*ast.FuncDecl)
			if !ok || fd.Name.Name != "handshakeTimeout" || fd.Recv == nil || fd.Body == nil || len(fd.Body.List) != 1 {
				continue
			}
			ret, ok := fd.Body.List[0].(*ast.ReturnStmt)
			if !ok || len(ret.Results) != 1 {
				continue
			}
			be, ok := ret.Results[0].(*ast.BinaryExpr)
			if !ok || be.Op != token.MUL {
				continue
			}
			lit, ok := be.X.(*ast.BasicLit)
			sel, ok2 := be.Y.(*ast.SelectorExpr)
			if !ok || !ok2 || lit.Kind != token.INT || sel.Sel.Name != "HandshakeIdleTimeout" {
				continue
			}
			w.P("/-- config.go `handshakeTimeout() = %s * c.HandshakeIdleTimeout` -/", lit.Value)
			w.P("def handshakeTimeoutFactor : Int := %s", lit.Value)
			found = true
		}
		if !found {
			return fmt.Errorf("config.go: handshakeTimeout() is no longer `<int literal> * c.HandshakeIdleTimeout`")
		}
		return nil
	})
}
