package main

import (
	"fmt"
	"go/ast"
	"go/constant"
	"go/parser"
	"go/token"
	"go/types"
	"path/filepath"
	"strconv"
	"strings"
)

// UQuic: facts about the uQUIC transport-parameter plumbing (property C11).
//
//   - QTPGrease and the GREASE modulus, read out of the AST of IsGREASEQTPID (shape-checked:
//     `id >= QTPGrease && (id-QTPGrease)%N == 0`);
//   - the built-in QUICID table (variable name, client, version, recorded fingerprint);
//   - the switch table of wire.(*TransportParameters).PopulateFromUQUIC: which parameter ids are read
//     back, and whether the case uses a panicking type assertion, a comma-ok one, or none;
//   - the transport parameter ids of internal/wire.
//
// The root package is only parsed (never type-checked): its import closure (uTLS, clienthellod, …) is
// large and none of the facts needs types.
func init() {
	register("UQuic", func(c *Ctx, w *LeanFile) error {
		parse := func(rel string) (*ast.File, error) {
			return parser.ParseFile(c.Fset, filepath.Join(c.Repo, rel), nil, parser.ParseComments)
		}
		// ---- u_parrot.go: constants, IsGREASEQTPID, QUICID table
		pf, err := parse("u_parrot.go")
		if err != nil {
			return err
		}
		strConsts := map[string]string{}
		var grease string
		for _, d := range pf.Decls {
			gd, ok := d.(*ast.GenDecl)
			if !ok || gd.Tok != token.CONST {
				continue
			}
			for _, s := range gd.Specs {
				vs := s.(*ast.ValueSpec)
				for i, n := range vs.Names {
					if i >= len(vs.Values) {
						continue
					}
					bl, ok := vs.Values[i].(*ast.BasicLit)
					if !ok {
						continue
					}
					switch bl.Kind {
					case token.STRING:
						if v, err := strconv.Unquote(bl.Value); err == nil {
							strConsts[n.Name] = v
						}
					case token.INT:
						if n.Name == "QTPGrease" {
							v := constant.MakeFromLiteral(bl.Value, token.INT, 0)
							grease = v.ExactString()
						}
					}
				}
			}
		}
		if grease == "" {
			return fmt.Errorf("u_parrot.go: integer constant QTPGrease not found")
		}
		w.P("/-- u_parrot.go `QTPGrease` -/")
		w.P("def QTPGrease : Nat := %s", grease)

		// IsGREASEQTPID: return id >= QTPGrease && (id-QTPGrease)%%N == 0
		mod, err := greaseModulus(pf)
		if err != nil {
			return err
		}
		w.P("/-- u_parrot.go `IsGREASEQTPID`: `id >= QTPGrease && (id-QTPGrease)%%N == 0` (shape-checked); this is N -/")
		w.P("def greaseModulus : Nat := %s", mod)

		// QUICID table
		type qid struct{ name, client, version, fp, alias string }
		var ids []qid
		byName := map[string]*qid{}
		for _, d := range pf.Decls {
			gd, ok := d.(*ast.GenDecl)
			if !ok || gd.Tok != token.VAR {
				continue
			}
			for _, s := range gd.Specs {
				vs := s.(*ast.ValueSpec)
				for i, n := range vs.Names {
					if !strings.HasPrefix(n.Name, "QUIC") || i >= len(vs.Values) {
						continue
					}
					switch v := vs.Values[i].(type) {
					case *ast.Ident:
						ids = append(ids, qid{name: n.Name, alias: v.Name})
					case *ast.CompositeLit:
						if id, ok := v.Type.(*ast.Ident); !ok || id.Name != "QUICID" || len(v.Elts) != 3 {
							continue
						}
						var f [3]string
						for k, e := range v.Elts {
							if kv, ok := e.(*ast.KeyValueExpr); ok {
								e = kv.Value
							}
							switch x := e.(type) {
							case *ast.Ident:
								sv, ok := strConsts[x.Name]
								if !ok {
									return fmt.Errorf("QUICID %s: cannot resolve %s", n.Name, x.Name)
								}
								f[k] = sv
							case *ast.BasicLit:
								sv, err := strconv.Unquote(x.Value)
								if err != nil {
									return err
								}
								f[k] = sv
							default:
								return fmt.Errorf("QUICID %s: unsupported element", n.Name)
							}
						}
						ids = append(ids, qid{name: n.Name, client: f[0], version: f[1], fp: f[2]})
					}
				}
			}
		}
		for i := range ids {
			byName[ids[i].name] = &ids[i]
		}
		for i := range ids {
			for hops := 0; ids[i].alias != "" && hops < 8; hops++ {
				t, ok := byName[ids[i].alias]
				if !ok {
					return fmt.Errorf("QUICID alias %s -> %s unresolved", ids[i].name, ids[i].alias)
				}
				ids[i].client, ids[i].version, ids[i].fp, ids[i].alias = t.client, t.version, t.fp, t.alias
			}
		}
		if len(ids) == 0 {
			return fmt.Errorf("u_parrot.go: no QUICID variables found")
		}
		w.P("/-- u_parrot.go: built-in QUICIDs (variable, client, version, recorded fingerprint) -/")
		w.P("def quicIDs : List (String × String × String × String) := [")
		for i, q := range ids {
			sep := ","
			if i == len(ids)-1 {
				sep = ""
			}
			w.P("  (%q, %q, %q, %q)%s", q.name, q.client, q.version, q.fp, sep)
		}
		w.P("]")

		// QUICID2Spec: for every case whose FrameBuilder is a &QUICRandomFrames{…} literal, the PING count bounds
		// (the count is drawn from [MinPING, MaxPING), or is MinPING when MaxPING <= MinPING)
		type pb struct {
			name     string
			min, max string
		}
		var bounds []pb
		for _, d := range pf.Decls {
			fd, ok := d.(*ast.FuncDecl)
			if !ok || fd.Name.Name != "QUICID2Spec" || fd.Recv != nil {
				continue
			}
			ast.Inspect(fd.Body, func(n ast.Node) bool {
				cc, ok := n.(*ast.CaseClause)
				if !ok {
					return true
				}
				var lit *ast.CompositeLit
				for _, st := range cc.Body {
					ast.Inspect(st, func(m ast.Node) bool {
						if cl, ok := m.(*ast.CompositeLit); ok && lit == nil {
							if id, ok := cl.Type.(*ast.Ident); ok && id.Name == "QUICRandomFrames" {
								lit = cl
							}
						}
						return lit == nil
					})
				}
				if lit == nil {
					return false
				}
				mn, mx := "0", "0"
				for _, e := range lit.Elts {
					kv, ok := e.(*ast.KeyValueExpr)
					if !ok {
						continue
					}
					k, ok := kv.Key.(*ast.Ident)
					bl, ok2 := kv.Value.(*ast.BasicLit)
					if !ok || !ok2 || bl.Kind != token.INT {
						continue
					}
					v := constant.MakeFromLiteral(bl.Value, token.INT, 0).ExactString()
					switch k.Name {
					case "MinPING":
						mn = v
					case "MaxPING":
						mx = v
					}
				}
				for _, e := range cc.List {
					if id, ok := e.(*ast.Ident); ok {
						bounds = append(bounds, pb{id.Name, mn, mx})
					}
				}
				return false
			})
		}
		// aliases get the bounds of their target
		for _, q := range ids {
			for _, d := range pf.Decls {
				gd, ok := d.(*ast.GenDecl)
				if !ok || gd.Tok != token.VAR {
					continue
				}
				for _, sp := range gd.Specs {
					vs := sp.(*ast.ValueSpec)
					for i, n := range vs.Names {
						if n.Name != q.name || i >= len(vs.Values) {
							continue
						}
						if al, ok := vs.Values[i].(*ast.Ident); ok {
							for _, b := range bounds {
								if b.name == al.Name {
									bounds = append(bounds, pb{q.name, b.min, b.max})
								}
							}
						}
					}
				}
			}
		}
		w.P("/-- u_parrot.go `QUICID2Spec`: (QUICID, MinPING, MaxPING) of the built-in specs whose frame builder is `QUICRandomFrames` -/")
		w.P("def randomFramePing : List (String × Nat × Nat) := [")
		for i, b := range bounds {
			sep := ","
			if i == len(bounds)-1 {
				sep = ""
			}
			w.P("  (%q, %s, %s)%s", b.name, b.min, b.max, sep)
		}
		w.P("]")

		// ---- u_connection.go: cloneClientHelloSpecForDial — which extension types get a fresh value per dial, and
		// which of the spec's fields that fresh value copies (`Field: …ext.Field…` inside the composite literal)
		cf, err := parse("u_connection.go")
		if err != nil {
			return err
		}
		type cloneCase struct {
			typ    string
			fields []string
		}
		var cloneCases []cloneCase
		defaultShares := false
		foundClone := false
		for _, d := range cf.Decls {
			fd, ok := d.(*ast.FuncDecl)
			if !ok || fd.Name.Name != "cloneClientHelloSpecForDial" || fd.Recv != nil {
				continue
			}
			foundClone = true
			ast.Inspect(fd.Body, func(n ast.Node) bool {
				ts, ok := n.(*ast.TypeSwitchStmt)
				if !ok {
					return true
				}
				varName := ""
				if as, ok := ts.Assign.(*ast.AssignStmt); ok && len(as.Lhs) == 1 {
					if id, ok := as.Lhs[0].(*ast.Ident); ok {
						varName = id.Name
					}
				}
				for _, st := range ts.Body.List {
					cc := st.(*ast.CaseClause)
					if cc.List == nil { // default: c.Extensions[i] = e
						if len(cc.Body) == 1 {
							if as, ok := cc.Body[0].(*ast.AssignStmt); ok && len(as.Rhs) == 1 {
								if _, ok := as.Rhs[0].(*ast.Ident); ok {
									defaultShares = true
								}
							}
						}
						continue
					}
					for _, te := range cc.List {
						name := ""
						if star, ok := te.(*ast.StarExpr); ok {
							if se, ok := star.X.(*ast.SelectorExpr); ok {
								name = se.Sel.Name
							}
						}
						if name == "" {
							continue
						}
						var fields []string
						for _, b := range cc.Body {
							ast.Inspect(b, func(m ast.Node) bool {
								cl, ok := m.(*ast.CompositeLit)
								if !ok {
									return true
								}
								if se, ok := cl.Type.(*ast.SelectorExpr); !ok || se.Sel.Name != name {
									return true
								}
								for _, el := range cl.Elts {
									kv, ok := el.(*ast.KeyValueExpr)
									if !ok {
										continue
									}
									k, ok := kv.Key.(*ast.Ident)
									if !ok {
										continue
									}
									uses := false
									ast.Inspect(kv.Value, func(v ast.Node) bool {
										if se, ok := v.(*ast.SelectorExpr); ok {
											if x, ok := se.X.(*ast.Ident); ok && x.Name == varName && se.Sel.Name == k.Name {
												uses = true
											}
										}
										return true
									})
									if uses {
										fields = append(fields, k.Name)
									}
								}
								return false
							})
						}
						cloneCases = append(cloneCases, cloneCase{name, fields})
					}
				}
				return false
			})
		}
		if !foundClone {
			// before the per-dial copy existed the dial worked on the spec's own values: nothing is copied, nothing can be lost
			defaultShares = true
		}
		w.P("/-- u_connection.go `cloneClientHelloSpecForDial`: (uTLS extension type that gets a fresh value per dial, the spec fields the fresh value copies) -/")
		w.P("def cloneCases : List (String × List String) := [")
		for i, cc := range cloneCases {
			sep := ","
			if i == len(cloneCases)-1 {
				sep = ""
			}
			qs := make([]string, len(cc.fields))
			for j, f := range cc.fields {
				qs[j] = strconv.Quote(f)
			}
			w.P("  (%q, [%s])%s", cc.typ, strings.Join(qs, ", "), sep)
		}
		w.P("]")
		w.P("/-- every other extension value is shared with the spec (`default: c.Extensions[i] = e`) -/")
		w.P("def cloneDefaultShares : Bool := %v", defaultShares)

		// ---- u_connection.go newUClientConnection (run once per connection ATTEMPT: UTransport.doDial calls it again
		// for the connection it re-creates after Version Negotiation): does the parameter list it suppresses / shuffles /
		// hands to PopulateFromUQUIC, or the ClientHelloSpec it hands to uTLS, alias the QUICSpec value it was given —
		// or is it a copy made inside this function, i.e. per attempt? (value-origin analysis, see flow.go)
		rp, err := c.Load(".")
		if err != nil {
			return err
		}
		ctor := funcLitOfVar(rp, "newUClientConnection")
		if ctor == nil {
			return fmt.Errorf("var newUClientConnection = func(...) not found")
		}
		specParam := ""
		if ps := ctor.Type.Params.List; len(ps) > 0 {
			last := ps[len(ps)-1]
			if len(last.Names) == 1 && strings.Contains(render(c.Fset, last.Type), "QUICSpec") {
				specParam = last.Names[0].Name
			}
		}
		if specParam == "" {
			return fmt.Errorf("newUClientConnection: last parameter is not the *QUICSpec")
		}
		rfl := newFlow(rp)
		ctorFn := mkFnBody("newUClientConnection", ctor.Type, nil, ctor.Body)
		onSpecValue := false
		nSites := 0
		for _, name := range []string{"PopulateFromUQUIC", "SuppressQUICTransportParameters", "ShuffleQUICTransportParameters", "NewUCryptoSetupClient"} {
			sites := rfl.reach(ctorFn, name, 3)
			if len(sites) == 0 && (name == "PopulateFromUQUIC" || name == "NewUCryptoSetupClient") {
				return fmt.Errorf("newUClientConnection: no call of %s in it or in the same-package helpers it calls", name)
			}
			for _, cs := range sites {
				if len(cs.call.Args) == 0 {
					continue
				}
				nSites++
				arg := cs.call.Args[0]
				if name == "NewUCryptoSetupClient" {
					arg = cs.call.Args[len(cs.call.Args)-1]
				}
				if rfl.rootsAt(cs, arg)[specParam] {
					onSpecValue = true
				}
			}
		}
		w.P("/-- u_connection.go `newUClientConnection` (run once per connection attempt): the extension value it suppresses, shuffles,")
		w.P("populates and hands to uTLS may alias the `*QUICSpec` it was given (`%s.ClientHelloSpec…`) instead of a copy made", specParam)
		w.P("inside this function (value-origin analysis) -/")
		_ = nSites
		w.P("def attemptOnSpecValue : Bool := %v", onSpecValue)

		// ---- internal/wire: parameter ids + PopulateFromUQUIC switch table
		wp, err := c.Load("internal/wire")
		if err != nil {
			return err
		}
		fd := wp.FuncDecl("TransportParameters", "PopulateFromUQUIC")
		if fd == nil {
			return fmt.Errorf("internal/wire: (*TransportParameters).PopulateFromUQUIC not found")
		}
		// The switch over the parameter id: the first switch statement (in PopulateFromUQUIC or a same-package helper
		// it calls) all of whose case expressions are integer CONSTANTS (evaluated by go/types, so `uint64(xParameterID)`
		// against `param.ID()` and `xParameterID` against `transportParameterID(param.ID())` read the same).
		wfl := newFlow(wp)
		constOf := func(e ast.Expr) (string, string, bool) {
			tv, ok := wp.Info.Types[e]
			if !ok || tv.Value == nil || tv.Value.Kind() != constant.Int {
				return "", "", false
			}
			name := ""
			ast.Inspect(e, func(n ast.Node) bool {
				if id, ok := n.(*ast.Ident); ok && name == "" {
					if _, isConst := wp.Info.Uses[id].(*types.Const); isConst {
						name = id.Name
					}
				}
				return true
			})
			return constant.ToInt(tv.Value).ExactString(), name, true
		}
		var sw *ast.SwitchStmt
		sawSwitch := false
		for _, body := range wfl.bodiesFrom(fd.Body.List, 2) {
			ast.Inspect(body, func(n ast.Node) bool {
				s, ok := n.(*ast.SwitchStmt)
				if !ok || sw != nil {
					return sw == nil
				}
				sawSwitch = true
				ncase, allConst := 0, true
				for _, st := range s.Body.List {
					for _, e := range st.(*ast.CaseClause).List {
						ncase++
						if _, _, ok := constOf(e); !ok {
							allConst = false
						}
					}
				}
				if ncase > 0 && allConst {
					sw = s
				}
				return sw == nil
			})
		}
		if sw == nil {
			if sawSwitch {
				return fmt.Errorf("PopulateFromUQUIC: unexpected case expression (no switch whose cases are all integer constants)")
			}
			return fmt.Errorf("PopulateFromUQUIC: switch not found")
		}
		type pc struct {
			id         string
			kind, typ  string
			constIdent string
		}
		var cases []pc
		for _, st := range sw.Body.List {
			cc := st.(*ast.CaseClause)
			for _, e := range cc.List {
				idv, constIdent, _ := constOf(e)
				// the kind of read-back: look at the case body and at the helpers it hands the parameter to
				bodies := wfl.bodiesFrom(cc.Body, 2)
				kind, typ := "flag", ""
				okAsserts := map[*ast.TypeAssertExpr]bool{}
				for _, b := range bodies {
					ast.Inspect(b, func(n ast.Node) bool {
						if as, ok := n.(*ast.AssignStmt); ok && len(as.Lhs) == 2 && len(as.Rhs) == 1 {
							if ta, ok := as.Rhs[0].(*ast.TypeAssertExpr); ok {
								okAsserts[ta] = true
							}
						}
						return true
					})
				}
				for _, b := range bodies {
					ast.Inspect(b, func(n ast.Node) bool {
						if ta, ok := n.(*ast.TypeAssertExpr); ok && ta.Type != nil {
							tn := ""
							if se, ok := ta.Type.(*ast.SelectorExpr); ok {
								tn = se.Sel.Name
							}
							if kind == "flag" {
								typ = tn
								if okAsserts[ta] {
									kind = "okassert"
								} else {
									kind = "assert"
								}
							}
						}
						return true
					})
				}
				cases = append(cases, pc{id: idv, kind: kind, typ: typ, constIdent: constIdent})
			}
		}
		w.P("/-- internal/wire/u_transport_parameters.go `PopulateFromUQUIC`: (parameter id, kind, asserted uTLS type);")
		w.P("kind = assert (panicking type assertion) | okassert (comma-ok) | flag (no assertion) -/")
		w.P("def populateCases : List (Nat × String × String) := [")
		for i, p := range cases {
			sep := ","
			if i == len(cases)-1 {
				sep = ""
			}
			w.P("  (%s, %q, %q)%s  -- %s", p.id, p.kind, p.typ, sep, p.constIdent)
		}
		w.P("]")
		for _, n := range []string{"maxIdleTimeoutParameterID", "maxUDPPayloadSizeParameterID", "initialMaxDataParameterID",
			"initialMaxStreamDataBidiLocalParameterID", "initialMaxStreamDataBidiRemoteParameterID", "initialMaxStreamDataUniParameterID",
			"initialMaxStreamsBidiParameterID", "initialMaxStreamsUniParameterID", "ackDelayExponentParameterID", "maxAckDelayParameterID",
			"disableActiveMigrationParameterID", "activeConnectionIDLimitParameterID", "initialSourceConnectionIDParameterID",
			"maxDatagramFrameSizeParameterID"} {
			v, _, pos, ok := wp.Const(n)
			if !ok {
				return fmt.Errorf("internal/wire: constant %s not found", n)
			}
			w.P("/-- %s `%s` -/", c.pos(pos), n)
			w.P("def %s : Nat := %s", n, constant.ToInt(v).ExactString())
		}
		pp, err := c.Load("internal/protocol")
		if err != nil {
			return err
		}
		if v, _, pos, ok := pp.Const("maxConnectionIDLen"); ok {
			w.P("/-- %s `maxConnectionIDLen` (ParseConnectionID panics above it) -/", c.pos(pos))
			w.P("def maxConnectionIDLen : Nat := %s", constant.ToInt(v).ExactString())
		} else {
			return fmt.Errorf("internal/protocol: maxConnectionIDLen not found")
		}
		return nil
	})
}

// greaseModulus pattern-matches `return id >= QTPGrease && (id-QTPGrease)%N == 0` in IsGREASEQTPID.
func greaseModulus(f *ast.File) (string, error) {
	bad := fmt.Errorf("u_parrot.go: IsGREASEQTPID no longer has the shape `return id >= QTPGrease && (id-QTPGrease)%%N == 0`")
	for _, d := range f.Decls {
		fd, ok := d.(*ast.FuncDecl)
		if !ok || fd.Name.Name != "IsGREASEQTPID" || fd.Recv != nil {
			continue
		}
		if fd.Type.Params == nil || len(fd.Type.Params.List) != 1 || len(fd.Type.Params.List[0].Names) != 1 {
			return "", bad
		}
		arg := fd.Type.Params.List[0].Names[0].Name
		if len(fd.Body.List) != 1 {
			return "", bad
		}
		rs, ok := fd.Body.List[0].(*ast.ReturnStmt)
		if !ok || len(rs.Results) != 1 {
			return "", bad
		}
		and, ok := rs.Results[0].(*ast.BinaryExpr)
		if !ok || and.Op != token.LAND {
			return "", bad
		}
		ge, ok := and.X.(*ast.BinaryExpr)
		if !ok || ge.Op != token.GEQ || !isIdent(ge.X, arg) || !isIdent(ge.Y, "QTPGrease") {
			return "", bad
		}
		eq, ok := and.Y.(*ast.BinaryExpr)
		if !ok || eq.Op != token.EQL {
			return "", bad
		}
		if z, ok := eq.Y.(*ast.BasicLit); !ok || z.Value != "0" {
			return "", bad
		}
		rem, ok := eq.X.(*ast.BinaryExpr)
		if !ok || rem.Op != token.REM {
			return "", bad
		}
		par, ok := rem.X.(*ast.ParenExpr)
		if !ok {
			return "", bad
		}
		sub, ok := par.X.(*ast.BinaryExpr)
		if !ok || sub.Op != token.SUB || !isIdent(sub.X, arg) || !isIdent(sub.Y, "QTPGrease") {
			return "", bad
		}
		n, ok := rem.Y.(*ast.BasicLit)
		if !ok || n.Kind != token.INT {
			return "", bad
		}
		return constant.MakeFromLiteral(n.Value, token.INT, 0).ExactString(), nil
	}
	return "", fmt.Errorf("u_parrot.go: IsGREASEQTPID not found")
}

func isIdent(e ast.Expr, name string) bool {
	id, ok := e.(*ast.Ident)
	return ok && id.Name == name
}
