package main

// Facts for C09 (Initial CRYPTO framing): varint width bounds, the frame type
// numbers the builders hard-code, the TLS extension numbers of the scrambler.
func init() {
	register("Frames", func(c *Ctx, w *LeanFile) error {
		qv, err := c.Load("quicvarint")
		if err != nil {
			return err
		}
		for _, n := range []string{"maxVarInt1", "maxVarInt2", "maxVarInt4", "maxVarInt8", "Max", "Min"} {
			if err := c.EmitIntConst(w, qv, n, "varint_"+n); err != nil {
				return err
			}
		}
		wp, err := c.Load("internal/wire")
		if err != nil {
			return err
		}
		for _, n := range []string{"FrameTypePing", "FrameTypeCrypto"} {
			if err := c.EmitIntConst(w, wp, n, n); err != nil {
				return err
			}
		}
		root, err := c.Load(".")
		if err != nil {
			return err
		}
		for _, n := range []string{"extTypeSNI", "extTypeECH"} {
			if err := c.EmitIntConst(w, root, n, n); err != nil {
				return err
			}
		}
		pp, err := c.Load("internal/protocol")
		if err != nil {
			return err
		}
		return c.EmitIntConst(w, pp, "InvalidByteCount", "InvalidByteCount")
	})
}
