package main

import (
	"go/ast"
)

// Facts for C09 (Initial CRYPTO framing): varint width bounds, the frame type
// numbers the builders hard-code, the TLS extension numbers of the scrambler.
func init() {
	register("Frames", func(c *Ctx, w *LeanFile) error {
		qv, err := c.Load("quicvarint")
		if err != nil {
			return err
		}
		for _, n := range []string{"maxVarInt1", "maxVarInt2", "maxVarInt4", "maxVarInt8", "Max", "Min"} {
			if err := c.EmitIntConst(w, qv, n, "varint_"+n); err != nil {
				return err
			}
		}
		wp, err := c.Load("internal/wire")
		if err != nil {
			return err
		}
		for _, n := range []string{"FrameTypePing", "FrameTypeCrypto"} {
			if err := c.EmitIntConst(w, wp, n, n); err != nil {
				return err
			}
		}
		root, err := c.Load(".")
		if err != nil {
			return err
		}
		for _, n := range []string{"extTypeSNI", "extTypeECH"} {
			if err := c.EmitIntConst(w, root, n, n); err != nil {
				return err
			}
		}
		pp, err := c.Load("internal/protocol")
		if err != nil {
			return err
		}
		if err := c.EmitIntConst(w, pp, "InvalidByteCount", "InvalidByteCount"); err != nil {
			return err
		}
		fatal, where := reassembleErrorFatal(root)
		w.P("/-- u_packet_packer.go: what a method of uPacketPacker does when clienthellod.ReassembleCRYPTOFrames")
		w.P("    fails (the CRYPTO frames of a retransmission are not one contiguous range): `true` = the error")
		w.P("    is returned (PackCoalescedPacket fails, the connection is closed), `false` = the error branch")
		w.P("    returns a nil error (the frames are sent as they are). %s -/", where)
		w.P("def marshalReassembleFatal : Bool := %s", leanBool(fatal))
		return nil
	})
}

// reassembleErrorFatal looks, in every method of uPacketPacker, for `x, err := …ReassembleCRYPTOFrames(…)`
// followed by (or inside the init of) `if err != nil { … return …, <e> }` and reports whether <e>, the
// last result of a return statement in that branch, is something other than the identifier nil. It does
// not depend on variable names, on the method's name or on what else the branch does. When the shape
// is not found the fact keeps its default (true: the behaviour of the tree this check was built on);
// the correspondence driver exercises the branch, so a wrong default shows up as a DIFF.
func reassembleErrorFatal(root *Pkg) (bool, string) {
	var found, fatal bool
	judge := func(as *ast.AssignStmt, ifs *ast.IfStmt) {
		if as == nil || ifs == nil || len(as.Rhs) != 1 || len(as.Lhs) < 2 {
			return
		}
		call, ok := as.Rhs[0].(*ast.CallExpr)
		if !ok || callName(call) != "ReassembleCRYPTOFrames" {
			return
		}
		errID, ok := as.Lhs[len(as.Lhs)-1].(*ast.Ident)
		if !ok {
			return
		}
		be, ok := ifs.Cond.(*ast.BinaryExpr)
		if !ok {
			return
		}
		x, okx := be.X.(*ast.Ident)
		if !okx || x.Name != errID.Name {
			return
		}
		ast.Inspect(ifs.Body, func(n ast.Node) bool {
			if _, isLit := n.(*ast.FuncLit); isLit {
				return false
			}
			if r, ok := n.(*ast.ReturnStmt); ok && len(r.Results) > 0 {
				found = true
				if id, ok := r.Results[len(r.Results)-1].(*ast.Ident); !ok || id.Name != "nil" {
					fatal = true
				}
			}
			return true
		})
	}
	for _, f := range root.Files {
		for _, d := range f.Decls {
			fd, ok := d.(*ast.FuncDecl)
			if !ok || fd.Body == nil || fd.Recv == nil || len(fd.Recv.List) != 1 {
				continue
			}
			t := fd.Recv.List[0].Type
			if st, ok := t.(*ast.StarExpr); ok {
				t = st.X
			}
			if id, ok := t.(*ast.Ident); !ok || id.Name != "uPacketPacker" {
				continue
			}
			ast.Inspect(fd.Body, func(n ast.Node) bool {
				switch b := n.(type) {
				case *ast.BlockStmt:
					for i, st := range b.List {
						if as, ok := st.(*ast.AssignStmt); ok && i+1 < len(b.List) {
							if ifs, ok := b.List[i+1].(*ast.IfStmt); ok {
								judge(as, ifs)
							}
						}
					}
				case *ast.IfStmt:
					if as, ok := b.Init.(*ast.AssignStmt); ok {
						judge(as, b)
					}
				}
				return true
			})
		}
	}
	if !found {
		return true, "(shape not recognised in this tree: default)"
	}
	return fatal, "(read from the error branch)"
}
