// gofacts: a deliberately tiny translator from /repo's Go source to Lean facts.
// It never translates control flow. It type-checks selected packages with
// go/types (source importer, offline) and emits constants, tables and shape
// facts as Lean definitions under lean/Uquic/Generated/.
//
// usage: gofacts -repo /repo -out /verif/lean/Uquic/Generated
package main

import (
	"flag"
	"fmt"
	"go/ast"
	"go/build"
	"go/constant"
	"go/importer"
	"go/parser"
	"go/token"
	"go/types"
	"os"
	"path/filepath"
	"sort"
	"strings"
)

const modPath = "github.com/refraction-networking/uquic"

type Ctx struct {
	Repo string
	Out  string
	Fset *token.FileSet
	imp  types.Importer
	pkgs map[string]*Pkg
}

type Pkg struct {
	Dir   string
	Files []*ast.File
	Types *types.Package
	Info  *types.Info
}

type extractor struct {
	name string
	fn   func(c *Ctx, w *LeanFile) error
}

var extractors []extractor

func register(name string, fn func(c *Ctx, w *LeanFile) error) {
	extractors = append(extractors, extractor{name, fn})
}

// LeanFile accumulates one generated module Uquic.Generated.<Name>.
type LeanFile struct {
	Name    string
	Imports []string // Lean modules the generated module imports (written before the namespace)
	b       strings.Builder
}

func (w *LeanFile) P(format string, args ...any) { fmt.Fprintf(&w.b, format+"\n", args...) }

// Load parses (non-test, default build tags) and type-checks the package in repo-relative dir.
func (c *Ctx) Load(rel string) (*Pkg, error) {
	if p, ok := c.pkgs[rel]; ok {
		return p, nil
	}
	dir := filepath.Join(c.Repo, rel)
	bctx := build.Default
	bp, err := bctx.ImportDir(dir, 0)
	if err != nil {
		return nil, err
	}
	var files []*ast.File
	for _, f := range bp.GoFiles {
		af, err := parser.ParseFile(c.Fset, filepath.Join(dir, f), nil, parser.ParseComments)
		if err != nil {
			return nil, err
		}
		files = append(files, af)
	}
	info := &types.Info{
		Types:      map[ast.Expr]types.TypeAndValue{},
		Defs:       map[*ast.Ident]types.Object{},
		Uses:       map[*ast.Ident]types.Object{},
		Selections: map[*ast.SelectorExpr]*types.Selection{},
	}
	conf := types.Config{Importer: c.imp, Error: func(error) {}}
	path := modPath
	if rel != "" && rel != "." {
		path = modPath + "/" + filepath.ToSlash(rel)
	}
	tp, _ := conf.Check(path, c.Fset, files, info)
	p := &Pkg{Dir: dir, Files: files, Types: tp, Info: info}
	c.pkgs[rel] = p
	return p, nil
}

// Const returns the exact constant value of a package-level constant.
func (p *Pkg) Const(name string) (constant.Value, types.Type, token.Pos, bool) {
	obj := p.Types.Scope().Lookup(name)
	cn, ok := obj.(*types.Const)
	if !ok {
		return nil, nil, 0, false
	}
	return cn.Val(), cn.Type(), cn.Pos(), true
}

func (c *Ctx) pos(p token.Pos) string {
	pp := c.Fset.Position(p)
	rel, err := filepath.Rel(c.Repo, pp.Filename)
	if err != nil {
		rel = pp.Filename
	}
	// file only: a line number would make every harmless line shift rebuild all dependent proofs
	return rel
}

// EmitIntConst writes `def <lean> : Int := v` for an integer-valued constant
// (durations in ns). Missing or non-integer constants produce an error.
func (c *Ctx) EmitIntConst(w *LeanFile, p *Pkg, goName, leanName string) error {
	v, _, pos, ok := p.Const(goName)
	if !ok {
		return fmt.Errorf("constant %s not found in %s", goName, p.Dir)
	}
	iv := constant.ToInt(v)
	if iv.Kind() != constant.Int {
		return fmt.Errorf("constant %s is not an integer: %s", goName, v)
	}
	w.P("/-- %s `%s` -/", c.pos(pos), goName)
	if constant.Sign(iv) < 0 {
		w.P("def %s : Int := (%s)", leanName, iv.ExactString())
	} else {
		w.P("def %s : Int := %s", leanName, iv.ExactString())
	}
	return nil
}

// EmitAllIntConsts emits every package-level integer constant declared in the given file names.
func (c *Ctx) EmitAllIntConsts(w *LeanFile, p *Pkg, onlyFiles map[string]bool) {
	names := p.Types.Scope().Names()
	sort.Strings(names)
	for _, n := range names {
		cn, ok := p.Types.Scope().Lookup(n).(*types.Const)
		if !ok {
			continue
		}
		fn := filepath.Base(c.Fset.Position(cn.Pos()).Filename)
		if onlyFiles != nil && !onlyFiles[fn] {
			continue
		}
		iv := constant.ToInt(cn.Val())
		if iv.Kind() != constant.Int {
			continue
		}
		_ = c.EmitIntConst(w, p, n, leanIdent(n))
	}
}

func leanIdent(n string) string {
	switch n {
	case "end", "from", "at", "have", "show", "then", "if", "else", "do", "let", "fun", "in", "with", "match", "open", "by":
		return "«" + n + "»"
	}
	return n
}

// FuncDecl finds a function or method declaration (recv == "" for functions).
func (p *Pkg) FuncDecl(recv, name string) *ast.FuncDecl {
	for _, f := range p.Files {
		for _, d := range f.Decls {
			fd, ok := d.(*ast.FuncDecl)
			if !ok || fd.Name.Name != name {
				continue
			}
			if recv == "" && fd.Recv == nil {
				return fd
			}
			if recv != "" && fd.Recv != nil && len(fd.Recv.List) == 1 {
				t := fd.Recv.List[0].Type
				if st, ok := t.(*ast.StarExpr); ok {
					t = st.X
				}
				if ix, ok := t.(*ast.IndexExpr); ok {
					t = ix.X
				}
				if id, ok := t.(*ast.Ident); ok && id.Name == recv {
					return fd
				}
			}
		}
	}
	return nil
}

func main() {
	repo := flag.String("repo", "/repo", "repository root")
	out := flag.String("out", "", "output directory (lean/Uquic/Generated)")
	flag.Parse()
	if *out == "" {
		fmt.Fprintln(os.Stderr, "need -out")
		os.Exit(2)
	}
	if abs, err := filepath.Abs(*out); err == nil {
		*out = abs // resolve before chdir: a relative -out must never land inside the repository
	}
	if err := os.Chdir(*repo); err != nil {
		fmt.Fprintln(os.Stderr, err)
		os.Exit(2)
	}
	fset := token.NewFileSet()
	c := &Ctx{Repo: *repo, Out: *out, Fset: fset, imp: importer.ForCompiler(fset, "source", nil), pkgs: map[string]*Pkg{}}
	os.RemoveAll(*out)
	if err := os.MkdirAll(*out, 0o755); err != nil {
		fmt.Fprintln(os.Stderr, err)
		os.Exit(2)
	}
	sort.Slice(extractors, func(i, j int) bool { return extractors[i].name < extractors[j].name })
	rc := 0
	for _, e := range extractors {
		w := &LeanFile{Name: e.name}
		if err := e.fn(c, w); err != nil {
			// A missing fact must break the dependent proofs, not be papered over:
			// write the error into the file so the Lean build fails visibly.
			fmt.Fprintf(os.Stderr, "gofacts: %s: %v\n", e.name, err)
			w.P("#eval (throw (IO.userError %q) : IO Unit)", "gofacts: "+err.Error())
			rc = 1
		}
		w.P("")
		w.P("end Uquic.Gen.%s", e.name)
		head := fmt.Sprintf("-- GENERATED by /verif/gofacts from %s — do not edit; regenerated on every check run.\n", *repo)
		for _, im := range w.Imports {
			head += "import " + im + "\n"
		}
		head += fmt.Sprintf("namespace Uquic.Gen.%s\n\n", e.name)
		if err := os.WriteFile(filepath.Join(*out, e.name+".lean"), []byte(head+w.b.String()), 0o644); err != nil {
			fmt.Fprintln(os.Stderr, err)
			os.Exit(2)
		}
	}
	os.Exit(rc)
}
