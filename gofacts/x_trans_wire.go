package main

// Translated functions of internal/wire (frame and header lengths: C08).
func init() {
	w := "internal/wire"
	registerTrans("Wire",
		TFunc{Dir: w, Recv: "MaxDataFrame", Name: "Length"},
		TFunc{Dir: w, Recv: "MaxStreamsFrame", Name: "Length"},
		TFunc{Dir: w, Recv: "MaxStreamDataFrame", Name: "Length"},
		TFunc{Dir: w, Recv: "DataBlockedFrame", Name: "Length"},
		TFunc{Dir: w, Recv: "StreamsBlockedFrame", Name: "Length"},
		TFunc{Dir: w, Recv: "StopSendingFrame", Name: "Length"},
		TFunc{Dir: w, Recv: "ResetStreamFrame", Name: "Length"},
		TFunc{Dir: w, Recv: "StreamFrame", Name: "Length"},
		TFunc{Dir: w, Recv: "StreamFrame", Name: "MaxDataLen"},
		TFunc{Dir: w, Recv: "CryptoFrame", Name: "Length"},
		TFunc{Dir: w, Recv: "CryptoFrame", Name: "MaxDataLen"},
		TFunc{Dir: w, Recv: "StreamDataBlockedFrame", Name: "Length"},
		TFunc{Dir: w, Recv: "NewTokenFrame", Name: "Length"},
		TFunc{Dir: w, Recv: "RetireConnectionIDFrame", Name: "Length"},
		TFunc{Dir: w, Recv: "NewConnectionIDFrame", Name: "Length"},
		TFunc{Dir: w, Recv: "ConnectionCloseFrame", Name: "Length"},
		TFunc{Dir: w, Recv: "DatagramFrame", Name: "Length"},
		TFunc{Dir: w, Recv: "DatagramFrame", Name: "MaxDataLen"},
		TFunc{Dir: w, Recv: "AckFrequencyFrame", Name: "Length"},
		TFunc{Dir: w, Recv: "PathChallengeFrame", Name: "Length"},
		TFunc{Dir: w, Recv: "PingFrame", Name: "Length"},
		TFunc{Dir: w, Recv: "HandshakeDoneFrame", Name: "Length"},
		TFunc{Dir: w, Recv: "ImmediateAckFrame", Name: "Length"},
		TFunc{Dir: w, Name: "ShortHeaderLen"},
		TFunc{Dir: w, Name: "encodeAckDelay"},
	)
}
