package main

// Facts for C19 (HTTP/3 field sections). AST only (no type checking of package http3, which would pull
// in uTLS): literal tables and call-site shapes of http3/headers.go, error_codes.go and the two callers
// that map a parse error to an HTTP/3 error code.

import (
	"fmt"
	"go/ast"
	"go/parser"
	"go/token"
	"os"
	"path/filepath"
	"strconv"
	"strings"
)

func leanBytes(s string) string {
	parts := make([]string, 0, len(s))
	for i := 0; i < len(s); i++ {
		parts = append(parts, strconv.Itoa(int(s[i])))
	}
	return "[" + strings.Join(parts, ", ") + "]"
}

func parseOne(c *Ctx, rel string) (*ast.File, error) {
	return parser.ParseFile(c.Fset, filepath.Join(c.Repo, rel), nil, 0)
}

func findFunc(f *ast.File, recv, name string) *ast.FuncDecl {
	for _, d := range f.Decls {
		fd, ok := d.(*ast.FuncDecl)
		if !ok || fd.Name.Name != name {
			continue
		}
		if recv == "" && fd.Recv == nil {
			return fd
		}
		if recv != "" && fd.Recv != nil && len(fd.Recv.List) == 1 {
			t := fd.Recv.List[0].Type
			if st, ok := t.(*ast.StarExpr); ok {
				t = st.X
			}
			if id, ok := t.(*ast.Ident); ok && id.Name == recv {
				return fd
			}
		}
	}
	return nil
}

func strLit(e ast.Expr) (string, bool) {
	bl, ok := e.(*ast.BasicLit)
	if !ok || bl.Kind != token.STRING {
		return "", false
	}
	s, err := strconv.Unquote(bl.Value)
	return s, err == nil
}

// identsIn collects every identifier name below n.
func identsIn(n ast.Node) map[string]bool {
	m := map[string]bool{}
	ast.Inspect(n, func(x ast.Node) bool {
		if id, ok := x.(*ast.Ident); ok {
			m[id.Name] = true
		}
		return true
	})
	return m
}

// errCodeIdent returns the single ErrCode… identifier mentioned below n ("" if none or several).
func errCodeIdent(n ast.Node) string {
	res := ""
	for id := range identsIn(n) {
		if strings.HasPrefix(id, "ErrCode") && id != "ErrCode" {
			if res != "" && res != id {
				return ""
			}
			res = id
		}
	}
	return res
}

// h3pkg is an AST-only index of the non-test files of one package directory: its functions / methods
// by bare name and its integer constants. Extractors use it to follow calls into helpers of the same
// package, so that extracting a helper (or inlining one) does not change the extracted fact.
type h3pkg struct {
	files  []*ast.File
	funcs  map[string][]*ast.FuncDecl
	consts map[string]ast.Expr
	// names under which each file imports other packages (calls through them are never followed)
	imports map[*ast.File]map[string]bool
	fileOf  map[*ast.FuncDecl]*ast.File
}

func loadH3Pkg(c *Ctx, rel string) (*h3pkg, error) {
	dir := filepath.Join(c.Repo, rel)
	ents, err := os.ReadDir(dir)
	if err != nil {
		return nil, err
	}
	p := &h3pkg{funcs: map[string][]*ast.FuncDecl{}, consts: map[string]ast.Expr{}, imports: map[*ast.File]map[string]bool{}, fileOf: map[*ast.FuncDecl]*ast.File{}}
	for _, e := range ents {
		n := e.Name()
		if e.IsDir() || !strings.HasSuffix(n, ".go") || strings.HasSuffix(n, "_test.go") || strings.HasPrefix(n, "verif_") {
			continue
		}
		f, err := parser.ParseFile(c.Fset, filepath.Join(dir, n), nil, 0)
		if err != nil {
			return nil, err
		}
		p.files = append(p.files, f)
		imps := map[string]bool{}
		for _, im := range f.Imports {
			path, _ := strconv.Unquote(im.Path.Value)
			name := path[strings.LastIndex(path, "/")+1:]
			if im.Name != nil {
				name = im.Name.Name
			}
			imps[name] = true
		}
		p.imports[f] = imps
		for _, d := range f.Decls {
			switch t := d.(type) {
			case *ast.FuncDecl:
				p.funcs[t.Name.Name] = append(p.funcs[t.Name.Name], t)
				p.fileOf[t] = f
			case *ast.GenDecl:
				if t.Tok != token.CONST {
					continue
				}
				for _, sp := range t.Specs {
					vs := sp.(*ast.ValueSpec)
					for i, nm := range vs.Names {
						if i < len(vs.Values) {
							p.consts[nm.Name] = vs.Values[i]
						}
					}
				}
			}
		}
	}
	return p, nil
}

// callees returns the same-package functions a call expression may reach (by bare name; calls through
// an imported package are skipped).
func (p *h3pkg) callees(from *ast.FuncDecl, ce *ast.CallExpr) []*ast.FuncDecl {
	switch f := ce.Fun.(type) {
	case *ast.Ident:
		return p.funcs[f.Name]
	case *ast.SelectorExpr:
		root := f.X
		for {
			if se, ok := root.(*ast.SelectorExpr); ok {
				root = se.X
				continue
			}
			break
		}
		if id, ok := root.(*ast.Ident); ok && p.imports[p.fileOf[from]][id.Name] {
			return nil
		}
		return p.funcs[f.Sel.Name]
	}
	return nil
}

// helperFn resolves a call to THE same-package function or method of that bare name (nil if none, several, or the
// call goes through an imported package) for the symbolic walker.
func (p *h3pkg) helperFn() func(*ast.CallExpr) *fnBody {
	return func(ce *ast.CallExpr) *fnBody {
		var file *ast.File
		for _, f := range p.files {
			if f.Pos() <= ce.Pos() && ce.Pos() < f.End() {
				file = f
			}
		}
		name := ""
		switch f := ce.Fun.(type) {
		case *ast.Ident:
			name = f.Name
		case *ast.SelectorExpr:
			root := ast.Expr(f)
			for {
				if se, ok := root.(*ast.SelectorExpr); ok {
					root = se.X
					continue
				}
				break
			}
			if id, ok := root.(*ast.Ident); ok && file != nil && p.imports[file][id.Name] {
				return nil
			}
			name = f.Sel.Name
		default:
			return nil
		}
		var found *ast.FuncDecl
		for _, fd := range p.funcs[name] {
			_, isSel := ce.Fun.(*ast.SelectorExpr)
			if fd.Body == nil || (fd.Recv != nil) != isSel {
				continue
			}
			if found != nil {
				return nil
			}
			found = fd
		}
		if found == nil {
			return nil
		}
		return mkFnBody(name, found.Type, found.Recv, found.Body)
	}
}

// closure returns root and every same-package function reachable from it through calls.
func (p *h3pkg) closure(root *ast.FuncDecl) []*ast.FuncDecl {
	seen := map[*ast.FuncDecl]bool{root: true}
	order := []*ast.FuncDecl{root}
	for i := 0; i < len(order); i++ {
		fd := order[i]
		if fd.Body == nil {
			continue
		}
		ast.Inspect(fd.Body, func(x ast.Node) bool {
			if ce, ok := x.(*ast.CallExpr); ok {
				for _, g := range p.callees(fd, ce) {
					if !seen[g] {
						seen[g] = true
						order = append(order, g)
					}
				}
			}
			return true
		})
	}
	return order
}

// sizeTerms evaluates an expression of the shape len(a) + len(b) + <integer constants>, looking through
// parentheses, named integer constants of the package and calls of same-package helpers whose body is
// a single `return <expr>`. ok=false for any other shape.
func (p *h3pkg) sizeTerms(from *ast.FuncDecl, e ast.Expr, depth int) (lens, lit int, ok bool) {
	if depth > 8 {
		return 0, 0, false
	}
	switch t := e.(type) {
	case *ast.ParenExpr:
		return p.sizeTerms(from, t.X, depth+1)
	case *ast.BinaryExpr:
		if t.Op != token.ADD {
			return 0, 0, false
		}
		l1, c1, ok1 := p.sizeTerms(from, t.X, depth+1)
		l2, c2, ok2 := p.sizeTerms(from, t.Y, depth+1)
		return l1 + l2, c1 + c2, ok1 && ok2
	case *ast.BasicLit:
		v, err := strconv.ParseInt(t.Value, 0, 64)
		return 0, int(v), err == nil && t.Kind == token.INT
	case *ast.Ident:
		if ce, found := p.consts[t.Name]; found {
			return p.sizeTerms(from, ce, depth+1)
		}
		return 0, 0, false
	case *ast.CallExpr:
		if id, isId := t.Fun.(*ast.Ident); isId && id.Name == "len" && len(t.Args) == 1 {
			return 1, 0, true
		}
		cs := p.callees(from, t)
		if len(cs) != 1 || cs[0].Body == nil || len(cs[0].Body.List) != 1 {
			return 0, 0, false
		}
		rs, isRet := cs[0].Body.List[0].(*ast.ReturnStmt)
		if !isRet || len(rs.Results) != 1 {
			return 0, 0, false
		}
		return p.sizeTerms(cs[0], rs.Results[0], depth+1)
	}
	return 0, 0, false
}

// sizeOverhead finds, in fd, the one statement `<budget> -= len(name) + len(value) + <const>` (the sum may
// be spelled through same-package helpers / named constants) and returns the constant.
func (p *h3pkg) sizeOverhead(fd *ast.FuncDecl) (int, error) {
	var vals []int
	ast.Inspect(fd, func(x ast.Node) bool {
		as, ok := x.(*ast.AssignStmt)
		if !ok || len(as.Lhs) != 1 || len(as.Rhs) != 1 {
			return true
		}
		rhs := as.Rhs[0]
		switch as.Tok {
		case token.SUB_ASSIGN:
		case token.ASSIGN: // budget = budget - (…)
			be, isBin := rhs.(*ast.BinaryExpr)
			l, lok := as.Lhs[0].(*ast.Ident)
			r, rok := func() (*ast.Ident, bool) {
				if !isBin {
					return nil, false
				}
				id, ok := be.X.(*ast.Ident)
				return id, ok
			}()
			if !isBin || be.Op != token.SUB || !lok || !rok || l.Name != r.Name {
				return true
			}
			rhs = be.Y
		default:
			return true
		}
		if lens, lit, ok := p.sizeTerms(fd, rhs, 0); ok && lens == 2 {
			vals = append(vals, lit)
		}
		return true
	})
	if len(vals) != 1 {
		return 0, fmt.Errorf("%s: expected exactly one `<budget> -= len(name)+len(value)+<const>` statement (directly or through same-package helpers), found %d", fd.Name.Name, len(vals))
	}
	return vals[0], nil
}

// errMapping extracts, from a caller of requestFromHeaders/updateResponseFromHeaders, the code used
// by default (`<v> := ErrCodeX`), for a *qpackError (`errors.As(err, &<var of type *qpackError>)` → ErrCodeY)
// and, if present, for errHeaderTooLarge (`errors.Is(err, errHeaderTooLarge)` → ErrCodeZ [+ 431 response]).
// The conditions may be spelled as if statements or as cases of a tagless switch; a comparison
// `err == errHeaderTooLarge` is NOT errors.Is and is reported.
//
// What the errHeaderTooLarge branch DOES is read off a symbolic execution of its body (symwalk.go) that follows
// same-package helpers with their parameters bound to the arguments — so it does not matter whether the reset and
// the 431 answer are written inline or extracted into helpers, nor what those helpers are called:
//
//	tooLarge        = the single ErrCode… constant handed to a CancelRead call the branch reaches ("" if none / several)
//	tooLargeRejects = the branch reaches WriteHeader(http.StatusRequestHeaderFieldsTooLarge) (or the literal 431)
func errMapping(pkg *h3pkg, fd *ast.FuncDecl) (def, qp, tooLarge string, tooLargeRejects bool, err error) {
	branchEffects := func(body ast.Node) (code string, sends431 bool) {
		codes := map[string]bool{}
		sw := &symWalker{helper: pkg.helperFn(), maxDepth: 3}
		sw.onCall = func(_, r *ast.CallExpr, _ int) bool {
			switch callName(r) {
			case "CancelRead":
				for _, a := range r.Args {
					if c := errCodeIdent(a); c != "" {
						codes[c] = true
					} else {
						codes["?"] = true
					}
				}
				return false
			case "WriteHeader":
				if len(r.Args) == 1 {
					if identsIn(r.Args[0])["StatusRequestHeaderFieldsTooLarge"] {
						sends431 = true
					}
					if bl, ok := r.Args[0].(*ast.BasicLit); ok && bl.Value == "431" {
						sends431 = true
					}
				}
				return false
			}
			return true
		}
		var stmts []ast.Stmt
		switch b := body.(type) {
		case *ast.BlockStmt:
			stmts = b.List
		case ast.Stmt:
			stmts = []ast.Stmt{b}
		}
		sw.walk(stmts, symEnv{}, 0)
		if len(codes) == 1 {
			for c := range codes {
				if c != "?" {
					code = c
				}
			}
		}
		return
	}
	var defs []string
	eqCompare := false
	branch := func(cond ast.Expr, body ast.Node) {
		if be, ok := cond.(*ast.BinaryExpr); ok && (be.Op == token.EQL || be.Op == token.NEQ) && identsIn(be)["errHeaderTooLarge"] {
			eqCompare = true
		}
		ce, ok := cond.(*ast.CallExpr)
		if !ok {
			return
		}
		se, ok := ce.Fun.(*ast.SelectorExpr)
		if !ok {
			return
		}
		pk, _ := se.X.(*ast.Ident)
		if pk == nil || pk.Name != "errors" {
			return
		}
		if se.Sel.Name == "As" {
			qp = errCodeIdent(body)
		}
		if se.Sel.Name == "Is" && identsIn(ce)["errHeaderTooLarge"] {
			tooLarge, tooLargeRejects = branchEffects(body)
		}
	}
	hasQpackVar := false
	ast.Inspect(fd, func(x ast.Node) bool {
		switch t := x.(type) {
		case *ast.ValueSpec:
			if st, ok := t.Type.(*ast.StarExpr); ok {
				if id, ok := st.X.(*ast.Ident); ok && id.Name == "qpackError" {
					hasQpackVar = true
				}
			}
		case *ast.AssignStmt:
			if t.Tok == token.DEFINE && len(t.Lhs) == 1 && len(t.Rhs) == 1 {
				if id, ok := t.Rhs[0].(*ast.Ident); ok && strings.HasPrefix(id.Name, "ErrCode") && id.Name != "ErrCode" {
					defs = append(defs, id.Name)
				}
			}
		case *ast.IfStmt:
			branch(t.Cond, t.Body)
		case *ast.SwitchStmt:
			if t.Tag != nil {
				return true
			}
			for _, st := range t.Body.List {
				cc := st.(*ast.CaseClause)
				for _, e := range cc.List {
					branch(e, &ast.BlockStmt{List: cc.Body})
				}
			}
		}
		return true
	})
	if len(defs) == 1 {
		def = defs[0]
	}
	if def == "" || qp == "" || !hasQpackVar {
		return "", "", "", false, fmt.Errorf("%s: could not find `<v> := ErrCode…` / errors.As(err, &<*qpackError>) mapping", fd.Name.Name)
	}
	if eqCompare {
		return def, qp, tooLarge, tooLargeRejects, fmt.Errorf("%s: errHeaderTooLarge is compared with == / != (a wrapped error is not recognised); expected errors.Is", fd.Name.Name)
	}
	return
}

func init() {
	register("H3Fields", func(c *Ctx, w *LeanFile) error {
		hf, err := parseOne(c, "http3/headers.go")
		if err != nil {
			return err
		}
		// A shape that is not recognised does NOT make the generated file uncompilable (the oracle must still
		// build so that the monitors can search for a failing input): the fact gets a fallback value, the
		// problem is listed in `extractionProblems`, and Props/C19 proves `extractionProblems = []` and the
		// concrete values it needs — so the proofs break visibly.
		var problems []string
		problem := func(e error) {
			problems = append(problems, e.Error())
			fmt.Fprintf(os.Stderr, "gofacts: H3Fields: %v (fallback value emitted; dependent proofs will fail)\n", e)
		}
		// --- invalidHeaderFields
		var inv []string
		found := false
		for _, d := range hf.Decls {
			gd, ok := d.(*ast.GenDecl)
			if !ok || gd.Tok != token.VAR {
				continue
			}
			for _, sp := range gd.Specs {
				vs := sp.(*ast.ValueSpec)
				if len(vs.Names) == 1 && vs.Names[0].Name == "invalidHeaderFields" && len(vs.Values) == 1 {
					cl, ok := vs.Values[0].(*ast.CompositeLit)
					if !ok {
						return fmt.Errorf("invalidHeaderFields is not a composite literal")
					}
					for _, e := range cl.Elts {
						s, ok := strLit(e)
						if !ok {
							return fmt.Errorf("invalidHeaderFields: non-literal element")
						}
						inv = append(inv, s)
					}
					found = true
				}
			}
		}
		if !found {
			problem(fmt.Errorf("var invalidHeaderFields not found in http3/headers.go"))
		}
		w.P("/-- http3/headers.go `invalidHeaderFields` (connection-specific field names) -/")
		w.P("def invalidHeaderFields : List (List Nat) := [")
		for i, s := range inv {
			sep := ","
			if i == len(inv)-1 {
				sep = ""
			}
			w.P("  %s%s  -- %q", leanBytes(s), sep, s)
		}
		w.P("]")
		w.P("")

		// --- pseudo header switch of parseHeaders
		ph := findFunc(hf, "", "parseHeaders")
		if ph == nil {
			return fmt.Errorf("func parseHeaders not found")
		}
		type pc struct {
			name string
			resp bool
		}
		var cases []pc
		nSwitch := 0
		pkg, err := loadH3Pkg(c, "http3")
		if err != nil {
			return err
		}
		// the switch over the pseudo-header names may live in parseHeaders or in a same-package helper it calls
		phRoot := ph
		if ds := pkg.funcs["parseHeaders"]; len(ds) == 1 {
			phRoot = ds[0]
		}
		for _, fd := range pkg.closure(phRoot) {
			if fd.Body == nil {
				continue
			}
			ast.Inspect(fd.Body, func(x ast.Node) bool {
				sw, ok := x.(*ast.SwitchStmt)
				if !ok {
					return true
				}
				var cur []pc
				pseudo := false
				for _, st := range sw.Body.List {
					cc := st.(*ast.CaseClause)
					for _, e := range cc.List {
						if s, ok := strLit(e); ok {
							if strings.HasPrefix(s, ":") {
								pseudo = true
							}
							// the response-only case is the one that sets a boolean variable to the literal `true`
							resp := false
							for _, b := range cc.Body {
								if as, ok := b.(*ast.AssignStmt); ok && len(as.Lhs) == 1 && len(as.Rhs) == 1 {
									if _, ok := as.Lhs[0].(*ast.Ident); ok {
										if v, ok := as.Rhs[0].(*ast.Ident); ok && v.Name == "true" {
											resp = true
										}
									}
								}
							}
							cur = append(cur, pc{s, resp})
						}
					}
				}
				if pseudo {
					nSwitch++
					cases = cur
				}
				return true
			})
		}
		if nSwitch != 1 {
			problem(fmt.Errorf("parseHeaders (and the same-package functions it calls): expected exactly one switch over pseudo-header names, found %d", nSwitch))
			cases = nil
		}
		w.P("/-- http3/headers.go parseHeaders: `switch h.Name` cases for pseudo-header fields; `true` = the case sets isResponsePseudoHeader -/")
		w.P("def pseudoCases : List (List Nat × Bool) := [")
		for i, p := range cases {
			sep := ","
			if i == len(cases)-1 {
				sep = ""
			}
			w.P("  (%s, %v)%s  -- %q", leanBytes(p.name), p.resp, sep, p.name)
		}
		w.P("]")
		w.P("")

		// --- per-field size overhead
		oh, err := pkg.sizeOverhead(phRoot)
		if err != nil {
			problem(err)
			oh = 0
		}
		pt := findFunc(hf, "", "parseTrailers")
		if pt == nil {
			return fmt.Errorf("func parseTrailers not found")
		}
		if ds := pkg.funcs["parseTrailers"]; len(ds) == 1 {
			pt = ds[0]
		}
		oht, err := pkg.sizeOverhead(pt)
		if err != nil {
			problem(err)
			oht = 0
		}
		w.P("/-- http3/headers.go parseHeaders: `sizeLimit -= len(h.Name) + len(h.Value) + <this>` -/")
		w.P("def headerFieldOverhead : Int := %d", oh)
		w.P("/-- http3/headers.go parseTrailers: same statement -/")
		w.P("def trailerFieldOverhead : Int := %d", oht)
		w.P("")

		// --- error codes (literal constants of error_codes.go)
		ef, err := parseOne(c, "http3/error_codes.go")
		if err != nil {
			return err
		}
		codes := map[string]string{}
		for _, d := range ef.Decls {
			gd, ok := d.(*ast.GenDecl)
			if !ok || gd.Tok != token.CONST {
				continue
			}
			for _, sp := range gd.Specs {
				vs := sp.(*ast.ValueSpec)
				if len(vs.Names) == 1 && len(vs.Values) == 1 {
					if bl, ok := vs.Values[0].(*ast.BasicLit); ok && bl.Kind == token.INT {
						v, err := strconv.ParseInt(bl.Value, 0, 64)
						if err == nil {
							codes[vs.Names[0].Name] = strconv.FormatInt(v, 10)
							w.P("/-- http3/error_codes.go `%s` = %s -/", vs.Names[0].Name, bl.Value)
							w.P("def %s : Int := %d", vs.Names[0].Name, v)
						}
					}
				}
			}
		}
		w.P("")

		// --- callers' mapping of a header parse error to an error code
		sf, err := parseOne(c, "http3/server_conn.go")
		if err != nil {
			return err
		}
		hs := findFunc(sf, "RawServerConn", "handleRequestStream")
		if hs == nil {
			return fmt.Errorf("RawServerConn.handleRequestStream not found")
		}
		sd, sq, stl, srej, err := errMapping(pkg, hs)
		if err != nil {
			problem(err)
		}
		cf, err := parseOne(c, "http3/stream.go")
		if err != nil {
			return err
		}
		rr := findFunc(cf, "RequestStream", "ReadResponse")
		if rr == nil {
			return fmt.Errorf("RequestStream.ReadResponse not found")
		}
		cd, cq, ctl, _, err := errMapping(pkg, rr)
		if err != nil {
			problem(err)
		}
		emit := func(lean, goName, where string) error {
			w.P("/-- %s -/", where)
			if _, ok := codes[goName]; !ok {
				problem(fmt.Errorf("%s: error code %q is not a literal constant of error_codes.go", where, goName))
				w.P("def %s : Int := (-1)", lean)
				return nil
			}
			w.P("def %s : Int := %s", lean, goName)
			return nil
		}
		if err := emit("srvErrDefault", sd, "http3/server_conn.go handleRequestStream: `errCode := …` (stream error for a rejected request field section)"); err != nil {
			return err
		}
		if err := emit("srvErrQpack", sq, "http3/server_conn.go handleRequestStream: code when errors.As(err, &qpackErr)"); err != nil {
			return err
		}
		if stl == "" {
			w.P("/-- http3/server_conn.go handleRequestStream has no errors.Is(err, errHeaderTooLarge) branch -/")
			w.P("def srvTooLargeSpecial : Bool := false")
			w.P("def srvErrTooLarge : Int := srvErrDefault")
			w.P("def srvTooLargeSends431 : Bool := false")
		} else {
			w.P("def srvTooLargeSpecial : Bool := true")
			if err := emit("srvErrTooLarge", stl, "http3/server_conn.go handleRequestStream: code passed to CancelRead when errors.Is(err, errHeaderTooLarge)"); err != nil {
				return err
			}
			w.P("/-- that branch reaches WriteHeader(http.StatusRequestHeaderFieldsTooLarge) (a 431 response; same-package helpers followed) -/")
			w.P("def srvTooLargeSends431 : Bool := %v", srej)
		}
		if err := emit("cliErrDefault", cd, "http3/stream.go RequestStream.ReadResponse: `errCode := …`"); err != nil {
			return err
		}
		if err := emit("cliErrQpack", cq, "http3/stream.go RequestStream.ReadResponse: code when errors.As(err, &qpackErr)"); err != nil {
			return err
		}
		w.P("/-- http3/stream.go ReadResponse treats errHeaderTooLarge separately -/")
		w.P("def cliTooLargeSpecial : Bool := %v", ctl != "")
		w.P("")

		// --- defaultUserAgent (request_writer.go emits it when the request has no User-Agent header)
		clf, err := parseOne(c, "http3/client.go")
		if err != nil {
			return err
		}
		ua, uaFound := "", false
		for _, d := range clf.Decls {
			gd, ok := d.(*ast.GenDecl)
			if !ok || gd.Tok != token.CONST {
				continue
			}
			for _, sp := range gd.Specs {
				vs := sp.(*ast.ValueSpec)
				for i, n := range vs.Names {
					if n.Name == "defaultUserAgent" && i < len(vs.Values) {
						if sv, ok := strLit(vs.Values[i]); ok {
							ua, uaFound = sv, true
						}
					}
				}
			}
		}
		if !uaFound {
			problem(fmt.Errorf("const defaultUserAgent (string literal) not found in http3/client.go"))
		}
		w.P("/-- http3/client.go `defaultUserAgent` = %q -/", ua)
		w.P("def defaultUserAgent : List Nat := %s", leanBytes(ua))
		w.P("")
		w.P("/-- shapes gofacts did not recognise (fallback values were emitted for them) -/")
		qs := make([]string, len(problems))
		for i, pr := range problems {
			qs[i] = strconv.Quote(pr)
		}
		w.P("def extractionProblems : List String := [%s]", strings.Join(qs, ", "))
		return nil
	})
}
