package main

// Facts for C19 (HTTP/3 field sections). AST only (no type checking of package http3, which would pull
// in uTLS): literal tables and call-site shapes of http3/headers.go, error_codes.go and the two callers
// that map a parse error to an HTTP/3 error code.

import (
	"fmt"
	"go/ast"
	"go/parser"
	"go/token"
	"os"
	"path/filepath"
	"strconv"
	"strings"
)

func leanBytes(s string) string {
	parts := make([]string, 0, len(s))
	for i := 0; i < len(s); i++ {
		parts = append(parts, strconv.Itoa(int(s[i])))
	}
	return "[" + strings.Join(parts, ", ") + "]"
}

func parseOne(c *Ctx, rel string) (*ast.File, error) {
	return parser.ParseFile(c.Fset, filepath.Join(c.Repo, rel), nil, 0)
}

func findFunc(f *ast.File, recv, name string) *ast.FuncDecl {
	for _, d := range f.Decls {
		fd, ok := d.(*ast.FuncDecl)
		if !ok || fd.Name.Name != name {
			continue
		}
		if recv == "" && fd.Recv == nil {
			return fd
		}
		if recv != "" && fd.Recv != nil && len(fd.Recv.List) == 1 {
			t := fd.Recv.List[0].Type
			if st, ok := t.(*ast.StarExpr); ok {
				t = st.X
			}
			if id, ok := t.(*ast.Ident); ok && id.Name == recv {
				return fd
			}
		}
	}
	return nil
}

func strLit(e ast.Expr) (string, bool) {
	bl, ok := e.(*ast.BasicLit)
	if !ok || bl.Kind != token.STRING {
		return "", false
	}
	s, err := strconv.Unquote(bl.Value)
	return s, err == nil
}

// identsIn collects every identifier name below n.
func identsIn(n ast.Node) map[string]bool {
	m := map[string]bool{}
	ast.Inspect(n, func(x ast.Node) bool {
		if id, ok := x.(*ast.Ident); ok {
			m[id.Name] = true
		}
		return true
	})
	return m
}

// errCodeIdent returns the single ErrCode… identifier mentioned below n ("" if none or several).
func errCodeIdent(n ast.Node) string {
	res := ""
	for id := range identsIn(n) {
		if strings.HasPrefix(id, "ErrCode") && id != "ErrCode" {
			if res != "" && res != id {
				return ""
			}
			res = id
		}
	}
	return res
}

// sizeOverhead finds `sizeLimit -= len(x.Name) + len(x.Value) + <lit>` and returns the literal.
func sizeOverhead(fd *ast.FuncDecl) (int, error) {
	val, n := 0, 0
	ast.Inspect(fd, func(x ast.Node) bool {
		as, ok := x.(*ast.AssignStmt)
		if !ok || as.Tok != token.SUB_ASSIGN || len(as.Lhs) != 1 || len(as.Rhs) != 1 {
			return true
		}
		if id, ok := as.Lhs[0].(*ast.Ident); !ok || id.Name != "sizeLimit" {
			return true
		}
		// shape: (len(a) + len(b)) + lit ; anything else is overhead 0 with both len() terms required
		lens, lit, other := 0, 0, false
		var walk func(e ast.Expr)
		walk = func(e ast.Expr) {
			switch t := e.(type) {
			case *ast.BinaryExpr:
				if t.Op != token.ADD {
					other = true
					return
				}
				walk(t.X)
				walk(t.Y)
			case *ast.ParenExpr:
				walk(t.X)
			case *ast.CallExpr:
				if id, ok := t.Fun.(*ast.Ident); ok && id.Name == "len" {
					lens++
				} else {
					other = true
				}
			case *ast.BasicLit:
				v, err := strconv.Atoi(t.Value)
				if err != nil {
					other = true
				}
				lit += v
			default:
				other = true
			}
		}
		walk(as.Rhs[0])
		if other || lens != 2 {
			n = -1000
			return false
		}
		val = lit
		n++
		return true
	})
	if n != 1 {
		return 0, fmt.Errorf("%s: expected exactly one `sizeLimit -= len(name)+len(value)+<const>` statement", fd.Name.Name)
	}
	return val, nil
}

// errMapping extracts, from a caller of requestFromHeaders/updateResponseFromHeaders, the code used
// by default (`errCode := ErrCodeX`), for a *qpackError (`errors.As(err,&qpackErr)` → `errCode = ErrCodeY`)
// and, if present, for errHeaderTooLarge (`errors.Is(err, errHeaderTooLarge)` block).
func errMapping(fd *ast.FuncDecl) (def, qp, tooLarge string, tooLargeRejects bool, err error) {
	ast.Inspect(fd, func(x ast.Node) bool {
		switch t := x.(type) {
		case *ast.AssignStmt:
			if t.Tok == token.DEFINE && len(t.Lhs) == 1 {
				if id, ok := t.Lhs[0].(*ast.Ident); ok && id.Name == "errCode" {
					def = errCodeIdent(t.Rhs[0])
				}
			}
		case *ast.IfStmt:
			ce, ok := t.Cond.(*ast.CallExpr)
			if !ok {
				return true
			}
			se, ok := ce.Fun.(*ast.SelectorExpr)
			if !ok {
				return true
			}
			pk, _ := se.X.(*ast.Ident)
			if pk == nil || pk.Name != "errors" {
				return true
			}
			ids := identsIn(ce)
			if se.Sel.Name == "As" && ids["qpackErr"] {
				qp = errCodeIdent(t.Body)
			}
			if se.Sel.Name == "Is" && ids["errHeaderTooLarge"] {
				tooLarge = errCodeIdent(t.Body)
				tooLargeRejects = identsIn(t.Body)["rejectWithHeaderFieldsTooLarge"]
			}
		}
		return true
	})
	if def == "" || qp == "" {
		return "", "", "", false, fmt.Errorf("%s: could not find `errCode := ErrCode…` / errors.As(err,&qpackErr) mapping", fd.Name.Name)
	}
	return
}

func init() {
	register("H3Fields", func(c *Ctx, w *LeanFile) error {
		hf, err := parseOne(c, "http3/headers.go")
		if err != nil {
			return err
		}
		// A shape that is not recognised does NOT make the generated file uncompilable (the oracle must still
		// build so that the monitors can search for a failing input): the fact gets a fallback value, the
		// problem is listed in `extractionProblems`, and Props/C19 proves `extractionProblems = []` and the
		// concrete values it needs — so the proofs break visibly.
		var problems []string
		problem := func(e error) {
			problems = append(problems, e.Error())
			fmt.Fprintf(os.Stderr, "gofacts: H3Fields: %v (fallback value emitted; dependent proofs will fail)\n", e)
		}
		// --- invalidHeaderFields
		var inv []string
		found := false
		for _, d := range hf.Decls {
			gd, ok := d.(*ast.GenDecl)
			if !ok || gd.Tok != token.VAR {
				continue
			}
			for _, sp := range gd.Specs {
				vs := sp.(*ast.ValueSpec)
				if len(vs.Names) == 1 && vs.Names[0].Name == "invalidHeaderFields" && len(vs.Values) == 1 {
					cl, ok := vs.Values[0].(*ast.CompositeLit)
					if !ok {
						return fmt.Errorf("invalidHeaderFields is not a composite literal")
					}
					for _, e := range cl.Elts {
						s, ok := strLit(e)
						if !ok {
							return fmt.Errorf("invalidHeaderFields: non-literal element")
						}
						inv = append(inv, s)
					}
					found = true
				}
			}
		}
		if !found {
			problem(fmt.Errorf("var invalidHeaderFields not found in http3/headers.go"))
		}
		w.P("/-- http3/headers.go `invalidHeaderFields` (connection-specific field names) -/")
		w.P("def invalidHeaderFields : List (List Nat) := [")
		for i, s := range inv {
			sep := ","
			if i == len(inv)-1 {
				sep = ""
			}
			w.P("  %s%s  -- %q", leanBytes(s), sep, s)
		}
		w.P("]")
		w.P("")

		// --- pseudo header switch of parseHeaders
		ph := findFunc(hf, "", "parseHeaders")
		if ph == nil {
			return fmt.Errorf("func parseHeaders not found")
		}
		type pc struct {
			name string
			resp bool
		}
		var cases []pc
		nSwitch := 0
		ast.Inspect(ph, func(x ast.Node) bool {
			sw, ok := x.(*ast.SwitchStmt)
			if !ok {
				return true
			}
			var cur []pc
			pseudo := false
			for _, st := range sw.Body.List {
				cc := st.(*ast.CaseClause)
				for _, e := range cc.List {
					if s, ok := strLit(e); ok {
						if strings.HasPrefix(s, ":") {
							pseudo = true
						}
						resp := false
						for _, b := range cc.Body {
							if as, ok := b.(*ast.AssignStmt); ok && len(as.Lhs) == 1 && len(as.Rhs) == 1 {
								if id, ok := as.Lhs[0].(*ast.Ident); ok && id.Name == "isResponsePseudoHeader" {
									if v, ok := as.Rhs[0].(*ast.Ident); ok && v.Name == "true" {
										resp = true
									}
								}
							}
						}
						cur = append(cur, pc{s, resp})
					}
				}
			}
			if pseudo {
				nSwitch++
				cases = cur
			}
			return true
		})
		if nSwitch != 1 {
			problem(fmt.Errorf("parseHeaders: expected exactly one switch over pseudo-header names, found %d", nSwitch))
			cases = nil
		}
		w.P("/-- http3/headers.go parseHeaders: `switch h.Name` cases for pseudo-header fields; `true` = the case sets isResponsePseudoHeader -/")
		w.P("def pseudoCases : List (List Nat × Bool) := [")
		for i, p := range cases {
			sep := ","
			if i == len(cases)-1 {
				sep = ""
			}
			w.P("  (%s, %v)%s  -- %q", leanBytes(p.name), p.resp, sep, p.name)
		}
		w.P("]")
		w.P("")

		// --- per-field size overhead
		oh, err := sizeOverhead(ph)
		if err != nil {
			problem(err)
			oh = 0
		}
		pt := findFunc(hf, "", "parseTrailers")
		if pt == nil {
			return fmt.Errorf("func parseTrailers not found")
		}
		oht, err := sizeOverhead(pt)
		if err != nil {
			problem(err)
			oht = 0
		}
		w.P("/-- http3/headers.go parseHeaders: `sizeLimit -= len(h.Name) + len(h.Value) + <this>` -/")
		w.P("def headerFieldOverhead : Int := %d", oh)
		w.P("/-- http3/headers.go parseTrailers: same statement -/")
		w.P("def trailerFieldOverhead : Int := %d", oht)
		w.P("")

		// --- error codes (literal constants of error_codes.go)
		ef, err := parseOne(c, "http3/error_codes.go")
		if err != nil {
			return err
		}
		codes := map[string]string{}
		for _, d := range ef.Decls {
			gd, ok := d.(*ast.GenDecl)
			if !ok || gd.Tok != token.CONST {
				continue
			}
			for _, sp := range gd.Specs {
				vs := sp.(*ast.ValueSpec)
				if len(vs.Names) == 1 && len(vs.Values) == 1 {
					if bl, ok := vs.Values[0].(*ast.BasicLit); ok && bl.Kind == token.INT {
						v, err := strconv.ParseInt(bl.Value, 0, 64)
						if err == nil {
							codes[vs.Names[0].Name] = strconv.FormatInt(v, 10)
							w.P("/-- http3/error_codes.go `%s` = %s -/", vs.Names[0].Name, bl.Value)
							w.P("def %s : Int := %d", vs.Names[0].Name, v)
						}
					}
				}
			}
		}
		w.P("")

		// --- callers' mapping of a header parse error to an error code
		sf, err := parseOne(c, "http3/server_conn.go")
		if err != nil {
			return err
		}
		hs := findFunc(sf, "RawServerConn", "handleRequestStream")
		if hs == nil {
			return fmt.Errorf("RawServerConn.handleRequestStream not found")
		}
		sd, sq, stl, srej, err := errMapping(hs)
		if err != nil {
			problem(err)
		}
		cf, err := parseOne(c, "http3/stream.go")
		if err != nil {
			return err
		}
		rr := findFunc(cf, "RequestStream", "ReadResponse")
		if rr == nil {
			return fmt.Errorf("RequestStream.ReadResponse not found")
		}
		cd, cq, ctl, _, err := errMapping(rr)
		if err != nil {
			problem(err)
		}
		emit := func(lean, goName, where string) error {
			w.P("/-- %s -/", where)
			if _, ok := codes[goName]; !ok {
				problem(fmt.Errorf("%s: error code %q is not a literal constant of error_codes.go", where, goName))
				w.P("def %s : Int := (-1)", lean)
				return nil
			}
			w.P("def %s : Int := %s", lean, goName)
			return nil
		}
		if err := emit("srvErrDefault", sd, "http3/server_conn.go handleRequestStream: `errCode := …` (stream error for a rejected request field section)"); err != nil {
			return err
		}
		if err := emit("srvErrQpack", sq, "http3/server_conn.go handleRequestStream: code when errors.As(err, &qpackErr)"); err != nil {
			return err
		}
		if stl == "" {
			w.P("/-- http3/server_conn.go handleRequestStream has no errors.Is(err, errHeaderTooLarge) branch -/")
			w.P("def srvTooLargeSpecial : Bool := false")
			w.P("def srvErrTooLarge : Int := srvErrDefault")
			w.P("def srvTooLargeSends431 : Bool := false")
		} else {
			w.P("def srvTooLargeSpecial : Bool := true")
			if err := emit("srvErrTooLarge", stl, "http3/server_conn.go handleRequestStream: code passed to CancelRead when errors.Is(err, errHeaderTooLarge)"); err != nil {
				return err
			}
			w.P("/-- that branch calls rejectWithHeaderFieldsTooLarge (a 431 response) -/")
			w.P("def srvTooLargeSends431 : Bool := %v", srej)
		}
		if err := emit("cliErrDefault", cd, "http3/stream.go RequestStream.ReadResponse: `errCode := …`"); err != nil {
			return err
		}
		if err := emit("cliErrQpack", cq, "http3/stream.go RequestStream.ReadResponse: code when errors.As(err, &qpackErr)"); err != nil {
			return err
		}
		w.P("/-- http3/stream.go ReadResponse treats errHeaderTooLarge separately -/")
		w.P("def cliTooLargeSpecial : Bool := %v", ctl != "")
		w.P("")

		// --- defaultUserAgent (request_writer.go emits it when the request has no User-Agent header)
		clf, err := parseOne(c, "http3/client.go")
		if err != nil {
			return err
		}
		ua, uaFound := "", false
		for _, d := range clf.Decls {
			gd, ok := d.(*ast.GenDecl)
			if !ok || gd.Tok != token.CONST {
				continue
			}
			for _, sp := range gd.Specs {
				vs := sp.(*ast.ValueSpec)
				for i, n := range vs.Names {
					if n.Name == "defaultUserAgent" && i < len(vs.Values) {
						if sv, ok := strLit(vs.Values[i]); ok {
							ua, uaFound = sv, true
						}
					}
				}
			}
		}
		if !uaFound {
			problem(fmt.Errorf("const defaultUserAgent (string literal) not found in http3/client.go"))
		}
		w.P("/-- http3/client.go `defaultUserAgent` = %q -/", ua)
		w.P("def defaultUserAgent : List Nat := %s", leanBytes(ua))
		w.P("")
		w.P("/-- shapes gofacts did not recognise (fallback values were emitted for them) -/")
		qs := make([]string, len(problems))
		for i, pr := range problems {
			qs[i] = strconv.Quote(pr)
		}
		w.P("def extractionProblems : List String := [%s]", strings.Join(qs, ", "))
		return nil
	})
}
