package main

import (
	"fmt"
	"go/ast"
	"go/parser"
	"go/token"
	"path/filepath"
	"sort"
	"strings"
)

// Shape facts for C14 (send loop): which functions of connection.go register sent packets with the
// sent-packet handler, and that they are reached only through triggerSending; which functions write to the
// connection directly. Purely syntactic (name-based call graph of one file, over-approximating callers).
//
// The fact the theorem compares (outsideSends) is SEMANTIC: it does not contain the name of any helper. For every
// call edge that can put a packet on the wire / register one WITHOUT passing through triggerSending it records
//   <where>:<what>
// where = recv1rtt (the calling function is reachable from handleShortHeaderPacket through any chain of helpers
//         that avoids triggerSending) | recvlong (… from handleLongHeaderPacket) | other, and
// what  = wire:<Send|SendProbe|Write> (a raw sink: sendQueue.Send / sendQueue.SendProbe / conn.Write),
//         register-site (a sentPacketHandler.SentPacket call), or register / wire / register+wire (a call into a
//         function of triggerSending's call tree from which such a sink is reachable).
// Calls of triggerSending itself are not listed (it is the gate: it consults SendMode). Named anchors: run,
// triggerSending, handleShortHeaderPacket, handleLongHeaderPacket; named selectors: sentPacketHandler.SentPacket,
// sendQueue.Send, sendQueue.SendProbe, conn.Write.
func init() {
	register("AmpShape", func(c *Ctx, w *LeanFile) error {
		f, err := parser.ParseFile(token.NewFileSet(), filepath.Join(c.Repo, "connection.go"), nil, 0)
		if err != nil {
			return err
		}
		calls := map[string]map[string]bool{} // function -> names it calls
		registers := map[string]bool{}        // functions calling <x>.sentPacketHandler.SentPacket(
		writes := map[string]bool{}           // functions calling <x>.conn.Write(
		sinks := map[string][]string{}        // function -> raw sink sites in it ("wire:Send", "wire:SendProbe", "wire:Write", "register-site")
		for _, d := range f.Decls {
			fd, ok := d.(*ast.FuncDecl)
			if !ok || fd.Body == nil {
				continue
			}
			name := fd.Name.Name
			if calls[name] == nil {
				calls[name] = map[string]bool{}
			}
			ast.Inspect(fd.Body, func(n ast.Node) bool {
				ce, ok := n.(*ast.CallExpr)
				if !ok {
					return true
				}
				switch fn := ce.Fun.(type) {
				case *ast.Ident:
					calls[name][fn.Name] = true
				case *ast.SelectorExpr:
					calls[name][fn.Sel.Name] = true
					if inner, ok := fn.X.(*ast.SelectorExpr); ok {
						if fn.Sel.Name == "SentPacket" && inner.Sel.Name == "sentPacketHandler" {
							registers[name] = true
							sinks[name] = append(sinks[name], "register-site")
						}
						if fn.Sel.Name == "Write" && inner.Sel.Name == "conn" {
							writes[name] = true
							sinks[name] = append(sinks[name], "wire:Write")
						}
						if (fn.Sel.Name == "Send" || fn.Sel.Name == "SendProbe") && inner.Sel.Name == "sendQueue" {
							sinks[name] = append(sinks[name], "wire:"+fn.Sel.Name)
						}
					}
				}
				return true
			})
		}
		if len(registers) == 0 {
			return fmt.Errorf("connection.go: no call of sentPacketHandler.SentPacket found")
		}
		if _, ok := calls["triggerSending"]; !ok {
			return fmt.Errorf("connection.go: func triggerSending not found")
		}
		// descendants of triggerSending
		desc := map[string]bool{}
		var visit func(string)
		visit = func(fn string) {
			for callee := range calls[fn] {
				if _, isFunc := calls[callee]; isFunc && !desc[callee] {
					desc[callee] = true
					visit(callee)
				}
			}
		}
		visit("triggerSending")
		// the sending functions: those below triggerSending from which a registering function is reachable
		reach := map[string]bool{}
		for r := range registers {
			reach[r] = true
		}
		for changed := true; changed; {
			changed = false
			for fn, cs := range calls {
				if !desc[fn] || reach[fn] {
					continue
				}
				for callee := range cs {
					if reach[callee] {
						reach[fn] = true
						changed = true
						break
					}
				}
			}
		}
		// functions NOT below triggerSending that call a sending function directly (or register packets themselves)
		outside := map[string]bool{}
		for fn, cs := range calls {
			if fn == "triggerSending" || desc[fn] {
				continue
			}
			if registers[fn] {
				outside[fn+"->SentPacket"] = true
			}
			for callee := range cs {
				if reach[callee] {
					outside[fn+"->"+callee] = true
				}
			}
		}
		for _, anchor := range []string{"run", "handleShortHeaderPacket", "handleLongHeaderPacket"} {
			if _, ok := calls[anchor]; !ok {
				return fmt.Errorf("connection.go: func %s not found", anchor)
			}
		}
		// what a function can do to the wire / the accounting, through any chain of callees
		does := func(start string) (reg, wire bool) {
			seen := map[string]bool{}
			var walk func(string)
			walk = func(fn string) {
				if seen[fn] {
					return
				}
				seen[fn] = true
				for _, k := range sinks[fn] {
					if k == "register-site" {
						reg = true
					} else {
						wire = true
					}
				}
				for callee := range calls[fn] {
					if _, isFunc := calls[callee]; isFunc {
						walk(callee)
					}
				}
			}
			walk(start)
			return
		}
		// functions reachable from an anchor without passing through triggerSending
		avoiding := func(anchor string) map[string]bool {
			seen := map[string]bool{}
			var walk func(string)
			walk = func(fn string) {
				if seen[fn] || fn == "triggerSending" {
					return
				}
				seen[fn] = true
				for callee := range calls[fn] {
					if _, isFunc := calls[callee]; isFunc {
						walk(callee)
					}
				}
			}
			walk(anchor)
			return seen
		}
		from1rtt, fromLong := avoiding("handleShortHeaderPacket"), avoiding("handleLongHeaderPacket")
		var outsideSem []string
		for fn, cs := range calls {
			if fn == "triggerSending" || desc[fn] {
				continue
			}
			where := "other"
			if from1rtt[fn] {
				where = "recv1rtt"
			} else if fromLong[fn] {
				where = "recvlong"
			}
			for _, k := range sinks[fn] {
				outsideSem = append(outsideSem, where+":"+k)
			}
			for callee := range cs {
				if callee == "triggerSending" || !desc[callee] {
					continue
				}
				reg, wire := does(callee)
				switch {
				case reg && wire:
					outsideSem = append(outsideSem, where+":register+wire")
				case reg:
					outsideSem = append(outsideSem, where+":register")
				case wire:
					outsideSem = append(outsideSem, where+":wire")
				}
			}
		}
		sort.Strings(outsideSem)
		for i := range outsideSem {
			outsideSem[i] = `"` + outsideSem[i] + `"`
		}
		list := func(m map[string]bool) string {
			var l []string
			for k := range m {
				l = append(l, `"`+k+`"`)
			}
			sort.Strings(l)
			return "[" + strings.Join(l, ", ") + "]"
		}
		w.P("/-- connection.go: functions that call `sentPacketHandler.SentPacket` -/")
		w.P("def registeringFunctions : List String := %s", list(registers))
		w.P("/-- connection.go: the functions below `triggerSending` (name-based call graph) from which those are reachable -/")
		w.P("def sendingFunctions : List String := %s", list(reach))
		w.P("/-- connection.go: call edges from functions NOT below `triggerSending` into a sending function (or to SentPacket itself); informational (names) -/")
		w.P("def sendersOutsideTriggerSending : List String := %s", list(outside))
		w.P("/-- connection.go: every way to register a packet / put one on the wire WITHOUT passing through `triggerSending`, as")
		w.P("    <where>:<what> with no helper names (see gofacts/x_ampshape.go): where = recv1rtt | recvlong | other -/")
		w.P("def outsideSends : List String := [%s]", strings.Join(outsideSem, ", "))
		w.P("/-- connection.go: functions that write to the connection directly with `conn.Write` (not through the send queue) -/")
		w.P("def directWriters : List String := %s", list(writes))
		return nil
	})
}
