package main

import (
	"fmt"
	"go/ast"
	"go/parser"
	"go/token"
	"path/filepath"
	"sort"
	"strings"
)

// Shape facts for C14 (send loop): which functions of connection.go register sent packets with the
// sent-packet handler, and that they are reached only through triggerSending; which functions write to the
// connection directly. Purely syntactic (name-based call graph of one file, over-approximating callers).
func init() {
	register("AmpShape", func(c *Ctx, w *LeanFile) error {
		f, err := parser.ParseFile(token.NewFileSet(), filepath.Join(c.Repo, "connection.go"), nil, 0)
		if err != nil {
			return err
		}
		calls := map[string]map[string]bool{} // function -> names it calls
		registers := map[string]bool{}        // functions calling <x>.sentPacketHandler.SentPacket(
		writes := map[string]bool{}           // functions calling <x>.conn.Write(
		for _, d := range f.Decls {
			fd, ok := d.(*ast.FuncDecl)
			if !ok || fd.Body == nil {
				continue
			}
			name := fd.Name.Name
			if calls[name] == nil {
				calls[name] = map[string]bool{}
			}
			ast.Inspect(fd.Body, func(n ast.Node) bool {
				ce, ok := n.(*ast.CallExpr)
				if !ok {
					return true
				}
				switch fn := ce.Fun.(type) {
				case *ast.Ident:
					calls[name][fn.Name] = true
				case *ast.SelectorExpr:
					calls[name][fn.Sel.Name] = true
					if inner, ok := fn.X.(*ast.SelectorExpr); ok {
						if fn.Sel.Name == "SentPacket" && inner.Sel.Name == "sentPacketHandler" {
							registers[name] = true
						}
						if fn.Sel.Name == "Write" && inner.Sel.Name == "conn" {
							writes[name] = true
						}
					}
				}
				return true
			})
		}
		if len(registers) == 0 {
			return fmt.Errorf("connection.go: no call of sentPacketHandler.SentPacket found")
		}
		if _, ok := calls["triggerSending"]; !ok {
			return fmt.Errorf("connection.go: func triggerSending not found")
		}
		// descendants of triggerSending
		desc := map[string]bool{}
		var visit func(string)
		visit = func(fn string) {
			for callee := range calls[fn] {
				if _, isFunc := calls[callee]; isFunc && !desc[callee] {
					desc[callee] = true
					visit(callee)
				}
			}
		}
		visit("triggerSending")
		// the sending functions: those below triggerSending from which a registering function is reachable
		reach := map[string]bool{}
		for r := range registers {
			reach[r] = true
		}
		for changed := true; changed; {
			changed = false
			for fn, cs := range calls {
				if !desc[fn] || reach[fn] {
					continue
				}
				for callee := range cs {
					if reach[callee] {
						reach[fn] = true
						changed = true
						break
					}
				}
			}
		}
		// functions NOT below triggerSending that call a sending function directly (or register packets themselves)
		outside := map[string]bool{}
		for fn, cs := range calls {
			if fn == "triggerSending" || desc[fn] {
				continue
			}
			if registers[fn] {
				outside[fn+"->SentPacket"] = true
			}
			for callee := range cs {
				if reach[callee] {
					outside[fn+"->"+callee] = true
				}
			}
		}
		list := func(m map[string]bool) string {
			var l []string
			for k := range m {
				l = append(l, `"`+k+`"`)
			}
			sort.Strings(l)
			return "[" + strings.Join(l, ", ") + "]"
		}
		w.P("/-- connection.go: functions that call `sentPacketHandler.SentPacket` -/")
		w.P("def registeringFunctions : List String := %s", list(registers))
		w.P("/-- connection.go: the functions below `triggerSending` (name-based call graph) from which those are reachable -/")
		w.P("def sendingFunctions : List String := %s", list(reach))
		w.P("/-- connection.go: call edges from functions NOT below `triggerSending` into a sending function (or to SentPacket itself) -/")
		w.P("def sendersOutsideTriggerSending : List String := %s", list(outside))
		w.P("/-- connection.go: functions that write to the connection directly with `conn.Write` (not through the send queue) -/")
		w.P("def directWriters : List String := %s", list(writes))
		return nil
	})
}
