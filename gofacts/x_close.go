package main

import (
	"fmt"
	"go/ast"
	"go/parser"
	"go/token"
	"path/filepath"
	"strings"
)

// Facts for C17 (connection close): error codes, the order of the case clauses of
// handleCloseError's classification switch, and the shape of the doDial select
// (context cancellation waits for the run loop's completion signal).
func init() {
	register("Close", func(c *Ctx, w *LeanFile) error {
		p, err := c.Load("internal/qerr")
		if err != nil {
			return err
		}
		for _, n := range []string{"NoError", "InternalError", "ApplicationErrorErrorCode"} {
			if err := c.EmitIntConst(w, p, n, n); err != nil {
				return err
			}
		}
		// --- handleCloseError: labels of the switch clauses, in source order
		fset := token.NewFileSet()
		parse := func(rel string) (*ast.File, error) {
			return parser.ParseFile(fset, filepath.Join(c.Repo, rel), nil, 0)
		}
		cf, err := parse("connection.go")
		if err != nil {
			return err
		}
		fd := closeFindFunc(cf, "Conn", "handleCloseError")
		if fd == nil {
			return fmt.Errorf("connection.go: (*Conn).handleCloseError not found")
		}
		var sw *ast.SwitchStmt
		ast.Inspect(fd.Body, func(n ast.Node) bool {
			if s, ok := n.(*ast.SwitchStmt); ok && s.Tag == nil && sw == nil {
				sw = s
				return false
			}
			return true
		})
		if sw == nil {
			return fmt.Errorf("handleCloseError: classification switch not found")
		}
		var labels []string
		for _, st := range sw.Body.List {
			cc := st.(*ast.CaseClause)
			if cc.List == nil {
				labels = append(labels, "default")
				continue
			}
			var parts []string
			for _, e := range cc.List {
				parts = append(parts, closeExprLabel(e))
			}
			labels = append(labels, strings.Join(parts, "|"))
		}
		w.P("/-- connection.go handleCloseError: case clauses of the classification switch, in order -/")
		w.P("def closeSwitchOrder : List String := [%s]", closeQuoteJoin(labels))
		// the deferred call that must run last
		deferred := ""
		for _, st := range fd.Body.List {
			if d, ok := st.(*ast.DeferStmt); ok {
				if _, isLit := d.Call.Fun.(*ast.FuncLit); !isLit {
					deferred = closeExprLabel(d.Call.Fun)
				}
			}
		}
		w.P("/-- connection.go handleCloseError: the method deferred to run after the routing replacement -/")
		w.P("def closeDeferredLast : String := %q", deferred)

		// --- doDial (transport.go and u_transport.go): case <-ctx.Done() body
		for _, it := range []struct{ file, recv, lean string }{
			{"transport.go", "Transport", "doDialCancelShape"},
			{"u_transport.go", "UTransport", "uDoDialCancelShape"},
		} {
			f, err := parse(it.file)
			if err != nil {
				return err
			}
			dd := closeFindFunc(f, it.recv, "doDial")
			if dd == nil {
				return fmt.Errorf("%s: doDial not found", it.file)
			}
			shape, err := closeCancelShape(dd)
			if err != nil {
				return fmt.Errorf("%s: %v", it.file, err)
			}
			w.P("/-- %s doDial: statements of `case <-ctx.Done():` (calls, nested select receive channels, return) -/", it.file)
			w.P("def %s : List String := [%s]", it.lean, closeQuoteJoin(shape))
		}
		return nil
	})
}

func closeQuoteJoin(l []string) string {
	q := make([]string, len(l))
	for i, s := range l {
		q[i] = fmt.Sprintf("%q", s)
	}
	return strings.Join(q, ", ")
}

func closeFindFunc(f *ast.File, recv, name string) *ast.FuncDecl {
	for _, d := range f.Decls {
		fd, ok := d.(*ast.FuncDecl)
		if !ok || fd.Name.Name != name || fd.Recv == nil || len(fd.Recv.List) != 1 {
			continue
		}
		t := fd.Recv.List[0].Type
		if st, ok := t.(*ast.StarExpr); ok {
			t = st.X
		}
		if id, ok := t.(*ast.Ident); ok && id.Name == recv {
			return fd
		}
	}
	return nil
}

// closeExprLabel renders the few expression shapes we care about as short text.
func closeExprLabel(e ast.Expr) string {
	switch x := e.(type) {
	case *ast.Ident:
		return x.Name
	case *ast.SelectorExpr:
		return closeExprLabel(x.X) + "." + x.Sel.Name
	case *ast.UnaryExpr:
		return x.Op.String() + closeExprLabel(x.X)
	case *ast.BasicLit:
		return x.Value
	case *ast.CallExpr:
		var args []string
		for _, a := range x.Args {
			args = append(args, closeExprLabel(a))
		}
		return closeExprLabel(x.Fun) + "(" + strings.Join(args, ",") + ")"
	case *ast.ParenExpr:
		return "(" + closeExprLabel(x.X) + ")"
	}
	return fmt.Sprintf("%T", e)
}

func closeCancelShape(dd *ast.FuncDecl) ([]string, error) {
	var outer *ast.SelectStmt
	for _, st := range dd.Body.List {
		if s, ok := st.(*ast.SelectStmt); ok {
			outer = s
		}
	}
	if outer == nil {
		return nil, fmt.Errorf("doDial: top-level select not found")
	}
	for _, st := range outer.Body.List {
		cc := st.(*ast.CommClause)
		es, ok := cc.Comm.(*ast.ExprStmt)
		if !ok || closeExprLabel(es.X) != "<-ctx.Done()" {
			continue
		}
		var out []string
		for _, b := range cc.Body {
			switch s := b.(type) {
			case *ast.ExprStmt:
				out = append(out, "call:"+closeExprLabel(s.X))
			case *ast.SelectStmt:
				var chans []string
				for _, in := range s.Body.List {
					ic := in.(*ast.CommClause)
					if ic.Comm == nil {
						chans = append(chans, "default")
					} else if ie, ok := ic.Comm.(*ast.ExprStmt); ok {
						chans = append(chans, closeExprLabel(ie.X))
					} else {
						chans = append(chans, "?")
					}
					if len(ic.Body) != 0 {
						chans = append(chans, "body")
					}
				}
				out = append(out, "select:"+strings.Join(chans, ","))
			case *ast.ReturnStmt:
				var rs []string
				for _, r := range s.Results {
					rs = append(rs, closeExprLabel(r))
				}
				out = append(out, "return:"+strings.Join(rs, ","))
			default:
				out = append(out, fmt.Sprintf("stmt:%T", b))
			}
		}
		return out, nil
	}
	return nil, fmt.Errorf("doDial: case <-ctx.Done() not found")
}
