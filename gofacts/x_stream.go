package main

import (
	"fmt"
	"go/ast"
	"go/parser"
	"go/token"
	"path/filepath"
	"strconv"
)

// Facts for the stream data path (C01): varint length thresholds (quicvarint) and the datagram queue
// caps (root package). The root package is NOT type-checked (that would pull in the whole module);
// the two caps are plain integer literals in datagram_queue.go and are read from the AST — anything
// else than an integer literal is an error, so the dependent proofs break visibly.
func init() {
	register("Stream", func(c *Ctx, w *LeanFile) error {
		p, err := c.Load("quicvarint")
		if err != nil {
			return err
		}
		for _, n := range []string{"maxVarInt1", "maxVarInt2", "maxVarInt4", "maxVarInt8"} {
			if err := c.EmitIntConst(w, p, n, n); err != nil {
				return err
			}
		}
		file := filepath.Join(c.Repo, "datagram_queue.go")
		af, err := parser.ParseFile(c.Fset, file, nil, 0)
		if err != nil {
			return err
		}
		want := map[string]bool{"maxDatagramSendQueueLen": false, "maxDatagramRcvQueueLen": false}
		for _, d := range af.Decls {
			gd, ok := d.(*ast.GenDecl)
			if !ok || gd.Tok != token.CONST {
				continue
			}
			for _, sp := range gd.Specs {
				vs := sp.(*ast.ValueSpec)
				for i, id := range vs.Names {
					if _, ok := want[id.Name]; !ok || i >= len(vs.Values) {
						continue
					}
					lit, ok := vs.Values[i].(*ast.BasicLit)
					if !ok || lit.Kind != token.INT {
						return fmt.Errorf("datagram_queue.go: %s is not an integer literal", id.Name)
					}
					v, err := strconv.ParseInt(lit.Value, 0, 64)
					if err != nil {
						return err
					}
					w.P("/-- datagram_queue.go `%s` -/", id.Name)
					w.P("def %s : Int := %d", id.Name, v)
					want[id.Name] = true
				}
			}
		}
		for n, ok := range want {
			if !ok {
				return fmt.Errorf("datagram_queue.go: constant %s not found", n)
			}
		}
		return nil
	})
}
