package main

// A small symbolic walker over function bodies, shared by the Dial, H3 and H3Fields extractors. It lets a shape fact
// be decided on WHAT a piece of glue code does instead of on how it is spelled:
//
//   - calls of same-package helper functions / methods are followed: the helper's body is walked with its
//     parameters (and receiver) bound to the caller's argument expressions, so "inline" and "extracted into a helper"
//     look the same, whatever the helper or its parameters are called;
//   - conditions that are decidable under the assumptions of the question (a boolean parameter fixed to true/false,
//     `<spec> == nil`, …) select one branch, so `if a {X} else {Y}`, `if !a {Y} else {X}` and
//     `if !a {Y; return}; X` are the same;
//   - a `return` ends the function being walked (a helper's early return does not end its caller).
//
// Two clients:
//   walk      reports every call expression that may be executed, in order, with the callee and the arguments
//             rewritten into the root function's terms (H3: which flag is test-and-set, which code closes the
//             connection; H3Fields: which code resets the stream, is a 431 written).
//   residual  partially evaluates the top-level statement list of a function under the assumptions and replaces a
//             call of a helper that reduces to a single `return <expr>` by that expression (Dial: is
//             UTransport.doDial without a spec statement-for-statement Transport.doDial).

import (
	"go/ast"
	"go/token"
	"strconv"
)

type symEnv map[string]ast.Expr

func (e symEnv) clone() symEnv {
	c := make(symEnv, len(e))
	for k, v := range e {
		c[k] = v
	}
	return c
}

// mergeEnv keeps the bindings on which both environments agree.
func mergeEnv(a, b symEnv) symEnv {
	out := symEnv{}
	for k, v := range a {
		if w, ok := b[k]; ok && w == v {
			out[k] = v
		}
	}
	return out
}

// subst rewrites e with every bound identifier replaced by its binding (bindings are already in root terms and are
// not rewritten again). Selector field names, composite-literal keys and function-literal bodies are left alone.
func subst(e ast.Expr, env symEnv) ast.Expr {
	if e == nil || len(env) == 0 {
		return e
	}
	switch x := e.(type) {
	case *ast.Ident:
		if v, ok := env[x.Name]; ok {
			return v
		}
		return x
	case *ast.ParenExpr:
		return &ast.ParenExpr{X: subst(x.X, env)}
	case *ast.SelectorExpr:
		return &ast.SelectorExpr{X: subst(x.X, env), Sel: x.Sel}
	case *ast.StarExpr:
		return &ast.StarExpr{X: subst(x.X, env)}
	case *ast.UnaryExpr:
		return &ast.UnaryExpr{Op: x.Op, X: subst(x.X, env)}
	case *ast.BinaryExpr:
		return &ast.BinaryExpr{X: subst(x.X, env), Op: x.Op, Y: subst(x.Y, env)}
	case *ast.IndexExpr:
		return &ast.IndexExpr{X: subst(x.X, env), Index: subst(x.Index, env)}
	case *ast.SliceExpr:
		return &ast.SliceExpr{X: subst(x.X, env), Low: subst(x.Low, env), High: subst(x.High, env), Max: subst(x.Max, env), Slice3: x.Slice3}
	case *ast.TypeAssertExpr:
		return &ast.TypeAssertExpr{X: subst(x.X, env), Type: x.Type}
	case *ast.CallExpr:
		c := &ast.CallExpr{Fun: subst(x.Fun, env), Ellipsis: x.Ellipsis}
		for _, a := range x.Args {
			c.Args = append(c.Args, subst(a, env))
		}
		return c
	case *ast.KeyValueExpr:
		return &ast.KeyValueExpr{Key: x.Key, Value: subst(x.Value, env)}
	case *ast.CompositeLit:
		c := &ast.CompositeLit{Type: x.Type}
		for _, el := range x.Elts {
			c.Elts = append(c.Elts, subst(el, env))
		}
		return c
	}
	return e
}

// symWalker: see the file comment. helper resolves a call to a same-package function (nil: not followed); atom
// decides an atomic condition (already rewritten into root terms) under the question's assumptions.
type symWalker struct {
	helper   func(*ast.CallExpr) *fnBody
	atom     func(ast.Expr) (val, known bool)
	onCall   func(orig, resolved *ast.CallExpr, depth int) (descend bool)
	maxDepth int
	stack    map[string]bool
}

func hasCall(e ast.Expr) bool {
	found := false
	ast.Inspect(e, func(n ast.Node) bool {
		if _, ok := n.(*ast.CallExpr); ok {
			found = true
		}
		return !found
	})
	return found
}

// decide evaluates a (rewritten) condition: literal true/false, the walker's atoms, !, &&, ||. An operand that is
// skipped by short-circuiting on the operand to its RIGHT must be free of calls.
func (w *symWalker) decide(c ast.Expr) (val, known bool) {
	switch x := c.(type) {
	case *ast.ParenExpr:
		return w.decide(x.X)
	case *ast.Ident:
		if x.Name == "true" {
			return true, true
		}
		if x.Name == "false" {
			return false, true
		}
	case *ast.UnaryExpr:
		if x.Op == token.NOT {
			v, k := w.decide(x.X)
			return !v, k
		}
	case *ast.BinaryExpr:
		if x.Op == token.LAND || x.Op == token.LOR {
			lv, lk := w.decide(x.X)
			rv, rk := w.decide(x.Y)
			absorbing := x.Op == token.LOR // the value that decides the operator on its own
			if lk && lv == absorbing {
				return absorbing, true
			}
			if rk && rv == absorbing && !hasCall(x.X) {
				return absorbing, true
			}
			if lk && rk {
				return !absorbing, true
			}
			return false, false
		}
	}
	if v, k := litCompare(c); k {
		return v, true
	}
	if w.atom != nil {
		return w.atom(c)
	}
	return false, false
}

// litCompare decides a comparison of two integer literals (after substitution of locals known to be constant).
func litCompare(c ast.Expr) (val, known bool) {
	b, ok := c.(*ast.BinaryExpr)
	if !ok {
		return false, false
	}
	lit := func(e ast.Expr) (int64, bool) {
		for {
			pe, ok := e.(*ast.ParenExpr)
			if !ok {
				break
			}
			e = pe.X
		}
		bl, ok := e.(*ast.BasicLit)
		if !ok || bl.Kind != token.INT {
			return 0, false
		}
		v, err := strconv.ParseInt(bl.Value, 0, 64)
		return v, err == nil
	}
	x, ok1 := lit(b.X)
	y, ok2 := lit(b.Y)
	if !ok1 || !ok2 {
		return false, false
	}
	switch b.Op {
	case token.EQL:
		return x == y, true
	case token.NEQ:
		return x != y, true
	case token.LSS:
		return x < y, true
	case token.LEQ:
		return x <= y, true
	case token.GTR:
		return x > y, true
	case token.GEQ:
		return x >= y, true
	}
	return false, false
}

// zeroOfBasic: the zero literal of a predeclared integer / bool type name (nil for anything else).
func zeroOfBasic(t ast.Expr) ast.Expr {
	id, ok := t.(*ast.Ident)
	if !ok {
		return nil
	}
	switch id.Name {
	case "int", "int8", "int16", "int32", "int64", "uint", "uint8", "uint16", "uint32", "uint64", "byte":
		return &ast.BasicLit{Kind: token.INT, Value: "0"}
	case "bool":
		return ast.NewIdent("false")
	}
	return nil
}

// bind builds the environment of a helper's body for one call (already rewritten into root terms).
func bindHelper(h *fnBody, resolved *ast.CallExpr) symEnv {
	env := symEnv{}
	variadic := false
	if h.typ.Params != nil {
		for _, f := range h.typ.Params.List {
			if _, ok := f.Type.(*ast.Ellipsis); ok {
				variadic = true
			}
		}
	}
	for i, p := range h.params {
		if p == "" || p == "_" || i >= len(resolved.Args) {
			continue
		}
		if variadic && i == len(h.params)-1 {
			continue
		}
		env[p] = resolved.Args[i]
	}
	if h.recv != nil && len(h.recv.List) == 1 && len(h.recv.List[0].Names) == 1 {
		if sel, ok := resolved.Fun.(*ast.SelectorExpr); ok {
			if n := h.recv.List[0].Names[0].Name; n != "_" {
				env[n] = sel.X
			}
		}
	}
	return env
}

// expr reports the calls below e (function literals are treated as executed in place) and follows helpers.
func (w *symWalker) expr(e ast.Node, env symEnv, depth int) {
	if e == nil {
		return
	}
	ast.Inspect(e, func(n ast.Node) bool {
		switch x := n.(type) {
		case *ast.FuncLit:
			w.walk(x.Body.List, env.clone(), depth)
			return false
		case *ast.CallExpr:
			resolved := subst(x, env).(*ast.CallExpr)
			descend := true
			if w.onCall != nil {
				descend = w.onCall(x, resolved, depth)
			}
			if !descend || depth >= w.maxDepth || w.helper == nil {
				return true
			}
			if h := w.helper(x); h != nil && !w.stack[h.name] {
				w.stack[h.name] = true
				w.walk(h.body.List, bindHelper(h, resolved), depth+1)
				delete(w.stack, h.name)
			}
		}
		return true
	})
}

func assignedNames(n ast.Node) []string {
	var out []string
	ast.Inspect(n, func(x ast.Node) bool {
		switch s := x.(type) {
		case *ast.AssignStmt:
			for _, l := range s.Lhs {
				if id, ok := l.(*ast.Ident); ok {
					out = append(out, id.Name)
				}
			}
		case *ast.IncDecStmt:
			if id, ok := s.X.(*ast.Ident); ok {
				out = append(out, id.Name)
			}
		case *ast.RangeStmt:
			for _, l := range []ast.Expr{s.Key, s.Value} {
				if id, ok := l.(*ast.Ident); ok {
					out = append(out, id.Name)
				}
			}
		}
		return true
	})
	return out
}

// walk executes stmts symbolically; it returns true iff every path through them ends in a return. env is updated in
// place (straight-line `x := e` / `x = e` bindings of locals; forgotten where paths disagree).
func (w *symWalker) walk(stmts []ast.Stmt, env symEnv, depth int) bool {
	if w.stack == nil {
		w.stack = map[string]bool{}
	}
	for _, st := range stmts {
		switch s := st.(type) {
		case *ast.ExprStmt:
			w.expr(s.X, env, depth)
		case *ast.AssignStmt:
			for _, r := range s.Rhs {
				w.expr(r, env, depth)
			}
			for _, l := range s.Lhs {
				if _, ok := l.(*ast.Ident); !ok {
					w.expr(l, env, depth)
				}
			}
			if len(s.Lhs) == len(s.Rhs) && (s.Tok == token.DEFINE || s.Tok == token.ASSIGN) {
				vals := make([]ast.Expr, len(s.Rhs))
				for i, r := range s.Rhs {
					vals[i] = subst(r, env)
				}
				for i, l := range s.Lhs {
					if id, ok := l.(*ast.Ident); ok && id.Name != "_" {
						env[id.Name] = vals[i]
					}
				}
			} else {
				for _, l := range s.Lhs {
					if id, ok := l.(*ast.Ident); ok {
						// an unknown value: bind the name to itself so that an outer binding of the same name is hidden
						env[id.Name] = id
					}
				}
			}
		case *ast.DeclStmt:
			if gd, ok := s.Decl.(*ast.GenDecl); ok && gd.Tok == token.VAR {
				for _, sp := range gd.Specs {
					vs, ok := sp.(*ast.ValueSpec)
					if !ok {
						continue
					}
					for _, v := range vs.Values {
						w.expr(v, env, depth)
					}
					for i, n := range vs.Names {
						if len(vs.Values) == len(vs.Names) {
							env[n.Name] = subst(vs.Values[i], env)
						} else {
							env[n.Name] = n
						}
					}
				}
			}
		case *ast.BlockStmt:
			if w.walk(s.List, env, depth) {
				return true
			}
		case *ast.ReturnStmt:
			for _, r := range s.Results {
				w.expr(r, env, depth)
			}
			return true
		case *ast.IfStmt:
			if s.Init != nil {
				w.walk([]ast.Stmt{s.Init}, env, depth)
			}
			w.expr(s.Cond, env, depth)
			var els []ast.Stmt
			if s.Else != nil {
				els = []ast.Stmt{s.Else}
			}
			if v, known := w.decide(subst(s.Cond, env)); known {
				taken := s.Body.List
				if !v {
					taken = els
				}
				if w.walk(taken, env, depth) {
					return true
				}
				continue
			}
			e1, e2 := env.clone(), env.clone()
			t1 := w.walk(s.Body.List, e1, depth)
			t2 := w.walk(els, e2, depth)
			if t1 && t2 {
				return true
			}
			var m symEnv
			switch {
			case t1:
				m = e2
			case t2:
				m = e1
			default:
				m = mergeEnv(e1, e2)
			}
			for k := range env {
				delete(env, k)
			}
			for k, v := range m {
				env[k] = v
			}
		case *ast.DeferStmt:
			w.expr(s.Call, env, depth)
		case *ast.GoStmt:
			w.expr(s.Call, env, depth)
		default:
			// loops, switches, selects, …: every call inside may run; locals assigned inside become unknown
			names := assignedNames(st)
			for _, n := range names {
				delete(env, n)
			}
			w.expr(st, env, depth)
			for _, n := range names {
				delete(env, n)
			}
		}
	}
	return false
}

// ---- residual ---------------------------------------------------------------------------------------------------

// residual partially evaluates the statement list of a function body under the walker's assumptions:
//   - `if <decidable> {A} else {B}` (no init) is replaced by the statements of the branch taken; a residual that
//     reaches a `return` stops there;
//   - `x := <alias>` where aliasOK(<rhs>) holds is recorded in env and dropped (e.g. `spec := t.QUICSpec`);
//   - `var x T` without a value is dropped and `:=` is turned into `=` (so `var x T; if … {x = f()}` and `x := f()`
//     coincide);
//   - an assignment / return whose single right-hand side calls a same-package helper whose own residual is the
//     single statement `return <exprs>` gets that call replaced by <exprs> (in the caller's terms).
//
// Everything else is kept as it is. ok=false when the statement list cannot be handled (never happens for plain
// statement lists; kept for future restrictions).
func (w *symWalker) residual(stmts []ast.Stmt, env symEnv, aliasOK func(ast.Expr) bool, depth int) (out []ast.Stmt, terminated bool) {
	if w.stack == nil {
		w.stack = map[string]bool{}
	}
	inlineCall := func(e ast.Expr) []ast.Expr {
		call, ok := e.(*ast.CallExpr)
		if !ok || depth >= w.maxDepth || w.helper == nil {
			return nil
		}
		h := w.helper(call)
		if h == nil || w.stack[h.name] {
			return nil
		}
		resolved := subst(call, env).(*ast.CallExpr)
		if !plainArgs(resolved.Args) {
			return nil
		}
		henv := bindHelper(h, resolved)
		w.stack[h.name] = true
		body, _ := w.residual(h.body.List, henv, aliasOK, depth+1)
		delete(w.stack, h.name)
		if len(body) != 1 {
			return nil
		}
		rs, ok := body[0].(*ast.ReturnStmt)
		if !ok || len(rs.Results) == 0 {
			return nil
		}
		var res []ast.Expr
		for _, r := range rs.Results {
			res = append(res, subst(r, henv))
		}
		return res
	}
	// a statement that is kept may assign locals the environment knows a value of: forget those (also when their
	// address is taken)
	forget := func(st ast.Stmt) {
		for _, n := range assignedNames(st) {
			delete(env, n)
		}
		ast.Inspect(st, func(x ast.Node) bool {
			if u, ok := x.(*ast.UnaryExpr); ok && u.Op == token.AND {
				if id, ok := u.X.(*ast.Ident); ok {
					delete(env, id.Name)
				}
			}
			return true
		})
	}
	for _, st := range stmts {
		switch s := st.(type) {
		case *ast.DeclStmt:
			if gd, ok := s.Decl.(*ast.GenDecl); ok && gd.Tok == token.VAR {
				novals := true
				for _, sp := range gd.Specs {
					if vs, ok := sp.(*ast.ValueSpec); !ok || len(vs.Values) != 0 {
						novals = false
					}
				}
				if novals {
					// a local of a predeclared integer / bool type is known to be 0 / false until something assigns it
					for _, sp := range gd.Specs {
						vs := sp.(*ast.ValueSpec)
						for _, n := range vs.Names {
							if z := zeroOfBasic(vs.Type); z != nil {
								env[n.Name] = z
							} else {
								delete(env, n.Name)
							}
						}
					}
					continue
				}
			}
			forget(st)
			out = append(out, st)
		case *ast.IfStmt:
			if s.Init == nil {
				if v, known := w.decide(subst(s.Cond, env)); known {
					var taken []ast.Stmt
					if v {
						taken = s.Body.List
					} else if s.Else != nil {
						if eb, ok := s.Else.(*ast.BlockStmt); ok {
							taken = eb.List
						} else {
							taken = []ast.Stmt{s.Else}
						}
					}
					sub, term := w.residual(taken, env, aliasOK, depth)
					out = append(out, sub...)
					if term {
						return out, true
					}
					continue
				}
			}
			forget(st)
			out = append(out, st)
		case *ast.AssignStmt:
			if s.Tok == token.DEFINE && len(s.Lhs) == 1 && len(s.Rhs) == 1 && aliasOK != nil && aliasOK(subst(s.Rhs[0], env)) {
				if id, ok := s.Lhs[0].(*ast.Ident); ok {
					env[id.Name] = subst(s.Rhs[0], env)
					continue
				}
			}
			n := &ast.AssignStmt{Lhs: s.Lhs, Tok: s.Tok, Rhs: s.Rhs}
			if n.Tok == token.DEFINE {
				n.Tok = token.ASSIGN
			}
			if len(s.Rhs) == 1 {
				if res := inlineCall(s.Rhs[0]); res != nil && (len(res) == len(s.Lhs) || len(res) == 1) {
					n.Rhs = res
				}
			}
			forget(st)
			out = append(out, n)
		case *ast.ReturnStmt:
			n := &ast.ReturnStmt{Results: s.Results}
			if len(s.Results) == 1 {
				if res := inlineCall(s.Results[0]); res != nil {
					n.Results = res
				}
			}
			out = append(out, n)
			return out, true
		default:
			forget(st)
			out = append(out, st)
		}
	}
	return out, false
}
