package main

// Helper of the Dial extractor (property C02): is a statement of UTransport.dial INERT when the transport has no spec
// (`<recv>.QUICSpec == nil`)? The question is asked semantically — not "is the statement spelled
// `if t.QUICSpec != nil {…}`" — so that extracting the spec-application steps into same-package helper methods, early
// returns, aliases of the spec pointer and renamed locals do not change the answer:
//
//   - `if <spec> != nil { … }` without else                                          (the inlined form)
//   - `var x T`                                                                     (x is the zero value)
//   - `<recv>.helper(<plain args>)` / `x, y := <recv>.helper(<plain args>)` where the helper is a method of the
//     same receiver type in the same package whose body, under a nil spec, does nothing but return zero literals
//     (helperNilReturn): x, y are then zero values
//   - `if x != nil { return … }` directly after such a call, x being one of its (zero) results
//
// <spec> is `<recv>.QUICSpec` or a local that was defined as `:= <recv>.QUICSpec`.

import (
	"go/ast"
	"go/token"
)

type nilSpecEnv struct {
	fset    *token.FileSet
	p       *Pkg
	recvTyp string          // "UTransport"
	recv    string          // the receiver's name in the function under analysis
	aliases map[string]bool // locals equal to <recv>.QUICSpec
	zero    map[string]bool // locals that hold a zero value when the spec is nil
	lastDef map[string]bool // the zero locals defined by the immediately preceding statement
}

func newNilSpecEnv(fset *token.FileSet, p *Pkg, recvTyp string, fd *ast.FuncDecl) *nilSpecEnv {
	return &nilSpecEnv{fset: fset, p: p, recvTyp: recvTyp, recv: recvName(fd), aliases: map[string]bool{}, zero: map[string]bool{}, lastDef: map[string]bool{}}
}

func (e *nilSpecEnv) isSpec(x ast.Expr) bool {
	switch v := x.(type) {
	case *ast.ParenExpr:
		return e.isSpec(v.X)
	case *ast.Ident:
		return e.aliases[v.Name]
	case *ast.SelectorExpr:
		id, ok := v.X.(*ast.Ident)
		return ok && e.recv != "" && id.Name == e.recv && v.Sel.Name == "QUICSpec"
	}
	return false
}

func isNilIdent(x ast.Expr) bool {
	id, ok := x.(*ast.Ident)
	return ok && id.Name == "nil"
}

// specCmp: cond is `<spec> == nil` (→ token.EQL) or `<spec> != nil` (→ token.NEQ), in either operand order.
func (e *nilSpecEnv) specCmp(cond ast.Expr) (token.Token, bool) {
	if p, ok := cond.(*ast.ParenExpr); ok {
		return e.specCmp(p.X)
	}
	b, ok := cond.(*ast.BinaryExpr)
	if !ok || (b.Op != token.EQL && b.Op != token.NEQ) {
		return 0, false
	}
	if (e.isSpec(b.X) && isNilIdent(b.Y)) || (e.isSpec(b.Y) && isNilIdent(b.X)) {
		return b.Op, true
	}
	return 0, false
}

// isGuard: `if <spec> != nil { … }` without init and without else.
func (e *nilSpecEnv) isGuard(st ast.Stmt) bool {
	is, ok := st.(*ast.IfStmt)
	if !ok || is.Init != nil || is.Else != nil {
		return false
	}
	op, ok := e.specCmp(is.Cond)
	return ok && op == token.NEQ
}

func isZeroLit(x ast.Expr) bool {
	switch v := x.(type) {
	case *ast.ParenExpr:
		return isZeroLit(v.X)
	case *ast.Ident:
		return v.Name == "nil" || v.Name == "false"
	case *ast.BasicLit:
		return v.Value == "0" || v.Value == `""` || v.Value == "0x0" || v.Value == "0.0"
	}
	return false
}

// plainArgs: identifiers / selector chains / literals only (evaluating them has no effect).
func plainArgs(args []ast.Expr) bool {
	for _, a := range args {
		switch v := a.(type) {
		case *ast.Ident, *ast.BasicLit:
		case *ast.SelectorExpr:
			if rootIdent(v) == "" {
				return false
			}
		default:
			return false
		}
	}
	return true
}

// helperOf: st calls a method of the receiver (`<recv>.name(...)`) that is declared in this package on recvTyp.
func (e *nilSpecEnv) helperOf(call *ast.CallExpr) *ast.FuncDecl {
	sel, ok := call.Fun.(*ast.SelectorExpr)
	if !ok {
		return nil
	}
	id, ok := sel.X.(*ast.Ident)
	if !ok || id.Name != e.recv || !plainArgs(call.Args) {
		return nil
	}
	fd := e.p.FuncDecl(e.recvTyp, sel.Sel.Name)
	if fd == nil || fd.Body == nil {
		return nil
	}
	return fd
}

// helperNilReturn: what the helper does when the spec is nil. ok: it only returns, and every result is a zero literal;
// nres is the number of results.
func (e *nilSpecEnv) helperNilReturn(fd *ast.FuncDecl, depth int) (nres int, ok bool) {
	if depth > 3 {
		return 0, false
	}
	if fd.Recv == nil {
		return 0, false
	}
	h := newNilSpecEnv(e.fset, e.p, e.recvTyp, fd)
	if h.recv == "" {
		return 0, false
	}
	want := 0
	if fd.Type.Results != nil {
		for _, f := range fd.Type.Results.List {
			want += max(len(f.Names), 1)
		}
	}
	ret := func(rs *ast.ReturnStmt) (int, bool) {
		if len(rs.Results) != want {
			return 0, false // naked return of named results, or a forwarded call: not followed
		}
		for _, r := range rs.Results {
			if !isZeroLit(r) {
				return 0, false
			}
		}
		return want, true
	}
	for _, st := range fd.Body.List {
		switch s := st.(type) {
		case *ast.AssignStmt:
			if s.Tok == token.DEFINE && len(s.Lhs) == 1 && len(s.Rhs) == 1 && h.isSpec(s.Rhs[0]) {
				if id, ok := s.Lhs[0].(*ast.Ident); ok {
					h.aliases[id.Name] = true
					continue
				}
			}
			return 0, false
		case *ast.IfStmt:
			if s.Init != nil {
				return 0, false
			}
			op, isCmp := h.specCmp(s.Cond)
			if !isCmp {
				return 0, false
			}
			if op == token.NEQ {
				if s.Else == nil {
					continue // skipped when the spec is nil
				}
				eb, ok := s.Else.(*ast.BlockStmt)
				if !ok || len(eb.List) != 1 {
					return 0, false
				}
				rs, ok := eb.List[0].(*ast.ReturnStmt)
				if !ok {
					return 0, false
				}
				return ret(rs)
			}
			// `if <spec> == nil { return <zeros> }`
			if len(s.Body.List) != 1 {
				return 0, false
			}
			rs, ok := s.Body.List[0].(*ast.ReturnStmt)
			if !ok {
				return 0, false
			}
			return ret(rs)
		case *ast.ReturnStmt:
			return ret(s)
		case *ast.ExprStmt:
			call, ok := s.X.(*ast.CallExpr)
			if !ok {
				return 0, false
			}
			inner := h.helperOf(call)
			if inner == nil {
				return 0, false
			}
			if _, ok := h.helperNilReturn(inner, depth+1); !ok {
				return 0, false
			}
		default:
			return 0, false
		}
	}
	return 0, want == 0
}

// inert: st does nothing when the spec is nil (see the file comment); updates the zero-valued locals. Must be called
// for the statements of the function in order (`if x != nil {return}` is only inert right after the call defining x).
func (e *nilSpecEnv) inert(st ast.Stmt) bool {
	last := e.lastDef
	e.lastDef = map[string]bool{}
	if e.isGuard(st) {
		return true
	}
	switch s := st.(type) {
	case *ast.DeclStmt:
		gd, ok := s.Decl.(*ast.GenDecl)
		if !ok || gd.Tok != token.VAR {
			return false
		}
		for _, sp := range gd.Specs {
			vs, ok := sp.(*ast.ValueSpec)
			if !ok || len(vs.Values) != 0 {
				return false
			}
		}
		for _, sp := range gd.Specs {
			for _, n := range sp.(*ast.ValueSpec).Names {
				e.zero[n.Name] = true
			}
		}
		return true
	case *ast.ExprStmt:
		call, ok := s.X.(*ast.CallExpr)
		if !ok {
			return false
		}
		fd := e.helperOf(call)
		if fd == nil {
			return false
		}
		_, ok = e.helperNilReturn(fd, 0)
		return ok
	case *ast.AssignStmt:
		if len(s.Rhs) != 1 {
			return false
		}
		if s.Tok == token.DEFINE && len(s.Lhs) == 1 && e.isSpec(s.Rhs[0]) {
			if id, ok := s.Lhs[0].(*ast.Ident); ok {
				e.aliases[id.Name] = true
				return true
			}
		}
		call, ok := s.Rhs[0].(*ast.CallExpr)
		if !ok {
			return false
		}
		fd := e.helperOf(call)
		if fd == nil {
			return false
		}
		n, ok := e.helperNilReturn(fd, 0)
		if !ok || n != len(s.Lhs) {
			return false
		}
		for _, l := range s.Lhs {
			id, ok := l.(*ast.Ident)
			if !ok {
				return false
			}
			if id.Name != "_" {
				e.zero[id.Name] = true
				e.lastDef[id.Name] = true
			}
		}
		return true
	case *ast.IfStmt:
		// error propagation of a helper's (nil) error
		if s.Init != nil || s.Else != nil {
			return false
		}
		b, ok := s.Cond.(*ast.BinaryExpr)
		if !ok || b.Op != token.NEQ || !isNilIdent(b.Y) {
			return false
		}
		id, ok := b.X.(*ast.Ident)
		return ok && last[id.Name]
	}
	return false
}

// assignedOutside: is the local `name` assigned (= or :=, ++/--) by any statement of body other than the ones in skip?
func assignedOutside(body []ast.Stmt, skip map[ast.Stmt]bool, name string) bool {
	found := false
	for _, st := range body {
		if skip[st] {
			continue
		}
		ast.Inspect(st, func(n ast.Node) bool {
			switch s := n.(type) {
			case *ast.AssignStmt:
				for _, l := range s.Lhs {
					if id, ok := l.(*ast.Ident); ok && id.Name == name {
						found = true
					}
				}
			case *ast.IncDecStmt:
				if id, ok := s.X.(*ast.Ident); ok && id.Name == name {
					found = true
				}
			case *ast.UnaryExpr:
				if id, ok := s.X.(*ast.Ident); ok && s.Op == token.AND && id.Name == name {
					found = true // address taken
				}
			}
			return true
		})
	}
	return found
}
