package main

import (
	"fmt"
	"go/ast"
	"go/constant"
	"go/parser"
	"go/token"
	"path/filepath"
	"strings"
)

// Facts for the flow-control model (property C04) -> Uquic.Gen.Flowcontrol.
//
//   - the two non-integer tuning constants as exact rationals (numerator / denominator),
//   - the integer literals of baseFlowController.maybeAdjustWindowSize (4*fraction*rtt, 2*size, size/2),
//   - shape facts: the comparison operators of the window checks, whether the connection's
//     allowWindowIncrease callback is nil-guarded in each of its two call sites, and whether
//     connection.go hands a function literal (never nil) to NewConnectionFlowController.
func init() {
	register("Flowcontrol", func(c *Ctx, w *LeanFile) error {
		pp, err := c.Load("internal/protocol")
		if err != nil {
			return err
		}
		for _, n := range []string{"WindowUpdateThreshold", "ConnectionFlowControlMultiplier"} {
			if err := c.EmitRatConst(w, pp, n); err != nil {
				return err
			}
		}
		if err := c.EmitIntConst(w, pp, "MaxByteCount", "MaxByteCount"); err != nil {
			return err
		}

		// literals + shapes are syntactic: parse the three files only
		dir := filepath.Join(c.Repo, "internal/flowcontrol")
		parse := func(name string) (*ast.File, error) {
			return parser.ParseFile(c.Fset, filepath.Join(dir, name), nil, 0)
		}
		base, err := parse("base_flow_controller.go")
		if err != nil {
			return err
		}
		connf, err := parse("connection_flow_controller.go")
		if err != nil {
			return err
		}
		adj := findMethod(base, "maybeAdjustWindowSize")
		if adj == nil {
			return fmt.Errorf("baseFlowController.maybeAdjustWindowSize not found")
		}
		// 4*fraction*float64(rtt)
		var rttFactor, growFactor, halfDiv string
		var cmpOp string
		ast.Inspect(adj, func(n ast.Node) bool {
			be, ok := n.(*ast.BinaryExpr)
			if !ok {
				return true
			}
			if lit, ok := be.X.(*ast.BasicLit); ok && lit.Kind == token.INT && be.Op == token.MUL {
				switch exprText(be.Y) {
				case "fraction":
					rttFactor = lit.Value
				case "c.receiveWindowSize":
					growFactor = lit.Value
				}
			}
			if lit, ok := be.Y.(*ast.BasicLit); ok && lit.Kind == token.INT && be.Op == token.QUO && exprText(be.X) == "c.receiveWindowSize" {
				halfDiv = lit.Value
			}
			if strings.HasPrefix(exprText(be.X), "now.Sub(") && strings.HasPrefix(exprText(be.Y), "time.Duration(") {
				cmpOp = be.Op.String()
			}
			return true
		})
		if rttFactor == "" || growFactor == "" || halfDiv == "" || cmpCode(cmpOp) < 0 {
			return fmt.Errorf("maybeAdjustWindowSize no longer has the shape `bytesReadInEpoch <= size/K`, `now.Sub(start) < time.Duration(F*fraction*float64(rtt))`, `min(G*size, max)` (got F=%q G=%q K=%q op=%q)", rttFactor, growFactor, halfDiv, cmpOp)
		}
		w.P("/-- internal/flowcontrol/base_flow_controller.go `maybeAdjustWindowSize`: F in `F*fraction*float64(rtt)` -/")
		w.P("def autoTuneRttFactor : Int := %s", rttFactor)
		w.P("/-- internal/flowcontrol/base_flow_controller.go `maybeAdjustWindowSize`: G in `min(G*c.receiveWindowSize, max)` -/")
		w.P("def autoTuneGrowFactor : Int := %s", growFactor)
		w.P("/-- internal/flowcontrol/base_flow_controller.go `maybeAdjustWindowSize`: K in `bytesReadInEpoch <= c.receiveWindowSize/K` -/")
		w.P("def autoTuneMinConsumedDivisor : Int := %s", halfDiv)
		w.P("/-- operator of `now.Sub(c.epochStartTime) ? time.Duration(...)`: `%s` (codes: 0 `<`, 1 `<=`, 2 `>`, 3 `>=`, 4 `==`, 5 `!=`) -/", cmpOp)
		w.P("def autoTuneCmpOp : Nat := %d", cmpCode(cmpOp))

		// comparison operators of the single-expression checks
		ops := []struct{ file *ast.File; fn, lean string }{
			{base, "checkFlowControlViolation", "violationCmpOp"},
			{base, "hasWindowUpdate", "hasWindowUpdateCmpOp"},
		}
		for _, o := range ops {
			fd := findMethod(o.file, o.fn)
			if fd == nil {
				return fmt.Errorf("%s not found", o.fn)
			}
			op := ""
			ast.Inspect(fd, func(n ast.Node) bool {
				if rs, ok := n.(*ast.ReturnStmt); ok && len(rs.Results) == 1 {
					if be, ok := rs.Results[0].(*ast.BinaryExpr); ok {
						op = be.Op.String()
					}
				}
				return true
			})
			if cmpCode(op) < 0 {
				return fmt.Errorf("%s no longer returns a single comparison", o.fn)
			}
			w.P("/-- internal/flowcontrol/base_flow_controller.go `%s` returns `<left> %s <right>` (codes: 0 `<`, 1 `<=`, 2 `>`, 3 `>=`, 4 `==`, 5 `!=`) -/", o.fn, op)
			w.P("def %s : Nat := %d", o.lean, cmpCode(op))
		}

		// nil guards of the allowWindowIncrease callback
		guard := func(f *ast.File, fn string) (calls int, guarded int) {
			fd := findMethod(f, fn)
			if fd == nil {
				return 0, 0
			}
			ast.Inspect(fd, func(n ast.Node) bool {
				be, ok := n.(*ast.BinaryExpr)
				if !ok {
					return true
				}
				// `c.allowWindowIncrease == nil || c.allowWindowIncrease(x)` is the guarded form
				if be.Op == token.LOR && strings.Contains(exprText(be.X), "c.allowWindowIncrease == nil") && strings.HasPrefix(exprText(be.Y), "c.allowWindowIncrease(") {
					guarded++
				}
				return true
			})
			ast.Inspect(fd, func(n ast.Node) bool {
				if ce, ok := n.(*ast.CallExpr); ok && exprText(ce.Fun) == "c.allowWindowIncrease" {
					calls++
				}
				return true
			})
			return
		}
		ca, ga := guard(base, "maybeAdjustWindowSize")
		ce, ge := guard(connf, "EnsureMinimumWindowSize")
		if ca != 1 || ce != 1 {
			return fmt.Errorf("expected exactly one allowWindowIncrease call in maybeAdjustWindowSize (%d) and EnsureMinimumWindowSize (%d)", ca, ce)
		}
		w.P("/-- `maybeAdjustWindowSize` calls `c.allowWindowIncrease` only behind `c.allowWindowIncrease == nil ||` -/")
		w.P("def adjustCallbackNilGuarded : Bool := %v", ga == 1)
		w.P("/-- `EnsureMinimumWindowSize` calls `c.allowWindowIncrease` only behind a nil check -/")
		w.P("def ensureMinCallbackNilGuarded : Bool := %v", ge == 1)

		// connection.go: NewConnectionFlowController(..., func literal, ...)
		cf, err := parser.ParseFile(c.Fset, filepath.Join(c.Repo, "connection.go"), nil, 0)
		if err != nil {
			return err
		}
		sites, lits := 0, 0
		ast.Inspect(cf, func(n ast.Node) bool {
			if ce, ok := n.(*ast.CallExpr); ok && exprText(ce.Fun) == "flowcontrol.NewConnectionFlowController" {
				sites++
				if len(ce.Args) >= 3 {
					if _, ok := ce.Args[2].(*ast.FuncLit); ok {
						lits++
					}
				}
			}
			return true
		})
		if sites == 0 {
			return fmt.Errorf("no call of flowcontrol.NewConnectionFlowController in connection.go")
		}
		w.P("/-- connection.go: every call of `flowcontrol.NewConnectionFlowController` passes a function literal as `allowWindowIncrease` -/")
		w.P("def connCallbackNeverNil : Bool := %v", sites == lits)
		return nil
	})
}

// EmitRatConst writes `<name>_num`, `<name>_den : Nat` for a (possibly non-integer) numeric constant.
func (c *Ctx) EmitRatConst(w *LeanFile, p *Pkg, goName string) error {
	v, _, pos, ok := p.Const(goName)
	if !ok {
		return fmt.Errorf("constant %s not found in %s", goName, p.Dir)
	}
	fv := constant.ToFloat(v)
	if fv.Kind() != constant.Float && fv.Kind() != constant.Int {
		return fmt.Errorf("constant %s is not numeric: %s", goName, v)
	}
	num, den := constant.Num(fv), constant.Denom(fv)
	if num.Kind() != constant.Int || den.Kind() != constant.Int || constant.Sign(num) < 0 || constant.Sign(den) <= 0 {
		return fmt.Errorf("constant %s has no exact non-negative rational value: %s", goName, v)
	}
	w.P("/-- %s `%s` = %s (exact value %s/%s) -/", c.pos(pos), goName, v.String(), num.ExactString(), den.ExactString())
	w.P("def %s_num : Nat := %s", goName, num.ExactString())
	w.P("def %s_den : Nat := %s", goName, den.ExactString())
	return nil
}

func cmpCode(op string) int {
	for i, o := range []string{"<", "<=", ">", ">=", "==", "!="} {
		if o == op {
			return i
		}
	}
	return -1
}

func findMethod(f *ast.File, name string) *ast.FuncDecl {
	for _, d := range f.Decls {
		if fd, ok := d.(*ast.FuncDecl); ok && fd.Name.Name == name && fd.Recv != nil {
			return fd
		}
	}
	return nil
}

// exprText renders a (small) expression in a canonical compact form.
func exprText(e ast.Expr) string {
	switch x := e.(type) {
	case *ast.Ident:
		return x.Name
	case *ast.BasicLit:
		return x.Value
	case *ast.SelectorExpr:
		return exprText(x.X) + "." + x.Sel.Name
	case *ast.ParenExpr:
		return "(" + exprText(x.X) + ")"
	case *ast.BinaryExpr:
		return exprText(x.X) + " " + x.Op.String() + " " + exprText(x.Y)
	case *ast.UnaryExpr:
		return x.Op.String() + exprText(x.X)
	case *ast.StarExpr:
		return "*" + exprText(x.X)
	case *ast.CallExpr:
		var as []string
		for _, a := range x.Args {
			as = append(as, exprText(a))
		}
		return exprText(x.Fun) + "(" + strings.Join(as, ", ") + ")"
	}
	return fmt.Sprintf("<%T>", e)
}
