package main

import (
	"fmt"
	"go/ast"
	"go/constant"
	"go/parser"
	"go/token"
	"path/filepath"
	"strings"
)

// Facts for the flow-control model (property C04) -> Uquic.Gen.Flowcontrol.
//
//   - the two non-integer tuning constants as exact rationals (numerator / denominator),
//   - the integer literals of baseFlowController.maybeAdjustWindowSize (4*fraction*rtt, 2*size, size/2),
//   - shape facts: the comparison operators of the window checks, whether the connection's
//     allowWindowIncrease callback is nil-guarded in each of its two call sites, and whether
//     connection.go hands a function literal (never nil) to NewConnectionFlowController.
func init() {
	register("Flowcontrol", func(c *Ctx, w *LeanFile) error {
		pp, err := c.Load("internal/protocol")
		if err != nil {
			return err
		}
		for _, n := range []string{"WindowUpdateThreshold", "ConnectionFlowControlMultiplier"} {
			if err := c.EmitRatConst(w, pp, n); err != nil {
				return err
			}
		}
		if err := c.EmitIntConst(w, pp, "MaxByteCount", "MaxByteCount"); err != nil {
			return err
		}

		// literals + shapes are syntactic: parse the three files only
		dir := filepath.Join(c.Repo, "internal/flowcontrol")
		parse := func(name string) (*ast.File, error) {
			return parser.ParseFile(c.Fset, filepath.Join(dir, name), nil, 0)
		}
		base, err := parse("base_flow_controller.go")
		if err != nil {
			return err
		}
		connf, err := parse("connection_flow_controller.go")
		if err != nil {
			return err
		}
		adj := findMethod(base, "maybeAdjustWindowSize")
		if adj == nil {
			return fmt.Errorf("baseFlowController.maybeAdjustWindowSize not found")
		}
		// 4*fraction*float64(rtt)
		var rttFactor, growFactor, halfDiv string
		var cmpOp string
		ast.Inspect(adj, func(n ast.Node) bool {
			be, ok := n.(*ast.BinaryExpr)
			if !ok {
				return true
			}
			if lit, ok := be.X.(*ast.BasicLit); ok && lit.Kind == token.INT && be.Op == token.MUL {
				switch exprText(be.Y) {
				case "fraction":
					rttFactor = lit.Value
				case "c.receiveWindowSize":
					growFactor = lit.Value
				}
			}
			if lit, ok := be.Y.(*ast.BasicLit); ok && lit.Kind == token.INT && be.Op == token.QUO && exprText(be.X) == "c.receiveWindowSize" {
				halfDiv = lit.Value
			}
			if strings.HasPrefix(exprText(be.X), "now.Sub(") && strings.HasPrefix(exprText(be.Y), "time.Duration(") {
				cmpOp = be.Op.String()
			}
			return true
		})
		if rttFactor == "" || growFactor == "" || halfDiv == "" || cmpCode(cmpOp) < 0 {
			return fmt.Errorf("maybeAdjustWindowSize no longer has the shape `bytesReadInEpoch <= size/K`, `now.Sub(start) < time.Duration(F*fraction*float64(rtt))`, `min(G*size, max)` (got F=%q G=%q K=%q op=%q)", rttFactor, growFactor, halfDiv, cmpOp)
		}
		w.P("/-- internal/flowcontrol/base_flow_controller.go `maybeAdjustWindowSize`: F in `F*fraction*float64(rtt)` -/")
		w.P("def autoTuneRttFactor : Int := %s", rttFactor)
		w.P("/-- internal/flowcontrol/base_flow_controller.go `maybeAdjustWindowSize`: G in `min(G*c.receiveWindowSize, max)` -/")
		w.P("def autoTuneGrowFactor : Int := %s", growFactor)
		w.P("/-- internal/flowcontrol/base_flow_controller.go `maybeAdjustWindowSize`: K in `bytesReadInEpoch <= c.receiveWindowSize/K` -/")
		w.P("def autoTuneMinConsumedDivisor : Int := %s", halfDiv)
		w.P("/-- operator of `now.Sub(c.epochStartTime) ? time.Duration(...)`: `%s` (codes: 0 `<`, 1 `<=`, 2 `>`, 3 `>=`, 4 `==`, 5 `!=`) -/", cmpOp)
		w.P("def autoTuneCmpOp : Nat := %d", cmpCode(cmpOp))

		// comparison operators of the single-expression checks
		ops := []struct{ file *ast.File; fn, lean string }{
			{base, "checkFlowControlViolation", "violationCmpOp"},
			{base, "hasWindowUpdate", "hasWindowUpdateCmpOp"},
		}
		for _, o := range ops {
			fd := findMethod(o.file, o.fn)
			if fd == nil {
				return fmt.Errorf("%s not found", o.fn)
			}
			op := ""
			ast.Inspect(fd, func(n ast.Node) bool {
				if rs, ok := n.(*ast.ReturnStmt); ok && len(rs.Results) == 1 {
					if be, ok := rs.Results[0].(*ast.BinaryExpr); ok {
						op = be.Op.String()
					}
				}
				return true
			})
			if cmpCode(op) < 0 {
				return fmt.Errorf("%s no longer returns a single comparison", o.fn)
			}
			w.P("/-- internal/flowcontrol/base_flow_controller.go `%s` returns `<left> %s <right>` (codes: 0 `<`, 1 `<=`, 2 `>`, 3 `>=`, 4 `==`, 5 `!=`) -/", o.fn, op)
			w.P("def %s : Nat := %d", o.lean, cmpCode(op))
		}

		// nil guards of the allowWindowIncrease callback
		guard := func(f *ast.File, fn string) (calls int, guarded int) {
			fd := findMethod(f, fn)
			if fd == nil {
				return 0, 0
			}
			ast.Inspect(fd, func(n ast.Node) bool {
				be, ok := n.(*ast.BinaryExpr)
				if !ok {
					return true
				}
				// `c.allowWindowIncrease == nil || c.allowWindowIncrease(x)` is the guarded form
				if be.Op == token.LOR && strings.Contains(exprText(be.X), "c.allowWindowIncrease == nil") && strings.HasPrefix(exprText(be.Y), "c.allowWindowIncrease(") {
					guarded++
				}
				return true
			})
			ast.Inspect(fd, func(n ast.Node) bool {
				if ce, ok := n.(*ast.CallExpr); ok && exprText(ce.Fun) == "c.allowWindowIncrease" {
					calls++
				}
				return true
			})
			return
		}
		ca, ga := guard(base, "maybeAdjustWindowSize")
		ce, ge := guard(connf, "EnsureMinimumWindowSize")
		if ca != 1 || ce != 1 {
			return fmt.Errorf("expected exactly one allowWindowIncrease call in maybeAdjustWindowSize (%d) and EnsureMinimumWindowSize (%d)", ca, ce)
		}
		w.P("/-- `maybeAdjustWindowSize` calls `c.allowWindowIncrease` only behind `c.allowWindowIncrease == nil ||` -/")
		w.P("def adjustCallbackNilGuarded : Bool := %v", ga == 1)
		w.P("/-- `EnsureMinimumWindowSize` calls `c.allowWindowIncrease` only behind a nil check -/")
		w.P("def ensureMinCallbackNilGuarded : Bool := %v", ge == 1)

		// connection.go: NewConnectionFlowController(..., func literal, ...)
		cf, err := parser.ParseFile(c.Fset, filepath.Join(c.Repo, "connection.go"), nil, 0)
		if err != nil {
			return err
		}
		sites, lits := 0, 0
		ast.Inspect(cf, func(n ast.Node) bool {
			if ce, ok := n.(*ast.CallExpr); ok && exprText(ce.Fun) == "flowcontrol.NewConnectionFlowController" {
				sites++
				if len(ce.Args) >= 3 {
					if _, ok := ce.Args[2].(*ast.FuncLit); ok {
						lits++
					}
				}
			}
			return true
		})
		if sites == 0 {
			return fmt.Errorf("no call of flowcontrol.NewConnectionFlowController in connection.go")
		}
		w.P("/-- connection.go: every call of `flowcontrol.NewConnectionFlowController` passes a function literal as `allowWindowIncrease` -/")
		w.P("def connCallbackNeverNil : Bool := %v", sites == lits)

		// connection.go Conn.newFlowController: which peer transport parameter seeds the send window of which stream kind
		// (codes: 0 InitialMaxStreamDataBidiLocal, 1 InitialMaxStreamDataBidiRemote, 2 InitialMaxStreamDataUni)
		nfc := findMethod(cf, "newFlowController")
		if nfc == nil || nfc.Body == nil {
			return fmt.Errorf("Conn.newFlowController not found")
		}
		paramCode := func(e ast.Expr) int {
			t := exprText(e)
			for i, n := range []string{"InitialMaxStreamDataBidiLocal", "InitialMaxStreamDataBidiRemote", "InitialMaxStreamDataUni"} {
				if strings.HasSuffix(t, ".peerParams."+n) || t == "p."+n {
					return i
				}
			}
			return -1
		}
		uniF, ownF, peerF := -1, -1, -1
		for _, st := range nfc.Body.List {
			switch x := st.(type) {
			case *ast.AssignStmt:
				if len(x.Lhs) == 1 && len(x.Rhs) == 1 && exprText(x.Lhs[0]) == "initialSendWindow" {
					uniF = paramCode(x.Rhs[0])
				}
			case *ast.IfStmt:
				if exprText(x.Cond) != "id.Type() == protocol.StreamTypeBidi" {
					continue
				}
				for _, st2 := range x.Body.List {
					inner, ok := st2.(*ast.IfStmt)
					if !ok || exprText(inner.Cond) != "id.InitiatedBy() == c.perspective" {
						continue
					}
					get := func(b *ast.BlockStmt) int {
						if b == nil || len(b.List) != 1 {
							return -1
						}
						if a, ok := b.List[0].(*ast.AssignStmt); ok && len(a.Rhs) == 1 && exprText(a.Lhs[0]) == "initialSendWindow" {
							return paramCode(a.Rhs[0])
						}
						return -1
					}
					ownF = get(inner.Body)
					if eb, ok := inner.Else.(*ast.BlockStmt); ok {
						peerF = get(eb)
					}
				}
			}
		}
		// the receive side: which expressions reach NewStreamFlowController as receiveWindow / maxReceiveWindow. The
		// arguments may be the Config expressions themselves or local variables initialised with them; a spec-driven
		// client overrides them inside `if a := c.uAdvertisedStreamData; a != nil { rw = a.forStream(id, c.perspective);
		// maxrw = max(maxrw, rw) }`. Local variable names are irrelevant.
		var nsfc *ast.CallExpr
		ast.Inspect(nfc.Body, func(n ast.Node) bool {
			if ce, ok := n.(*ast.CallExpr); ok && exprText(ce.Fun) == "flowcontrol.NewStreamFlowController" && len(ce.Args) >= 5 {
				nsfc = ce
			}
			return true
		})
		rwFromConfig := false
		specOverride := false
		if nsfc != nil {
			// definitions (`x := e`) and later assignments (`x = e`) of local variables, with the enclosing if-condition
			type asg struct {
				rhs  ast.Expr
				cond *ast.IfStmt
			}
			defs := map[string]ast.Expr{}
			later := map[string][]asg{}
			var walk func(list []ast.Stmt, cond *ast.IfStmt)
			walk = func(list []ast.Stmt, cond *ast.IfStmt) {
				for _, st := range list {
					switch x := st.(type) {
					case *ast.AssignStmt:
						if len(x.Lhs) != len(x.Rhs) {
							continue
						}
						for i := range x.Lhs {
							id, ok := x.Lhs[i].(*ast.Ident)
							if !ok {
								continue
							}
							if x.Tok == token.DEFINE && cond == nil {
								defs[id.Name] = x.Rhs[i]
							} else {
								later[id.Name] = append(later[id.Name], asg{x.Rhs[i], cond})
							}
						}
					case *ast.IfStmt:
						walk(x.Body.List, x)
						if eb, ok := x.Else.(*ast.BlockStmt); ok {
							walk(eb.List, x)
						}
					}
				}
			}
			walk(nfc.Body.List, nil)
			resolve := func(e ast.Expr) (string, string) { // (variable name or "", defining expression text)
				if id, ok := e.(*ast.Ident); ok {
					if d, ok := defs[id.Name]; ok {
						return id.Name, exprText(d)
					}
				}
				return "", exprText(e)
			}
			rwVar, rwDef := resolve(nsfc.Args[2])
			mxVar, mxDef := resolve(nsfc.Args[3])
			rwFromConfig = rwDef == "protocol.ByteCount(c.config.InitialStreamReceiveWindow)" &&
				mxDef == "protocol.ByteCount(c.config.MaxStreamReceiveWindow)" &&
				exprText(nsfc.Args[4]) == "initialSendWindow" && exprText(nsfc.Args[1]) == "c.connFlowController"
			nLater := len(later[rwVar]) + len(later[mxVar])
			if rwVar == "" {
				nLater = len(later[mxVar])
			}
			if rwVar != "" && mxVar != "" && len(later[rwVar]) == 1 && len(later[mxVar]) == 1 {
				a, b := later[rwVar][0], later[mxVar][0]
				// same `if <v> := c.uAdvertisedStreamData; <v> != nil` (or `if c.uAdvertisedStreamData != nil`)
				guardOK := false
				recv := ""
				if a.cond != nil && a.cond == b.cond {
					ct := exprText(a.cond.Cond)
					if ct == "c.uAdvertisedStreamData != nil" {
						guardOK, recv = true, "c.uAdvertisedStreamData"
					} else if in, ok := a.cond.Init.(*ast.AssignStmt); ok && len(in.Lhs) == 1 && len(in.Rhs) == 1 &&
						exprText(in.Rhs[0]) == "c.uAdvertisedStreamData" && ct == exprText(in.Lhs[0])+" != nil" {
						guardOK, recv = true, exprText(in.Lhs[0])
					}
				}
				bt := exprText(b.rhs)
				if guardOK && exprText(a.rhs) == recv+".forStream(id, c.perspective)" &&
					(bt == "max("+mxVar+", "+rwVar+")" || bt == "max("+rwVar+", "+mxVar+")") {
					specOverride = true
					nLater = 0
				}
			}
			if nLater != 0 {
				return fmt.Errorf("Conn.newFlowController: the receive window handed to NewStreamFlowController is reassigned in a way the extractor does not know (expected only `if a := c.uAdvertisedStreamData; a != nil { rw = a.forStream(id, c.perspective); maxrw = max(maxrw, rw) }`)")
			}
		}
		if uniF < 0 || ownF < 0 || peerF < 0 {
			return fmt.Errorf("Conn.newFlowController no longer has the shape `w := peerParams.X; if bidi { if id.InitiatedBy() == c.perspective { w = peerParams.Y } else { w = peerParams.Z } }` (got %d %d %d)", uniF, ownF, peerF)
		}
		w.P("/-- connection.go `Conn.newFlowController`: peer parameter used as initial send window of a unidirectional stream")
		w.P("    (codes: 0 InitialMaxStreamDataBidiLocal, 1 InitialMaxStreamDataBidiRemote, 2 InitialMaxStreamDataUni) -/")
		w.P("def newFCUniField : Nat := %d", uniF)
		w.P("/-- … of a bidirectional stream with `id.InitiatedBy() == c.perspective` (a stream we opened) -/")
		w.P("def newFCOwnBidiField : Nat := %d", ownF)
		w.P("/-- … of a bidirectional stream the peer opened -/")
		w.P("def newFCPeerBidiField : Nat := %d", peerF)
		w.P("/-- `newFlowController` passes `c.connFlowController`, `config.InitialStreamReceiveWindow`, `config.MaxStreamReceiveWindow` (directly or")
		w.P("    through local variables initialised with them), `initialSendWindow` to NewStreamFlowController -/")
		w.P("def newFCReceiveWindowFromConfig : Bool := %v", rwFromConfig)
		w.P("/-- … and, when `c.uAdvertisedStreamData != nil` (a spec-driven client), replaces the receive window by")
		w.P("    `uAdvertisedStreamData.forStream(id, c.perspective)` and the maximum by `max(maximum, that)` -/")
		w.P("def newFCSpecOverride : Bool := %v", specOverride)

		// connection.go: every wire.TransportParameters literal advertises config.InitialStreamReceiveWindow for all three
		// stream kinds and config.InitialConnectionReceiveWindow as initial_max_data
		lits, good := 0, 0
		ast.Inspect(cf, func(n ast.Node) bool {
			cl, ok := n.(*ast.CompositeLit)
			if !ok || exprText2(cl.Type) != "wire.TransportParameters" {
				return true
			}
			fields := map[string]string{}
			for _, el := range cl.Elts {
				if kv, ok := el.(*ast.KeyValueExpr); ok {
					fields[exprText(kv.Key)] = exprText(kv.Value)
				}
			}
			if _, has := fields["InitialMaxData"]; !has {
				return true
			}
			lits++
			if fields["InitialMaxStreamDataBidiLocal"] == "protocol.ByteCount(s.config.InitialStreamReceiveWindow)" &&
				fields["InitialMaxStreamDataBidiRemote"] == "protocol.ByteCount(s.config.InitialStreamReceiveWindow)" &&
				fields["InitialMaxStreamDataUni"] == "protocol.ByteCount(s.config.InitialStreamReceiveWindow)" &&
				fields["InitialMaxData"] == "protocol.ByteCount(s.config.InitialConnectionReceiveWindow)" {
				good++
			}
			return true
		})
		w.P("/-- connection.go: every `wire.TransportParameters{…}` literal (%d found) advertises `config.InitialStreamReceiveWindow` as all three", lits)
		w.P("    initial_max_stream_data_* and `config.InitialConnectionReceiveWindow` as initial_max_data -/")
		w.P("def advertisedWindowsFromConfig : Bool := %v", lits > 0 && lits == good)

		// streams_map.go HandleTransportParameters: parameters applied to streams that are already open (0-RTT)
		smf, err := parser.ParseFile(c.Fset, filepath.Join(c.Repo, "streams_map.go"), nil, 0)
		if err != nil {
			return err
		}
		htp := findMethod(smf, "HandleTransportParameters")
		ob, ou := -1, -1
		if htp != nil {
			ast.Inspect(htp, func(n ast.Node) bool {
				if ce, ok := n.(*ast.CallExpr); ok && len(ce.Args) == 1 {
					switch exprText(ce.Fun) {
					case "m.outgoingBidiStreams.UpdateSendWindow":
						ob = paramCode(ce.Args[0])
					case "m.outgoingUniStreams.UpdateSendWindow":
						ou = paramCode(ce.Args[0])
					}
				}
				return true
			})
		}
		if ob < 0 || ou < 0 {
			return fmt.Errorf("streamsMap.HandleTransportParameters no longer updates the outgoing streams' send windows from the peer parameters")
		}
		w.P("/-- streams_map.go `HandleTransportParameters`: parameter applied to already open outgoing bidirectional streams (same codes) -/")
		w.P("def smapOutgoingBidiField : Nat := %d", ob)
		w.P("/-- … to already open outgoing unidirectional streams -/")
		w.P("def smapOutgoingUniField : Nat := %d", ou)

		// u_connection.go configCoveringAdvertised: how the receive windows enforced by a spec-driven client are
		// derived from the Config and the transport parameters the spec advertises
		uf, err := parser.ParseFile(c.Fset, filepath.Join(c.Repo, "u_connection.go"), nil, 0)
		if err != nil {
			return err
		}
		var cca *ast.FuncDecl
		for _, d := range uf.Decls {
			if fd, ok := d.(*ast.FuncDecl); ok && fd.Name.Name == "configCoveringAdvertised" {
				cca = fd
			}
		}
		if cca == nil || cca.Body == nil {
			return fmt.Errorf("configCoveringAdvertised not found in u_connection.go")
		}
		fn := func(e ast.Expr) (string, []ast.Expr) { // f(args) or uint64(f(args))
			ce, ok := e.(*ast.CallExpr)
			if !ok {
				return "", nil
			}
			if name := exprText(ce.Fun); (name == "uint64" || name == "protocol.ByteCount") && len(ce.Args) == 1 {
				if inner, ok := ce.Args[0].(*ast.CallExpr); ok && (exprText(inner.Fun) == "max" || exprText(inner.Fun) == "min") {
					return exprText(inner.Fun), inner.Args
				}
				return "id", ce.Args
			}
			return exprText(ce.Fun), ce.Args
		}
		type cover struct {
			outer, inner string
			fields     []int
			self       bool
			other      string
		}
		covers := map[string]cover{}
		for _, st := range cca.Body.List {
			as, ok := st.(*ast.AssignStmt)
			if !ok || len(as.Lhs) != 1 || len(as.Rhs) != 1 {
				continue
			}
			lhs := exprText(as.Lhs[0])
			outer, args := fn(as.Rhs[0])
			if lhs == "c.InitialConnectionReceiveWindow" && outer == "id" && len(args) == 1 &&
				strings.HasSuffix(exprText(args[0]), ".InitialMaxData") {
				// `c.InitialConnectionReceiveWindow = uint64(p.InitialMaxData)`: exactly the advertised value
				covers[lhs] = cover{outer: "id", self: true, fields: []int{3}}
				continue
			}
			if !strings.HasPrefix(lhs, "c.") || len(args) != 2 {
				continue
			}
			cv := cover{outer: outer, self: exprText(args[0]) == lhs}
			inner, iargs := fn(args[1])
			cv.inner = inner
			if inner == "" {
				cv.other = exprText(args[1])
			}
			for _, a := range iargs {
				t := exprText(a)
				switch {
				case strings.HasSuffix(t, ".InitialMaxStreamDataBidiLocal"):
					cv.fields = append(cv.fields, 0)
				case strings.HasSuffix(t, ".InitialMaxStreamDataBidiRemote"):
					cv.fields = append(cv.fields, 1)
				case strings.HasSuffix(t, ".InitialMaxStreamDataUni"):
					cv.fields = append(cv.fields, 2)
				case strings.HasSuffix(t, ".InitialMaxData"):
					cv.fields = append(cv.fields, 3)
				}
			}
			covers[lhs] = cv
		}
		has := func(cv cover, want ...int) bool {
			if len(cv.fields) != len(want) {
				return false
			}
			seen := map[int]bool{}
			for _, f := range cv.fields {
				seen[f] = true
			}
			for _, x := range want {
				if !seen[x] {
					return false
				}
			}
			return true
		}
		sw, cw := covers["c.InitialStreamReceiveWindow"], covers["c.InitialConnectionReceiveWindow"]
		msw, mcw := covers["c.MaxStreamReceiveWindow"], covers["c.MaxConnectionReceiveWindow"]
		if !sw.self || !cw.self || !has(sw, 0, 1, 2) || !has(cw, 3) || (sw.outer != "max" && sw.outer != "min") ||
			(sw.inner != "max" && sw.inner != "min") || (cw.outer != "max" && cw.outer != "min" && cw.outer != "id") {
			return fmt.Errorf("configCoveringAdvertised no longer has the shape `c.InitialStreamReceiveWindow = f(c.InitialStreamReceiveWindow, uint64(g(p.BidiLocal, p.BidiRemote, p.Uni)))`, `c.InitialConnectionReceiveWindow = uint64(p.InitialMaxData)` or `= f(c.InitialConnectionReceiveWindow, uint64(p.InitialMaxData))` (got %+v %+v)", sw, cw)
		}
		b := func(x bool) string { return fmt.Sprintf("%v", x) }
		w.P("/-- u_connection.go `configCoveringAdvertised`: `c.InitialStreamReceiveWindow = OUTER(c.InitialStreamReceiveWindow,")
		w.P("    uint64(INNER(p.InitialMaxStreamDataBidiLocal, p.InitialMaxStreamDataBidiRemote, p.InitialMaxStreamDataUni)))` — OUTER is `max` -/")
		w.P("def coverStreamOuterIsMax : Bool := %s", b(sw.outer == "max"))
		w.P("/-- … INNER is `max` -/")
		w.P("def coverStreamInnerIsMax : Bool := %s", b(sw.inner == "max"))
		w.P("/-- `c.InitialConnectionReceiveWindow = …`: 0 `uint64(p.InitialMaxData)` (exactly what is advertised),")
		w.P("    1 `max(c.InitialConnectionReceiveWindow, uint64(p.InitialMaxData))`, 2 `min(…)` -/")
		w.P("def coverConnMode : Nat := %d", map[string]int{"id": 0, "max": 1, "min": 2}[cw.outer])
		w.P("/-- `c.MaxStreamReceiveWindow = max(c.MaxStreamReceiveWindow, c.InitialStreamReceiveWindow)` and the same for the connection -/")
		w.P("def coverMaxWindowsFollow : Bool := %s", b(msw.self && msw.outer == "max" && msw.other == "c.InitialStreamReceiveWindow" &&
			mcw.self && mcw.outer == "max" && mcw.other == "c.InitialConnectionReceiveWindow"))
		// newUClientConnection applies it to the parameters it advertises, before preSetup
		applied := false
		ast.Inspect(uf, func(n ast.Node) bool {
			if as, ok := n.(*ast.AssignStmt); ok && len(as.Lhs) == 1 && len(as.Rhs) == 1 &&
				exprText(as.Lhs[0]) == "s.config" && exprText(as.Rhs[0]) == "configCoveringAdvertised(s.config, params)" {
				applied = true
			}
			return true
		})
		w.P("/-- `newUClientConnection` runs `s.config = configCoveringAdvertised(s.config, params)` on the parameters it advertises -/")
		w.P("def coverAppliedInUClient : Bool := %s", b(applied))

		// u_connection.go uAdvertisedStreamData: which advertised parameter each struct field holds (the composite literal
		// in newUClientConnection, keyed `field: params.InitialMaxStreamDataX`), and which field forStream returns for a
		// unidirectional stream / a bidirectional stream opened by `pers` / by the peer
		// (codes: 0 InitialMaxStreamDataBidiLocal, 1 InitialMaxStreamDataBidiRemote, 2 InitialMaxStreamDataUni, 9 unknown)
		stored := map[string]int{}
		storedOK := false
		ast.Inspect(uf, func(n ast.Node) bool {
			as, ok := n.(*ast.AssignStmt)
			if !ok || len(as.Lhs) != 1 || len(as.Rhs) != 1 || exprText(as.Lhs[0]) != "s.uAdvertisedStreamData" {
				return true
			}
			var cl *ast.CompositeLit
			switch x := as.Rhs[0].(type) {
			case *ast.UnaryExpr:
				cl, _ = x.X.(*ast.CompositeLit)
			case *ast.CompositeLit:
				cl = x
			}
			if cl == nil {
				return true
			}
			storedOK = true
			for _, el := range cl.Elts {
				kv, ok := el.(*ast.KeyValueExpr)
				if !ok {
					storedOK = false
					continue
				}
				code := -1
				for i, nme := range []string{"InitialMaxStreamDataBidiLocal", "InitialMaxStreamDataBidiRemote", "InitialMaxStreamDataUni"} {
					if exprText(kv.Value) == "params."+nme {
						code = i
					}
				}
				if code < 0 {
					storedOK = false
					continue
				}
				stored[exprText(kv.Key)] = code
			}
			return true
		})
		var fs *ast.FuncDecl
		for _, d := range uf.Decls {
			if fd, ok := d.(*ast.FuncDecl); ok && fd.Name.Name == "forStream" && fd.Recv != nil && len(fd.Recv.List) == 1 &&
				strings.HasSuffix(exprText2(fd.Recv.List[0].Type), "uAdvertisedStreamData") {
				fs = fd
			}
		}
		fsUni, fsOwn, fsPeer := 9, 9, 9
		if fs != nil && fs.Body != nil && fs.Type.Params != nil && len(fs.Type.Params.List) == 2 &&
			len(fs.Recv.List[0].Names) == 1 && len(fs.Type.Params.List[0].Names) == 1 && len(fs.Type.Params.List[1].Names) == 1 {
			recv := fs.Recv.List[0].Names[0].Name
			idN, persN := fs.Type.Params.List[0].Names[0].Name, fs.Type.Params.List[1].Names[0].Name
			retField := func(st ast.Stmt) int {
				rs, ok := st.(*ast.ReturnStmt)
				if !ok || len(rs.Results) != 1 {
					return 9
				}
				t := exprText(rs.Results[0])
				if !strings.HasPrefix(t, recv+".") {
					return 9
				}
				if c, ok := stored[strings.TrimPrefix(t, recv+".")]; ok {
					return c
				}
				return 9
			}
			only := func(b *ast.BlockStmt) int {
				if b == nil || len(b.List) != 1 {
					return 9
				}
				return retField(b.List[0])
			}
			// `if id.Type() == protocol.StreamTypeUni { return a.U }; if id.InitiatedBy() == pers { return a.O }; return a.P`
			// (the second test may also be the else-branch of the first, or carry its own else)
			var scan func(list []ast.Stmt)
			scan = func(list []ast.Stmt) {
				for _, st := range list {
					switch x := st.(type) {
					case *ast.IfStmt:
						switch exprText(x.Cond) {
						case idN + ".Type() == protocol.StreamTypeUni":
							fsUni = only(x.Body)
							if eb, ok := x.Else.(*ast.BlockStmt); ok {
								scan(eb.List)
							} else if ei, ok := x.Else.(*ast.IfStmt); ok {
								scan([]ast.Stmt{ei})
							}
						case idN + ".InitiatedBy() == " + persN:
							fsOwn = only(x.Body)
							if eb, ok := x.Else.(*ast.BlockStmt); ok {
								fsPeer = only(eb)
							}
						default:
							fsUni, fsOwn, fsPeer = 9, 9, 9
							return
						}
					case *ast.ReturnStmt:
						fsPeer = retField(x)
					}
				}
			}
			scan(fs.Body.List)
		}
		if specOverrideSeen(cf) && (!storedOK || fsUni == 9 || fsOwn == 9 || fsPeer == 9) {
			return fmt.Errorf("uAdvertisedStreamData: newUClientConnection no longer stores `field: params.InitialMaxStreamDataX` for every field, or forStream no longer has the shape `if id.Type() == protocol.StreamTypeUni { return a.U }; if id.InitiatedBy() == pers { return a.O }; return a.P` (got stored=%v uni=%d own=%d peer=%d)", stored, fsUni, fsOwn, fsPeer)
		}
		w.P("/-- u_connection.go `uAdvertisedStreamData.forStream(id, pers)`: the advertised parameter returned for a unidirectional stream")
		w.P("    (codes: 0 InitialMaxStreamDataBidiLocal, 1 InitialMaxStreamDataBidiRemote, 2 InitialMaxStreamDataUni; 9: there is no such method),")
		w.P("    resolved through the `uAdvertisedStreamData{field: params.X}` literal of `newUClientConnection` -/")
		w.P("def advForStreamUniField : Nat := %d", fsUni)
		w.P("/-- … for a bidirectional stream with `id.InitiatedBy() == pers` (opened by this endpoint) -/")
		w.P("def advForStreamOwnBidiField : Nat := %d", fsOwn)
		w.P("/-- … for a bidirectional stream opened by the peer -/")
		w.P("def advForStreamPeerBidiField : Nat := %d", fsPeer)
		return nil
	})
}

// EmitRatConst writes `<name>_num`, `<name>_den : Nat` for a (possibly non-integer) numeric constant.
func (c *Ctx) EmitRatConst(w *LeanFile, p *Pkg, goName string) error {
	v, _, pos, ok := p.Const(goName)
	if !ok {
		return fmt.Errorf("constant %s not found in %s", goName, p.Dir)
	}
	fv := constant.ToFloat(v)
	if fv.Kind() != constant.Float && fv.Kind() != constant.Int {
		return fmt.Errorf("constant %s is not numeric: %s", goName, v)
	}
	num, den := constant.Num(fv), constant.Denom(fv)
	if num.Kind() != constant.Int || den.Kind() != constant.Int || constant.Sign(num) < 0 || constant.Sign(den) <= 0 {
		return fmt.Errorf("constant %s has no exact non-negative rational value: %s", goName, v)
	}
	w.P("/-- %s `%s` = %s (exact value %s/%s) -/", c.pos(pos), goName, v.String(), num.ExactString(), den.ExactString())
	w.P("def %s_num : Nat := %s", goName, num.ExactString())
	w.P("def %s_den : Nat := %s", goName, den.ExactString())
	return nil
}

// specOverrideSeen: connection.go mentions Conn.uAdvertisedStreamData at all
func specOverrideSeen(cf *ast.File) bool {
	seen := false
	ast.Inspect(cf, func(n ast.Node) bool {
		if se, ok := n.(*ast.SelectorExpr); ok && se.Sel.Name == "uAdvertisedStreamData" {
			seen = true
		}
		return true
	})
	return seen
}

func exprText2(e ast.Expr) string {
	if e == nil {
		return ""
	}
	return exprText(e)
}

func cmpCode(op string) int {
	for i, o := range []string{"<", "<=", ">", ">=", "==", "!="} {
		if o == op {
			return i
		}
	}
	return -1
}

func findMethod(f *ast.File, name string) *ast.FuncDecl {
	for _, d := range f.Decls {
		if fd, ok := d.(*ast.FuncDecl); ok && fd.Name.Name == name && fd.Recv != nil {
			return fd
		}
	}
	return nil
}

// exprText renders a (small) expression in a canonical compact form.
func exprText(e ast.Expr) string {
	switch x := e.(type) {
	case *ast.Ident:
		return x.Name
	case *ast.BasicLit:
		return x.Value
	case *ast.SelectorExpr:
		return exprText(x.X) + "." + x.Sel.Name
	case *ast.ParenExpr:
		return "(" + exprText(x.X) + ")"
	case *ast.BinaryExpr:
		return exprText(x.X) + " " + x.Op.String() + " " + exprText(x.Y)
	case *ast.UnaryExpr:
		return x.Op.String() + exprText(x.X)
	case *ast.StarExpr:
		return "*" + exprText(x.X)
	case *ast.CallExpr:
		var as []string
		for _, a := range x.Args {
			as = append(as, exprText(a))
		}
		return exprText(x.Fun) + "(" + strings.Join(as, ", ") + ")"
	}
	return fmt.Sprintf("<%T>", e)
}
