package main

import (
	"fmt"
	"go/ast"
	"go/constant"
	"go/parser"
	"go/printer"
	"go/token"
	"go/types"
	"path/filepath"
	"strings"
)

// Facts for property C10 (Initial flight): constants of the root package and the constants the anchored
// functions compare / compute with. Syntax only (no type check of the root package: it would pull in uTLS);
// constant expressions are resolved through the package's own const declarations (function-local or package
// level, in any file of the package) and evaluated with go/types in the universe scope.
//
// The extraction matches SEMANTIC SHAPE, not names of locals or constants, and not whether a block is inline
// or an extracted helper of the same package:
//   - maxPN          = the bound the comparison on `.InitPacketNumber` in initialPN (or a same-package helper it
//                      calls) uses, normalised to "largest value accepted" whatever the operator / operand order
//   - paddingReserve = the constant subtracted from an expression over `<x>.Length` in the CRYPTO budget
//                      arithmetic reachable from PackCoalescedPacket through same-package calls

func evalConstExpr(fset *token.FileSet, e ast.Expr) (string, error) {
	var sb strings.Builder
	if err := printer.Fprint(&sb, fset, e); err != nil {
		return "", err
	}
	return evalConstText(sb.String())
}

func evalConstText(src string) (string, error) {
	tv, err := types.Eval(token.NewFileSet(), nil, token.NoPos, src)
	if err != nil {
		return "", fmt.Errorf("cannot evaluate %q: %v", src, err)
	}
	if tv.Value == nil {
		return "", fmt.Errorf("%q is not constant", src)
	}
	iv := constant.ToInt(tv.Value)
	if iv.Kind() != constant.Int {
		return "", fmt.Errorf("%q is not an integer", src)
	}
	return iv.ExactString(), nil
}

// rootPkg is the syntax of one package directory: its functions by name and its package-level constants.
type rootPkg struct {
	fset   *token.FileSet
	funcs  map[string][]*ast.FuncDecl // by function / method name (methods of different types may share one)
	consts map[string]ast.Expr
}

func constSpecs(gd *ast.GenDecl, into map[string]ast.Expr) {
	if gd.Tok != token.CONST {
		return
	}
	for _, s := range gd.Specs {
		vs := s.(*ast.ValueSpec)
		for i, n := range vs.Names {
			if i < len(vs.Values) {
				into[n.Name] = vs.Values[i]
			}
		}
	}
}

func loadRootPkg(c *Ctx, rel string) (*rootPkg, error) {
	dir := filepath.Join(c.Repo, rel)
	names, err := filepath.Glob(filepath.Join(dir, "*.go"))
	if err != nil {
		return nil, err
	}
	rp := &rootPkg{fset: c.Fset, funcs: map[string][]*ast.FuncDecl{}, consts: map[string]ast.Expr{}}
	for _, fn := range names {
		if strings.HasSuffix(fn, "_test.go") {
			continue
		}
		f, err := parser.ParseFile(c.Fset, fn, nil, 0)
		if err != nil {
			return nil, err
		}
		for _, d := range f.Decls {
			switch x := d.(type) {
			case *ast.GenDecl:
				constSpecs(x, rp.consts)
			case *ast.FuncDecl:
				if x.Body != nil {
					rp.funcs[x.Name.Name] = append(rp.funcs[x.Name.Name], x)
				}
			}
		}
	}
	return rp, nil
}

// localConsts are the constants declared inside fd.
func localConsts(fd *ast.FuncDecl) map[string]ast.Expr {
	m := map[string]ast.Expr{}
	ast.Inspect(fd.Body, func(n ast.Node) bool {
		if ds, ok := n.(*ast.DeclStmt); ok {
			if gd, ok := ds.Decl.(*ast.GenDecl); ok {
				constSpecs(gd, m)
			}
		}
		return true
	})
	return m
}

// render prints a constant expression with every identifier that names a constant of fd or of the package
// replaced by its (recursively rendered) defining expression; ok is false when the expression contains
// anything that is not constant syntax (a selector, an index, a non-conversion call, an unknown identifier).
func (rp *rootPkg) render(e ast.Expr, local map[string]ast.Expr, depth int) (string, bool) {
	if depth > 12 {
		return "", false
	}
	switch x := e.(type) {
	case *ast.BasicLit:
		return x.Value, true
	case *ast.ParenExpr:
		s, ok := rp.render(x.X, local, depth+1)
		return "(" + s + ")", ok
	case *ast.UnaryExpr:
		s, ok := rp.render(x.X, local, depth+1)
		return x.Op.String() + s, ok
	case *ast.BinaryExpr:
		a, ok1 := rp.render(x.X, local, depth+1)
		b, ok2 := rp.render(x.Y, local, depth+1)
		return "(" + a + " " + x.Op.String() + " " + b + ")", ok1 && ok2
	case *ast.Ident:
		if d, ok := local[x.Name]; ok {
			s, ok := rp.render(d, local, depth+1)
			return "(" + s + ")", ok
		}
		if d, ok := rp.consts[x.Name]; ok {
			s, ok := rp.render(d, nil, depth+1)
			return "(" + s + ")", ok
		}
		return "", false
	case *ast.CallExpr: // a conversion to a basic integer type
		if id, ok := x.Fun.(*ast.Ident); ok && len(x.Args) == 1 {
			switch id.Name {
			case "int", "int8", "int16", "int32", "int64", "uint", "uint8", "uint16", "uint32", "uint64", "byte":
				s, ok := rp.render(x.Args[0], local, depth+1)
				return id.Name + "(" + s + ")", ok
			}
		}
	}
	return "", false
}

func (rp *rootPkg) constValue(e ast.Expr, fd *ast.FuncDecl) (string, bool) {
	src, ok := rp.render(e, localConsts(fd), 0)
	if !ok {
		return "", false
	}
	v, err := evalConstText(src)
	return v, err == nil
}

// reachable returns the function declarations named `anchor` and every same-package function or method they
// call (by name: `f(..)` or `<recv>.f(..)`), transitively, up to the given depth.
func (rp *rootPkg) reachable(anchor string, depth int) []*ast.FuncDecl {
	seen := map[*ast.FuncDecl]bool{}
	var out []*ast.FuncDecl
	var visit func(name string, d int)
	visit = func(name string, d int) {
		for _, fd := range rp.funcs[name] {
			if seen[fd] {
				continue
			}
			seen[fd] = true
			out = append(out, fd)
			if d == 0 {
				continue
			}
			ast.Inspect(fd.Body, func(n ast.Node) bool {
				if ce, ok := n.(*ast.CallExpr); ok {
					switch f := ce.Fun.(type) {
					case *ast.Ident:
						visit(f.Name, d-1)
					case *ast.SelectorExpr:
						visit(f.Sel.Name, d-1)
					}
				}
				return true
			})
		}
	}
	visit(anchor, depth)
	return out
}

func mentionsSelector(e ast.Expr, sel string) bool {
	found := false
	ast.Inspect(e, func(n ast.Node) bool {
		if se, ok := n.(*ast.SelectorExpr); ok && se.Sel.Name == sel {
			found = true
		}
		return !found
	})
	return found
}

func uniq(vals []string) []string {
	var out []string
	for _, v := range vals {
		dup := false
		for _, o := range out {
			dup = dup || o == v
		}
		if !dup {
			out = append(out, v)
		}
	}
	return out
}

// initialPNBound: the largest InitPacketNumber that initialPN passes through, from the comparison between
// `.InitPacketNumber` and a constant.
func (rp *rootPkg) initialPNBound() (string, error) {
	var vals []string
	for _, fd := range rp.reachable("initialPN", 2) {
		ast.Inspect(fd.Body, func(n ast.Node) bool {
			be, ok := n.(*ast.BinaryExpr)
			if !ok {
				return true
			}
			op := be.Op
			field, bound := be.X, be.Y
			if !mentionsSelector(field, "InitPacketNumber") {
				// constant on the left: mirror the comparison
				field, bound = be.Y, be.X
				op = map[token.Token]token.Token{token.LSS: token.GTR, token.GTR: token.LSS, token.LEQ: token.GEQ, token.GEQ: token.LEQ}[op]
			}
			if !mentionsSelector(field, "InitPacketNumber") {
				return true
			}
			v, ok := rp.constValue(bound, fd)
			if !ok {
				return true
			}
			switch op {
			case token.GTR, token.LEQ: // x > C rejects / x <= C accepts: C is the largest accepted
				vals = append(vals, v)
			case token.GEQ, token.LSS: // x >= C rejects / x < C accepts: C-1 is
				if m, err := evalConstText("(" + v + ") - 1"); err == nil {
					vals = append(vals, m)
				}
			}
			return true
		})
	}
	vals = uniq(vals)
	if len(vals) != 1 {
		return "", fmt.Errorf("initialPN: expected exactly one comparison of .InitPacketNumber with a constant bound, found bounds %v", vals)
	}
	return vals[0], nil
}

// paddingReserve: the constant subtracted from the `<rf>.Length`-based budget in the code reachable from
// PackCoalescedPacket (inline or in an extracted helper).
func (rp *rootPkg) paddingReserve() (string, error) {
	var vals []string
	for _, fd := range rp.reachable("PackCoalescedPacket", 2) {
		ast.Inspect(fd.Body, func(n ast.Node) bool {
			be, ok := n.(*ast.BinaryExpr)
			if !ok || be.Op != token.SUB || !mentionsSelector(be.X, "Length") {
				return true
			}
			if v, ok := rp.constValue(be.Y, fd); ok {
				vals = append(vals, v)
			}
			return true
		})
	}
	vals = uniq(vals)
	if len(vals) != 1 {
		return "", fmt.Errorf("PackCoalescedPacket: expected exactly one `<..>.Length … - <constant>` budget reserve, found %v", vals)
	}
	return vals[0], nil
}

func init() {
	register("Initial", func(c *Ctx, w *LeanFile) error {
		parse := func(rel string) (*ast.File, error) {
			return parser.ParseFile(c.Fset, filepath.Join(c.Repo, rel), nil, 0)
		}
		rp, err := loadRootPkg(c, ".")
		if err != nil {
			return err
		}
		// an exported package-level constant: looked up by its (API) name in whichever file declares it
		udp, ok := rp.consts["DefaultUDPDatagramMinSize"]
		if !ok {
			return fmt.Errorf("exported constant DefaultUDPDatagramMinSize not found in the root package")
		}
		udpV, ok := rp.constValue(udp, &ast.FuncDecl{Body: &ast.BlockStmt{}})
		if !ok {
			return fmt.Errorf("DefaultUDPDatagramMinSize is not an integer constant expression")
		}
		w.P("/-- root package `DefaultUDPDatagramMinSize` -/")
		w.P("def DefaultUDPDatagramMinSize : Int := %s", udpV)
		pr, err := rp.paddingReserve()
		if err != nil {
			return err
		}
		w.P("/-- u_packet_packer.go: bytes the QUICRandomFrames CRYPTO budget of PackCoalescedPacket keeps free for PADDING -/")
		w.P("def paddingReserve : Int := %s", pr)
		mp, err := rp.initialPNBound()
		if err != nil {
			return err
		}
		w.P("/-- u_initial_packet_spec.go initialPN: the largest InitPacketNumber that reaches the wire -/")
		w.P("def maxPN : Int := %s", mp)
		// width of the Length varint: the literal passed to quicvarint.AppendWithLen in ExtendedHeader.Append
		// and the `2 /* length */` summand of GetLength must agree; both are extracted.
		f, err := parse("internal/wire/extended_header.go")
		if err != nil {
			return err
		}
		var appendW, getLenW string
		for _, d := range f.Decls {
			fd, ok := d.(*ast.FuncDecl)
			if !ok || fd.Body == nil {
				continue
			}
			switch fd.Name.Name {
			case "Append":
				ast.Inspect(fd.Body, func(n ast.Node) bool {
					if ce, ok := n.(*ast.CallExpr); ok {
						if se, ok := ce.Fun.(*ast.SelectorExpr); ok && se.Sel.Name == "AppendWithLen" && len(ce.Args) == 3 {
							if v, err := evalConstExpr(c.Fset, ce.Args[2]); err == nil {
								appendW = v
							}
						}
					}
					return true
				})
			case "GetLength":
				// the only untyped integer literal `2` that is a direct summand of the first assignment
				ast.Inspect(fd.Body, func(n ast.Node) bool {
					if as, ok := n.(*ast.AssignStmt); ok && getLenW == "" && len(as.Rhs) == 1 {
						var lits []string
						var walk func(e ast.Expr)
						walk = func(e ast.Expr) {
							switch x := e.(type) {
							case *ast.BinaryExpr:
								if x.Op == token.ADD {
									walk(x.X)
									walk(x.Y)
								}
							case *ast.BasicLit:
								lits = append(lits, x.Value)
							}
						}
						walk(as.Rhs[0])
						// 1 (type byte) + 4 (version) + 1 + 1 (CID length bytes) + <length varint>
						if len(lits) == 5 && lits[0] == "1" && lits[1] == "4" && lits[2] == "1" && lits[3] == "1" {
							getLenW = lits[4]
						}
					}
					return true
				})
			}
		}
		if appendW == "" || getLenW == "" {
			return fmt.Errorf("extended_header.go: Length varint width not found (Append: %q, GetLength: %q)", appendW, getLenW)
		}
		w.P("/-- internal/wire/extended_header.go: width passed to quicvarint.AppendWithLen for the Length field -/")
		w.P("def lengthVarintWidthAppend : Int := %s", appendW)
		w.P("/-- internal/wire/extended_header.go: bytes GetLength reserves for the Length field -/")
		w.P("def lengthVarintWidthGetLength : Int := %s", getLenW)
		return nil
	})
}
