package main

import (
	"fmt"
	"go/ast"
	"go/constant"
	"go/parser"
	"go/printer"
	"go/token"
	"go/types"
	"path/filepath"
	"strings"
)

// Facts for property C10 (Initial flight): constants of the root package and literals inside the
// anchored functions. Syntax only (no type check of the root package: it would pull in uTLS), the
// constant expressions are evaluated with go/types in the universe scope.

func evalConstExpr(fset *token.FileSet, e ast.Expr) (string, error) {
	var sb strings.Builder
	if err := printer.Fprint(&sb, fset, e); err != nil {
		return "", err
	}
	tv, err := types.Eval(fset, nil, token.NoPos, sb.String())
	if err != nil {
		return "", fmt.Errorf("cannot evaluate %q: %v", sb.String(), err)
	}
	if tv.Value == nil {
		return "", fmt.Errorf("%q is not constant", sb.String())
	}
	iv := constant.ToInt(tv.Value)
	if iv.Kind() != constant.Int {
		return "", fmt.Errorf("%q is not an integer", sb.String())
	}
	return iv.ExactString(), nil
}

// constIn finds `const name = expr` either at package level (fn == "") or inside function fn.
func constIn(f *ast.File, fn, name string) ast.Expr {
	var found ast.Expr
	visitDecl := func(gd *ast.GenDecl) {
		if gd.Tok != token.CONST {
			return
		}
		for _, s := range gd.Specs {
			vs := s.(*ast.ValueSpec)
			for i, n := range vs.Names {
				if n.Name == name && i < len(vs.Values) {
					found = vs.Values[i]
				}
			}
		}
	}
	for _, d := range f.Decls {
		switch x := d.(type) {
		case *ast.GenDecl:
			if fn == "" {
				visitDecl(x)
			}
		case *ast.FuncDecl:
			if fn != "" && x.Name.Name == fn && x.Body != nil {
				ast.Inspect(x.Body, func(n ast.Node) bool {
					if ds, ok := n.(*ast.DeclStmt); ok {
						if gd, ok := ds.Decl.(*ast.GenDecl); ok {
							visitDecl(gd)
						}
					}
					return true
				})
			}
		}
	}
	return found
}

func init() {
	register("Initial", func(c *Ctx, w *LeanFile) error {
		parse := func(rel string) (*ast.File, error) {
			return parser.ParseFile(c.Fset, filepath.Join(c.Repo, rel), nil, 0)
		}
		emit := func(rel, fn, goName, leanName string) error {
			f, err := parse(rel)
			if err != nil {
				return err
			}
			e := constIn(f, fn, goName)
			if e == nil {
				return fmt.Errorf("constant %s not found in %s (func %q)", goName, rel, fn)
			}
			v, err := evalConstExpr(c.Fset, e)
			if err != nil {
				return err
			}
			w.P("/-- %s `%s`%s -/", rel, goName, map[bool]string{true: " in " + fn, false: ""}[fn != ""])
			w.P("def %s : Int := %s", leanName, v)
			return nil
		}
		if err := emit("u_quic_spec.go", "", "DefaultUDPDatagramMinSize", "DefaultUDPDatagramMinSize"); err != nil {
			return err
		}
		if err := emit("u_packet_packer.go", "PackCoalescedPacket", "paddingReserve", "paddingReserve"); err != nil {
			return err
		}
		if err := emit("u_initial_packet_spec.go", "initialPN", "maxPN", "maxPN"); err != nil {
			return err
		}
		// width of the Length varint: the literal passed to quicvarint.AppendWithLen in ExtendedHeader.Append
		// and the `2 /* length */` summand of GetLength must agree; both are extracted.
		f, err := parse("internal/wire/extended_header.go")
		if err != nil {
			return err
		}
		var appendW, getLenW string
		for _, d := range f.Decls {
			fd, ok := d.(*ast.FuncDecl)
			if !ok || fd.Body == nil {
				continue
			}
			switch fd.Name.Name {
			case "Append":
				ast.Inspect(fd.Body, func(n ast.Node) bool {
					if ce, ok := n.(*ast.CallExpr); ok {
						if se, ok := ce.Fun.(*ast.SelectorExpr); ok && se.Sel.Name == "AppendWithLen" && len(ce.Args) == 3 {
							if v, err := evalConstExpr(c.Fset, ce.Args[2]); err == nil {
								appendW = v
							}
						}
					}
					return true
				})
			case "GetLength":
				// the only untyped integer literal `2` that is a direct summand of the first assignment
				ast.Inspect(fd.Body, func(n ast.Node) bool {
					if as, ok := n.(*ast.AssignStmt); ok && getLenW == "" && len(as.Rhs) == 1 {
						var lits []string
						var walk func(e ast.Expr)
						walk = func(e ast.Expr) {
							switch x := e.(type) {
							case *ast.BinaryExpr:
								if x.Op == token.ADD {
									walk(x.X)
									walk(x.Y)
								}
							case *ast.BasicLit:
								lits = append(lits, x.Value)
							}
						}
						walk(as.Rhs[0])
						// 1 (type byte) + 4 (version) + 1 + 1 (CID length bytes) + <length varint>
						if len(lits) == 5 && lits[0] == "1" && lits[1] == "4" && lits[2] == "1" && lits[3] == "1" {
							getLenW = lits[4]
						}
					}
					return true
				})
			}
		}
		if appendW == "" || getLenW == "" {
			return fmt.Errorf("extended_header.go: Length varint width not found (Append: %q, GetLength: %q)", appendW, getLenW)
		}
		w.P("/-- internal/wire/extended_header.go: width passed to quicvarint.AppendWithLen for the Length field -/")
		w.P("def lengthVarintWidthAppend : Int := %s", appendW)
		w.P("/-- internal/wire/extended_header.go: bytes GetLength reserves for the Length field -/")
		w.P("def lengthVarintWidthGetLength : Int := %s", getLenW)
		return nil
	})
}
