package main

// Stream-lifecycle predicates of the root package translated to Lean (area "StreamLife", property C15):
// ReceiveStream.isNewlyCompleted decides when a receive stream reports completion to the connection, which
// deletes it from the streams map and thereby issues MAX_STREAMS credit. The model function
// Uquic.Model.Streams.RHalf.isNewlyCompleted is proved equal to this translation (Uquic.Props.TransStreamLife).
func init() {
	registerTrans("StreamLife",
		TFunc{Dir: ".", Recv: "ReceiveStream", Name: "isNewlyCompleted", Writes: true},
	)
}
