package main

import (
	"fmt"
	"go/ast"
	"go/constant"
	"go/parser"
	"go/token"
	"io/fs"
	"math"
	"path/filepath"
	"sort"
	"strings"
)

// Congestion: constants of internal/congestion (integers as they are, renoBeta as its exact
// binary64 value m·2^e), utils.DefaultInitialRTT, and three call-site facts:
//   - the literal `reno` argument of every non-test call of congestion.NewCubicSender,
//   - the number of non-test call sites of OnRetransmissionTimeout / OnConnectionMigration
//     (methods of the sender that no production code calls; the model leaves them out and the
//     theorems depend on these counts being 0).
func init() {
	register("Congestion", func(c *Ctx, w *LeanFile) error {
		p, err := c.Load("internal/congestion")
		if err != nil {
			return err
		}
		c.EmitAllIntConsts(w, p, map[string]bool{"cubic_sender.go": true, "pacer.go": true, "hybrid_slow_start.go": true, "bandwidth.go": true})

		// renoBeta: exact binary64 value
		v, _, pos, ok := p.Const("renoBeta")
		if !ok {
			return fmt.Errorf("constant renoBeta not found")
		}
		f, _ := constant.Float64Val(v) // nearest float64, which is what `float64(x) * renoBeta` uses
		if !(f > 0) || math.IsInf(f, 0) {
			return fmt.Errorf("renoBeta = %v is not a positive finite float64", v)
		}
		bits := math.Float64bits(f)
		exp := int((bits>>52)&0x7ff) - 1075
		man := bits&(1<<52-1) | 1<<52
		if (bits>>52)&0x7ff == 0 {
			return fmt.Errorf("renoBeta is subnormal")
		}
		w.P("/-- %s `renoBeta` = %s: binary64 bit pattern 0x%016x = renoBetaMant * 2^renoBetaExp, 2^52 ≤ renoBetaMant < 2^53 -/", c.pos(pos), v.ExactString(), bits)
		w.P("def renoBetaMant : Nat := %d", man)
		w.P("def renoBetaExp : Int := (%d)", exp)
		w.P("def renoBetaBits : Nat := 0x%016x", bits)

		u, err := c.Load("internal/utils")
		if err != nil {
			return err
		}
		if err := c.EmitIntConst(w, u, "DefaultInitialRTT", "DefaultInitialRTT"); err != nil {
			return err
		}

		// call sites (syntactic walk over every non-test Go file of the repository)
		type site struct {
			file string
			lit  string
		}
		var renoSites []site
		rto, mig := 0, 0
		var rtoFiles, migFiles []string
		fset := token.NewFileSet()
		werr := filepath.WalkDir(c.Repo, func(path string, d fs.DirEntry, err error) error {
			if err != nil {
				return nil
			}
			if d.IsDir() {
				n := d.Name()
				if n == ".git" || n == "testdata" || (strings.HasPrefix(n, ".") && path != c.Repo) {
					return filepath.SkipDir
				}
				return nil
			}
			if !strings.HasSuffix(path, ".go") || strings.HasSuffix(path, "_test.go") {
				return nil
			}
			af, perr := parser.ParseFile(fset, path, nil, parser.SkipObjectResolution)
			if perr != nil {
				return nil
			}
			rel, _ := filepath.Rel(c.Repo, path)
			ast.Inspect(af, func(n ast.Node) bool {
				ce, ok := n.(*ast.CallExpr)
				if !ok {
					return true
				}
				name := ""
				switch fn := ce.Fun.(type) {
				case *ast.SelectorExpr:
					name = fn.Sel.Name
				case *ast.Ident:
					name = fn.Name
				}
				switch name {
				case "NewCubicSender":
					lit := "?"
					if len(ce.Args) == 6 {
						if id, ok := ce.Args[4].(*ast.Ident); ok && (id.Name == "true" || id.Name == "false") {
							lit = id.Name
						}
					}
					renoSites = append(renoSites, site{rel, lit})
				case "OnRetransmissionTimeout":
					rto++
					rtoFiles = append(rtoFiles, rel)
				case "OnConnectionMigration":
					mig++
					migFiles = append(migFiles, rel)
				}
				return true
			})
			return nil
		})
		if werr != nil {
			return werr
		}
		sort.Slice(renoSites, func(i, j int) bool { return renoSites[i].file < renoSites[j].file })
		var lits, files []string
		all := len(renoSites) > 0
		for _, s := range renoSites {
			if s.lit == "?" {
				return fmt.Errorf("NewCubicSender call in %s does not pass a boolean literal as `reno`", s.file)
			}
			lits = append(lits, s.lit)
			files = append(files, s.file)
			all = all && s.lit == "true"
		}
		w.P("/-- the `reno` argument literal at every non-test call of NewCubicSender: %s -/", strings.Join(files, ", "))
		w.P("def renoCallSites : List Bool := [%s]", strings.Join(lits, ", "))
		w.P("/-- every production call site selects Reno (and there is at least one) -/")
		w.P("def renoEverywhere : Bool := %v", all)
		w.P("/-- non-test call sites of (*cubicSender).OnRetransmissionTimeout: %s -/", strings.Join(rtoFiles, ", "))
		w.P("def rtoCallSites : Nat := %d", rto)
		w.P("/-- non-test call sites of (*cubicSender).OnConnectionMigration: %s -/", strings.Join(migFiles, ", "))
		w.P("def migrationCallSites : Nat := %d", mig)
		return nil
	})
}
