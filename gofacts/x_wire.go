package main

// Facts for property C08 (wire codecs): frame-type numbering, the
// allowed-at-encryption-level table, type-range predicates, varint bounds,
// transport parameter ids and the literal limits used by the parsers.
// Everything is read from the AST / go/types of /repo; when the expected shape
// is not found an error is returned, which breaks the dependent Lean build.

import (
	"fmt"
	"go/ast"
	"go/constant"
	"go/token"
	"strings"
)

func init() {
	register("Wire", func(c *Ctx, w *LeanFile) error {
		wp, err := c.Load("internal/wire")
		if err != nil {
			return err
		}
		vp, err := c.Load("quicvarint")
		if err != nil {
			return err
		}
		pp, err := c.Load("internal/protocol")
		if err != nil {
			return err
		}
		hp, err := c.Load("internal/handshake")
		if err != nil {
			return err
		}
		w.P("/-! ### quicvarint bounds -/")
		for _, n := range []string{"maxVarInt1", "maxVarInt2", "maxVarInt4", "maxVarInt8"} {
			if err := c.EmitIntConst(w, vp, n, n); err != nil {
				return err
			}
		}
		w.P("/-! ### frame types and transport parameter ids -/")
		c.EmitAllIntConsts(w, wp, map[string]bool{"frame_type.go": true, "transport_parameters.go": true})
		w.P("/-! ### versions -/")
		for _, n := range []string{"Version1", "Version2"} {
			if err := c.EmitIntConst(w, pp, n, n); err != nil {
				return err
			}
		}
		if err := emitVarIntList(c, w, pp, "SupportedVersions", "SupportedVersions"); err != nil {
			return err
		}
		if err := c.EmitIntConst(w, pp, "maxConnectionIDLen", "maxConnectionIDLen"); err != nil {
			return err
		}
		w.P("/-! ### token envelope -/")
		if err := c.EmitIntConst(w, hp, "tokenNonceSize", "tokenNonceSize"); err != nil {
			return err
		}
		w.P("/-! ### predicates on frame types (shape: comparisons against literals) -/")
		// isValidRFC9000: `return t <= C`
		if v, err := singleCompare(c, wp, "FrameType", "isValidRFC9000", token.LEQ); err != nil {
			return err
		} else {
			w.P("/-- internal/wire/frame_type.go `isValidRFC9000`: t <= this -/")
			w.P("def validRFC9000Max : Int := %s", v)
		}
		// IsStreamFrameType: `return t >= A && t <= B`
		lo, hi, err := rangeCompare(c, wp, "FrameType", "IsStreamFrameType")
		if err != nil {
			return err
		}
		w.P("/-- internal/wire/frame_type.go `IsStreamFrameType`: lo <= t <= hi -/")
		w.P("def streamTypeMin : Int := %s", lo)
		w.P("def streamTypeMax : Int := %s", hi)
		if err := emitEncLevelTable(c, w, wp); err != nil {
			return err
		}
		w.P("/-! ### literal limits inside readNumericTransportParameter (first `if val <op> lit` of the case) -/")
		for _, it := range []struct{ caseConst, lean string }{
			{"maxUDPPayloadSizeParameterID", "minMaxUDPPayloadSize"},
			{"activeConnectionIDLimitParameterID", "minActiveConnectionIDLimit"},
		} {
			v, err := caseIfLiteral(c, wp, "TransportParameters", "readNumericTransportParameter", it.caseConst, token.LSS)
			if err != nil {
				return err
			}
			w.P("/-- internal/wire/transport_parameters.go readNumericTransportParameter case %s: rejected when val < this -/", it.caseConst)
			w.P("def %s : Int := %s", it.lean, v)
		}
		w.P("/-! ### guards that protect slice indexing -/")
		pa, err := firstIfLenGuard(c, wp, "TransportParameters", "readPreferredAddress")
		if err != nil {
			return err
		}
		w.P("/-- internal/wire/transport_parameters.go readPreferredAddress: `if len(b) < this { return io.EOF }` (first statement guarding the fixed-offset reads) -/")
		w.P("def preferredAddressMinLen : Int := %s", pa)
		return nil
	})
}

// firstIfLenGuard returns the constant C of the first `if len(x) < C` statement of a method.
func firstIfLenGuard(c *Ctx, p *Pkg, recv, name string) (string, error) {
	fd := p.FuncDecl(recv, name)
	if fd == nil || fd.Body == nil {
		return "", fmt.Errorf("%s.%s not found", recv, name)
	}
	for _, s := range fd.Body.List {
		is, ok := s.(*ast.IfStmt)
		if !ok {
			continue
		}
		be, ok := is.Cond.(*ast.BinaryExpr)
		if !ok || be.Op != token.LSS {
			return "", fmt.Errorf("%s.%s: first if is not `len(b) < const`", recv, name)
		}
		call, ok := be.X.(*ast.CallExpr)
		if !ok {
			return "", fmt.Errorf("%s.%s: first if is not `len(b) < const`", recv, name)
		}
		if id, ok := call.Fun.(*ast.Ident); !ok || id.Name != "len" {
			return "", fmt.Errorf("%s.%s: first if is not `len(b) < const`", recv, name)
		}
		v, ok := constOf(p, be.Y)
		if !ok {
			return "", fmt.Errorf("%s.%s: guard bound is not constant", recv, name)
		}
		return v, nil
	}
	return "", fmt.Errorf("%s.%s: no length guard found", recv, name)
}

// emitVarIntList emits a package-level `var X = []T{a, b}` of integer constants.
func emitVarIntList(c *Ctx, w *LeanFile, p *Pkg, goName, leanName string) error {
	for _, f := range p.Files {
		for _, d := range f.Decls {
			gd, ok := d.(*ast.GenDecl)
			if !ok || gd.Tok != token.VAR {
				continue
			}
			for _, s := range gd.Specs {
				vs := s.(*ast.ValueSpec)
				for i, n := range vs.Names {
					if n.Name != goName || i >= len(vs.Values) {
						continue
					}
					cl, ok := vs.Values[i].(*ast.CompositeLit)
					if !ok {
						return fmt.Errorf("%s is not a composite literal", goName)
					}
					var vals []string
					for _, e := range cl.Elts {
						tv, ok := p.Info.Types[e]
						if !ok || tv.Value == nil {
							return fmt.Errorf("%s: element is not constant", goName)
						}
						vals = append(vals, constant.ToInt(tv.Value).ExactString())
					}
					w.P("/-- %s `%s` -/", c.pos(n.Pos()), goName)
					w.P("def %s : List Int := [%s]", leanName, strings.Join(vals, ", "))
					return nil
				}
			}
		}
	}
	return fmt.Errorf("var %s not found", goName)
}

func constOf(p *Pkg, e ast.Expr) (string, bool) {
	tv, ok := p.Info.Types[e]
	if !ok || tv.Value == nil {
		return "", false
	}
	iv := constant.ToInt(tv.Value)
	if iv.Kind() != constant.Int {
		return "", false
	}
	return iv.ExactString(), true
}

func singleReturn(p *Pkg, recv, name string) (ast.Expr, error) {
	fd := p.FuncDecl(recv, name)
	if fd == nil || fd.Body == nil || len(fd.Body.List) != 1 {
		return nil, fmt.Errorf("%s.%s: expected a single return statement", recv, name)
	}
	rs, ok := fd.Body.List[0].(*ast.ReturnStmt)
	if !ok || len(rs.Results) != 1 {
		return nil, fmt.Errorf("%s.%s: expected a single return statement", recv, name)
	}
	return rs.Results[0], nil
}

func singleCompare(c *Ctx, p *Pkg, recv, name string, op token.Token) (string, error) {
	e, err := singleReturn(p, recv, name)
	if err != nil {
		return "", err
	}
	be, ok := e.(*ast.BinaryExpr)
	if !ok || be.Op != op {
		return "", fmt.Errorf("%s.%s: expected `x %s const`", recv, name, op)
	}
	v, ok := constOf(p, be.Y)
	if !ok {
		return "", fmt.Errorf("%s.%s: right operand is not constant", recv, name)
	}
	return v, nil
}

func rangeCompare(c *Ctx, p *Pkg, recv, name string) (string, string, error) {
	e, err := singleReturn(p, recv, name)
	if err != nil {
		return "", "", err
	}
	be, ok := e.(*ast.BinaryExpr)
	if !ok || be.Op != token.LAND {
		return "", "", fmt.Errorf("%s.%s: expected `t >= a && t <= b`", recv, name)
	}
	l, ok1 := be.X.(*ast.BinaryExpr)
	r, ok2 := be.Y.(*ast.BinaryExpr)
	if !ok1 || !ok2 || l.Op != token.GEQ || r.Op != token.LEQ {
		return "", "", fmt.Errorf("%s.%s: expected `t >= a && t <= b`", recv, name)
	}
	lo, ok1 := constOf(p, l.Y)
	hi, ok2 := constOf(p, r.Y)
	if !ok1 || !ok2 {
		return "", "", fmt.Errorf("%s.%s: bounds are not constant", recv, name)
	}
	return lo, hi, nil
}

// emitEncLevelTable reads FrameType.isAllowedAtEncLevel: an outer switch on the
// encryption level whose clauses are `return <bool>` or an inner
// `switch t { case …: return X; default: return Y }`.
func emitEncLevelTable(c *Ctx, w *LeanFile, p *Pkg) error {
	fd := p.FuncDecl("FrameType", "isAllowedAtEncLevel")
	if fd == nil {
		return fmt.Errorf("isAllowedAtEncLevel not found")
	}
	var sw *ast.SwitchStmt
	for _, s := range fd.Body.List {
		if x, ok := s.(*ast.SwitchStmt); ok {
			sw = x
		}
	}
	if sw == nil {
		return fmt.Errorf("isAllowedAtEncLevel: no switch")
	}
	boolOf := func(s ast.Stmt) (string, bool) {
		rs, ok := s.(*ast.ReturnStmt)
		if !ok || len(rs.Results) != 1 {
			return "", false
		}
		id, ok := rs.Results[0].(*ast.Ident)
		if !ok || (id.Name != "true" && id.Name != "false") {
			return "", false
		}
		return id.Name, true
	}
	var rows []string
	defaultPanics := false
	for _, cs := range sw.Body.List {
		cc := cs.(*ast.CaseClause)
		if cc.List == nil { // default
			if len(cc.Body) == 1 {
				if es, ok := cc.Body[0].(*ast.ExprStmt); ok {
					if call, ok := es.X.(*ast.CallExpr); ok {
						if id, ok := call.Fun.(*ast.Ident); ok && id.Name == "panic" {
							defaultPanics = true
							continue
						}
					}
				}
			}
			return fmt.Errorf("isAllowedAtEncLevel: unexpected default clause")
		}
		var lvls []string
		for _, e := range cc.List {
			v, ok := constOf(p, e)
			if !ok {
				return fmt.Errorf("isAllowedAtEncLevel: non-constant level")
			}
			lvls = append(lvls, v)
		}
		if len(cc.Body) != 1 {
			return fmt.Errorf("isAllowedAtEncLevel: unexpected clause body")
		}
		if b, ok := boolOf(cc.Body[0]); ok {
			rows = append(rows, fmt.Sprintf("([%s], [], %s, %s)", strings.Join(lvls, ", "), b, b))
			continue
		}
		inner, ok := cc.Body[0].(*ast.SwitchStmt)
		if !ok {
			return fmt.Errorf("isAllowedAtEncLevel: unexpected clause body")
		}
		var listed []string
		listedVal, defVal := "", ""
		for _, ics := range inner.Body.List {
			icc := ics.(*ast.CaseClause)
			if len(icc.Body) != 1 {
				return fmt.Errorf("isAllowedAtEncLevel: unexpected inner clause")
			}
			b, ok := boolOf(icc.Body[0])
			if !ok {
				return fmt.Errorf("isAllowedAtEncLevel: unexpected inner clause")
			}
			if icc.List == nil {
				defVal = b
				continue
			}
			if listedVal != "" && listedVal != b {
				return fmt.Errorf("isAllowedAtEncLevel: mixed inner clauses")
			}
			listedVal = b
			for _, e := range icc.List {
				v, ok := constOf(p, e)
				if !ok {
					return fmt.Errorf("isAllowedAtEncLevel: non-constant frame type")
				}
				listed = append(listed, v)
			}
		}
		if listedVal == "" || defVal == "" {
			return fmt.Errorf("isAllowedAtEncLevel: inner switch incomplete")
		}
		rows = append(rows, fmt.Sprintf("([%s], [%s], %s, %s)", strings.Join(lvls, ", "), strings.Join(listed, ", "), listedVal, defVal))
	}
	w.P("/-- %s `isAllowedAtEncLevel`: rows (levels, listed frame types, result for listed, result otherwise);", c.pos(fd.Pos()))
	w.P("    a level in no row %s -/", map[bool]string{true: "panics", false: "falls through"}[defaultPanics])
	w.P("def encLevelTable : List (List Int × List Int × Bool × Bool) := [%s]", strings.Join(rows, ", "))
	w.P("def encLevelDefaultPanics : Bool := %v", defaultPanics)
	return nil
}

// caseIfLiteral finds, in method recv.name, the switch clause listing constant
// caseConst and returns the literal L of its first `if val <op> L` statement.
func caseIfLiteral(c *Ctx, p *Pkg, recv, name, caseConst string, op token.Token) (string, error) {
	fd := p.FuncDecl(recv, name)
	if fd == nil {
		return "", fmt.Errorf("%s.%s not found", recv, name)
	}
	var out string
	var found bool
	ast.Inspect(fd.Body, func(n ast.Node) bool {
		cc, ok := n.(*ast.CaseClause)
		if !ok || found {
			return true
		}
		hit := false
		for _, e := range cc.List {
			if id, ok := e.(*ast.Ident); ok && id.Name == caseConst {
				hit = true
			}
		}
		if !hit {
			return true
		}
		for _, s := range cc.Body {
			is, ok := s.(*ast.IfStmt)
			if !ok {
				continue
			}
			be, ok := is.Cond.(*ast.BinaryExpr)
			if !ok || be.Op != op {
				continue
			}
			if v, ok := constOf(p, be.Y); ok {
				out, found = v, true
				break
			}
		}
		return true
	})
	if !found {
		return "", fmt.Errorf("%s.%s: case %s has no `if val %s literal`", recv, name, caseConst, op)
	}
	return out, nil
}
