package main

// Facts for property C08 (wire codecs): frame-type numbering, the
// allowed-at-encryption-level table, type-range predicates, varint bounds,
// transport parameter ids and the literal limits used by the parsers.
// Everything is read from the AST / go/types of /repo; when the expected shape
// is not found an error is returned, which breaks the dependent Lean build.

import (
	"fmt"
	"go/ast"
	"go/constant"
	"go/token"
	"strings"
)

func init() {
	register("Wire", func(c *Ctx, w *LeanFile) error {
		wp, err := c.Load("internal/wire")
		if err != nil {
			return err
		}
		vp, err := c.Load("quicvarint")
		if err != nil {
			return err
		}
		pp, err := c.Load("internal/protocol")
		if err != nil {
			return err
		}
		hp, err := c.Load("internal/handshake")
		if err != nil {
			return err
		}
		w.P("/-! ### quicvarint bounds -/")
		for _, n := range []string{"maxVarInt1", "maxVarInt2", "maxVarInt4", "maxVarInt8"} {
			if err := c.EmitIntConst(w, vp, n, n); err != nil {
				return err
			}
		}
		w.P("/-! ### frame types and transport parameter ids -/")
		c.EmitAllIntConsts(w, wp, map[string]bool{"frame_type.go": true, "transport_parameters.go": true})
		w.P("/-! ### versions -/")
		for _, n := range []string{"Version1", "Version2"} {
			if err := c.EmitIntConst(w, pp, n, n); err != nil {
				return err
			}
		}
		if err := emitVarIntList(c, w, pp, "SupportedVersions", "SupportedVersions"); err != nil {
			return err
		}
		if err := c.EmitIntConst(w, pp, "maxConnectionIDLen", "maxConnectionIDLen"); err != nil {
			return err
		}
		w.P("/-! ### token envelope -/")
		if err := c.EmitIntConst(w, hp, "tokenNonceSize", "tokenNonceSize"); err != nil {
			return err
		}
		w.P("/-! ### predicates on frame types (shape: comparisons against literals) -/")
		// isValidRFC9000: `return t <= C`
		if v, err := singleCompare(c, wp, "FrameType", "isValidRFC9000", token.LEQ); err != nil {
			return err
		} else {
			w.P("/-- internal/wire/frame_type.go `isValidRFC9000`: t <= this -/")
			w.P("def validRFC9000Max : Int := %s", v)
		}
		// IsStreamFrameType: `return t >= A && t <= B`
		lo, hi, err := rangeCompare(c, wp, "FrameType", "IsStreamFrameType")
		if err != nil {
			return err
		}
		w.P("/-- internal/wire/frame_type.go `IsStreamFrameType`: lo <= t <= hi -/")
		w.P("def streamTypeMin : Int := %s", lo)
		w.P("def streamTypeMax : Int := %s", hi)
		if err := emitEncLevelTable(c, w, wp); err != nil {
			return err
		}
		w.P("/-! ### literal limits inside readNumericTransportParameter (first `if val <op> lit` of the case) -/")
		for _, it := range []struct{ caseConst, lean string }{
			{"maxUDPPayloadSizeParameterID", "minMaxUDPPayloadSize"},
			{"activeConnectionIDLimitParameterID", "minActiveConnectionIDLimit"},
		} {
			v, err := caseIfLiteral(c, wp, "TransportParameters", "readNumericTransportParameter", it.caseConst, token.LSS)
			if err != nil {
				return err
			}
			w.P("/-- internal/wire/transport_parameters.go readNumericTransportParameter case %s: rejected when val < this -/", it.caseConst)
			w.P("def %s : Int := %s", it.lean, v)
		}
		w.P("/-! ### guards that protect slice indexing -/")
		pa, err := firstIfLenGuard(c, wp, "TransportParameters", "readPreferredAddress")
		if err != nil {
			return err
		}
		w.P("/-- internal/wire/transport_parameters.go readPreferredAddress: `if len(b) < this { return io.EOF }` (first statement guarding the fixed-offset reads) -/")
		w.P("def preferredAddressMinLen : Int := %s", pa)
		return nil
	})
}

// firstIfLenGuard returns the constant C of the first `if len(x) < C` statement of a method.
func firstIfLenGuard(c *Ctx, p *Pkg, recv, name string) (string, error) {
	fd := p.FuncDecl(recv, name)
	if fd == nil || fd.Body == nil {
		return "", fmt.Errorf("%s.%s not found", recv, name)
	}
	for _, s := range fd.Body.List {
		is, ok := s.(*ast.IfStmt)
		if !ok {
			continue
		}
		be, ok := is.Cond.(*ast.BinaryExpr)
		if !ok || be.Op != token.LSS {
			return "", fmt.Errorf("%s.%s: first if is not `len(b) < const`", recv, name)
		}
		call, ok := be.X.(*ast.CallExpr)
		if !ok {
			return "", fmt.Errorf("%s.%s: first if is not `len(b) < const`", recv, name)
		}
		if id, ok := call.Fun.(*ast.Ident); !ok || id.Name != "len" {
			return "", fmt.Errorf("%s.%s: first if is not `len(b) < const`", recv, name)
		}
		v, ok := constOf(p, be.Y)
		if !ok {
			return "", fmt.Errorf("%s.%s: guard bound is not constant", recv, name)
		}
		return v, nil
	}
	return "", fmt.Errorf("%s.%s: no length guard found", recv, name)
}

// emitVarIntList emits a package-level `var X = []T{a, b}` of integer constants.
func emitVarIntList(c *Ctx, w *LeanFile, p *Pkg, goName, leanName string) error {
	for _, f := range p.Files {
		for _, d := range f.Decls {
			gd, ok := d.(*ast.GenDecl)
			if !ok || gd.Tok != token.VAR {
				continue
			}
			for _, s := range gd.Specs {
				vs := s.(*ast.ValueSpec)
				for i, n := range vs.Names {
					if n.Name != goName || i >= len(vs.Values) {
						continue
					}
					cl, ok := vs.Values[i].(*ast.CompositeLit)
					if !ok {
						return fmt.Errorf("%s is not a composite literal", goName)
					}
					var vals []string
					for _, e := range cl.Elts {
						tv, ok := p.Info.Types[e]
						if !ok || tv.Value == nil {
							return fmt.Errorf("%s: element is not constant", goName)
						}
						vals = append(vals, constant.ToInt(tv.Value).ExactString())
					}
					w.P("/-- %s `%s` -/", c.pos(n.Pos()), goName)
					w.P("def %s : List Int := [%s]", leanName, strings.Join(vals, ", "))
					return nil
				}
			}
		}
	}
	return fmt.Errorf("var %s not found", goName)
}

func constOf(p *Pkg, e ast.Expr) (string, bool) {
	tv, ok := p.Info.Types[e]
	if !ok || tv.Value == nil {
		return "", false
	}
	iv := constant.ToInt(tv.Value)
	if iv.Kind() != constant.Int {
		return "", false
	}
	return iv.ExactString(), true
}

func singleReturn(p *Pkg, recv, name string) (ast.Expr, error) {
	fd := p.FuncDecl(recv, name)
	if fd == nil || fd.Body == nil || len(fd.Body.List) != 1 {
		return nil, fmt.Errorf("%s.%s: expected a single return statement", recv, name)
	}
	rs, ok := fd.Body.List[0].(*ast.ReturnStmt)
	if !ok || len(rs.Results) != 1 {
		return nil, fmt.Errorf("%s.%s: expected a single return statement", recv, name)
	}
	return rs.Results[0], nil
}

func singleCompare(c *Ctx, p *Pkg, recv, name string, op token.Token) (string, error) {
	e, err := singleReturn(p, recv, name)
	if err != nil {
		return "", err
	}
	be, ok := e.(*ast.BinaryExpr)
	if !ok || be.Op != op {
		return "", fmt.Errorf("%s.%s: expected `x %s const`", recv, name, op)
	}
	v, ok := constOf(p, be.Y)
	if !ok {
		return "", fmt.Errorf("%s.%s: right operand is not constant", recv, name)
	}
	return v, nil
}

func rangeCompare(c *Ctx, p *Pkg, recv, name string) (string, string, error) {
	e, err := singleReturn(p, recv, name)
	if err != nil {
		return "", "", err
	}
	be, ok := e.(*ast.BinaryExpr)
	if !ok || be.Op != token.LAND {
		return "", "", fmt.Errorf("%s.%s: expected `t >= a && t <= b`", recv, name)
	}
	l, ok1 := be.X.(*ast.BinaryExpr)
	r, ok2 := be.Y.(*ast.BinaryExpr)
	if !ok1 || !ok2 || l.Op != token.GEQ || r.Op != token.LEQ {
		return "", "", fmt.Errorf("%s.%s: expected `t >= a && t <= b`", recv, name)
	}
	lo, ok1 := constOf(p, l.Y)
	hi, ok2 := constOf(p, r.Y)
	if !ok1 || !ok2 {
		return "", "", fmt.Errorf("%s.%s: bounds are not constant", recv, name)
	}
	return lo, hi, nil
}

// emitEncLevelTable reads FrameType.isAllowedAtEncLevel: an outer switch on the encryption level.
// Each clause body is evaluated symbolically for every frame type 0..255 and for one large
// sentinel ("any other type") by a small interpreter of boolean Go expressions over the receiver
// (||, &&, !, comparisons with constants, calls of single-return predicate methods on the receiver,
// inner `switch t` with constant cases). No control flow is translated: the result is a table.
func emitEncLevelTable(c *Ctx, w *LeanFile, p *Pkg) error {
	fd := p.FuncDecl("FrameType", "isAllowedAtEncLevel")
	if fd == nil || fd.Recv == nil || len(fd.Recv.List) != 1 || len(fd.Recv.List[0].Names) != 1 {
		return fmt.Errorf("isAllowedAtEncLevel not found")
	}
	recv := fd.Recv.List[0].Names[0].Name
	var sw *ast.SwitchStmt
	for _, s := range fd.Body.List {
		if x, ok := s.(*ast.SwitchStmt); ok {
			sw = x
		}
	}
	if sw == nil {
		return fmt.Errorf("isAllowedAtEncLevel: no switch")
	}
	const sentinel = int64(1) << 40
	var rows []string
	defaultPanics := false
	for _, cs := range sw.Body.List {
		cc := cs.(*ast.CaseClause)
		if cc.List == nil { // default
			if len(cc.Body) == 1 {
				if es, ok := cc.Body[0].(*ast.ExprStmt); ok {
					if call, ok := es.X.(*ast.CallExpr); ok {
						if id, ok := call.Fun.(*ast.Ident); ok && id.Name == "panic" {
							defaultPanics = true
							continue
						}
					}
				}
			}
			return fmt.Errorf("isAllowedAtEncLevel: unexpected default clause")
		}
		var lvls []string
		for _, e := range cc.List {
			v, ok := constOf(p, e)
			if !ok {
				return fmt.Errorf("isAllowedAtEncLevel: non-constant level")
			}
			lvls = append(lvls, v)
		}
		other, err := evalStmts(p, recv, cc.Body, sentinel, 0)
		if err != nil {
			return fmt.Errorf("isAllowedAtEncLevel: %v", err)
		}
		var listed []string
		for t := int64(0); t < 256; t++ {
			v, err := evalStmts(p, recv, cc.Body, t, 0)
			if err != nil {
				return fmt.Errorf("isAllowedAtEncLevel: %v", err)
			}
			if v != other {
				listed = append(listed, fmt.Sprint(t))
			}
		}
		rows = append(rows, fmt.Sprintf("([%s], [%s], %v, %v)", strings.Join(lvls, ", "), strings.Join(listed, ", "), !other, other))
	}
	w.P("/-- %s `isAllowedAtEncLevel`: rows (levels, listed frame types, result for listed, result otherwise),", c.pos(fd.Pos()))
	w.P("    obtained by evaluating each clause for every type 0..255 and for one other value;")
	w.P("    a level in no row %s -/", map[bool]string{true: "panics", false: "falls through"}[defaultPanics])
	w.P("def encLevelTable : List (List Int × List Int × Bool × Bool) := [%s]", strings.Join(rows, ", "))
	w.P("def encLevelDefaultPanics : Bool := %v", defaultPanics)
	return nil
}

// evalStmts evaluates a statement list that returns a bool, with the receiver bound to t.
func evalStmts(p *Pkg, recv string, body []ast.Stmt, t int64, depth int) (bool, error) {
	if depth > 8 {
		return false, fmt.Errorf("predicate nesting too deep")
	}
	for _, s := range body {
		switch x := s.(type) {
		case *ast.ReturnStmt:
			if len(x.Results) != 1 {
				return false, fmt.Errorf("unexpected return")
			}
			return evalBool(p, recv, x.Results[0], t, depth)
		case *ast.SwitchStmt:
			tag, ok := x.Tag.(*ast.Ident)
			if !ok || tag.Name != recv || x.Init != nil {
				return false, fmt.Errorf("unsupported switch")
			}
			var def *ast.CaseClause
			matched := false
			for _, ics := range x.Body.List {
				icc := ics.(*ast.CaseClause)
				if icc.List == nil {
					def = icc
					continue
				}
				for _, e := range icc.List {
					v, ok := constOf(p, e)
					if !ok {
						return false, fmt.Errorf("non-constant case")
					}
					if v == fmt.Sprint(t) {
						matched = true
					}
				}
				if matched {
					return evalStmts(p, recv, icc.Body, t, depth)
				}
			}
			if def != nil {
				return evalStmts(p, recv, def.Body, t, depth)
			}
			// falls out of the switch: continue with the next statement
		case *ast.IfStmt:
			if x.Init != nil {
				return false, fmt.Errorf("unsupported if")
			}
			c, err := evalBool(p, recv, x.Cond, t, depth)
			if err != nil {
				return false, err
			}
			if c {
				return evalStmts(p, recv, x.Body.List, t, depth)
			} else if x.Else != nil {
				if blk, ok := x.Else.(*ast.BlockStmt); ok {
					return evalStmts(p, recv, blk.List, t, depth)
				}
				return evalStmts(p, recv, []ast.Stmt{x.Else}, t, depth)
			}
		default:
			return false, fmt.Errorf("unsupported statement %T", s)
		}
	}
	return false, fmt.Errorf("no return reached")
}

func evalInt(p *Pkg, recv string, e ast.Expr, t int64) (int64, error) {
	switch x := e.(type) {
	case *ast.ParenExpr:
		return evalInt(p, recv, x.X, t)
	case *ast.Ident:
		if x.Name == recv {
			return t, nil
		}
	case *ast.CallExpr: // conversions such as uint64(t)
		if len(x.Args) == 1 {
			if tv, ok := p.Info.Types[x.Fun]; ok && tv.IsType() {
				return evalInt(p, recv, x.Args[0], t)
			}
		}
	}
	if v, ok := constOf(p, e); ok {
		var n int64
		if _, err := fmt.Sscan(v, &n); err == nil {
			return n, nil
		}
	}
	return 0, fmt.Errorf("unsupported integer expression")
}

func evalBool(p *Pkg, recv string, e ast.Expr, t int64, depth int) (bool, error) {
	switch x := e.(type) {
	case *ast.ParenExpr:
		return evalBool(p, recv, x.X, t, depth)
	case *ast.Ident:
		if x.Name == "true" {
			return true, nil
		}
		if x.Name == "false" {
			return false, nil
		}
	case *ast.UnaryExpr:
		if x.Op == token.NOT {
			v, err := evalBool(p, recv, x.X, t, depth)
			return !v, err
		}
	case *ast.BinaryExpr:
		switch x.Op {
		case token.LOR, token.LAND:
			l, err := evalBool(p, recv, x.X, t, depth)
			if err != nil {
				return false, err
			}
			r, err := evalBool(p, recv, x.Y, t, depth)
			if err != nil {
				return false, err
			}
			if x.Op == token.LOR {
				return l || r, nil
			}
			return l && r, nil
		case token.EQL, token.NEQ, token.LSS, token.LEQ, token.GTR, token.GEQ:
			l, err := evalInt(p, recv, x.X, t)
			if err != nil {
				return false, err
			}
			r, err := evalInt(p, recv, x.Y, t)
			if err != nil {
				return false, err
			}
			switch x.Op {
			case token.EQL:
				return l == r, nil
			case token.NEQ:
				return l != r, nil
			case token.LSS:
				return l < r, nil
			case token.LEQ:
				return l <= r, nil
			case token.GTR:
				return l > r, nil
			default:
				return l >= r, nil
			}
		}
	case *ast.CallExpr: // t.Predicate()
		if sel, ok := x.Fun.(*ast.SelectorExpr); ok && len(x.Args) == 0 {
			if id, ok := sel.X.(*ast.Ident); ok && id.Name == recv {
				fd := p.FuncDecl("FrameType", sel.Sel.Name)
				if fd == nil || fd.Body == nil || fd.Recv == nil || len(fd.Recv.List[0].Names) != 1 {
					return false, fmt.Errorf("predicate %s not found", sel.Sel.Name)
				}
				return evalStmts(p, fd.Recv.List[0].Names[0].Name, fd.Body.List, t, depth+1)
			}
		}
	}
	return false, fmt.Errorf("unsupported boolean expression")
}

// caseIfLiteral finds, in method recv.name, the switch clause listing constant
// caseConst and returns the literal L of its first `if val <op> L` statement.
func caseIfLiteral(c *Ctx, p *Pkg, recv, name, caseConst string, op token.Token) (string, error) {
	fd := p.FuncDecl(recv, name)
	if fd == nil {
		return "", fmt.Errorf("%s.%s not found", recv, name)
	}
	var out string
	var found bool
	ast.Inspect(fd.Body, func(n ast.Node) bool {
		cc, ok := n.(*ast.CaseClause)
		if !ok || found {
			return true
		}
		hit := false
		for _, e := range cc.List {
			if id, ok := e.(*ast.Ident); ok && id.Name == caseConst {
				hit = true
			}
		}
		if !hit {
			return true
		}
		for _, s := range cc.Body {
			is, ok := s.(*ast.IfStmt)
			if !ok {
				continue
			}
			be, ok := is.Cond.(*ast.BinaryExpr)
			if !ok || be.Op != op {
				continue
			}
			if v, ok := constOf(p, be.Y); ok {
				out, found = v, true
				break
			}
		}
		return true
	})
	if !found {
		return "", fmt.Errorf("%s.%s: case %s has no `if val %s literal`", recv, name, caseConst, op)
	}
	return out, nil
}
