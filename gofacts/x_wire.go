package main

// Facts for property C08 (wire codecs): frame-type numbering, the
// allowed-at-encryption-level table, type-range predicates, varint bounds,
// transport parameter ids and the literal limits used by the parsers.
// Everything is read from the AST / go/types of /repo; when the expected shape
// is not found an error is returned, which breaks the dependent Lean build.

import (
	"fmt"
	"go/ast"
	"go/constant"
	"go/token"
	"go/types"
	"strings"
)

func init() {
	register("Wire", func(c *Ctx, w *LeanFile) error {
		wp, err := c.Load("internal/wire")
		if err != nil {
			return err
		}
		vp, err := c.Load("quicvarint")
		if err != nil {
			return err
		}
		pp, err := c.Load("internal/protocol")
		if err != nil {
			return err
		}
		hp, err := c.Load("internal/handshake")
		if err != nil {
			return err
		}
		w.P("/-! ### quicvarint bounds -/")
		for _, n := range []string{"maxVarInt1", "maxVarInt2", "maxVarInt4", "maxVarInt8"} {
			if err := c.EmitIntConst(w, vp, n, n); err != nil {
				return err
			}
		}
		w.P("/-! ### frame types and transport parameter ids -/")
		c.EmitAllIntConsts(w, wp, map[string]bool{"frame_type.go": true, "transport_parameters.go": true})
		w.P("/-! ### versions -/")
		for _, n := range []string{"Version1", "Version2"} {
			if err := c.EmitIntConst(w, pp, n, n); err != nil {
				return err
			}
		}
		if err := emitVarIntList(c, w, pp, "SupportedVersions", "SupportedVersions"); err != nil {
			return err
		}
		if err := c.EmitIntConst(w, pp, "maxConnectionIDLen", "maxConnectionIDLen"); err != nil {
			return err
		}
		w.P("/-! ### token envelope -/")
		if err := c.EmitIntConst(w, hp, "tokenNonceSize", "tokenNonceSize"); err != nil {
			return err
		}
		w.P("/-! ### session ticket envelope (internal/handshake/session_ticket.go) -/")
		if err := c.EmitIntConst(w, hp, "sessionTicketRevision", "sessionTicketRevision"); err != nil {
			return err
		}
		if v, _, pos, ok := hp.Const("extraPrefix"); !ok || v.Kind() != constant.String {
			return fmt.Errorf("string constant extraPrefix not found in %s", hp.Dir)
		} else {
			var bs []string
			for _, ch := range []byte(constant.StringVal(v)) {
				bs = append(bs, fmt.Sprint(ch))
			}
			w.P("/-- %s `extraPrefix` (bytes) -/", c.pos(pos))
			w.P("def sessionStateExtraPrefix : List Nat := [%s]", strings.Join(bs, ", "))
		}
		w.P("/-! ### predicates on frame types (shape: comparisons against literals) -/")
		// isValidRFC9000: `return t <= C`
		if v, err := singleCompare(c, wp, "FrameType", "isValidRFC9000", token.LEQ); err != nil {
			return err
		} else {
			w.P("/-- internal/wire/frame_type.go `isValidRFC9000`: t <= this -/")
			w.P("def validRFC9000Max : Int := %s", v)
		}
		// IsStreamFrameType: `return t >= A && t <= B`
		lo, hi, err := rangeCompare(c, wp, "FrameType", "IsStreamFrameType")
		if err != nil {
			return err
		}
		w.P("/-- internal/wire/frame_type.go `IsStreamFrameType`: lo <= t <= hi -/")
		w.P("def streamTypeMin : Int := %s", lo)
		w.P("def streamTypeMax : Int := %s", hi)
		if err := emitEncLevelTable(c, w, wp); err != nil {
			return err
		}
		w.P("/-! ### lower limits inside readNumericTransportParameter (the case rejects when the parsed value is below the constant) -/")
		for _, it := range []struct{ caseConst, lean string }{
			{"maxUDPPayloadSizeParameterID", "minMaxUDPPayloadSize"},
			{"activeConnectionIDLimitParameterID", "minActiveConnectionIDLimit"},
		} {
			v, err := caseRejectsBelow(c, wp, "TransportParameters", "readNumericTransportParameter", it.caseConst)
			if err != nil {
				return err
			}
			w.P("/-- internal/wire/transport_parameters.go readNumericTransportParameter case %s: rejected when val < this -/", it.caseConst)
			w.P("def %s : Int := %s", it.lean, v)
		}
		w.P("/-! ### guards that protect slice indexing -/")
		pa, err := firstIfLenGuard(c, wp, "TransportParameters", "readPreferredAddress")
		if err != nil {
			return err
		}
		w.P("/-- internal/wire/transport_parameters.go readPreferredAddress: `if len(b) < this { return io.EOF }` (first statement guarding the fixed-offset reads) -/")
		w.P("def preferredAddressMinLen : Int := %s", pa)
		return nil
	})
}

// firstIfLenGuard returns the constant C such that the first `if` statement of a method rejects exactly
// when len(x) < C. The condition is evaluated semantically (see cmpNorm): `len(b) < C`, `C > len(b)`,
// `!(len(b) >= C)`, `len(b) <= C-1` … with C any constant expression.
func firstIfLenGuard(c *Ctx, p *Pkg, recv, name string) (string, error) {
	fd := p.FuncDecl(recv, name)
	if fd == nil || fd.Body == nil {
		return "", fmt.Errorf("%s.%s not found", recv, name)
	}
	for _, s := range fd.Body.List {
		is, ok := s.(*ast.IfStmt)
		if !ok {
			continue
		}
		v, op, k, ok := cmpNorm(p, is.Cond)
		if !ok {
			return "", fmt.Errorf("%s.%s: first if is not a comparison of len(b) with a constant", recv, name)
		}
		call, ok := stripConv(p, v).(*ast.CallExpr)
		if !ok {
			return "", fmt.Errorf("%s.%s: first if is not a comparison of len(b) with a constant", recv, name)
		}
		if id, ok := call.Fun.(*ast.Ident); !ok || id.Name != "len" || p.Info.Uses[id] != types.Universe.Lookup("len") {
			return "", fmt.Errorf("%s.%s: first if is not a comparison of len(b) with a constant", recv, name)
		}
		bound, ok := belowBound(op, k)
		if !ok {
			return "", fmt.Errorf("%s.%s: first if does not reject short input (`len(b) < const`)", recv, name)
		}
		return bound, nil
	}
	return "", fmt.Errorf("%s.%s: no length guard found", recv, name)
}

// ---------------------------------------------------------------- comparisons, evaluated semantically
//
// A bound is recognised by what the condition MEANS, not by how it is spelled: `v < c`, `c > v`,
// `!(v >= c)`, `!(c <= v)` (and `v <= c-1` …) all say "v is below c". The constant side may be any
// constant expression in the sense of go/types (literal, named constant of the package or of another
// package, a constant declared locally in the function, arithmetic / conversions of those).

// intConst returns the exact integer value of a constant expression.
func intConst(p *Pkg, e ast.Expr) (constant.Value, bool) {
	tv, ok := p.Info.Types[e]
	if !ok || tv.Value == nil {
		return nil, false
	}
	iv := constant.ToInt(tv.Value)
	if iv.Kind() != constant.Int {
		return nil, false
	}
	return iv, true
}

// stripConv removes parentheses and type conversions T(x).
func stripConv(p *Pkg, e ast.Expr) ast.Expr {
	for {
		switch x := e.(type) {
		case *ast.ParenExpr:
			e = x.X
			continue
		case *ast.CallExpr:
			if len(x.Args) == 1 {
				if tv, ok := p.Info.Types[x.Fun]; ok && tv.IsType() {
					e = x.Args[0]
					continue
				}
			}
		}
		return e
	}
}

// cmpNorm normalises a condition to `v op k` with v the non-constant operand and k an integer constant:
// parentheses are dropped, `!` is pushed into the comparison, a constant on the left is mirrored.
func cmpNorm(p *Pkg, e ast.Expr) (v ast.Expr, op token.Token, k constant.Value, ok bool) {
	switch x := e.(type) {
	case *ast.ParenExpr:
		return cmpNorm(p, x.X)
	case *ast.UnaryExpr:
		if x.Op != token.NOT {
			return nil, 0, nil, false
		}
		v, op, k, ok = cmpNorm(p, x.X)
		if !ok {
			return nil, 0, nil, false
		}
		neg := map[token.Token]token.Token{token.LSS: token.GEQ, token.GEQ: token.LSS, token.LEQ: token.GTR, token.GTR: token.LEQ, token.EQL: token.NEQ, token.NEQ: token.EQL}
		return v, neg[op], k, true
	case *ast.BinaryExpr:
		switch x.Op {
		case token.LSS, token.LEQ, token.GTR, token.GEQ, token.EQL, token.NEQ:
		default:
			return nil, 0, nil, false
		}
		ky, oky := intConst(p, x.Y)
		kx, okx := intConst(p, x.X)
		switch {
		case oky && !okx:
			return x.X, x.Op, ky, true
		case okx && !oky:
			mir := map[token.Token]token.Token{token.LSS: token.GTR, token.GTR: token.LSS, token.LEQ: token.GEQ, token.GEQ: token.LEQ, token.EQL: token.EQL, token.NEQ: token.NEQ}
			return x.Y, mir[x.Op], kx, true
		}
	}
	return nil, 0, nil, false
}

func addInt(k constant.Value, d int64) string {
	return constant.BinaryOp(k, token.ADD, constant.MakeInt64(d)).ExactString()
}

// belowBound: `v op k` means "v < B" for integers; returns B.
func belowBound(op token.Token, k constant.Value) (string, bool) {
	switch op {
	case token.LSS:
		return k.ExactString(), true
	case token.LEQ:
		return addInt(k, 1), true
	}
	return "", false
}

// atMost: `v op k` means "v <= B" for integers; returns B.
func atMost(op token.Token, k constant.Value) (string, bool) {
	switch op {
	case token.LEQ:
		return k.ExactString(), true
	case token.LSS:
		return addInt(k, -1), true
	}
	return "", false
}

// atLeast: `v op k` means "v >= B" for integers; returns B.
func atLeast(op token.Token, k constant.Value) (string, bool) {
	switch op {
	case token.GEQ:
		return k.ExactString(), true
	case token.GTR:
		return addInt(k, 1), true
	}
	return "", false
}

// isRecv reports whether e is (a conversion of) the receiver of fd.
func isRecv(p *Pkg, fd *ast.FuncDecl, e ast.Expr) bool {
	id, ok := stripConv(p, e).(*ast.Ident)
	if !ok || fd.Recv == nil || len(fd.Recv.List) != 1 || len(fd.Recv.List[0].Names) != 1 {
		return false
	}
	obj := p.Info.Defs[fd.Recv.List[0].Names[0]]
	return obj != nil && p.Info.Uses[id] == obj
}

// emitVarIntList emits a package-level `var X = []T{a, b}` of integer constants.
func emitVarIntList(c *Ctx, w *LeanFile, p *Pkg, goName, leanName string) error {
	for _, f := range p.Files {
		for _, d := range f.Decls {
			gd, ok := d.(*ast.GenDecl)
			if !ok || gd.Tok != token.VAR {
				continue
			}
			for _, s := range gd.Specs {
				vs := s.(*ast.ValueSpec)
				for i, n := range vs.Names {
					if n.Name != goName || i >= len(vs.Values) {
						continue
					}
					cl, ok := vs.Values[i].(*ast.CompositeLit)
					if !ok {
						return fmt.Errorf("%s is not a composite literal", goName)
					}
					var vals []string
					for _, e := range cl.Elts {
						tv, ok := p.Info.Types[e]
						if !ok || tv.Value == nil {
							return fmt.Errorf("%s: element is not constant", goName)
						}
						vals = append(vals, constant.ToInt(tv.Value).ExactString())
					}
					w.P("/-- %s `%s` -/", c.pos(n.Pos()), goName)
					w.P("def %s : List Int := [%s]", leanName, strings.Join(vals, ", "))
					return nil
				}
			}
		}
	}
	return fmt.Errorf("var %s not found", goName)
}

func constOf(p *Pkg, e ast.Expr) (string, bool) {
	tv, ok := p.Info.Types[e]
	if !ok || tv.Value == nil {
		return "", false
	}
	iv := constant.ToInt(tv.Value)
	if iv.Kind() != constant.Int {
		return "", false
	}
	return iv.ExactString(), true
}

func singleReturn(p *Pkg, recv, name string) (ast.Expr, error) {
	fd := p.FuncDecl(recv, name)
	if fd == nil || fd.Body == nil || len(fd.Body.List) != 1 {
		return nil, fmt.Errorf("%s.%s: expected a single return statement", recv, name)
	}
	rs, ok := fd.Body.List[0].(*ast.ReturnStmt)
	if !ok || len(rs.Results) != 1 {
		return nil, fmt.Errorf("%s.%s: expected a single return statement", recv, name)
	}
	return rs.Results[0], nil
}

// singleCompare: the method is `return <recv is at most C>` (spelled `t <= C`, `C >= t`, `!(t > C)`, `t < C+1` …).
func singleCompare(c *Ctx, p *Pkg, recv, name string, op token.Token) (string, error) {
	e, err := singleReturn(p, recv, name)
	if err != nil {
		return "", err
	}
	v, o, k, ok := cmpNorm(p, e)
	if !ok || !isRecv(p, p.FuncDecl(recv, name), v) {
		return "", fmt.Errorf("%s.%s: expected a comparison of the receiver with a constant (`x %s const`)", recv, name, op)
	}
	if op != token.LEQ {
		return "", fmt.Errorf("singleCompare: only upper bounds are supported")
	}
	b, ok := atMost(o, k)
	if !ok {
		return "", fmt.Errorf("%s.%s: expected `x %s const`", recv, name, op)
	}
	return b, nil
}

// rangeCompare: the method is `return <recv at least A> && <recv at most B>`, conjuncts in either order and
// each spelled in any of the equivalent ways cmpNorm understands.
func rangeCompare(c *Ctx, p *Pkg, recv, name string) (string, string, error) {
	e, err := singleReturn(p, recv, name)
	if err != nil {
		return "", "", err
	}
	for {
		pe, ok := e.(*ast.ParenExpr)
		if !ok {
			break
		}
		e = pe.X
	}
	be, ok := e.(*ast.BinaryExpr)
	if !ok || be.Op != token.LAND {
		return "", "", fmt.Errorf("%s.%s: expected `t >= a && t <= b`", recv, name)
	}
	fd := p.FuncDecl(recv, name)
	var lo, hi string
	for _, side := range []ast.Expr{be.X, be.Y} {
		v, o, k, ok := cmpNorm(p, side)
		if !ok || !isRecv(p, fd, v) {
			return "", "", fmt.Errorf("%s.%s: expected `t >= a && t <= b` with constant bounds", recv, name)
		}
		if b, ok := atLeast(o, k); ok && lo == "" {
			lo = b
		} else if b, ok := atMost(o, k); ok && hi == "" {
			hi = b
		} else {
			return "", "", fmt.Errorf("%s.%s: expected `t >= a && t <= b`", recv, name)
		}
	}
	if lo == "" || hi == "" {
		return "", "", fmt.Errorf("%s.%s: expected one lower and one upper bound", recv, name)
	}
	return lo, hi, nil
}

// emitEncLevelTable reads FrameType.isAllowedAtEncLevel: an outer switch on the encryption level.
// Each clause body is evaluated symbolically for every frame type 0..255 and for one large
// sentinel ("any other type") by a small interpreter of boolean Go expressions over the receiver
// (||, &&, !, comparisons with constants, calls of single-return predicate methods on the receiver,
// inner `switch t` with constant cases). No control flow is translated: the result is a table.
func emitEncLevelTable(c *Ctx, w *LeanFile, p *Pkg) error {
	fd := p.FuncDecl("FrameType", "isAllowedAtEncLevel")
	if fd == nil || fd.Recv == nil || len(fd.Recv.List) != 1 || len(fd.Recv.List[0].Names) != 1 {
		return fmt.Errorf("isAllowedAtEncLevel not found")
	}
	recv := fd.Recv.List[0].Names[0].Name
	var sw *ast.SwitchStmt
	for _, s := range fd.Body.List {
		if x, ok := s.(*ast.SwitchStmt); ok {
			sw = x
		}
	}
	if sw == nil {
		return fmt.Errorf("isAllowedAtEncLevel: no switch")
	}
	const sentinel = int64(1) << 40
	var rows []string
	defaultPanics := false
	for _, cs := range sw.Body.List {
		cc := cs.(*ast.CaseClause)
		if cc.List == nil { // default
			if len(cc.Body) == 1 {
				if es, ok := cc.Body[0].(*ast.ExprStmt); ok {
					if call, ok := es.X.(*ast.CallExpr); ok {
						if id, ok := call.Fun.(*ast.Ident); ok && id.Name == "panic" {
							defaultPanics = true
							continue
						}
					}
				}
			}
			return fmt.Errorf("isAllowedAtEncLevel: unexpected default clause")
		}
		var lvls []string
		for _, e := range cc.List {
			v, ok := constOf(p, e)
			if !ok {
				return fmt.Errorf("isAllowedAtEncLevel: non-constant level")
			}
			lvls = append(lvls, v)
		}
		other, err := evalStmts(p, recv, cc.Body, sentinel, 0)
		if err != nil {
			return fmt.Errorf("isAllowedAtEncLevel: %v", err)
		}
		var listed []string
		for t := int64(0); t < 256; t++ {
			v, err := evalStmts(p, recv, cc.Body, t, 0)
			if err != nil {
				return fmt.Errorf("isAllowedAtEncLevel: %v", err)
			}
			if v != other {
				listed = append(listed, fmt.Sprint(t))
			}
		}
		rows = append(rows, fmt.Sprintf("([%s], [%s], %v, %v)", strings.Join(lvls, ", "), strings.Join(listed, ", "), !other, other))
	}
	w.P("/-- %s `isAllowedAtEncLevel`: rows (levels, listed frame types, result for listed, result otherwise),", c.pos(fd.Pos()))
	w.P("    obtained by evaluating each clause for every type 0..255 and for one other value;")
	w.P("    a level in no row %s -/", map[bool]string{true: "panics", false: "falls through"}[defaultPanics])
	w.P("def encLevelTable : List (List Int × List Int × Bool × Bool) := [%s]", strings.Join(rows, ", "))
	w.P("def encLevelDefaultPanics : Bool := %v", defaultPanics)
	return nil
}

// evalStmts evaluates a statement list that returns a bool, with the receiver bound to t.
func evalStmts(p *Pkg, recv string, body []ast.Stmt, t int64, depth int) (bool, error) {
	if depth > 8 {
		return false, fmt.Errorf("predicate nesting too deep")
	}
	for _, s := range body {
		switch x := s.(type) {
		case *ast.ReturnStmt:
			if len(x.Results) != 1 {
				return false, fmt.Errorf("unexpected return")
			}
			return evalBool(p, recv, x.Results[0], t, depth)
		case *ast.SwitchStmt:
			tag, ok := x.Tag.(*ast.Ident)
			if !ok || tag.Name != recv || x.Init != nil {
				return false, fmt.Errorf("unsupported switch")
			}
			var def *ast.CaseClause
			matched := false
			for _, ics := range x.Body.List {
				icc := ics.(*ast.CaseClause)
				if icc.List == nil {
					def = icc
					continue
				}
				for _, e := range icc.List {
					v, ok := constOf(p, e)
					if !ok {
						return false, fmt.Errorf("non-constant case")
					}
					if v == fmt.Sprint(t) {
						matched = true
					}
				}
				if matched {
					return evalStmts(p, recv, icc.Body, t, depth)
				}
			}
			if def != nil {
				return evalStmts(p, recv, def.Body, t, depth)
			}
			// falls out of the switch: continue with the next statement
		case *ast.IfStmt:
			if x.Init != nil {
				return false, fmt.Errorf("unsupported if")
			}
			c, err := evalBool(p, recv, x.Cond, t, depth)
			if err != nil {
				return false, err
			}
			if c {
				return evalStmts(p, recv, x.Body.List, t, depth)
			} else if x.Else != nil {
				if blk, ok := x.Else.(*ast.BlockStmt); ok {
					return evalStmts(p, recv, blk.List, t, depth)
				}
				return evalStmts(p, recv, []ast.Stmt{x.Else}, t, depth)
			}
		default:
			return false, fmt.Errorf("unsupported statement %T", s)
		}
	}
	return false, fmt.Errorf("no return reached")
}

func evalInt(p *Pkg, recv string, e ast.Expr, t int64) (int64, error) {
	switch x := e.(type) {
	case *ast.ParenExpr:
		return evalInt(p, recv, x.X, t)
	case *ast.Ident:
		if x.Name == recv {
			return t, nil
		}
	case *ast.CallExpr: // conversions such as uint64(t)
		if len(x.Args) == 1 {
			if tv, ok := p.Info.Types[x.Fun]; ok && tv.IsType() {
				return evalInt(p, recv, x.Args[0], t)
			}
		}
	}
	if v, ok := constOf(p, e); ok {
		var n int64
		if _, err := fmt.Sscan(v, &n); err == nil {
			return n, nil
		}
	}
	return 0, fmt.Errorf("unsupported integer expression")
}

func evalBool(p *Pkg, recv string, e ast.Expr, t int64, depth int) (bool, error) {
	switch x := e.(type) {
	case *ast.ParenExpr:
		return evalBool(p, recv, x.X, t, depth)
	case *ast.Ident:
		if x.Name == "true" {
			return true, nil
		}
		if x.Name == "false" {
			return false, nil
		}
	case *ast.UnaryExpr:
		if x.Op == token.NOT {
			v, err := evalBool(p, recv, x.X, t, depth)
			return !v, err
		}
	case *ast.BinaryExpr:
		switch x.Op {
		case token.LOR, token.LAND:
			l, err := evalBool(p, recv, x.X, t, depth)
			if err != nil {
				return false, err
			}
			r, err := evalBool(p, recv, x.Y, t, depth)
			if err != nil {
				return false, err
			}
			if x.Op == token.LOR {
				return l || r, nil
			}
			return l && r, nil
		case token.EQL, token.NEQ, token.LSS, token.LEQ, token.GTR, token.GEQ:
			l, err := evalInt(p, recv, x.X, t)
			if err != nil {
				return false, err
			}
			r, err := evalInt(p, recv, x.Y, t)
			if err != nil {
				return false, err
			}
			switch x.Op {
			case token.EQL:
				return l == r, nil
			case token.NEQ:
				return l != r, nil
			case token.LSS:
				return l < r, nil
			case token.LEQ:
				return l <= r, nil
			case token.GTR:
				return l > r, nil
			default:
				return l >= r, nil
			}
		}
	case *ast.CallExpr: // t.Predicate()
		if sel, ok := x.Fun.(*ast.SelectorExpr); ok && len(x.Args) == 0 {
			if id, ok := sel.X.(*ast.Ident); ok && id.Name == recv {
				fd := p.FuncDecl("FrameType", sel.Sel.Name)
				if fd == nil || fd.Body == nil || fd.Recv == nil || len(fd.Recv.List[0].Names) != 1 {
					return false, fmt.Errorf("predicate %s not found", sel.Sel.Name)
				}
				return evalStmts(p, fd.Recv.List[0].Names[0].Name, fd.Body.List, t, depth+1)
			}
		}
	}
	return false, fmt.Errorf("unsupported boolean expression")
}

// parsedValueVar returns the variable that receives the value of `quicvarint.Parse(…)` in fd (nil if the
// function has no such assignment).
func parsedValueVar(p *Pkg, fd *ast.FuncDecl) types.Object {
	var obj types.Object
	ast.Inspect(fd.Body, func(n ast.Node) bool {
		as, ok := n.(*ast.AssignStmt)
		if !ok || obj != nil || len(as.Rhs) != 1 || len(as.Lhs) < 1 {
			return true
		}
		call, ok := as.Rhs[0].(*ast.CallExpr)
		if !ok {
			return true
		}
		sel, ok := call.Fun.(*ast.SelectorExpr)
		if !ok || sel.Sel.Name != "Parse" {
			return true
		}
		fn, ok := p.Info.Uses[sel.Sel].(*types.Func)
		if !ok || fn.Pkg() == nil || !strings.HasSuffix(fn.Pkg().Path(), "/quicvarint") {
			return true
		}
		if id, ok := as.Lhs[0].(*ast.Ident); ok {
			if o := p.Info.Defs[id]; o != nil {
				obj = o
			} else {
				obj = p.Info.Uses[id]
			}
		}
		return true
	})
	return obj
}

// rejects reports whether a statement list ends by returning (the `if` is a rejection, not a clamp).
func rejects(body *ast.BlockStmt) bool {
	if body == nil || len(body.List) == 0 {
		return false
	}
	_, ok := body.List[len(body.List)-1].(*ast.ReturnStmt)
	return ok
}

// caseRejectsBelow finds, in method recv.name, the switch clause listing constant caseConst and returns
// the constant B such that the clause's first rejecting `if` on the parsed value fires exactly when the
// value is below B. The condition is evaluated semantically (cmpNorm): `val < B`, `B > val`, `!(val >= B)`,
// `val <= B-1`, with B any constant expression (literal, named, local or package level); the name of the
// value variable does not matter (it is the variable assigned from quicvarint.Parse, or, when the function
// has no such assignment, any non-constant integer variable).
func caseRejectsBelow(c *Ctx, p *Pkg, recv, name, caseConst string) (string, error) {
	fd := p.FuncDecl(recv, name)
	if fd == nil || fd.Body == nil {
		return "", fmt.Errorf("%s.%s not found", recv, name)
	}
	want := p.Types.Scope().Lookup(caseConst)
	if want == nil {
		return "", fmt.Errorf("%s.%s: constant %s not found", recv, name, caseConst)
	}
	valVar := parsedValueVar(p, fd)
	isVal := func(e ast.Expr) bool {
		id, ok := stripConv(p, e).(*ast.Ident)
		if !ok {
			return false
		}
		v, ok := p.Info.Uses[id].(*types.Var)
		if !ok {
			return false
		}
		if valVar != nil {
			return v == valVar
		}
		b, ok := v.Type().Underlying().(*types.Basic)
		return ok && b.Info()&types.IsInteger != 0
	}
	var out string
	var found, sawCase bool
	ast.Inspect(fd.Body, func(n ast.Node) bool {
		cc, ok := n.(*ast.CaseClause)
		if !ok || found {
			return true
		}
		hit := false
		for _, e := range cc.List {
			if id, ok := stripConv(p, e).(*ast.Ident); ok && p.Info.Uses[id] == want {
				hit = true
			}
		}
		if !hit {
			return true
		}
		sawCase = true
		for _, s := range cc.Body {
			is, ok := s.(*ast.IfStmt)
			if !ok || is.Init != nil || !rejects(is.Body) {
				continue
			}
			v, op, k, ok := cmpNorm(p, is.Cond)
			if !ok || !isVal(v) {
				continue
			}
			if b, ok := belowBound(op, k); ok {
				out, found = b, true
				break
			}
		}
		return true
	})
	if !sawCase {
		return "", fmt.Errorf("%s.%s: no case %s", recv, name, caseConst)
	}
	if !found {
		return "", fmt.Errorf("%s.%s: case %s has no rejection of values below a constant (`if val < const { return … }`)", recv, name, caseConst)
	}
	return out, nil
}
