package main

// Facts for property C02, flight plans (Uquic.Gen.FlightPlan): does building a flight WRITE INTO THE PLAN it is built
// from? A QUICSpec value (and the QUICFlightFrameBuilder inside it) is used for dial after dial, so a builder method
// that stores anything derived from one connection's ClientHello in its receiver — directly, or through a slice /
// pointer that a copy of the receiver still shares with the caller's value — makes the next dial depend on the
// previous one.
//
// The analysis is a syntactic write-effect summary over the same-package static call graph that starts at the
// exported entry points Build / BuildFlight of QUICFlightFrames and QUICRandomFlightFrames:
//
//	shallow(m): m has a pointer receiver and assigns to the receiver object itself (`r.F = …`, `*r = …`, `r.F++`), or
//	            calls a shallow method on a field path of it that stays inside the object (`r.Sub.m()`)
//	deep(m):    m assigns through a slice/map index or a pointer that it reached from its receiver
//	            (`r.Ranges[i] = …`, `r.Ranges[i].F = …`, `*r.P = …`), or calls a shallow method on such a place
//	            (`r.Ranges[i].m()`), or calls a deep method on anything reached from its receiver — including a COPY
//	            of a part of it (`for _, d := range r.Datagrams { d.build() }`: the copy shares its slices)
//
// "Reached from the receiver" follows locals defined from receiver paths (`x := &r.F`, `x := r.F`, range variables).
// Values handed to functions that are not methods of the reached value are not followed (trusted_base).

import (
	"fmt"
	"go/ast"
	"go/token"
	"go/types"
	"sort"
	"strings"
)

type wfx struct{ shallow, deep bool }

type wfxAnalyser struct {
	p     *Pkg
	decls map[*types.Func]*ast.FuncDecl
	memo  map[*types.Func]*wfx
	busy  map[*types.Func]bool
}

func newWfxAnalyser(p *Pkg) *wfxAnalyser {
	a := &wfxAnalyser{p: p, decls: map[*types.Func]*ast.FuncDecl{}, memo: map[*types.Func]*wfx{}, busy: map[*types.Func]bool{}}
	for _, f := range p.Files {
		for _, d := range f.Decls {
			if fd, ok := d.(*ast.FuncDecl); ok && fd.Body != nil {
				if fn, ok := p.Info.Defs[fd.Name].(*types.Func); ok {
					a.decls[fn] = fd
				}
			}
		}
	}
	return a
}

func isRefType(t types.Type) bool {
	if t == nil {
		return false
	}
	switch t.Underlying().(type) {
	case *types.Pointer, *types.Slice, *types.Map:
		return true
	}
	return false
}

// carriesRefs: a value of this type shares memory with its copies (pointer, slice, map, or a struct/array of such).
func carriesRefs(t types.Type, depth int) bool {
	if t == nil || depth > 6 {
		return false
	}
	switch u := t.Underlying().(type) {
	case *types.Pointer, *types.Slice, *types.Map, *types.Interface:
		return true
	case *types.Struct:
		for i := 0; i < u.NumFields(); i++ {
			if carriesRefs(u.Field(i).Type(), depth+1) {
				return true
			}
		}
	case *types.Array:
		return carriesRefs(u.Elem(), depth+1)
	}
	return false
}

// place describes an expression relative to the receiver: reached (rooted at the receiver or a local derived from
// it), inObject (the place lies inside the receiver OBJECT itself, no index/deref on the way), viaRef (the path
// passes a slice/map index or a pointer dereference, i.e. memory shared with every copy).
type place struct{ reached, inObject, viaRef bool }

type wfxScope struct {
	a      *wfxAnalyser
	recv   types.Object
	ptr    bool                   // pointer receiver
	locals map[types.Object]place // locals derived from the receiver
}

func (s *wfxScope) typeOf(e ast.Expr) types.Type {
	if tv, ok := s.a.p.Info.Types[e]; ok {
		return tv.Type
	}
	return nil
}

func (s *wfxScope) placeOf(e ast.Expr) place {
	switch x := e.(type) {
	case *ast.ParenExpr:
		return s.placeOf(x.X)
	case *ast.Ident:
		obj := s.a.p.Info.Uses[x]
		if obj == nil {
			obj = s.a.p.Info.Defs[x]
		}
		if obj == nil {
			return place{}
		}
		if obj == s.recv {
			// a pointer receiver names the caller's object; a value receiver is a copy of it
			return place{reached: true, inObject: s.ptr}
		}
		if pl, ok := s.locals[obj]; ok {
			return pl
		}
		return place{}
	case *ast.SelectorExpr:
		base := s.placeOf(x.X)
		if !base.reached {
			return place{}
		}
		if t := s.typeOf(x.X); t != nil {
			if _, isPtr := t.Underlying().(*types.Pointer); isPtr {
				// implicit dereference: for the receiver pointer itself that is the object; for any other pointer it
				// is shared memory
				if id, ok := x.X.(*ast.Ident); ok && s.a.p.Info.Uses[id] == s.recv {
					return place{reached: true, inObject: true}
				}
				if base.inObject && !base.viaRef {
					if id, ok := x.X.(*ast.Ident); ok {
						if pl, ok := s.locals[s.a.p.Info.Uses[id]]; ok && pl.inObject {
							return place{reached: true, inObject: true} // x := &r.F; x.G
						}
					}
				}
				return place{reached: true, viaRef: true}
			}
		}
		return base
	case *ast.IndexExpr:
		base := s.placeOf(x.X)
		if !base.reached {
			return place{}
		}
		if t := s.typeOf(x.X); t != nil {
			if _, isArr := t.Underlying().(*types.Array); isArr {
				return base
			}
		}
		return place{reached: true, viaRef: true}
	case *ast.StarExpr:
		base := s.placeOf(x.X)
		if !base.reached {
			return place{}
		}
		if id, ok := x.X.(*ast.Ident); ok && s.a.p.Info.Uses[id] == s.recv {
			return place{reached: true, inObject: true}
		}
		if base.inObject && !base.viaRef {
			if id, ok := x.X.(*ast.Ident); ok {
				if pl, ok := s.locals[s.a.p.Info.Uses[id]]; ok && pl.inObject {
					return place{reached: true, inObject: true}
				}
			}
		}
		return place{reached: true, viaRef: true}
	case *ast.UnaryExpr:
		if x.Op == token.AND {
			return s.placeOf(x.X)
		}
	case *ast.SliceExpr:
		base := s.placeOf(x.X)
		if base.reached {
			return place{reached: true, viaRef: true}
		}
	}
	return place{}
}

// bind records a local defined from a receiver path.
func (s *wfxScope) bind(lhs ast.Expr, rhs ast.Expr, rangeElem bool) {
	id, ok := lhs.(*ast.Ident)
	if !ok || id.Name == "_" {
		return
	}
	obj := s.a.p.Info.Defs[id]
	if obj == nil {
		return
	}
	src := s.placeOf(rhs)
	if !src.reached {
		return
	}
	if u, ok := rhs.(*ast.UnaryExpr); ok && u.Op == token.AND && !rangeElem {
		// a pointer to a place: writes through it hit that place
		s.locals[obj] = place{reached: true, inObject: src.inObject && !src.viaRef, viaRef: src.viaRef}
		return
	}
	// a copy of a value reached from the receiver: it only matters if it still shares memory
	if carriesRefs(obj.Type(), 0) {
		s.locals[obj] = place{reached: true} // a copy: neither in the object nor (yet) through a reference
	}
}

func (a *wfxAnalyser) effects(fn *types.Func) wfx {
	if r, ok := a.memo[fn]; ok {
		return *r
	}
	if a.busy[fn] {
		return wfx{}
	}
	fd := a.decls[fn]
	if fd == nil || fd.Recv == nil || len(fd.Recv.List) != 1 || len(fd.Recv.List[0].Names) != 1 {
		return wfx{}
	}
	a.busy[fn] = true
	defer delete(a.busy, fn)
	rid := fd.Recv.List[0].Names[0]
	s := &wfxScope{a: a, recv: a.p.Info.Defs[rid], locals: map[types.Object]place{}}
	_, s.ptr = fd.Recv.List[0].Type.(*ast.StarExpr)
	var out wfx
	write := func(lhs ast.Expr) {
		if id, ok := lhs.(*ast.Ident); ok {
			_ = id // assigning to a local (even one derived from the receiver) rebinds the local only
			return
		}
		pl := s.placeOf(lhs)
		if !pl.reached {
			return
		}
		if pl.viaRef {
			out.deep = true
		} else if pl.inObject {
			out.shallow = true
		}
	}
	ast.Inspect(fd.Body, func(n ast.Node) bool {
		switch x := n.(type) {
		case *ast.AssignStmt:
			if x.Tok == token.DEFINE {
				if len(x.Lhs) == len(x.Rhs) {
					for i := range x.Lhs {
						s.bind(x.Lhs[i], x.Rhs[i], false)
					}
				}
			} else {
				for _, l := range x.Lhs {
					write(l)
				}
			}
		case *ast.IncDecStmt:
			write(x.X)
		case *ast.RangeStmt:
			if x.Tok == token.DEFINE && x.Value != nil {
				// the element variable is a copy of an element reached through the ranged slice
				if id, ok := x.Value.(*ast.Ident); ok && id.Name != "_" {
					if obj := a.p.Info.Defs[id]; obj != nil && s.placeOf(x.X).reached && carriesRefs(obj.Type(), 0) {
						s.locals[obj] = place{reached: true}
					}
				}
			}
		case *ast.CallExpr:
			sel, ok := x.Fun.(*ast.SelectorExpr)
			if !ok {
				return true
			}
			callee, ok := a.p.Info.Uses[sel.Sel].(*types.Func)
			if !ok || a.decls[callee] == nil {
				return true
			}
			pl := s.placeOf(sel.X)
			if !pl.reached {
				return true
			}
			ce := a.effects(callee)
			if ce.deep {
				out.deep = true
			}
			if ce.shallow {
				// the callee writes the object its receiver points to: where does that object live?
				if pl.viaRef {
					out.deep = true
				} else if pl.inObject {
					out.shallow = true
				}
			}
		}
		return true
	})
	a.memo[fn] = &out
	return out
}

func (a *wfxAnalyser) method(typ, name string) *types.Func {
	obj := a.p.Types.Scope().Lookup(typ)
	if obj == nil {
		return nil
	}
	named, ok := obj.Type().(*types.Named)
	if !ok {
		return nil
	}
	for i := 0; i < named.NumMethods(); i++ {
		if m := named.Method(i); m.Name() == name {
			return m
		}
	}
	return nil
}

func init() {
	register("FlightPlan", func(c *Ctx, w *LeanFile) error {
		p, err := c.Load(".")
		if err != nil {
			return err
		}
		a := newWfxAnalyser(p)
		type entry struct{ typ, lean, doc string }
		for _, e := range []entry{
			{"QUICRandomFlightFrames", "randomFlightBuildWritesPlan", "QUICRandomFlightFrames"},
			{"QUICFlightFrames", "fixedFlightBuildWritesPlan", "QUICFlightFrames"},
		} {
			writes := false
			var which []string
			for _, m := range []string{"BuildFlight", "Build"} {
				fn := a.method(e.typ, m)
				if fn == nil || a.decls[fn] == nil {
					return fmt.Errorf("(*%s).%s not found", e.typ, m)
				}
				fx := a.effects(fn)
				// the builder is held by pointer in the spec: a shallow write hits the caller's value as well
				if fx.shallow || fx.deep {
					writes = true
					which = append(which, m)
				}
			}
			w.P("/-- u_flight_frames.go: `(*%s).BuildFlight` / `.Build` (or a same-package method they call on what they reach", e.doc)
			w.P("    from the receiver) assign into the builder value — its fields, or a slice/pointer shared with the caller's value -/")
			w.P("def %s : Bool := %s", e.lean, leanBool(writes))
			_ = which
		}
		// every same-package method with a write effect that the two builders can reach, by name (documentation of the
		// fact above; the model does not depend on it)
		var names []string
		for fn, fx := range a.memo {
			if fx.shallow || fx.deep {
				recv := ""
				if sig, ok := fn.Type().(*types.Signature); ok && sig.Recv() != nil {
					recv = strings.TrimPrefix(types.TypeString(sig.Recv().Type(), func(*types.Package) string { return "" }), "*")
				}
				names = append(names, recv+"."+fn.Name())
			}
		}
		sort.Strings(names)
		var q []string
		for _, n := range names {
			q = append(q, fmt.Sprintf("%q", n))
		}
		w.P("/-- the methods reached from those entry points that write into their receiver or into memory reached from it -/")
		w.P("def flightMethodsWritingReceiver : List String := [%s]", strings.Join(q, ", "))
		return nil
	})
}
