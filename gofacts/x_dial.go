package main

// Facts for property C02 (Uquic.Gen.Dial): shape facts about UTransport.dial / doDial versus Transport's, about
// where connection setup writes per-connection state (is it the spec's own extension objects?), and the
// built-in parrot table as data. Everything is read from the AST; nothing is compared with expectations here —
// the Lean model and theorems depend on the emitted values.

import (
	"bytes"
	"fmt"
	"go/ast"
	"go/printer"
	"go/token"
	"os"
	"strconv"
	"strings"
)

func render(fset *token.FileSet, n ast.Node) string {
	var b bytes.Buffer
	_ = printer.Fprint(&b, fset, n)
	// drop comments (doc comments of declarations are printed with the node) and normalise whitespace, so that
	// comment or formatting changes do not matter
	var keep []string
	for _, l := range strings.Split(b.String(), "\n") {
		t := strings.TrimSpace(l)
		if strings.HasPrefix(t, "//") {
			continue
		}
		if i := strings.Index(t, " // "); i >= 0 && !strings.Contains(t[i:], "\"") {
			t = t[:i]
		}
		keep = append(keep, t)
	}
	return strings.Join(strings.Fields(strings.Join(keep, " ")), " ")
}

// normRecv maps UTransport's spelling of the embedded Transport to Transport's own.
func normRecv(s string) string {
	s = strings.ReplaceAll(s, "(*packetHandlerMap)(t.Transport)", "(*packetHandlerMap)(t)")
	return s
}

func leanBool(b bool) string {
	if b {
		return "true"
	}
	return "false"
}

// rootIdent returns the leftmost identifier of a selector chain (a.b.c → a), or "".
func rootIdent(e ast.Expr) string {
	for {
		switch x := e.(type) {
		case *ast.SelectorExpr:
			e = x.X
		case *ast.Ident:
			return x.Name
		case *ast.ParenExpr:
			e = x.X
		case *ast.StarExpr:
			e = x.X
		default:
			return ""
		}
	}
}

func callName(c *ast.CallExpr) string {
	switch f := c.Fun.(type) {
	case *ast.Ident:
		return f.Name
	case *ast.SelectorExpr:
		return f.Sel.Name
	}
	return ""
}

func findCalls(n ast.Node, name string) []*ast.CallExpr {
	var out []*ast.CallExpr
	ast.Inspect(n, func(x ast.Node) bool {
		if c, ok := x.(*ast.CallExpr); ok && callName(c) == name {
			out = append(out, c)
		}
		return true
	})
	return out
}

// funcLitOfVar finds `var <name> = func(...) {...}`.
func funcLitOfVar(p *Pkg, name string) *ast.FuncLit {
	for _, f := range p.Files {
		for _, d := range f.Decls {
			gd, ok := d.(*ast.GenDecl)
			if !ok {
				continue
			}
			for _, s := range gd.Specs {
				vs, ok := s.(*ast.ValueSpec)
				if !ok {
					continue
				}
				for i, n := range vs.Names {
					if n.Name == name && i < len(vs.Values) {
						if fl, ok := vs.Values[i].(*ast.FuncLit); ok {
							return fl
						}
					}
				}
			}
		}
	}
	return nil
}

func init() {
	register("Dial", func(c *Ctx, w *LeanFile) error {
		p, err := c.Load(".")
		if err != nil {
			return err
		}
		fset := c.Fset

		// ---- (1) where does connection setup write? -----------------------------------------------
		ctor := funcLitOfVar(p, "newUClientConnection")
		if ctor == nil {
			return fmt.Errorf("var newUClientConnection = func(...) not found")
		}
		specParam := ""
		if ps := ctor.Type.Params.List; len(ps) > 0 {
			last := ps[len(ps)-1]
			if len(last.Names) == 1 && strings.Contains(render(fset, last.Type), "QUICSpec") {
				specParam = last.Names[0].Name
			}
		}
		if specParam == "" {
			return fmt.Errorf("newUClientConnection: last parameter is not the *QUICSpec")
		}
		// Which value is PopulateFromUQUIC (the function that writes the connection's source connection ID into the
		// parameter list) called on? Follow the argument back through local variables and same-package helpers (a
		// helper that finds the extension, a helper that does the whole suppress/shuffle/populate sequence, …): it is
		// SHARED iff it may alias the spec parameter's own objects (uSpec.ClientHelloSpec.Extensions…), and a
		// per-connection value iff every path ends in a fresh object (a call that copies, a literal).
		fl := newFlow(p)
		ctorFn := mkFnBody("newUClientConnection", ctor.Type, nil, ctor.Body)
		sites := fl.reach(ctorFn, "PopulateFromUQUIC", 3)
		if len(sites) == 0 {
			return fmt.Errorf("newUClientConnection: no call of PopulateFromUQUIC in it or in the same-package helpers it calls")
		}
		loopShared := false
		for _, cs := range sites {
			if len(cs.call.Args) != 1 {
				return fmt.Errorf("newUClientConnection: PopulateFromUQUIC is not called with one argument")
			}
			if fl.rootsAt(cs, cs.call.Args[0])[specParam] {
				loopShared = true
			}
		}
		cs := findCalls(ctor.Body, "NewUCryptoSetupClient")
		if len(cs) != 1 || len(cs[0].Args) == 0 {
			return fmt.Errorf("newUClientConnection: expected exactly one call of NewUCryptoSetupClient")
		}
		lastArg := cs[0].Args[len(cs[0].Args)-1]
		tlsShared := fl.roots(ctorFn, lastArg, lastArg.Pos(), 0)[specParam]
		w.P("/-- u_connection.go `newUClientConnection`: the parameter list handed to `PopulateFromUQUIC` may alias the spec's own")
		w.P("    extension list (`%s.ClientHelloSpec.Extensions`) instead of a per-connection copy (value-origin analysis) -/", specParam)
		w.P("def qtpLoopOverSpecExts : Bool := %s", leanBool(loopShared))
		w.P("/-- u_connection.go `newUClientConnection`: `NewUCryptoSetupClient` (uTLS ApplyPreset) receives the spec's own ClientHelloSpec -/")
		w.P("def tlsGetsSpecCHS : Bool := %s", leanBool(tlsShared))
		w.P("/-- connection setup works on the extension objects of the caller's QUICSpec value -/")
		w.P("def specExtsShared : Bool := qtpLoopOverSpecExts || tlsGetsSpecCHS")

		wp, err := c.Load("internal/wire")
		if err != nil {
			return err
		}
		pop := wp.FuncDecl("TransportParameters", "PopulateFromUQUIC")
		if pop == nil || len(pop.Type.Params.List) != 1 || len(pop.Type.Params.List[0].Names) != 1 {
			return fmt.Errorf("wire.(*TransportParameters).PopulateFromUQUIC(quicparams) not found")
		}
		arg := pop.Type.Params.List[0].Names[0].Name
		// an element of the argument slice is assigned an InitialSourceConnectionID value — in PopulateFromUQUIC itself
		// or in a same-package helper the slice is handed to
		wfl := newFlow(wp)
		var writesIn func(fn *fnBody, param string, depth int) bool
		writesIn = func(fn *fnBody, param string, depth int) bool {
			found := false
			ast.Inspect(fn.body, func(n ast.Node) bool {
				switch x := n.(type) {
				case *ast.AssignStmt:
					for i, l := range x.Lhs {
						ix, ok := l.(*ast.IndexExpr)
						if !ok || !wfl.roots(fn, ix.X, x.Pos(), 0)[param] {
							continue
						}
						rhs := x.Rhs[0]
						if len(x.Rhs) == len(x.Lhs) {
							rhs = x.Rhs[i]
						}
						if strings.Contains(render(fset, rhs), "InitialSourceConnectionID") {
							found = true
						}
					}
				case *ast.CallExpr:
					if depth == 0 {
						return true
					}
					if h := wfl.helper(x); h != nil {
						for ai, a := range x.Args {
							if ai < len(h.params) && h.params[ai] != "" && wfl.roots(fn, a, x.Pos(), 0)[param] && writesIn(h, h.params[ai], depth-1) {
								found = true
							}
						}
					}
				}
				return true
			})
			return found
		}
		writes := writesIn(mkFnBody("PopulateFromUQUIC", pop.Type, pop.Recv, pop.Body), arg, 3)
		w.P("/-- internal/wire/u_transport_parameters.go `PopulateFromUQUIC`: an empty InitialSourceConnectionID entry of the")
		w.P("    argument slice is overwritten with the connection's source connection ID (`%s[i] = …`) -/", arg)
		w.P("def populateWritesBack : Bool := %s", leanBool(writes))

		// ---- (2) UTransport.doDial / dial versus Transport's -----------------------------------------
		tDo, uDo := p.FuncDecl("Transport", "doDial"), p.FuncDecl("UTransport", "doDial")
		tDial, uDial := p.FuncDecl("Transport", "dial"), p.FuncDecl("UTransport", "dial")
		if tDo == nil || uDo == nil || tDial == nil || uDial == nil {
			return fmt.Errorf("Transport/UTransport dial/doDial not found")
		}
		tCtor := findCalls(tDo.Body, "newClientConnection")
		if len(tCtor) != 1 {
			return fmt.Errorf("Transport.doDial: expected one call of newClientConnection")
		}
		argsOf := func(c *ast.CallExpr) []string {
			var out []string
			for _, a := range c.Args {
				out = append(out, normRecv(render(fset, a)))
			}
			return out
		}
		eqStrs := func(a, b []string) bool {
			if len(a) != len(b) {
				return false
			}
			for i := range a {
				if a[i] != b[i] {
					return false
				}
			}
			return true
		}
		// Both functions are compared as statement lists AFTER partial evaluation of UTransport.doDial under the
		// assumption "no spec" (symwalk.go residual): `if <spec> == nil {A} else {B}` becomes A, `if <spec> != nil &&
		// … {A} else {B}` becomes B, a call of a same-package helper that, without a spec, is just `return <expr>`
		// becomes <expr>, `var x T` + `x = …` and `x := …` coincide. So it does not matter whether the spec-dependent
		// steps are written inline or extracted into helpers, how helpers are called, or how the if/else is oriented.
		uRecv := recvName(uDo)
		if uRecv == "" {
			return fmt.Errorf("UTransport.doDial: unnamed receiver")
		}
		isSpecExpr := func(x ast.Expr) bool { return render(fset, x) == uRecv+".QUICSpec" }
		specAtom := func(specIsNil bool) func(ast.Expr) (bool, bool) {
			return func(cnd ast.Expr) (bool, bool) {
				for {
					pe, ok := cnd.(*ast.ParenExpr)
					if !ok {
						break
					}
					cnd = pe.X
				}
				b, ok := cnd.(*ast.BinaryExpr)
				if !ok || (b.Op != token.EQL && b.Op != token.NEQ) {
					return false, false
				}
				if !((isSpecExpr(b.X) && isNilIdent(b.Y)) || (isSpecExpr(b.Y) && isNilIdent(b.X))) {
					return false, false
				}
				return (b.Op == token.EQL) == specIsNil, true
			}
		}
		canon := func(n ast.Node) string {
			r := normRecv(render(fset, n))
			r = strings.ReplaceAll(r, ", )", ")")
			r = strings.ReplaceAll(r, "( ", "(")
			return r
		}
		resOf := func(fd *ast.FuncDecl, specIsNil bool) []ast.Stmt {
			sw := &symWalker{helper: fl.helper, atom: specAtom(specIsNil), maxDepth: 3}
			out, _ := sw.residual(fd.Body.List, symEnv{}, isSpecExpr, 0)
			return out
		}
		canonList := func(sts []ast.Stmt) []string {
			var out []string
			for _, st := range sts {
				out = append(out, canon(st))
			}
			return out
		}
		// the statements (of a residual) that call `name`, each with that call
		type site struct {
			st   ast.Stmt
			call *ast.CallExpr
		}
		sitesOf := func(sts []ast.Stmt, name string) []site {
			var out []site
			for _, st := range sts {
				for _, cl := range findCalls(st, name) {
					out = append(out, site{st, cl})
				}
			}
			return out
		}
		plain, _ := (&symWalker{}).residual(tDo.Body.List, symEnv{}, nil, 0)
		uNil := resOf(uDo, true)
		uSpec := resOf(uDo, false)
		tArgs := argsOf(tCtor[0])
		nilCtor, nilArgs, specCtor := false, false, false
		if cs, us := sitesOf(uNil, "newClientConnection"), sitesOf(uNil, "newUClientConnection"); len(cs) == 1 && len(us) == 0 {
			if as, ok := cs[0].st.(*ast.AssignStmt); ok && len(as.Rhs) == 1 && as.Rhs[0] == ast.Expr(cs[0].call) {
				nilCtor = true
				nilArgs = eqStrs(argsOf(cs[0].call), tArgs)
			}
		}
		if cs, us := sitesOf(uSpec, "newClientConnection"), sitesOf(uSpec, "newUClientConnection"); len(cs) == 0 && len(us) == 1 {
			if as, ok := us[0].st.(*ast.AssignStmt); ok && len(as.Rhs) == 1 && as.Rhs[0] == ast.Expr(us[0].call) {
				a := argsOf(us[0].call)
				specCtor = len(a) == len(tArgs)+1 && eqStrs(a[:len(a)-1], tArgs) && a[len(a)-1] == uRecv+".QUICSpec"
			}
		}
		// destination connection ID: without a spec exactly Transport.doDial's statement, and nothing else draws one
		dcidOK := false
		tDcid := sitesOf(plain, "generateConnectionIDForInitial")
		if uD := sitesOf(uNil, "generateConnectionIDForInitial"); len(tDcid) == 1 && len(uD) == 1 {
			dcidOK = canon(uD[0].st) == canon(tDcid[0].st)
			for _, st := range uNil {
				ast.Inspect(st, func(n ast.Node) bool {
					if cl, ok := n.(*ast.CallExpr); ok && cl != uD[0].call && strings.HasPrefix(callName(cl), "generateConnectionIDForInitial") {
						dcidOK = false
					}
					return true
				})
			}
		}
		restU, restT := canonList(uNil), canonList(plain)
		if os.Getenv("GOFACTS_DEBUG") != "" {
			for i := 0; i < len(restU) || i < len(restT); i++ {
				a, b := "-", "-"
				if i < len(restU) {
					a = restU[i]
				}
				if i < len(restT) {
					b = restT[i]
				}
				if a != b {
					fmt.Fprintf(os.Stderr, "doDial rest[%d]\n U: %.300s\n T: %.300s\n", i, a, b)
				}
			}
		}
		w.P("/-- u_transport.go `UTransport.doDial` partially evaluated for `t.QUICSpec == nil` (same-package helpers followed, decided")
		w.P("    branches taken): the connection is built by a single call of `newClientConnection` -/")
		w.P("def nilBranchCallsPlainCtor : Bool := %s", leanBool(nilCtor))
		w.P("/-- … with the argument list of `Transport.doDial`'s call (modulo `t.Transport` for `t`) -/")
		w.P("def nilBranchArgsMatch : Bool := %s", leanBool(nilArgs))
		w.P("/-- … and, evaluated for `t.QUICSpec != nil`, by `newUClientConnection(<the same arguments>, t.QUICSpec)` only -/")
		w.P("def specBranchCallsUCtor : Bool := %s", leanBool(specCtor))
		w.P("/-- `UTransport.doDial` without a spec: the destination connection ID is drawn by `generateConnectionIDForInitial()` exactly as")
		w.P("    in `Transport.doDial` (inline or through a same-package helper), and by nothing else -/")
		w.P("def dcidDefaultWhenNoSpec : Bool := %s", leanBool(dcidOK))
		w.P("/-- the whole statement list of `UTransport.doDial`, partially evaluated for `t.QUICSpec == nil`, equals `Transport.doDial`'s, in")
		w.P("    order (`var x T` dropped, `:=` read as `=`, `t.Transport` for `t`) -/")
		w.P("def doDialRestEqual : Bool := %s", leanBool(eqStrs(restU, restT)))

		// dial: Transport.dial's statements occur in UTransport.dial in order; every extra statement is INERT without a
		// spec (x_dial_nilspec.go: `if <spec> != nil {…}` without else, `var x T`, a call of a same-package helper method
		// of the receiver that only returns zero values when the spec is nil, the propagation of such a helper's nil
		// error); the final doDial call differs only in the initial-packet-number argument, a local that is zero without
		// a spec. Local names and "inlined versus extracted" do not matter.
		env := newNilSpecEnv(fset, p, "UTransport", uDial)
		if env.recv == "" {
			return fmt.Errorf("UTransport.dial: unnamed receiver")
		}
		guardedOnly, inOrder := true, true
		ti := 0
		tList := tDial.Body.List
		pnVar := ""
		normRet := func(st ast.Stmt, pnIsZero func(ast.Expr) bool) string {
			// replace the initial-packet-number argument of the final doDial call by a placeholder
			rs, ok := st.(*ast.ReturnStmt)
			if !ok || len(rs.Results) != 1 {
				return render(fset, st)
			}
			call, ok := rs.Results[0].(*ast.CallExpr)
			if !ok || callName(call) != "doDial" || len(call.Args) != 8 {
				return render(fset, st)
			}
			a := argsOf(call)
			if !pnIsZero(call.Args[4]) {
				return render(fset, st)
			}
			a[4] = "<pn>"
			return "return t.doDial(" + strings.Join(a, ", ") + ")"
		}
		zeroLocal := func(x ast.Expr) bool {
			id, ok := x.(*ast.Ident)
			if ok && env.zero[id.Name] {
				pnVar = id.Name
				return true
			}
			return false
		}
		inertStmts := map[ast.Stmt]bool{}
		for _, st := range uDial.Body.List {
			r := render(fset, st)
			if ti < len(tList) {
				want := render(fset, tList[ti])
				if r == want || (ti == len(tList)-1 && normRet(st, zeroLocal) == normRet(tList[ti], isZeroLit)) {
					ti++
					env.lastDef = map[string]bool{}
					continue
				}
			}
			if env.inert(st) {
				inertStmts[st] = true
				continue
			}
			guardedOnly = false
			if os.Getenv("GOFACTS_DEBUG") != "" {
				fmt.Fprintf(os.Stderr, "dial extra stmt: %s\n  next plain: %s\n", r, func() string {
					if ti < len(tList) {
						return render(fset, tList[ti])
					}
					return "-"
				}())
			}
		}
		inOrder = ti == len(tList)
		// the packet-number local is written only by inert statements (so it is 0 without a spec)
		pnAssignedOnlyUnderGuard := pnVar == "" || !assignedOutside(uDial.Body.List, inertStmts, pnVar)
		w.P("/-- u_transport.go `UTransport.dial`: all statements of `Transport.dial` occur, in order (the final `doDial` call modulo")
		w.P("    its initial-packet-number argument: a local that is zero without a spec, for `0`) -/")
		w.P("def dialHasPlainStmtsInOrder : Bool := %s", leanBool(inOrder))
		w.P("/-- … every additional statement is inert when `t.QUICSpec == nil`: `if <spec> != nil { … }` (no else), a `var`")
		w.P("    declaration, a call of a same-package helper method that only returns zero values without a spec (and the")
		w.P("    propagation of its nil error); the packet-number local is written only by such statements -/")
		w.P("def dialExtrasGuardedBySpec : Bool := %s", leanBool(guardedOnly && pnAssignedOnlyUnderGuard))

		// ---- (3) the built-in parrots as data ----------------------------------------------------------
		q := p.FuncDecl("", "QUICID2Spec")
		if q == nil {
			return fmt.Errorf("QUICID2Spec not found")
		}
		type parrot struct {
			name                  string
			scid, dcid, minsz     int
			emptyISCID, qtp, keys bool
			mu, mb                int
		}
		var ps []parrot
		var bad error
		intField := func(n ast.Node, key string) (int, bool) {
			v, found := 0, false
			ast.Inspect(n, func(x ast.Node) bool {
				kv, ok := x.(*ast.KeyValueExpr)
				if !ok {
					return true
				}
				if id, ok := kv.Key.(*ast.Ident); ok && id.Name == key {
					if bl, ok := kv.Value.(*ast.BasicLit); ok && bl.Kind == token.INT {
						if iv, err := strconv.ParseInt(bl.Value, 0, 64); err == nil {
							v, found = int(iv), true
						}
					}
				}
				return true
			})
			return v, found
		}
		ast.Inspect(q.Body, func(n ast.Node) bool {
			cc, ok := n.(*ast.CaseClause)
			if !ok || len(cc.List) == 0 {
				return true
			}
			body := &ast.BlockStmt{List: cc.Body}
			sc, ok1 := intField(body, "SrcConnIDLength")
			dc, ok2 := intField(body, "DestConnIDLength")
			ms, _ := intField(body, "UDPDatagramMinSize")
			if !ok1 || !ok2 {
				bad = fmt.Errorf("QUICID2Spec: a case has no literal SrcConnIDLength/DestConnIDLength")
				return false
			}
			r := render(fset, body)
			pr := parrot{scid: sc, dcid: dc, minsz: ms,
				emptyISCID: strings.Contains(r, "tls.InitialSourceConnectionID([]byte{})"),
				qtp:        strings.Contains(r, "&tls.QUICTransportParametersExtension{"),
				keys:       strings.Contains(r, "&tls.KeyShareExtension{")}
			callArg := func(name string) int {
				v := -1
				for _, c := range findCalls(body, name) {
					if len(c.Args) == 1 {
						if bl, ok := c.Args[0].(*ast.BasicLit); ok && bl.Kind == token.INT {
							if iv, err := strconv.ParseInt(bl.Value, 0, 64); err == nil {
								v = int(iv)
							}
						}
					}
				}
				return v
			}
			pr.mu, pr.mb = callArg("InitialMaxStreamsUni"), callArg("InitialMaxStreamsBidi")
			if pr.mu < 0 || pr.mb < 0 {
				bad = fmt.Errorf("QUICID2Spec: a case has no literal tls.InitialMaxStreamsUni/Bidi")
				return false
			}
			for _, l := range cc.List {
				pr.name = render(fset, l)
				ps = append(ps, pr)
			}
			return false
		})
		if bad != nil {
			return bad
		}
		if len(ps) == 0 {
			return fmt.Errorf("QUICID2Spec: no cases found")
		}
		w.P("/-- u_parrot.go `QUICID2Spec`: (case label, SrcConnIDLength, DestConnIDLength, UDPDatagramMinSize,")
		w.P("    lists an empty tls.InitialSourceConnectionID, has a QUICTransportParametersExtension, has a KeyShareExtension,")
		w.P("    initial_max_streams_uni, initial_max_streams_bidi) -/")
		w.P("def parrots : List (String × Nat × Nat × Nat × Bool × Bool × Bool × Nat × Nat) := [")
		for i, pr := range ps {
			sep := ","
			if i == len(ps)-1 {
				sep = ""
			}
			w.P("  (%q, %d, %d, %d, %s, %s, %s, %d, %d)%s", pr.name, pr.scid, pr.dcid, pr.minsz, leanBool(pr.emptyISCID), leanBool(pr.qtp), leanBool(pr.keys), pr.mu, pr.mb, sep)
		}
		w.P("]")
		return nil
	})
}
