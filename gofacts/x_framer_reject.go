package main

// Shape fact about framer.go `(*framer).Handle0RTTRejection` (properties C13 — driver `rst`, model
// Model.Handshake.FramerReset — and C04): does the rejection handler also forget the streams that announced control
// frames (RESET_STREAM / STOP_SENDING / MAX_STREAM_DATA, the map `streamsWithControlFrames`)?
//
//	handle0RTTRejectionClearsStreamControl : Bool
//
// true iff the handler UNCONDITIONALLY empties the map: a top-level statement of the body (or of a zero-argument
// method of the same receiver called by a top-level statement of the body) of one of the forms
//
//	for k := range R.streamsWithControlFrames { delete(R.streamsWithControlFrames, k) }
//	clear(R.streamsWithControlFrames)
//	R.streamsWithControlFrames = make(map[…]…[, n])     R.streamsWithControlFrames = map[…]…{}
//
// false iff neither the handler nor such a helper mentions the field at all. Anything else that touches the field in
// that function (a conditional clearing, a write after the clearing, a partial deletion, …) is an ERROR: the model
// cannot follow it, the dependent Lean modules do not build. The field itself must exist in `type framer struct`.

import (
	"fmt"
	"go/ast"
	"go/parser"
	"go/token"
	"path/filepath"
)

const fr0Field = "streamsWithControlFrames"

// fr0IsField: x is `<recv>.streamsWithControlFrames`
func fr0IsField(x ast.Expr, recv string) bool {
	if p, ok := x.(*ast.ParenExpr); ok {
		return fr0IsField(p.X, recv)
	}
	sel, ok := x.(*ast.SelectorExpr)
	if !ok || sel.Sel.Name != fr0Field {
		return false
	}
	id, ok := sel.X.(*ast.Ident)
	return ok && recv != "" && id.Name == recv
}

func fr0Mentions(n ast.Node) bool {
	found := false
	ast.Inspect(n, func(x ast.Node) bool {
		if sel, ok := x.(*ast.SelectorExpr); ok && sel.Sel.Name == fr0Field {
			found = true
		}
		return true
	})
	return found
}

func fr0Builtin(call *ast.CallExpr, name string) bool {
	id, ok := call.Fun.(*ast.Ident)
	return ok && id.Name == name
}

// fr0Clears: st empties the map, whatever it held
func fr0Clears(st ast.Stmt, recv string) bool {
	switch s := st.(type) {
	case *ast.RangeStmt:
		// for k := range R.field { delete(R.field, k) }
		if s.Tok != token.DEFINE || s.Value != nil || !fr0IsField(s.X, recv) || len(s.Body.List) != 1 {
			return false
		}
		k, ok := s.Key.(*ast.Ident)
		if !ok || k.Name == "_" {
			return false
		}
		es, ok := s.Body.List[0].(*ast.ExprStmt)
		if !ok {
			return false
		}
		call, ok := es.X.(*ast.CallExpr)
		if !ok || !fr0Builtin(call, "delete") || len(call.Args) != 2 || !fr0IsField(call.Args[0], recv) {
			return false
		}
		a, ok := call.Args[1].(*ast.Ident)
		return ok && a.Name == k.Name
	case *ast.ExprStmt:
		// clear(R.field)
		call, ok := s.X.(*ast.CallExpr)
		return ok && fr0Builtin(call, "clear") && len(call.Args) == 1 && fr0IsField(call.Args[0], recv)
	case *ast.AssignStmt:
		// R.field = make(map[…]…[, n]) / R.field = map[…]…{}
		if s.Tok != token.ASSIGN || len(s.Lhs) != 1 || len(s.Rhs) != 1 || !fr0IsField(s.Lhs[0], recv) {
			return false
		}
		switch r := s.Rhs[0].(type) {
		case *ast.CallExpr:
			if !fr0Builtin(r, "make") || len(r.Args) < 1 || len(r.Args) > 2 {
				return false
			}
			if _, ok := r.Args[0].(*ast.MapType); !ok {
				return false
			}
			return len(r.Args) == 1 || !fr0Mentions(r.Args[1])
		case *ast.CompositeLit:
			_, ok := r.Type.(*ast.MapType)
			return ok && len(r.Elts) == 0
		}
	}
	return false
}

func fr0Method(af *ast.File, name string) *ast.FuncDecl {
	for _, d := range af.Decls {
		fd, ok := d.(*ast.FuncDecl)
		if !ok || fd.Name.Name != name || fd.Recv == nil || fd.Body == nil || len(fd.Recv.List) != 1 {
			continue
		}
		t := fd.Recv.List[0].Type
		if st, ok := t.(*ast.StarExpr); ok {
			t = st.X
		}
		if id, ok := t.(*ast.Ident); ok && id.Name == "framer" {
			return fd
		}
	}
	return nil
}

// fr0Body: (clears, error) for the top-level statements of fd; helper calls are followed `depth` levels.
func fr0Body(c *Ctx, af *ast.File, fd *ast.FuncDecl, depth int) (bool, error) {
	recv := ""
	if len(fd.Recv.List[0].Names) == 1 {
		recv = fd.Recv.List[0].Names[0].Name
	}
	cleared := false
	for _, st := range fd.Body.List {
		if fr0Clears(st, recv) {
			cleared = true
			continue
		}
		if fr0Mentions(st) {
			pos := c.Fset.Position(st.Pos())
			return false, fmt.Errorf("framer.go:%d: %s touches %s in a way the model cannot follow (known: `for k := range f.%s { delete(f.%s, k) }`, `clear(f.%s)`, `f.%s = make(map…)` as unconditional top-level statements)",
				pos.Line, fd.Name.Name, fr0Field, fr0Field, fr0Field, fr0Field, fr0Field)
		}
		// a zero-argument method of the same receiver: `R.helper()`
		es, ok := st.(*ast.ExprStmt)
		if !ok || depth == 0 {
			continue
		}
		call, ok := es.X.(*ast.CallExpr)
		if !ok || len(call.Args) != 0 {
			continue
		}
		sel, ok := call.Fun.(*ast.SelectorExpr)
		if !ok {
			continue
		}
		id, ok := sel.X.(*ast.Ident)
		if !ok || id.Name != recv || recv == "" {
			continue
		}
		h := fr0Method(af, sel.Sel.Name)
		if h == nil || !fr0Mentions(h.Body) {
			continue
		}
		hc, err := fr0Body(c, af, h, depth-1)
		if err != nil {
			return false, err
		}
		if hc {
			cleared = true
		} else {
			// mentions the field (fr0Mentions) but no recognised clearing and no error: cannot happen; be loud anyway
			return false, fmt.Errorf("framer.go: helper %s of Handle0RTTRejection touches %s", h.Name.Name, fr0Field)
		}
	}
	return cleared, nil
}

func init() {
	register("FramerReject", func(c *Ctx, w *LeanFile) error {
		file := filepath.Join(c.Repo, "framer.go")
		af, err := parser.ParseFile(c.Fset, file, nil, 0)
		if err != nil {
			return err
		}
		// the field must exist: a renamed field would otherwise read as "not cleared"
		hasField := false
		ast.Inspect(af, func(n ast.Node) bool {
			ts, ok := n.(*ast.TypeSpec)
			if !ok || ts.Name.Name != "framer" {
				return true
			}
			if st, ok := ts.Type.(*ast.StructType); ok {
				for _, f := range st.Fields.List {
					for _, nm := range f.Names {
						if nm.Name == fr0Field {
							_, isMap := f.Type.(*ast.MapType)
							hasField = isMap
						}
					}
				}
			}
			return false
		})
		if !hasField {
			return fmt.Errorf("framer.go: type framer has no map field %s any more", fr0Field)
		}
		fd := fr0Method(af, "Handle0RTTRejection")
		if fd == nil {
			return fmt.Errorf("framer.go: method (*framer).Handle0RTTRejection not found")
		}
		clears, err := fr0Body(c, af, fd, 1)
		if err != nil {
			return err
		}
		w.P("/-- framer.go `(*framer).Handle0RTTRejection`: the handler unconditionally empties `%s`", fr0Field)
		w.P("(the streams' queued RESET_STREAM / STOP_SENDING / MAX_STREAM_DATA are forgotten with the streams) -/")
		w.P("def handle0RTTRejectionClearsStreamControl : Bool := %v", clears)
		return nil
	})
}
