package main

import (
	"fmt"
	"go/constant"
)

// EmitRatConstNamed writes an exact rational constant (e.g. `timeThreshold = 9.0 / 8`) as
// `def <lean>Num : Int` / `def <lean>Den : Int` (lowest terms, Den > 0).
func (c *Ctx) EmitRatConstNamed(w *LeanFile, p *Pkg, goName, leanName string) error {
	v, _, pos, ok := p.Const(goName)
	if !ok {
		return fmt.Errorf("constant %s not found in %s", goName, p.Dir)
	}
	f := constant.ToFloat(v)
	if f.Kind() != constant.Float && f.Kind() != constant.Int {
		return fmt.Errorf("constant %s is not numeric: %s", goName, v)
	}
	num, den := constant.Num(f), constant.Denom(f)
	if num.Kind() != constant.Int || den.Kind() != constant.Int {
		return fmt.Errorf("constant %s has no exact rational value: %s", goName, v)
	}
	w.P("/-- %s `%s` (exact rational %s/%s) -/", c.pos(pos), goName, num.ExactString(), den.ExactString())
	if constant.Sign(num) < 0 {
		w.P("def %sNum : Int := (%s)", leanName, num.ExactString())
	} else {
		w.P("def %sNum : Int := %s", leanName, num.ExactString())
	}
	w.P("def %sDen : Int := %s", leanName, den.ExactString())
	return nil
}

func init() {
	// non-integer constants of internal/ackhandler used by the C06 model
	register("AckhandlerX", func(c *Ctx, w *LeanFile) error {
		p, err := c.Load("internal/ackhandler")
		if err != nil {
			return err
		}
		return c.EmitRatConstNamed(w, p, "timeThreshold", "timeThreshold")
	})
}
