package main

import (
	"bytes"
	"fmt"
	"go/ast"
	"go/constant"
	"go/printer"
	"go/token"
)

// EmitRatConstNamed writes an exact rational constant (e.g. `timeThreshold = 9.0 / 8`) as
// `def <lean>Num : Int` / `def <lean>Den : Int` (lowest terms, Den > 0).
func (c *Ctx) EmitRatConstNamed(w *LeanFile, p *Pkg, goName, leanName string) error {
	v, _, pos, ok := p.Const(goName)
	if !ok {
		return fmt.Errorf("constant %s not found in %s", goName, p.Dir)
	}
	f := constant.ToFloat(v)
	if f.Kind() != constant.Float && f.Kind() != constant.Int {
		return fmt.Errorf("constant %s is not numeric: %s", goName, v)
	}
	num, den := constant.Num(f), constant.Denom(f)
	if num.Kind() != constant.Int || den.Kind() != constant.Int {
		return fmt.Errorf("constant %s has no exact rational value: %s", goName, v)
	}
	w.P("/-- %s `%s` (exact rational %s/%s) -/", c.pos(pos), goName, num.ExactString(), den.ExactString())
	if constant.Sign(num) < 0 {
		w.P("def %sNum : Int := (%s)", leanName, num.ExactString())
	} else {
		w.P("def %sNum : Int := %s", leanName, num.ExactString())
	}
	w.P("def %sDen : Int := %s", leanName, den.ExactString())
	return nil
}

func init() {
	// non-integer constants of internal/ackhandler used by the C06 model
	register("AckhandlerX", func(c *Ctx, w *LeanFile) error {
		p, err := c.Load("internal/ackhandler")
		if err != nil {
			return err
		}
		if err := c.EmitRatConstNamed(w, p, "timeThreshold", "timeThreshold"); err != nil {
			return err
		}
		return c.emitAntiDeadlockGuard(w, p)
	})
}

// Shape fact for C06: the guard of the anti-deadlock branch of sentPacketHandler.OnLossDetectionTimeout (the `if`
// whose body does `h.numProbesToSend++`). The guard is recognised SEMANTICALLY: it is evaluated as a boolean
// function of the four atoms
//
//	Z = h.bytesInFlight == 0, C = h.peerCompletedAddressValidation, F = h.handshakeConfirmed,
//	O = h.hasOutstandingCryptoPackets()
//
// (operators && || ! and parentheses, `!=`/`>` spellings of Z, parameterless single-return helper methods of the
// receiver inlined) and its truth table is compared with the two shapes the model knows:
//
//	narrow (before /repo 23a90f5):  Z && !C
//	wide   (since  /repo 23a90f5):  !C && (Z || (!F && !O))
//
// `def antiDeadlockWhenArmed : Bool` selects the model's guard. Anything else is an error (the generated module
// then fails to build and every dependent proof with it).
func (c *Ctx) emitAntiDeadlockGuard(w *LeanFile, p *Pkg) error {
	fd := p.FuncDecl("sentPacketHandler", "OnLossDetectionTimeout")
	if fd == nil || fd.Body == nil {
		return fmt.Errorf("sentPacketHandler.OnLossDetectionTimeout not found")
	}
	recv := ""
	if len(fd.Recv.List[0].Names) == 1 {
		recv = fd.Recv.List[0].Names[0].Name
	}
	var guards []ast.Expr
	ast.Inspect(fd.Body, func(n ast.Node) bool {
		is, ok := n.(*ast.IfStmt)
		if !ok {
			return true
		}
		for _, st := range is.Body.List {
			if id, ok := st.(*ast.IncDecStmt); ok && id.Tok == token.INC {
				if se, ok := id.X.(*ast.SelectorExpr); ok && se.Sel.Name == "numProbesToSend" {
					guards = append(guards, is.Cond)
				}
			}
		}
		return true
	})
	if len(guards) != 1 {
		return fmt.Errorf("OnLossDetectionTimeout: expected exactly one `if` whose body increments numProbesToSend by one, found %d", len(guards))
	}
	show := func(e ast.Expr) string {
		var b bytes.Buffer
		_ = printer.Fprint(&b, token.NewFileSet(), e)
		return b.String()
	}
	isSel := func(e ast.Expr, r, field string) bool {
		se, ok := e.(*ast.SelectorExpr)
		if !ok || se.Sel.Name != field {
			return false
		}
		id, ok := se.X.(*ast.Ident)
		return ok && id.Name == r
	}
	isZero := func(e ast.Expr) bool {
		bl, ok := e.(*ast.BasicLit)
		return ok && bl.Kind == token.INT && bl.Value == "0"
	}
	// eval returns the value of e under the assignment env (keys Z C F O); r is the receiver name in scope
	var eval func(e ast.Expr, r string, env map[byte]bool, depth int) (bool, error)
	eval = func(e ast.Expr, r string, env map[byte]bool, depth int) (bool, error) {
		if depth > 8 {
			return false, fmt.Errorf("guard helper nesting too deep")
		}
		switch x := e.(type) {
		case *ast.ParenExpr:
			return eval(x.X, r, env, depth)
		case *ast.UnaryExpr:
			if x.Op == token.NOT {
				v, err := eval(x.X, r, env, depth)
				return !v, err
			}
		case *ast.BinaryExpr:
			switch x.Op {
			case token.LAND, token.LOR:
				a, err := eval(x.X, r, env, depth)
				if err != nil {
					return false, err
				}
				b, err := eval(x.Y, r, env, depth)
				if err != nil {
					return false, err
				}
				if x.Op == token.LAND {
					return a && b, nil
				}
				return a || b, nil
			case token.EQL, token.NEQ, token.GTR, token.LSS:
				// spellings of "bytesInFlight is (not) zero"; bytes_in_flight is never negative (C06 in_flight_balanced)
				var zero, ok bool
				switch {
				case isSel(x.X, r, "bytesInFlight") && isZero(x.Y):
					ok = true
					zero = x.Op == token.EQL
					if x.Op == token.LSS {
						ok = false
					}
				case isZero(x.X) && isSel(x.Y, r, "bytesInFlight"):
					ok = true
					zero = x.Op == token.EQL
					if x.Op == token.GTR {
						ok = false
					}
				}
				if ok {
					if zero {
						return env['Z'], nil
					}
					return !env['Z'], nil
				}
			}
		case *ast.SelectorExpr:
			switch {
			case isSel(x, r, "peerCompletedAddressValidation"):
				return env['C'], nil
			case isSel(x, r, "handshakeConfirmed"):
				return env['F'], nil
			}
		case *ast.CallExpr:
			if se, ok := x.Fun.(*ast.SelectorExpr); ok && len(x.Args) == 0 {
				if id, ok := se.X.(*ast.Ident); ok && id.Name == r {
					if se.Sel.Name == "hasOutstandingCryptoPackets" {
						return env['O'], nil
					}
					// a parameterless helper of the receiver consisting of one `return <expr>`
					if hd := p.FuncDecl("sentPacketHandler", se.Sel.Name); hd != nil && hd.Body != nil && len(hd.Body.List) == 1 &&
						len(hd.Recv.List[0].Names) == 1 {
						if rs, ok := hd.Body.List[0].(*ast.ReturnStmt); ok && len(rs.Results) == 1 {
							return eval(rs.Results[0], hd.Recv.List[0].Names[0].Name, env, depth+1)
						}
					}
				}
			}
		}
		return false, fmt.Errorf("OnLossDetectionTimeout: anti-deadlock guard contains a term the model does not know: `%s`", show(e))
	}
	narrow, wide := true, true
	for m := 0; m < 16; m++ {
		env := map[byte]bool{'Z': m&1 != 0, 'C': m&2 != 0, 'F': m&4 != 0, 'O': m&8 != 0}
		v, err := eval(guards[0], recv, env, 0)
		if err != nil {
			return err
		}
		z, cc, f, o := env['Z'], env['C'], env['F'], env['O']
		if v != (z && !cc) {
			narrow = false
		}
		if v != (!cc && (z || (!f && !o))) {
			wide = false
		}
	}
	if narrow == wide { // neither (both is impossible: the two tables differ)
		return fmt.Errorf("OnLossDetectionTimeout: anti-deadlock guard `%s` is neither `bytesInFlight == 0 && !peerCompleted` nor "+
			"`!peerCompleted && (bytesInFlight == 0 || (!handshakeConfirmed && !hasOutstandingCryptoPackets()))`", show(guards[0]))
	}
	w.P("/-- %s `OnLossDetectionTimeout`: the anti-deadlock probe branch is guarded by", c.pos(fd.Pos()))
	w.P("    `!peerCompleted && (bytesInFlight == 0 || (!handshakeConfirmed && !hasOutstandingCryptoPackets()))` (true, since 23a90f5)")
	w.P("    or by `bytesInFlight == 0 && !peerCompleted` (false); recognised by truth table over the four atoms -/")
	w.P("def antiDeadlockWhenArmed : Bool := %v", wide)
	return nil
}
