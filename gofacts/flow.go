package main

// A very small, purely syntactic value-origin analysis used by the Dial and UQuic extractors, so that their shape
// facts do not depend on whether a piece of straight-line code is written inline or extracted into a same-package
// helper, on the names of local variables, or on loop / switch spelling.
//
//   - roots(fn, e, pos): the set of "terminal" places the value of expression e (used at position pos inside fn) may
//     alias: names of fn's parameters (and receiver), or the pseudo root "<fresh>" (composite literal, &local, make,
//     new, append(nil…), result of a call that does not hand through one of its arguments, constants, nil).
//     Local variables are followed through every assignment / range / type switch that defines them before pos
//     (flow-insensitive union: conservative towards "may alias").
//   - a call of a same-package function or method hands through the arguments its results may alias (computed by
//     the same analysis on the callee's return statements); calls of anything else are fresh.
//
// This is an over-approximation of aliasing for the simple glue code it is applied to; it never guesses "fresh" for
// a selector / index / type-assertion / slice path below a parameter.

import (
	"go/ast"
	"go/token"
)

const freshRoot = "<fresh>"

type fnBody struct {
	name   string
	typ    *ast.FuncType
	recv   *ast.FieldList
	body   *ast.BlockStmt
	params []string // positional parameter names ("" for unnamed / blank)
}

func mkFnBody(name string, typ *ast.FuncType, recv *ast.FieldList, body *ast.BlockStmt) *fnBody {
	f := &fnBody{name: name, typ: typ, recv: recv, body: body}
	if typ.Params != nil {
		for _, fl := range typ.Params.List {
			if len(fl.Names) == 0 {
				f.params = append(f.params, "")
			}
			for _, n := range fl.Names {
				f.params = append(f.params, n.Name)
			}
		}
	}
	return f
}

func (f *fnBody) isParam(name string) bool {
	if name == "" || name == "_" {
		return false
	}
	for _, p := range f.params {
		if p == name {
			return true
		}
	}
	if f.recv != nil {
		for _, fl := range f.recv.List {
			for _, n := range fl.Names {
				if n.Name == name {
					return true
				}
			}
		}
	}
	return false
}

type flow struct {
	p     *Pkg
	memo  map[string][]int // callee name -> indices of the parameters its results may alias
	stack map[string]bool
}

func newFlow(p *Pkg) *flow { return &flow{p: p, memo: map[string][]int{}, stack: map[string]bool{}} }

// helper finds the same-package function or method a call refers to (by name; nil if none or ambiguous).
func (fl *flow) helper(c *ast.CallExpr) *fnBody {
	name := ""
	switch f := c.Fun.(type) {
	case *ast.Ident:
		name = f.Name
	case *ast.SelectorExpr:
		// a method of a same-package type, or pkg.Func of another package: only accept when the selector's root is
		// not an imported package name
		if id, ok := f.X.(*ast.Ident); ok && fl.isImport(id) {
			return nil
		}
		name = f.Sel.Name
	default:
		return nil
	}
	var found *fnBody
	n := 0
	for _, file := range fl.p.Files {
		for _, d := range file.Decls {
			switch x := d.(type) {
			case *ast.FuncDecl:
				if x.Name.Name == name && x.Body != nil {
					_, isSel := c.Fun.(*ast.SelectorExpr)
					if (x.Recv != nil) != isSel {
						continue
					}
					found = mkFnBody(name, x.Type, x.Recv, x.Body)
					n++
				}
			case *ast.GenDecl:
				if _, isSel := c.Fun.(*ast.SelectorExpr); isSel {
					continue
				}
				for _, s := range x.Specs {
					vs, ok := s.(*ast.ValueSpec)
					if !ok {
						continue
					}
					for i, nm := range vs.Names {
						if nm.Name == name && i < len(vs.Values) {
							if lit, ok := vs.Values[i].(*ast.FuncLit); ok {
								found = mkFnBody(name, lit.Type, nil, lit.Body)
								n++
							}
						}
					}
				}
			}
		}
	}
	if n != 1 {
		return nil
	}
	return found
}

func (fl *flow) isImport(id *ast.Ident) bool {
	for _, file := range fl.p.Files {
		if file.Pos() <= id.Pos() && id.Pos() <= file.End() {
			for _, im := range file.Imports {
				n := ""
				if im.Name != nil {
					n = im.Name.Name
				} else {
					// last path element, without quotes
					pth := im.Path.Value
					pth = pth[1 : len(pth)-1]
					for i := len(pth) - 1; i >= 0; i-- {
						if pth[i] == '/' {
							pth = pth[i+1:]
							break
						}
					}
					n = pth
				}
				if n == id.Name {
					return true
				}
			}
		}
	}
	return false
}

type def struct {
	pos token.Pos
	rhs ast.Expr
}

// defsOf: every definition / assignment of the plain identifier `name` inside fn, with the expression it takes its
// value from (for tuple assignments from one call: that call).
func defsOf(fn *fnBody, name string) []def {
	var out []def
	ast.Inspect(fn.body, func(n ast.Node) bool {
		switch s := n.(type) {
		case *ast.AssignStmt:
			for i, l := range s.Lhs {
				id, ok := l.(*ast.Ident)
				if !ok || id.Name != name {
					continue
				}
				var rhs ast.Expr
				if len(s.Rhs) == len(s.Lhs) {
					rhs = s.Rhs[i]
				} else if len(s.Rhs) == 1 {
					rhs = s.Rhs[0]
				}
				if rhs != nil {
					out = append(out, def{s.Pos(), rhs})
				}
			}
		case *ast.RangeStmt:
			for _, kv := range []ast.Expr{s.Key, s.Value} {
				if id, ok := kv.(*ast.Ident); ok && id.Name == name {
					if kv == s.Key {
						// an index / map key: a fresh scalar for slices; keep it conservative for maps
						out = append(out, def{s.Pos(), &ast.BasicLit{Kind: token.INT, Value: "0"}})
					} else {
						out = append(out, def{s.Pos(), s.X})
					}
				}
			}
		case *ast.ValueSpec:
			for i, nm := range s.Names {
				if nm.Name != name {
					continue
				}
				if i < len(s.Values) {
					out = append(out, def{s.Pos(), s.Values[i]})
				} else if len(s.Values) == 1 {
					out = append(out, def{s.Pos(), s.Values[0]})
				}
			}
		}
		return true
	})
	return out
}

func addRoot(set map[string]bool, more map[string]bool) {
	for k := range more {
		set[k] = true
	}
}

// roots of expression e as used at position pos in fn.
func (fl *flow) roots(fn *fnBody, e ast.Expr, pos token.Pos, depth int) map[string]bool {
	out := map[string]bool{}
	if depth > 24 {
		out[freshRoot] = true
		return out
	}
	switch x := e.(type) {
	case nil:
		out[freshRoot] = true
	case *ast.Ident:
		if x.Name == "nil" || x.Name == "true" || x.Name == "false" {
			out[freshRoot] = true
			return out
		}
		defs := defsOf(fn, x.Name)
		any := false
		for _, d := range defs {
			if d.pos < pos {
				any = true
				addRoot(out, fl.roots(fn, d.rhs, d.pos, depth+1))
			}
		}
		if fn.isParam(x.Name) {
			out[x.Name] = true
			any = true
		}
		if !any {
			// a package-level variable, a named result not yet assigned, a closure variable, …: its own root
			out["<var:"+x.Name+">"] = true
		}
	case *ast.SelectorExpr:
		if id, ok := x.X.(*ast.Ident); ok && fl.isImport(id) {
			out[freshRoot] = true
			return out
		}
		return fl.roots(fn, x.X, pos, depth+1)
	case *ast.IndexExpr:
		return fl.roots(fn, x.X, pos, depth+1)
	case *ast.SliceExpr:
		return fl.roots(fn, x.X, pos, depth+1)
	case *ast.StarExpr:
		// *p used as a VALUE is a copy of the pointee; its fields that are pointers / slices still alias. Stay
		// conservative: alias.
		return fl.roots(fn, x.X, pos, depth+1)
	case *ast.ParenExpr:
		return fl.roots(fn, x.X, pos, depth+1)
	case *ast.TypeAssertExpr:
		return fl.roots(fn, x.X, pos, depth+1)
	case *ast.UnaryExpr:
		if x.Op == token.AND {
			// &local is a new object unless the local itself is a path below something (e.g. &x.f)
			if id, ok := x.X.(*ast.Ident); ok && !fn.isParam(id.Name) {
				// the address of a local variable: a fresh object (what the variable was copied from is copied by value)
				_ = id
				out[freshRoot] = true
				return out
			}
			if _, ok := x.X.(*ast.CompositeLit); ok {
				out[freshRoot] = true
				return out
			}
			return fl.roots(fn, x.X, pos, depth+1)
		}
		out[freshRoot] = true
	case *ast.CallExpr:
		h := fl.helper(x)
		if h == nil {
			// conversions T(x) keep the alias; builtins and foreign functions are fresh
			if len(x.Args) == 1 {
				switch f := x.Fun.(type) {
				case *ast.ParenExpr, *ast.ArrayType, *ast.StarExpr:
					_ = f
					return fl.roots(fn, x.Args[0], pos, depth+1)
				}
			}
			out[freshRoot] = true
			return out
		}
		idx := fl.handsThrough(h)
		if len(idx) == 0 {
			out[freshRoot] = true
		}
		for _, i := range idx {
			if i == -1 { // the receiver
				if se, ok := x.Fun.(*ast.SelectorExpr); ok {
					addRoot(out, fl.roots(fn, se.X, pos, depth+1))
				}
				continue
			}
			if i < len(x.Args) {
				addRoot(out, fl.roots(fn, x.Args[i], pos, depth+1))
			}
		}
	default:
		out[freshRoot] = true
	}
	return out
}

// handsThrough: the positional parameters (−1 = receiver) of helper h that one of its results may alias.
func (fl *flow) handsThrough(h *fnBody) []int {
	if v, ok := fl.memo[h.name]; ok {
		return v
	}
	if fl.stack[h.name] {
		return nil
	}
	fl.stack[h.name] = true
	defer delete(fl.stack, h.name)
	set := map[string]bool{}
	ast.Inspect(h.body, func(n ast.Node) bool {
		if _, ok := n.(*ast.FuncLit); ok {
			return false
		}
		rs, ok := n.(*ast.ReturnStmt)
		if !ok {
			return true
		}
		if len(rs.Results) == 0 && h.typ.Results != nil {
			for _, f := range h.typ.Results.List {
				for _, nm := range f.Names {
					addRoot(set, fl.roots(h, nm, rs.Pos(), 0))
				}
			}
		}
		for _, r := range rs.Results {
			addRoot(set, fl.roots(h, r, rs.Pos(), 0))
		}
		return true
	})
	var idx []int
	for i, p := range h.params {
		if p != "" && set[p] {
			idx = append(idx, i)
		}
	}
	if h.recv != nil {
		for _, f := range h.recv.List {
			for _, nm := range f.Names {
				if set[nm.Name] {
					idx = append(idx, -1)
				}
			}
		}
	}
	fl.memo[h.name] = idx
	return idx
}

// callSite is a call of `name` reachable from fn through same-package helpers; chain[0] is the call in fn itself that
// leads there (chain has one element when the call is written in fn directly).
type callSite struct {
	in    *fnBody       // the function the call is written in
	call  *ast.CallExpr // the call of `name`
	chain []hop         // how fn reaches `in`: calls of helpers, outermost first
}

type hop struct {
	in   *fnBody
	call *ast.CallExpr
	to   *fnBody
}

// reach finds every call of a function / method named `name` in fn or in the same-package helpers it calls
// (transitively, at most `depth` levels).
func (fl *flow) reach(fn *fnBody, name string, depth int) []callSite {
	var out []callSite
	var walk func(f *fnBody, chain []hop, d int, seen map[string]bool)
	walk = func(f *fnBody, chain []hop, d int, seen map[string]bool) {
		ast.Inspect(f.body, func(n ast.Node) bool {
			c, ok := n.(*ast.CallExpr)
			if !ok {
				return true
			}
			if callName(c) == name {
				out = append(out, callSite{in: f, call: c, chain: append([]hop(nil), chain...)})
				return true
			}
			if d > 0 {
				if h := fl.helper(c); h != nil && !seen[h.name] {
					seen[h.name] = true
					walk(h, append(chain, hop{f, c, h}), d-1, seen)
					delete(seen, h.name)
				}
			}
			return true
		})
	}
	walk(fn, nil, depth, map[string]bool{fn.name: true})
	return out
}

// rootsAt: roots of expression e written inside cs.in, expressed in terms of the OUTERMOST function (the one `reach`
// started from): roots that are parameters of an inner helper are mapped to the arguments at the call that entered it.
func (fl *flow) rootsAt(cs callSite, e ast.Expr) map[string]bool {
	cur := fl.roots(cs.in, e, e.Pos(), 0)
	for i := len(cs.chain) - 1; i >= 0; i-- {
		h := cs.chain[i]
		next := map[string]bool{}
		for r := range cur {
			mapped := false
			for pi, pn := range h.to.params {
				if pn == r && pi < len(h.call.Args) {
					addRoot(next, fl.roots(h.in, h.call.Args[pi], h.call.Pos(), 0))
					mapped = true
				}
			}
			if !mapped && h.to.recv != nil {
				for _, f := range h.to.recv.List {
					for _, nm := range f.Names {
						if nm.Name == r {
							if se, ok := h.call.Fun.(*ast.SelectorExpr); ok {
								addRoot(next, fl.roots(h.in, se.X, h.call.Pos(), 0))
								mapped = true
							}
						}
					}
				}
			}
			if !mapped {
				next[r] = true
			}
		}
		cur = next
	}
	return cur
}

// bodiesFrom: the statements `stmts` plus the bodies of the same-package helpers called from them (transitively, at
// most depth levels) — for facts of the form "does this piece of code, wherever its parts were moved to, contain …".
func (fl *flow) bodiesFrom(stmts []ast.Stmt, depth int) []ast.Node {
	var out []ast.Node
	seen := map[string]bool{}
	var walk func(n ast.Node, d int)
	walk = func(n ast.Node, d int) {
		out = append(out, n)
		if d == 0 {
			return
		}
		ast.Inspect(n, func(x ast.Node) bool {
			if c, ok := x.(*ast.CallExpr); ok {
				if h := fl.helper(c); h != nil && !seen[h.name] {
					seen[h.name] = true
					walk(h.body, d-1)
				}
			}
			return true
		})
	}
	for _, s := range stmts {
		walk(s, depth)
	}
	return out
}
