package main

import (
	"fmt"
	"go/ast"
	"go/constant"
	"go/token"
	"go/types"
	"sort"
	"strings"
)

// H3: constants of package http3 (error codes, frame/setting ids, writer thresholds) and the
// dispatch table of frameParser.ParseNext (which frame type literal leads to which outcome).
func init() {
	register("H3", func(c *Ctx, w *LeanFile) error {
		p, err := c.Load("http3")
		if err != nil {
			return err
		}
		c.EmitAllIntConsts(w, p, map[string]bool{"error_codes.go": true, "frames.go": true, "response_writer.go": true, "conn.go": true, "request_writer.go": true, "server.go": true})
		fd := p.FuncDecl("frameParser", "ParseNext")
		if fd == nil {
			return fmt.Errorf("http3: frameParser.ParseNext not found")
		}
		// find `switch t { ... }` inside the for loop
		var sw *ast.SwitchStmt
		ast.Inspect(fd.Body, func(n ast.Node) bool {
			if s, ok := n.(*ast.SwitchStmt); ok && sw == nil {
				if id, ok := s.Tag.(*ast.Ident); ok && id.Name == "t" {
					sw = s
				}
			}
			return true
		})
		if sw == nil {
			return fmt.Errorf("http3: ParseNext: `switch t` not found")
		}
		type row struct {
			v    string
			kind string
		}
		var rows []row
		hasDefaultSkip := false
		for _, st := range sw.Body.List {
			cc := st.(*ast.CaseClause)
			kind := classifyParseCase(cc)
			if cc.List == nil {
				hasDefaultSkip = kind == "skip"
				continue
			}
			for _, e := range cc.List {
				tv, ok := p.Info.Types[e]
				if !ok || tv.Value == nil {
					return fmt.Errorf("http3: ParseNext: non-constant case label")
				}
				rows = append(rows, row{constant.ToInt(tv.Value).ExactString(), kind})
			}
		}
		sort.Slice(rows, func(i, j int) bool {
			if len(rows[i].v) != len(rows[j].v) {
				return len(rows[i].v) < len(rows[j].v)
			}
			return rows[i].v < rows[j].v
		})
		w.P("/-- %s `frameParser.ParseNext`: frame type literal ↦ outcome (data | headers | settings | goaway | reserved | skip) -/", c.pos(fd.Pos()))
		var sb strings.Builder
		for i, r := range rows {
			if i > 0 {
				sb.WriteString(", ")
			}
			fmt.Fprintf(&sb, "(%s, %q)", r.v, r.kind)
		}
		w.P("def parseNextCases : List (Nat × String) := [%s]", sb.String())
		w.P("/-- the `default:` clause of that switch falls through to the payload skip -/")
		w.P("def parseNextDefaultSkips : Bool := %v", hasDefaultSkip)
		// the error code handed to closeConn in the reserved case
		code := ""
		for _, st := range sw.Body.List {
			cc := st.(*ast.CaseClause)
			if classifyParseCase(cc) != "reserved" {
				continue
			}
			ast.Inspect(cc, func(n ast.Node) bool {
				ce, ok := n.(*ast.CallExpr)
				if !ok {
					return true
				}
				if se, ok := ce.Fun.(*ast.SelectorExpr); ok && se.Sel.Name == "closeConn" && len(ce.Args) > 0 {
					ast.Inspect(ce.Args[0], func(m ast.Node) bool {
						if id, ok := m.(*ast.Ident); ok && strings.HasPrefix(id.Name, "ErrCode") {
							code = id.Name
						}
						return true
					})
				}
				return true
			})
		}
		if code == "" {
			w.P("/-- no reserved case with a closeConn call was found -/")
			w.P("def reservedCloseCode : Int := (-1)")
		} else {
			w.P("/-- error code passed to closeConn for a reserved frame type -/")
			w.P("def reservedCloseCode : Int := %s", leanIdent(code))
		}
		// literal bound of parseSettingsFrame: `if l > 8*(1<<10)`
		if sf := p.FuncDecl("", "parseSettingsFrame"); sf != nil {
			bound := ""
			ast.Inspect(sf.Body, func(n ast.Node) bool {
				if is, ok := n.(*ast.IfStmt); ok && bound == "" {
					if be, ok := is.Cond.(*ast.BinaryExpr); ok && be.Op == token.GTR {
						if id, ok := be.X.(*ast.Ident); ok && id.Name == "l" {
							if tv, ok := p.Info.Types[be.Y]; ok && tv.Value != nil {
								bound = constant.ToInt(tv.Value).ExactString()
							}
						}
					}
				}
				return true
			})
			if bound == "" {
				return fmt.Errorf("http3: parseSettingsFrame size bound not found")
			}
			w.P("/-- %s `parseSettingsFrame`: largest accepted SETTINGS payload -/", c.pos(sf.Pos()))
			w.P("def maxSettingsPayload : Int := %s", bound)
		} else {
			return fmt.Errorf("http3: parseSettingsFrame not found")
		}
		_ = types.Typ
		return emitUniCases(c, w, p)
	})
}

// emitUniCases: the per-type bookkeeping of rawConn.handleUnidirectionalStream — for every stream
// type literal: which atomic flag its first-stream check uses ("" = none) and the connection close
// code for a server / for a client (-1 = the connection is not closed); plus the code the default
// clause cancels the stream with.
func emitUniCases(c *Ctx, w *LeanFile, p *Pkg) error {
	fd := p.FuncDecl("rawConn", "handleUnidirectionalStream")
	if fd == nil {
		return fmt.Errorf("http3: rawConn.handleUnidirectionalStream not found")
	}
	var sw *ast.SwitchStmt
	var after []ast.Stmt
	for i, st := range fd.Body.List {
		if s, ok := st.(*ast.SwitchStmt); ok {
			if id, ok := s.Tag.(*ast.Ident); ok && id.Name == "streamType" {
				sw = s
				after = fd.Body.List[i+1:]
			}
		}
	}
	if sw == nil {
		return fmt.Errorf("http3: handleUnidirectionalStream: `switch streamType` not found")
	}
	codeOf := func(n ast.Node) string { // first ErrCode… identifier below n
		code := ""
		ast.Inspect(n, func(m ast.Node) bool {
			if id, ok := m.(*ast.Ident); ok && code == "" && strings.HasPrefix(id.Name, "ErrCode") {
				code = id.Name
			}
			return true
		})
		return code
	}
	// flagAndCode: `if isFirst := c.<flag>.CompareAndSwap(false, true); !isFirst { close(code) }`
	flagAndCode := func(stmts []ast.Stmt) (flag, code string) {
		for _, st := range stmts {
			is, ok := st.(*ast.IfStmt)
			if !ok || is.Init == nil {
				continue
			}
			ast.Inspect(is.Init, func(m ast.Node) bool {
				if ce, ok := m.(*ast.CallExpr); ok {
					if se, ok := ce.Fun.(*ast.SelectorExpr); ok && se.Sel.Name == "CompareAndSwap" {
						if fe, ok := se.X.(*ast.SelectorExpr); ok {
							flag = fe.Sel.Name
						}
					}
				}
				return true
			})
			if flag != "" {
				code = codeOf(is.Body)
				return
			}
		}
		return
	}
	leanCode := func(id string) string {
		if id == "" {
			return "(-1)"
		}
		return leanIdent(id)
	}
	type row struct{ v, flag, cs, cc string }
	var rows []row
	defCancel := ""
	for _, st := range sw.Body.List {
		cc := st.(*ast.CaseClause)
		if cc.List == nil {
			ast.Inspect(cc, func(m ast.Node) bool {
				if ce, ok := m.(*ast.CallExpr); ok {
					if se, ok := ce.Fun.(*ast.SelectorExpr); ok && se.Sel.Name == "CancelRead" {
						defCancel = codeOf(ce)
					}
				}
				return true
			})
			continue
		}
		flag, code := flagAndCode(cc.Body)
		cs, ccl := code, code
		falls := true // an empty clause (no return) continues after the switch
		for _, b := range cc.Body {
			if _, ok := b.(*ast.ReturnStmt); ok {
				falls = false
			}
			if is, ok := b.(*ast.IfStmt); ok && is.Init == nil {
				if id, ok := is.Cond.(*ast.Ident); ok && id.Name == "isServer" {
					cs = codeOf(is.Body)
					if is.Else != nil {
						ccl = codeOf(is.Else)
					}
					falls = false
				}
			}
		}
		if falls && flag == "" {
			flag, code = flagAndCode(after)
			cs, ccl = code, code
		}
		for _, e := range cc.List {
			tv, ok := p.Info.Types[e]
			if !ok || tv.Value == nil {
				return fmt.Errorf("http3: handleUnidirectionalStream: non-constant case label")
			}
			rows = append(rows, row{constant.ToInt(tv.Value).ExactString(), flag, leanCode(cs), leanCode(ccl)})
		}
	}
	sort.Slice(rows, func(i, j int) bool { return rows[i].v < rows[j].v })
	w.P("/-- %s `rawConn.handleUnidirectionalStream`: stream type ↦ (first-stream flag or \"\", close code as server, as client) -/", c.pos(fd.Pos()))
	var sb strings.Builder
	for i, r := range rows {
		if i > 0 {
			sb.WriteString(", ")
		}
		fmt.Fprintf(&sb, "(%s, %q, %s, %s)", r.v, r.flag, r.cs, r.cc)
	}
	w.P("def uniStreamCases : List (Nat × String × Int × Int) := [%s]", sb.String())
	w.P("/-- the default clause cancels reading of the stream with this code -/")
	w.P("def uniStreamDefaultCancel : Int := %s", leanCode(defCancel))
	return nil
}

// classifyParseCase names the outcome of one case clause of ParseNext's switch.
func classifyParseCase(cc *ast.CaseClause) string {
	kind := "skip"
	ast.Inspect(cc, func(n ast.Node) bool {
		switch x := n.(type) {
		case *ast.ReturnStmt:
			if len(x.Results) == 0 {
				return true
			}
			switch r := x.Results[0].(type) {
			case *ast.UnaryExpr:
				if cl, ok := r.X.(*ast.CompositeLit); ok {
					if id, ok := cl.Type.(*ast.Ident); ok {
						switch id.Name {
						case "dataFrame":
							kind = "data"
						case "headersFrame":
							kind = "headers"
						}
					}
				}
			case *ast.CallExpr:
				if id, ok := r.Fun.(*ast.Ident); ok {
					switch id.Name {
					case "parseSettingsFrame":
						kind = "settings"
					case "parseGoAwayFrame":
						kind = "goaway"
					}
				}
			case *ast.Ident:
				if r.Name == "nil" && len(x.Results) == 2 {
					kind = "reserved" // `return nil, <error>`: the frame type is rejected
				}
			}
		}
		return true
	})
	return kind
}
