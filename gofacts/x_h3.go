package main

import (
	"fmt"
	"go/ast"
	"go/constant"
	"go/token"
	"go/types"
	"sort"
	"strings"
)

// H3: constants of package http3 (error codes, frame/setting ids, writer thresholds) and the
// dispatch table of frameParser.ParseNext (which frame type literal leads to which outcome).
func init() {
	register("H3", func(c *Ctx, w *LeanFile) error {
		p, err := c.Load("http3")
		if err != nil {
			return err
		}
		c.EmitAllIntConsts(w, p, map[string]bool{"error_codes.go": true, "frames.go": true, "response_writer.go": true, "conn.go": true, "request_writer.go": true, "server.go": true})
		fd := p.FuncDecl("frameParser", "ParseNext")
		if fd == nil {
			return fmt.Errorf("http3: frameParser.ParseNext not found")
		}
		// find `switch t { ... }` inside the for loop
		var sw *ast.SwitchStmt
		ast.Inspect(fd.Body, func(n ast.Node) bool {
			if s, ok := n.(*ast.SwitchStmt); ok && sw == nil {
				if id, ok := s.Tag.(*ast.Ident); ok && id.Name == "t" {
					sw = s
				}
			}
			return true
		})
		if sw == nil {
			return fmt.Errorf("http3: ParseNext: `switch t` not found")
		}
		type row struct {
			v    string
			kind string
		}
		var rows []row
		hasDefaultSkip := false
		for _, st := range sw.Body.List {
			cc := st.(*ast.CaseClause)
			kind := classifyParseCase(cc)
			if cc.List == nil {
				hasDefaultSkip = kind == "skip"
				continue
			}
			for _, e := range cc.List {
				tv, ok := p.Info.Types[e]
				if !ok || tv.Value == nil {
					return fmt.Errorf("http3: ParseNext: non-constant case label")
				}
				rows = append(rows, row{constant.ToInt(tv.Value).ExactString(), kind})
			}
		}
		sort.Slice(rows, func(i, j int) bool {
			if len(rows[i].v) != len(rows[j].v) {
				return len(rows[i].v) < len(rows[j].v)
			}
			return rows[i].v < rows[j].v
		})
		w.P("/-- %s `frameParser.ParseNext`: frame type literal ↦ outcome (data | headers | settings | goaway | reserved | skip) -/", c.pos(fd.Pos()))
		var sb strings.Builder
		for i, r := range rows {
			if i > 0 {
				sb.WriteString(", ")
			}
			fmt.Fprintf(&sb, "(%s, %q)", r.v, r.kind)
		}
		w.P("def parseNextCases : List (Nat × String) := [%s]", sb.String())
		w.P("/-- the `default:` clause of that switch falls through to the payload skip -/")
		w.P("def parseNextDefaultSkips : Bool := %v", hasDefaultSkip)
		// the error code handed to closeConn in the reserved case
		code := ""
		for _, st := range sw.Body.List {
			cc := st.(*ast.CaseClause)
			if classifyParseCase(cc) != "reserved" {
				continue
			}
			ast.Inspect(cc, func(n ast.Node) bool {
				ce, ok := n.(*ast.CallExpr)
				if !ok {
					return true
				}
				if se, ok := ce.Fun.(*ast.SelectorExpr); ok && se.Sel.Name == "closeConn" && len(ce.Args) > 0 {
					ast.Inspect(ce.Args[0], func(m ast.Node) bool {
						if id, ok := m.(*ast.Ident); ok && strings.HasPrefix(id.Name, "ErrCode") {
							code = id.Name
						}
						return true
					})
				}
				return true
			})
		}
		if code == "" {
			w.P("/-- no reserved case with a closeConn call was found -/")
			w.P("def reservedCloseCode : Int := (-1)")
		} else {
			w.P("/-- error code passed to closeConn for a reserved frame type -/")
			w.P("def reservedCloseCode : Int := %s", leanIdent(code))
		}
		// literal bound of parseSettingsFrame: `if l > 8*(1<<10)`
		if sf := p.FuncDecl("", "parseSettingsFrame"); sf != nil {
			bound := ""
			ast.Inspect(sf.Body, func(n ast.Node) bool {
				if is, ok := n.(*ast.IfStmt); ok && bound == "" {
					if be, ok := is.Cond.(*ast.BinaryExpr); ok && be.Op == token.GTR {
						if id, ok := be.X.(*ast.Ident); ok && id.Name == "l" {
							if tv, ok := p.Info.Types[be.Y]; ok && tv.Value != nil {
								bound = constant.ToInt(tv.Value).ExactString()
							}
						}
					}
				}
				return true
			})
			if bound == "" {
				return fmt.Errorf("http3: parseSettingsFrame size bound not found")
			}
			w.P("/-- %s `parseSettingsFrame`: largest accepted SETTINGS payload -/", c.pos(sf.Pos()))
			w.P("def maxSettingsPayload : Int := %s", bound)
		} else {
			return fmt.Errorf("http3: parseSettingsFrame not found")
		}
		_ = types.Typ
		return emitUniCases(c, w, p)
	})
}

// emitUniCases: the per-type bookkeeping of rawConn.handleUnidirectionalStream — for every stream
// type literal: which atomic flag its first-stream check uses ("" = none) and the connection close
// code for a server / for a client (-1 = the connection is not closed); plus the code the default
// clause cancels the stream with.
func emitUniCases(c *Ctx, w *LeanFile, p *Pkg) error {
	fd := p.FuncDecl("rawConn", "handleUnidirectionalStream")
	if fd == nil {
		return fmt.Errorf("http3: rawConn.handleUnidirectionalStream not found")
	}
	var sw *ast.SwitchStmt
	var after []ast.Stmt
	for i, st := range fd.Body.List {
		if s, ok := st.(*ast.SwitchStmt); ok {
			if id, ok := s.Tag.(*ast.Ident); ok && id.Name == "streamType" {
				sw = s
				after = fd.Body.List[i+1:]
			}
		}
	}
	if sw == nil {
		return fmt.Errorf("http3: handleUnidirectionalStream: `switch streamType` not found")
	}
	// The bookkeeping of one stream type is read off a SYMBOLIC EXECUTION of its case clause (symwalk.go), once with the
	// bool parameter (isServer) fixed to true and once to false: same-package helpers are followed with their parameters
	// bound to the arguments, decided conditions select their branch (so `if isServer {A} else {B}`, the flipped form
	// and an early return are the same), a clause that does not return on every path continues after the switch.
	//   flag: the field whose CompareAndSwap is called first ("" if none)
	//   code: the ErrCode… constant in the first argument of the first CloseWithError call reached ("" if none)
	boolParam := ""
	if fd.Type.Params != nil {
		for _, f := range fd.Type.Params.List {
			if id, ok := f.Type.(*ast.Ident); ok && id.Name == "bool" {
				for _, n := range f.Names {
					if boolParam != "" {
						return fmt.Errorf("http3: handleUnidirectionalStream: more than one bool parameter")
					}
					boolParam = n.Name
				}
			}
		}
	}
	if boolParam == "" {
		return fmt.Errorf("http3: handleUnidirectionalStream: no bool parameter (isServer)")
	}
	errCodeConst := func(n ast.Node) string { // first identifier below n that is a package-level constant named ErrCode…
		code := ""
		ast.Inspect(n, func(m ast.Node) bool {
			if id, ok := m.(*ast.Ident); ok && code == "" && strings.HasPrefix(id.Name, "ErrCode") && id.Name != "ErrCode" {
				if _, ok := p.Types.Scope().Lookup(id.Name).(*types.Const); ok {
					code = id.Name
				}
			}
			return true
		})
		return code
	}
	fieldOf := func(e ast.Expr) string { // c.f, &c.f, (*x).f → "f"
		for {
			switch x := e.(type) {
			case *ast.ParenExpr:
				e = x.X
				continue
			case *ast.UnaryExpr:
				e = x.X
				continue
			case *ast.StarExpr:
				e = x.X
				continue
			case *ast.SelectorExpr:
				return x.Sel.Name
			}
			return ""
		}
	}
	fl := newFlow(p)
	type outcome struct {
		flag, closeCode, cancelCode     string
		flagSeen, closeSeen, cancelSeen bool
	}
	run := func(stmts []ast.Stmt, rest []ast.Stmt, isServer bool) outcome {
		var o outcome
		sw := &symWalker{helper: fl.helper, maxDepth: 4}
		sw.onCall = func(_, r *ast.CallExpr, _ int) bool {
			se, ok := r.Fun.(*ast.SelectorExpr)
			if !ok {
				return true
			}
			switch se.Sel.Name {
			case "CompareAndSwap":
				if !o.flagSeen {
					o.flagSeen, o.flag = true, fieldOf(se.X)
				}
			case "CloseWithError":
				if !o.closeSeen && len(r.Args) > 0 {
					o.closeSeen, o.closeCode = true, errCodeConst(r.Args[0])
				}
				return false
			case "CancelRead":
				if !o.cancelSeen && len(r.Args) > 0 {
					o.cancelSeen, o.cancelCode = true, errCodeConst(r.Args[0])
				}
				return false
			}
			return true
		}
		v := "false"
		if isServer {
			v = "true"
		}
		env := symEnv{boolParam: ast.NewIdent(v)}
		if !sw.walk(stmts, env, 0) {
			// the clause continues after the switch: the bookkeeping ends with the statement that does the first-stream
			// check (what follows — reading the control stream — is not part of this fact)
			for _, st := range rest {
				if o.flagSeen || sw.walk([]ast.Stmt{st}, env, 0) {
					break
				}
			}
		}
		return o
	}
	leanCode := func(id string) string {
		if id == "" {
			return "(-1)"
		}
		return leanIdent(id)
	}
	type row struct{ v, flag, cs, cc string }
	var rows []row
	defCancel := ""
	for _, st := range sw.Body.List {
		cc := st.(*ast.CaseClause)
		srv, cli := run(cc.Body, after, true), run(cc.Body, after, false)
		if cc.List == nil {
			if srv.cancelCode != cli.cancelCode {
				return fmt.Errorf("http3: handleUnidirectionalStream: the default clause cancels with different codes for server and client")
			}
			defCancel = srv.cancelCode
			continue
		}
		if srv.flag != cli.flag {
			return fmt.Errorf("http3: handleUnidirectionalStream: a stream type uses different first-stream flags for server and client")
		}
		for _, e := range cc.List {
			tv, ok := p.Info.Types[e]
			if !ok || tv.Value == nil {
				return fmt.Errorf("http3: handleUnidirectionalStream: non-constant case label")
			}
			rows = append(rows, row{constant.ToInt(tv.Value).ExactString(), srv.flag, leanCode(srv.closeCode), leanCode(cli.closeCode)})
		}
	}
	sort.Slice(rows, func(i, j int) bool { return rows[i].v < rows[j].v })
	w.P("/-- %s `rawConn.handleUnidirectionalStream`: stream type ↦ (first-stream flag or \"\", close code as server, as client) -/", c.pos(fd.Pos()))
	var sb strings.Builder
	for i, r := range rows {
		if i > 0 {
			sb.WriteString(", ")
		}
		fmt.Fprintf(&sb, "(%s, %q, %s, %s)", r.v, r.flag, r.cs, r.cc)
	}
	w.P("def uniStreamCases : List (Nat × String × Int × Int) := [%s]", sb.String())
	w.P("/-- the default clause cancels reading of the stream with this code -/")
	w.P("def uniStreamDefaultCancel : Int := %s", leanCode(defCancel))
	return nil
}

// classifyParseCase names the outcome of one case clause of ParseNext's switch.
func classifyParseCase(cc *ast.CaseClause) string {
	kind := "skip"
	ast.Inspect(cc, func(n ast.Node) bool {
		switch x := n.(type) {
		case *ast.ReturnStmt:
			if len(x.Results) == 0 {
				return true
			}
			switch r := x.Results[0].(type) {
			case *ast.UnaryExpr:
				if cl, ok := r.X.(*ast.CompositeLit); ok {
					if id, ok := cl.Type.(*ast.Ident); ok {
						switch id.Name {
						case "dataFrame":
							kind = "data"
						case "headersFrame":
							kind = "headers"
						}
					}
				}
			case *ast.CallExpr:
				if id, ok := r.Fun.(*ast.Ident); ok {
					switch id.Name {
					case "parseSettingsFrame":
						kind = "settings"
					case "parseGoAwayFrame":
						kind = "goaway"
					}
				}
			case *ast.Ident:
				if r.Name == "nil" && len(x.Results) == 2 {
					kind = "reserved" // `return nil, <error>`: the frame type is rejected
				}
			}
		}
		return true
	})
	return kind
}
