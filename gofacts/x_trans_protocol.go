package main

// Translated functions of internal/protocol (packet numbers: C05; stream ids: C15).
func init() {
	registerTrans("Protocol",
		TFunc{Dir: "internal/protocol", Name: "DecodePacketNumber"},
		TFunc{Dir: "internal/protocol", Name: "PacketNumberLengthForHeader"},
	)
	registerTrans("Streams",
		TFunc{Dir: "internal/protocol", Recv: "StreamNum", Name: "StreamID"},
		TFunc{Dir: "internal/protocol", Recv: "StreamID", Name: "InitiatedBy"},
		TFunc{Dir: "internal/protocol", Recv: "StreamID", Name: "Type"},
		TFunc{Dir: "internal/protocol", Recv: "StreamID", Name: "StreamNum"},
	)
	registerTrans("Varint",
		TFunc{Dir: "quicvarint", Name: "Len", Lean: "varintLen"},
	)
}
