// trans.go: a small SOURCE-TO-LEAN translator for the pure integer/boolean functions of /repo.
//
// A Go function or method (package dir + receiver + name) is symbolically executed into a tree of
// nested `if … then … else …` over unbounded `Int` / `Bool` and emitted as a Lean `def` in the area
// module Uquic.Generated.Trans<Area>.  The hand-written model function is then PROVED equal to that
// def (Uquic.Props.Trans<Area>), so the tie between model and source for these functions is a
// theorem re-checked against the current source on every run, not a sampled comparison.
//
// Supported subset (anything else makes THAT function fail loudly, see registerTrans):
//   - params/results of integer, bool or named-integer type; reads of receiver fields / fields of
//     struct-typed params (`c.maxDatagramSize`, `p.pacer.lastSentTime`, `r.minRTT.Load()`) become
//     extra parameters named after the field path; a call of a func-typed field without arguments
//     (`p.adjustedBandwidth()`) and listed opaque methods become parameters as well;
//   - `:=`, `=`, op-assign, `++`/`--`, `var x T`, `if`/`else`, tagged/tagless `switch` without
//     fallthrough, early `return`, named results; optionally writes of receiver fields (the def
//     `<fn>_set_<field>` gives the final value of each written field);
//   - + - * / % (Go's truncated division → Int.tdiv / Int.tmod), comparisons, && || !, shifts,
//     `&`/`&^` with a mask 2^k-1 (→ emod, exact in two's complement for either sign), `|`/`&`/`^`
//     on non-negative operands (obligation recorded), integer conversions (identity + recorded
//     range obligation), min/max builtins, constants through go/types constant.Value;
//   - calls: other functions of the same area → calls of their Lean defs; other functions whose
//     source is in /repo and inside the subset → inlined; time.Duration.Nanoseconds & co.
//   - `panic(...)` and division by a non-constant divisor: the def `<fn>_panics` says for which
//     inputs the Go function panics (the value def is then 0/false).
//
// Overflow honesty: the translation is over unbounded Int.  Next to each def are emitted
//
//	<fn>_ranges : List (String × Int × Int)   the Go type range of every parameter and conversion,
//	<fn>_safe   : Prop   every unsigned subtraction stays ≥ 0, every narrowing / sign-changing
//	                     conversion stays in range, bit-or/and/xor operands are non-negative,
//	                     shift counts are non-negative (each under its path condition).
//
// Other intermediate overflows are NOT recorded; the tie theorems state explicit input ranges.
package main

import (
	"fmt"
	"go/ast"
	"go/constant"
	"go/token"
	"go/types"
	"math/big"
	"path/filepath"
	"sort"
	"strings"
)

// TFunc names one function to translate.
type TFunc struct {
	Dir    string            // repo-relative package dir
	Recv   string            // receiver type name ("" for functions)
	Name   string            // function / method name
	Lean   string            // Lean def name (default Recv_Name / Name)
	Opaque map[string]string // "RecvType.Method" → parameter base name (call becomes an input)
	Ignore []string          // callee names ("x.y.Method" suffix match on the selector text) whose call statements are skipped
	Assume map[string]string // receiver field path → "true"/"false"/integer: the field is this constant (justified elsewhere)
	Writes bool              // allow writes of receiver fields (emit <fn>_set_<field>)
}

func (f TFunc) leanName() string {
	if f.Lean != "" {
		return f.Lean
	}
	if f.Recv != "" {
		return f.Recv + "_" + f.Name
	}
	return f.Name
}

// ---------------------------------------------------------------- expressions

type Ex struct {
	Op   string // lit blit var path + - * tdiv tmod neg shl shr band bor bxor masklow clearlow eq ne lt le gt ge and or not ite call min max
	Bool bool
	Val  *big.Int
	BVal bool
	Name string
	A    []*Ex
	// path
	Root   string // "" = receiver, else the parameter's name
	Fields []string
	GoType types.Type
}

func lit(v *big.Int) *Ex  { return &Ex{Op: "lit", Val: v} }
func litI(v int64) *Ex    { return lit(big.NewInt(v)) }
func blit(b bool) *Ex     { return &Ex{Op: "blit", Bool: true, BVal: b} }
func (e *Ex) isLit() bool { return e.Op == "lit" }

func bin(op string, a, b *Ex) *Ex {
	isBool := false
	switch op {
	case "eq", "ne", "lt", "le", "gt", "ge", "and", "or":
		isBool = true
	}
	// canonical forms, so that harmless rewrites of the source give the same term:
	// `a > b` is `b < a`, `a ≥ b` is `b ≤ a`; sums and products are flattened and their operands sorted;
	// `=`/`≠` have the literal on the right, otherwise sorted operands
	switch op {
	case "gt":
		return bin("lt", b, a)
	case "ge":
		return bin("le", b, a)
	case "+", "*":
		if r := canonAC(op, a, b); r != nil {
			return r
		}
	case "eq", "ne":
		if !a.Bool && !b.Bool {
			if (a.isLit() && !b.isLit()) || (!a.isLit() && !b.isLit() && renderVal(b) < renderVal(a)) {
				a, b = b, a
			}
		}
	}
	// constant folding keeps generated terms independent of where the source wrote a constant expression
	if a.isLit() && b.isLit() {
		x, y := a.Val, b.Val
		switch op {
		case "+":
			return lit(new(big.Int).Add(x, y))
		case "-":
			return lit(new(big.Int).Sub(x, y))
		case "*":
			return lit(new(big.Int).Mul(x, y))
		case "tdiv":
			if y.Sign() != 0 {
				return lit(new(big.Int).Quo(x, y))
			}
		case "tmod":
			if y.Sign() != 0 {
				return lit(new(big.Int).Rem(x, y))
			}
		case "eq":
			return blit(x.Cmp(y) == 0)
		case "ne":
			return blit(x.Cmp(y) != 0)
		case "lt":
			return blit(x.Cmp(y) < 0)
		case "le":
			return blit(x.Cmp(y) <= 0)
		case "gt":
			return blit(x.Cmp(y) > 0)
		case "ge":
			return blit(x.Cmp(y) >= 0)
		case "shl":
			if y.Sign() >= 0 && y.IsInt64() && y.Int64() < 4096 {
				return lit(new(big.Int).Lsh(x, uint(y.Int64())))
			}
		case "shr":
			if y.Sign() >= 0 && y.IsInt64() && y.Int64() < 4096 {
				return lit(new(big.Int).Rsh(x, uint(y.Int64())))
			}
		}
	}
	isK := func(e *Ex, k int64) bool { return e.isLit() && e.Val.IsInt64() && e.Val.Int64() == k }
	switch op {
	case "+":
		if isK(a, 0) {
			return b
		}
		if isK(b, 0) {
			return a
		}
	case "-":
		if isK(b, 0) {
			return a
		}
	case "*":
		if isK(a, 1) {
			return b
		}
		if isK(b, 1) {
			return a
		}
	case "tdiv":
		if isK(b, 1) {
			return a
		}
	case "shl", "shr":
		if isK(b, 0) {
			return a
		}
	}
	if a.Op == "blit" && b.Op == "blit" {
		switch op {
		case "and":
			return blit(a.BVal && b.BVal)
		case "or":
			return blit(a.BVal || b.BVal)
		case "eq":
			return blit(a.BVal == b.BVal)
		case "ne":
			return blit(a.BVal != b.BVal)
		}
	}
	switch op {
	case "and":
		if a.Op == "blit" {
			if a.BVal {
				return b
			}
			return blit(false)
		}
		if b.Op == "blit" && b.BVal {
			return a
		}
	case "or":
		if a.Op == "blit" {
			if a.BVal {
				return blit(true)
			}
			return b
		}
		if b.Op == "blit" && !b.BVal {
			return a
		}
	}
	return &Ex{Op: op, Bool: isBool, A: []*Ex{a, b}}
}

// canonAC flattens nested applications of the associative-commutative op (+ or *), folds the literals and sorts
// the other operands by their rendering; returns nil when there is nothing to reorder.
func canonAC(op string, a, b *Ex) *Ex {
	var terms []*Ex
	var collect func(e *Ex)
	collect = func(e *Ex) {
		if e.Op == op && !e.Bool {
			collect(e.A[0])
			collect(e.A[1])
			return
		}
		terms = append(terms, e)
	}
	collect(a)
	collect(b)
	acc := big.NewInt(0)
	if op == "*" {
		acc = big.NewInt(1)
	}
	var rest []*Ex
	for _, t := range terms {
		if t.isLit() {
			if op == "+" {
				acc = new(big.Int).Add(acc, t.Val)
			} else {
				acc = new(big.Int).Mul(acc, t.Val)
			}
			continue
		}
		rest = append(rest, t)
	}
	sort.SliceStable(rest, func(i, j int) bool { return renderVal(rest[i]) < renderVal(rest[j]) })
	if len(rest) == 0 {
		return lit(acc)
	}
	if op == "*" && acc.Sign() == 0 {
		return litI(0)
	}
	neutral := (op == "+" && acc.Sign() == 0) || (op == "*" && acc.Cmp(big.NewInt(1)) == 0)
	var r *Ex
	if op == "*" && !neutral {
		r = lit(acc) // literal factor first: 3 * x
	}
	for _, t := range rest {
		if r == nil {
			r = t
		} else {
			r = &Ex{Op: op, A: []*Ex{r, t}}
		}
	}
	if op == "+" && !neutral {
		r = &Ex{Op: op, A: []*Ex{r, lit(acc)}} // literal summand last: x + 1
	}
	return r
}

func not(a *Ex) *Ex {
	if a.Op == "blit" {
		return blit(!a.BVal)
	}
	if a.Op == "not" {
		return a.A[0]
	}
	switch a.Op {
	case "eq":
		return &Ex{Op: "ne", Bool: true, A: a.A}
	case "ne":
		return &Ex{Op: "eq", Bool: true, A: a.A}
	case "lt": // ¬(x < y) is y ≤ x
		return &Ex{Op: "le", Bool: true, A: []*Ex{a.A[1], a.A[0]}}
	case "le":
		return &Ex{Op: "lt", Bool: true, A: []*Ex{a.A[1], a.A[0]}}
	}
	return &Ex{Op: "not", Bool: true, A: []*Ex{a}}
}

// flipCond: conditions are oriented canonically (`=` rather than `≠`, no outer `¬`, the smaller rendering on the
// left of `<`/`≤` with literals counting as largest), the branches swapped accordingly — so `if c {A} else {B}` and
// `if !c {B} else {A}` translate to the same term.
func flipCond(c *Ex) bool {
	switch c.Op {
	case "ne", "not":
		return true
	case "lt", "le":
		x, y := c.A[0], c.A[1]
		if x.isLit() != y.isLit() {
			return x.isLit()
		}
		return renderVal(y) < renderVal(x)
	}
	return false
}

func ite(c, a, b *Ex) *Ex {
	if c.Op == "blit" {
		if c.BVal {
			return a
		}
		return b
	}
	if exEqual(a, b) {
		return a
	}
	if a.Op == "blit" && b.Op == "blit" { // (if c then true else false) is c
		if a.BVal {
			return c
		}
		return not(c)
	}
	if flipCond(c) {
		c, a, b = not(c), b, a
	}
	return &Ex{Op: "ite", Bool: a.Bool, A: []*Ex{c, a, b}}
}

func andAll(cs []*Ex) *Ex {
	r := blit(true)
	for _, c := range cs {
		r = bin("and", r, c)
	}
	return r
}

func exEqual(a, b *Ex) bool { return a == b || renderVal(a) == renderVal(b) }

// ---------------------------------------------------------------- rendering

var leanReserved = map[string]bool{}

func init() {
	for _, k := range strings.Fields("end from at have show then if else do let fun in with match open by type local prefix instance class structure def theorem where universe variable namespace section import mutual deriving extends macro syntax notation infix for unless return try catch finally min max decide not true false id abs") {
		leanReserved[k] = true
	}
}

func leanVar(n string) string {
	if leanReserved[n] {
		return n + "_v"
	}
	return n
}

func renderInt(v *big.Int) string {
	if v.Sign() < 0 {
		return "(" + v.String() + ")"
	}
	return v.String()
}

// renderVal renders an expression as a Lean term of type Int or Bool.
func renderVal(e *Ex) string {
	if e.Bool {
		switch e.Op {
		case "blit":
			if e.BVal {
				return "true"
			}
			return "false"
		case "var":
			return e.Name
		case "and":
			return "(" + renderVal(e.A[0]) + " && " + renderVal(e.A[1]) + ")"
		case "or":
			return "(" + renderVal(e.A[0]) + " || " + renderVal(e.A[1]) + ")"
		case "not":
			return "(!" + renderVal(e.A[0]) + ")"
		case "ite":
			return "(if " + renderProp(e.A[0]) + " then " + renderVal(e.A[1]) + " else " + renderVal(e.A[2]) + ")"
		case "call":
			return renderCall(e)
		default:
			return "(decide (" + renderProp(e) + "))"
		}
	}
	switch e.Op {
	case "lit":
		return renderInt(e.Val)
	case "var":
		return e.Name
	case "+", "-", "*":
		return "(" + renderVal(e.A[0]) + " " + e.Op + " " + renderVal(e.A[1]) + ")"
	case "tdiv":
		return "(Int.tdiv " + renderVal(e.A[0]) + " " + renderVal(e.A[1]) + ")"
	case "tmod":
		return "(Int.tmod " + renderVal(e.A[0]) + " " + renderVal(e.A[1]) + ")"
	case "neg":
		return "(-" + renderVal(e.A[0]) + ")"
	case "shl", "shr", "band", "bor", "bxor", "masklow", "clearlow":
		return "(Uquic.Trans." + e.Op + " " + renderVal(e.A[0]) + " " + renderVal(e.A[1]) + ")"
	case "min", "max":
		return "(" + e.Op + " " + renderArg(e.A[0]) + " " + renderArg(e.A[1]) + ")"
	case "ite":
		return "(if " + renderProp(e.A[0]) + " then " + renderArg(e.A[1]) + " else " + renderArg(e.A[2]) + ")"
	case "call":
		return renderCall(e)
	case "path":
		return "«unresolved path " + e.Root + "." + strings.Join(e.Fields, ".") + "»"
	}
	return "«?" + e.Op + "»"
}

// renderArg: a literal in a position where Lean has no expected type yet gets an ascription.
func renderArg(e *Ex) string {
	if e.Op == "lit" {
		return "(" + e.Val.String() + " : Int)"
	}
	return renderVal(e)
}

func renderCall(e *Ex) string {
	s := "(" + e.Name
	for _, a := range e.A {
		s += " " + renderArg(a)
	}
	return s + ")"
}

var relSym = map[string]string{"eq": "=", "ne": "≠", "lt": "<", "le": "≤", "gt": ">", "ge": "≥"}

// renderProp renders a boolean expression as a decidable Lean proposition.
func renderProp(e *Ex) string {
	switch e.Op {
	case "blit":
		if e.BVal {
			return "True"
		}
		return "False"
	case "var", "call":
		return "(" + renderVal(e) + " = true)"
	case "and":
		return "(" + renderProp(e.A[0]) + " ∧ " + renderProp(e.A[1]) + ")"
	case "or":
		return "(" + renderProp(e.A[0]) + " ∨ " + renderProp(e.A[1]) + ")"
	case "not":
		return "(¬ " + renderProp(e.A[0]) + ")"
	case "ite":
		return "(if " + renderProp(e.A[0]) + " then " + renderProp(e.A[1]) + " else " + renderProp(e.A[2]) + ")"
	case "eq", "ne", "lt", "le", "gt", "ge":
		if e.A[0].Bool {
			return "(" + renderVal(e.A[0]) + " " + relSym[e.Op] + " " + renderVal(e.A[1]) + ")"
		}
		return "(" + renderArg(e.A[0]) + " " + relSym[e.Op] + " " + renderVal(e.A[1]) + ")"
	}
	return "«?prop " + e.Op + "»"
}

// ---------------------------------------------------------------- trees (control flow)

type Tree interface{}
type TFall struct{ st *tstate }
type TRet struct {
	vals []*Ex
	st   *tstate
}
type TPanic struct{}
type TIf struct {
	c    *Ex
	a, b Tree
}

type tstate struct {
	env   map[types.Object]*Ex
	store map[string]*Ex // written receiver field paths (joined by _) → value
}

func (s *tstate) clone() *tstate {
	n := &tstate{env: make(map[types.Object]*Ex, len(s.env)), store: make(map[string]*Ex, len(s.store))}
	for k, v := range s.env {
		n.env[k] = v
	}
	for k, v := range s.store {
		n.store[k] = v
	}
	return n
}

type terr struct{ msg string }

func (t *trans) failf(pos token.Pos, format string, args ...any) {
	where := ""
	if pos.IsValid() {
		pp := t.c.Fset.Position(pos)
		rel, err := filepath.Rel(t.c.Repo, pp.Filename)
		if err != nil {
			rel = pp.Filename
		}
		where = fmt.Sprintf(" (%s:%d)", rel, pp.Line)
	}
	panic(terr{fmt.Sprintf(format, args...) + where})
}

// ---------------------------------------------------------------- the translator proper

type tparam struct {
	name   string
	isBool bool
	lo, hi *big.Int // nil for bool
	goType string
	// origin: declared parameter (idx ≥ 0; -1 = receiver value) or a field path
	declIdx int
	root    string
	fields  []string
	opaque  string // non-empty: opaque call key
}

type rangeEntry struct {
	what   string
	lo, hi *big.Int
}

type frame struct {
	pkg  *Pkg
	recv types.Object // receiver object of the function being executed (nil for functions)
}

type trans struct {
	c      *Ctx
	area   *transArea
	spec   TFunc
	params []*tparam
	pidx   map[string]*tparam
	ranges []rangeEntry
	safe   []string
	safeOb map[string]bool
	guards []*Ex // pending panic guards of the statement being translated
	gctx   []*Ex // short-circuit context of the expression being translated
	pc     []*Ex // path condition
	fr     *frame
	depth  int
	// results
	resBool []bool
}

type transArea struct {
	name    string
	funcs   []TFunc
	imports map[string]bool // other areas whose defs are called
}

type tresult struct {
	area     string
	spec     TFunc
	params   []*tparam
	resBool  []bool
	hasPanic bool
}

func (r *tresult) qualified() string { return "Uquic.Gen.Trans" + r.area + "." + r.spec.leanName() }

func tkey(dir, recv, name string) string { return dir + "|" + recv + "|" + name }

func intRange(t types.Type) (lo, hi *big.Int, isBool, ok bool) {
	b, isBasic := t.Underlying().(*types.Basic)
	if !isBasic {
		return nil, nil, false, false
	}
	pow := func(n uint) *big.Int { return new(big.Int).Lsh(big.NewInt(1), n) }
	signed := func(n uint) (*big.Int, *big.Int) {
		return new(big.Int).Neg(pow(n - 1)), new(big.Int).Sub(pow(n-1), big.NewInt(1))
	}
	unsigned := func(n uint) (*big.Int, *big.Int) { return big.NewInt(0), new(big.Int).Sub(pow(n), big.NewInt(1)) }
	switch b.Kind() {
	case types.Bool, types.UntypedBool:
		return nil, nil, true, true
	case types.Int8:
		lo, hi = signed(8)
	case types.Int16:
		lo, hi = signed(16)
	case types.Int32:
		lo, hi = signed(32)
	case types.Int64, types.Int:
		lo, hi = signed(64)
	case types.Uint8:
		lo, hi = unsigned(8)
	case types.Uint16:
		lo, hi = unsigned(16)
	case types.Uint32:
		lo, hi = unsigned(32)
	case types.Uint64, types.Uint, types.Uintptr:
		lo, hi = unsigned(64)
	case types.UntypedInt, types.UntypedRune:
		return nil, nil, false, false
	default:
		return nil, nil, false, false
	}
	return lo, hi, false, true
}

func isUnsigned(t types.Type) bool {
	lo, _, isBool, ok := intRange(t)
	return ok && !isBool && lo.Sign() == 0
}

func typeString(t types.Type) string {
	return types.TypeString(t, func(p *types.Package) string { return p.Name() })
}

func (p *tparam) origin() string {
	return fmt.Sprintf("%d|%s|%s|%s", p.declIdx, p.root, strings.Join(p.fields, "."), p.opaque)
}

func (t *trans) addParam(p *tparam) *Ex {
	for {
		q, ok := t.pidx[p.name]
		if !ok {
			break
		}
		if q.origin() == p.origin() {
			return &Ex{Op: "var", Name: q.name, Bool: q.isBool}
		}
		p.name = "f_" + p.name // a field named like a declared parameter
	}
	t.pidx[p.name] = p
	t.params = append(t.params, p)
	return &Ex{Op: "var", Name: p.name, Bool: p.isBool}
}

func (t *trans) obligation(prop string) {
	ctx := append(append([]*Ex{}, t.pc...), t.gctx...)
	c := andAll(ctx)
	s := prop
	if !(c.Op == "blit" && c.BVal) {
		s = "(" + renderProp(c) + " → " + prop + ")"
	}
	if !t.safeOb[s] {
		t.safeOb[s] = true
		t.safe = append(t.safe, s)
	}
}

func (t *trans) info() *types.Info { return t.fr.pkg.Info }

func (t *trans) typeOf(e ast.Expr) types.Type {
	tv, ok := t.info().Types[e]
	if !ok || tv.Type == nil {
		if id, ok := e.(*ast.Ident); ok {
			if o := t.info().Uses[id]; o != nil {
				return o.Type()
			}
			if o := t.info().Defs[id]; o != nil {
				return o.Type()
			}
		}
		t.failf(e.Pos(), "no type information for expression")
	}
	return tv.Type
}

func (t *trans) exprText(e ast.Expr) string {
	var b strings.Builder
	writeExpr(&b, e)
	return b.String()
}

func writeExpr(b *strings.Builder, e ast.Expr) {
	switch x := e.(type) {
	case *ast.Ident:
		b.WriteString(x.Name)
	case *ast.BasicLit:
		b.WriteString(x.Value)
	case *ast.SelectorExpr:
		writeExpr(b, x.X)
		b.WriteString("." + x.Sel.Name)
	case *ast.ParenExpr:
		b.WriteString("(")
		writeExpr(b, x.X)
		b.WriteString(")")
	case *ast.BinaryExpr:
		writeExpr(b, x.X)
		b.WriteString(x.Op.String())
		writeExpr(b, x.Y)
	case *ast.UnaryExpr:
		b.WriteString(x.Op.String())
		writeExpr(b, x.X)
	case *ast.CallExpr:
		writeExpr(b, x.Fun)
		b.WriteString("(")
		for i, a := range x.Args {
			if i > 0 {
				b.WriteString(",")
			}
			writeExpr(b, a)
		}
		b.WriteString(")")
	case *ast.StarExpr:
		b.WriteString("*")
		writeExpr(b, x.X)
	default:
		b.WriteString("…")
	}
}

// constant: an expression go/types evaluated
func (t *trans) constEx(e ast.Expr) (*Ex, bool) {
	tv, ok := t.info().Types[e]
	if !ok || tv.Value == nil {
		return nil, false
	}
	switch tv.Value.Kind() {
	case constant.Bool:
		return blit(constant.BoolVal(tv.Value)), true
	case constant.Int, constant.Float:
		if b, isB := tv.Type.Underlying().(*types.Basic); isB && b.Info()&types.IsFloat != 0 && b.Kind() != types.UntypedFloat {
			t.failf(e.Pos(), "floating-point constant of type %s", typeString(tv.Type))
		}
		iv := constant.ToInt(tv.Value)
		if iv.Kind() != constant.Int {
			t.failf(e.Pos(), "non-integer constant %s", tv.Value)
		}
		v, ok := new(big.Int).SetString(iv.ExactString(), 10)
		if !ok {
			t.failf(e.Pos(), "cannot read constant %s", iv.ExactString())
		}
		return lit(v), true
	}
	return nil, false
}

// pathParam turns a read of an integer/bool field path into a parameter.
func (t *trans) pathParam(p *Ex, ty types.Type, pos token.Pos) *Ex {
	lo, hi, isBool, ok := intRange(ty)
	if !ok {
		t.failf(pos, "field %s has unsupported type %s", strings.Join(p.Fields, "."), typeString(ty))
	}
	key := strings.Join(p.Fields, ".")
	if p.Root == "" {
		if v, ok := t.spec.Assume[key]; ok {
			switch v {
			case "true":
				return blit(true)
			case "false":
				return blit(false)
			}
			n, ok := new(big.Int).SetString(v, 10)
			if !ok {
				t.failf(pos, "bad Assume value %q", v)
			}
			return lit(n)
		}
	}
	name := strings.Join(p.Fields, "_")
	if p.Root != "" {
		name = p.Root + "_" + name
	}
	name = leanVar(name)
	return t.addParam(&tparam{name: name, isBool: isBool, lo: lo, hi: hi, goType: typeString(ty), declIdx: -2, root: p.Root, fields: append([]string{}, p.Fields...)})
}

func (t *trans) storeKey(p *Ex) string {
	name := strings.Join(p.Fields, "_")
	if p.Root != "" {
		name = p.Root + "_" + name
	}
	return name
}

// readPath: value of an integer/bool field path, honouring earlier writes in this execution.
func (t *trans) readPath(st *tstate, p *Ex, ty types.Type, pos token.Pos) *Ex {
	if v, ok := st.store[t.storeKey(p)]; ok {
		return v
	}
	return t.pathParam(p, ty, pos)
}

func isStructish(ty types.Type) bool {
	u := ty.Underlying()
	if p, ok := u.(*types.Pointer); ok {
		u = p.Elem().Underlying()
	}
	_, ok := u.(*types.Struct)
	return ok
}

func (t *trans) expr(st *tstate, e ast.Expr) *Ex {
	if c, ok := t.constEx(e); ok {
		return c
	}
	switch x := e.(type) {
	case *ast.ParenExpr:
		return t.expr(st, x.X)
	case *ast.Ident:
		obj := t.info().Uses[x]
		if obj == nil {
			obj = t.info().Defs[x]
		}
		if obj == nil {
			t.failf(x.Pos(), "unresolved identifier %s", x.Name)
		}
		if v, ok := st.env[obj]; ok {
			return v
		}
		t.failf(x.Pos(), "read of %s, which is not a parameter, local or constant (package-level variable?)", x.Name)
	case *ast.StarExpr:
		v := t.expr(st, x.X)
		if v.Op == "path" {
			return v
		}
		t.failf(x.Pos(), "pointer dereference")
	case *ast.SelectorExpr:
		// qualified constant handled above; here: field selection
		sel := t.info().Selections
		_ = sel
		base := t.expr(st, x.X)
		if base.Op != "path" {
			t.failf(x.Pos(), "selector on a non-struct value")
		}
		p := &Ex{Op: "path", Root: base.Root, Fields: append(append([]string{}, base.Fields...), x.Sel.Name)}
		ty := t.typeOf(x)
		if _, _, _, ok := intRange(ty); ok {
			return t.readPath(st, p, ty, x.Pos())
		}
		p.GoType = ty
		return p
	case *ast.UnaryExpr:
		switch x.Op {
		case token.NOT:
			return not(t.expr(st, x.X))
		case token.SUB:
			a := t.expr(st, x.X)
			if a.isLit() {
				return lit(new(big.Int).Neg(a.Val))
			}
			return &Ex{Op: "neg", A: []*Ex{a}}
		case token.ADD:
			return t.expr(st, x.X)
		case token.XOR:
			t.failf(x.Pos(), "bitwise complement outside `x & ^mask`")
		case token.AND:
			v := t.expr(st, x.X)
			if v.Op == "path" {
				return v
			}
			t.failf(x.Pos(), "address-of")
		}
		t.failf(x.Pos(), "unary operator %s", x.Op)
	case *ast.BinaryExpr:
		return t.binary(st, x)
	case *ast.CallExpr:
		rs := t.call(st, x)
		if len(rs) != 1 {
			t.failf(x.Pos(), "call with %d results used as a value", len(rs))
		}
		return rs[0]
	}
	t.failf(e.Pos(), "unsupported expression %T", e)
	return nil
}

// maskBits recognises 2^k-1 (literal, or shl 1 k - 1): returns k as an expression.
func maskBits(m *Ex) (*Ex, bool) {
	if m.isLit() && m.Val.Sign() > 0 {
		p := new(big.Int).Add(m.Val, big.NewInt(1))
		if p.BitLen() > 0 && new(big.Int).And(p, m.Val).Sign() == 0 {
			return litI(int64(p.BitLen() - 1)), true
		}
	}
	if m.Op == "-" && m.A[1].isLit() && m.A[1].Val.Cmp(big.NewInt(1)) == 0 {
		s := m.A[0]
		if s.Op == "shl" && s.A[0].isLit() && s.A[0].Val.Cmp(big.NewInt(1)) == 0 {
			return s.A[1], true
		}
	}
	return nil, false
}

func (t *trans) binary(st *tstate, x *ast.BinaryExpr) *Ex {
	switch x.Op {
	case token.LAND:
		a := t.expr(st, x.X)
		t.gctx = append(t.gctx, a)
		b := t.expr(st, x.Y)
		t.gctx = t.gctx[:len(t.gctx)-1]
		return bin("and", a, b)
	case token.LOR:
		a := t.expr(st, x.X)
		t.gctx = append(t.gctx, not(a))
		b := t.expr(st, x.Y)
		t.gctx = t.gctx[:len(t.gctx)-1]
		return bin("or", a, b)
	}
	// x & ^mask
	if x.Op == token.AND {
		if u, ok := ast.Unparen(x.Y).(*ast.UnaryExpr); ok && u.Op == token.XOR {
			a := t.expr(st, x.X)
			m := t.expr(st, u.X)
			if k, ok := maskBits(m); ok {
				return &Ex{Op: "clearlow", A: []*Ex{a, k}}
			}
			t.failf(x.Pos(), "`x & ^m` where m is not of the form 2^k-1")
		}
	}
	a := t.expr(st, x.X)
	b := t.expr(st, x.Y)
	ty := t.typeOf(x.X)
	if tb, ok := ty.Underlying().(*types.Basic); ok && tb.Info()&(types.IsFloat|types.IsComplex|types.IsString) != 0 {
		t.failf(x.Pos(), "operator %s on %s", x.Op, typeString(ty))
	}
	switch x.Op {
	case token.ADD:
		return bin("+", a, b)
	case token.SUB:
		r := bin("-", a, b)
		if isUnsigned(t.typeOf(x)) && !r.isLit() {
			t.obligation("0 ≤ " + renderVal(r))
			t.ranges = append(t.ranges, rangeEntry{"usub " + t.exprText(x), big.NewInt(0), mustHi(t.typeOf(x))})
		}
		return r
	case token.MUL:
		return bin("*", a, b)
	case token.QUO, token.REM:
		if !b.isLit() {
			g := andAll(append(append([]*Ex{}, t.gctx...), bin("eq", b, litI(0))))
			t.guards = append(t.guards, g)
		} else if b.Val.Sign() == 0 {
			t.failf(x.Pos(), "division by constant zero")
		}
		if x.Op == token.QUO {
			return bin("tdiv", a, b)
		}
		return bin("tmod", a, b)
	case token.EQL:
		return bin("eq", a, b)
	case token.NEQ:
		return bin("ne", a, b)
	case token.LSS:
		return bin("lt", a, b)
	case token.LEQ:
		return bin("le", a, b)
	case token.GTR:
		return bin("gt", a, b)
	case token.GEQ:
		return bin("ge", a, b)
	case token.SHL, token.SHR:
		if !b.isLit() {
			if !isUnsigned(t.typeOf(x.Y)) {
				t.obligation("0 ≤ " + renderVal(b))
			}
		} else if b.Val.Sign() < 0 {
			t.failf(x.Pos(), "negative shift count")
		}
		if x.Op == token.SHL {
			return bin("shl", a, b)
		}
		return bin("shr", a, b)
	case token.AND, token.AND_NOT:
		if k, ok := maskBits(b); ok {
			if x.Op == token.AND {
				return &Ex{Op: "masklow", A: []*Ex{a, k}}
			}
			return &Ex{Op: "clearlow", A: []*Ex{a, k}}
		}
		if x.Op == token.AND {
			if k, ok := maskBits(a); ok {
				return &Ex{Op: "masklow", A: []*Ex{b, k}}
			}
			t.nonneg(a)
			t.nonneg(b)
			return &Ex{Op: "band", A: []*Ex{a, b}}
		}
		t.failf(x.Pos(), "`&^` with a mask that is not 2^k-1")
	case token.OR:
		t.nonneg(a)
		t.nonneg(b)
		return &Ex{Op: "bor", A: []*Ex{a, b}}
	case token.XOR:
		t.nonneg(a)
		t.nonneg(b)
		return &Ex{Op: "bxor", A: []*Ex{a, b}}
	}
	t.failf(x.Pos(), "binary operator %s", x.Op)
	return nil
}

func mustHi(ty types.Type) *big.Int {
	_, hi, _, _ := intRange(ty)
	return hi
}

func (t *trans) nonneg(a *Ex) {
	if a.isLit() {
		if a.Val.Sign() < 0 {
			panic(terr{"bit operation on a negative constant"})
		}
		return
	}
	t.obligation("0 ≤ " + renderVal(a))
}

// conversion T(x)
func (t *trans) convert(st *tstate, call *ast.CallExpr, target types.Type) *Ex {
	if len(call.Args) != 1 {
		t.failf(call.Pos(), "conversion with %d arguments", len(call.Args))
	}
	src := t.typeOf(call.Args[0])
	slo, shi, sBool, sok := intRange(src)
	tlo, thi, tBool, tok := intRange(target)
	if !tok || tBool {
		t.failf(call.Pos(), "conversion to %s", typeString(target))
	}
	v := t.expr(st, call.Args[0])
	if !sok || sBool {
		if v.isLit() { // untyped constant
			return v
		}
		t.failf(call.Pos(), "conversion from %s", typeString(src))
	}
	if v.isLit() {
		return v
	}
	var obs []string
	if slo.Cmp(tlo) < 0 {
		obs = append(obs, renderInt(tlo)+" ≤ "+renderVal(v))
	}
	if shi.Cmp(thi) > 0 {
		obs = append(obs, renderVal(v)+" ≤ "+renderInt(thi))
	}
	if len(obs) > 0 {
		t.obligation(strings.Join(obs, " ∧ "))
		t.ranges = append(t.ranges, rangeEntry{"conv " + t.exprText(call), tlo, thi})
	}
	return v
}

func (t *trans) recvTypeName(fn *types.Func) string {
	sig := fn.Type().(*types.Signature)
	if sig.Recv() == nil {
		return ""
	}
	rt := sig.Recv().Type()
	if p, ok := rt.(*types.Pointer); ok {
		rt = p.Elem()
	}
	if n, ok := rt.(*types.Named); ok {
		return n.Obj().Name()
	}
	return ""
}

func (t *trans) relDirOf(pkg *types.Package) (string, bool) {
	if pkg == nil {
		return "", false
	}
	p := pkg.Path()
	if p == modPath {
		return ".", true
	}
	if strings.HasPrefix(p, modPath+"/") {
		return strings.TrimPrefix(p, modPath+"/"), true
	}
	return "", false
}

func (t *trans) ignored(call *ast.CallExpr) bool {
	txt := t.exprText(call.Fun)
	for _, ig := range t.spec.Ignore {
		if txt == ig || strings.HasSuffix(txt, "."+ig) {
			return true
		}
	}
	return false
}

// call translates a call expression to its result values.
func (t *trans) call(st *tstate, call *ast.CallExpr) []*Ex {
	// conversion?
	if tv, ok := t.info().Types[call.Fun]; ok && tv.IsType() {
		return []*Ex{t.convert(st, call, tv.Type)}
	}
	// builtin?
	if id, ok := ast.Unparen(call.Fun).(*ast.Ident); ok {
		if b, ok := t.info().Uses[id].(*types.Builtin); ok {
			switch b.Name() {
			case "min", "max":
				if tb, ok := t.typeOf(call).Underlying().(*types.Basic); !ok || tb.Info()&types.IsInteger == 0 {
					t.failf(call.Pos(), "%s on non-integers", b.Name())
				}
				r := t.expr(st, call.Args[0])
				for _, a := range call.Args[1:] {
					v := t.expr(st, a)
					if r.isLit() && v.isLit() {
						if (b.Name() == "min") == (v.Val.Cmp(r.Val) < 0) {
							r = v
						}
						continue
					}
					if !v.isLit() && (r.isLit() || renderVal(v) < renderVal(r)) {
						r, v = v, r // canonical operand order: sorted, literal last
					}
					r = &Ex{Op: b.Name(), A: []*Ex{r, v}}
				}
				return []*Ex{r}
			}
			if b.Name() == "len" && len(call.Args) == 1 {
				// the length of a slice/string-typed field: a non-negative input
				base := t.expr(st, call.Args[0])
				if base.Op != "path" || len(base.Fields) == 0 {
					t.failf(call.Pos(), "len of something that is not a field")
				}
				p := &Ex{Op: "path", Root: base.Root, Fields: append(append([]string{}, base.Fields[:len(base.Fields)-1]...), base.Fields[len(base.Fields)-1]+"_len")}
				v := t.pathParam(p, types.Typ[types.Int], call.Pos())
				if q, ok := t.pidx[v.Name]; ok {
					q.lo = big.NewInt(0)
				}
				return []*Ex{v}
			}
			t.failf(call.Pos(), "builtin %s", b.Name())
		}
	}
	// a func-typed field called without arguments, or a method
	var fn *types.Func
	var recvExpr ast.Expr
	switch f := ast.Unparen(call.Fun).(type) {
	case *ast.Ident:
		fn, _ = t.info().Uses[f].(*types.Func)
	case *ast.SelectorExpr:
		if o, ok := t.info().Uses[f.Sel].(*types.Func); ok {
			fn = o
			if sel, ok := t.info().Selections[f]; ok && sel.Kind() == types.MethodVal {
				recvExpr = f.X
			}
		} else if v, ok := t.info().Uses[f.Sel].(*types.Var); ok && v.IsField() {
			// call of a func-typed field: an input of the function (assumed stable during the call)
			if _, isSig := v.Type().Underlying().(*types.Signature); isSig && len(call.Args) == 0 {
				base := t.expr(st, f.X)
				if base.Op != "path" {
					t.failf(call.Pos(), "call of a func field on a non-struct value")
				}
				sig := v.Type().Underlying().(*types.Signature)
				if sig.Results().Len() != 1 {
					t.failf(call.Pos(), "func field with %d results", sig.Results().Len())
				}
				p := &Ex{Op: "path", Root: base.Root, Fields: append(append([]string{}, base.Fields...), f.Sel.Name)}
				return []*Ex{t.pathParam(p, sig.Results().At(0).Type(), call.Pos())}
			}
		}
	}
	if fn == nil {
		t.failf(call.Pos(), "call of %s: not a statically known function", t.exprText(call.Fun))
	}
	rname := t.recvTypeName(fn)
	qual := fn.Name()
	if rname != "" {
		qual = rname + "." + fn.Name()
	}
	// standard library methods with a fixed integer meaning
	if fn.Pkg() != nil {
		switch fn.Pkg().Path() + "." + qual {
		case "time.Duration.Nanoseconds":
			return []*Ex{t.expr(st, recvExpr)}
		case "time.Duration.Microseconds":
			return []*Ex{bin("tdiv", t.expr(st, recvExpr), litI(1000))}
		case "time.Duration.Milliseconds":
			return []*Ex{bin("tdiv", t.expr(st, recvExpr), litI(1000000))}
		case "time.Duration.Abs":
			// Abs saturates at MaxInt64 for MinInt64; recorded as an obligation
			v := t.expr(st, recvExpr)
			t.obligation("-9223372036854775808 < " + renderVal(v))
			return []*Ex{ite(bin("lt", v, litI(0)), &Ex{Op: "neg", A: []*Ex{v}}, v)}
		case "sync/atomic.Int64.Load", "sync/atomic.Uint64.Load", "sync/atomic.Int32.Load", "sync/atomic.Uint32.Load", "sync/atomic.Bool.Load":
			base := t.expr(st, recvExpr)
			if base.Op != "path" {
				t.failf(call.Pos(), "atomic load of a non-field")
			}
			sig := fn.Type().(*types.Signature)
			return []*Ex{t.readPath(st, base, sig.Results().At(0).Type(), call.Pos())}
		}
	}
	// opaque (listed) callee: an input
	if base, ok := t.spec.Opaque[qual]; ok {
		name := base
		for _, a := range call.Args {
			v := t.expr(st, a)
			switch {
			case v.Op == "blit":
				name += fmt.Sprintf("_%v", v.BVal)
			case v.isLit():
				name += "_" + strings.ReplaceAll(v.Val.String(), "-", "m")
			default:
				t.failf(call.Pos(), "opaque call %s with a non-constant argument", qual)
			}
		}
		sig := fn.Type().(*types.Signature)
		if sig.Results().Len() != 1 {
			t.failf(call.Pos(), "opaque call %s with %d results", qual, sig.Results().Len())
		}
		rt := sig.Results().At(0).Type()
		lo, hi, isBool, ok := intRange(rt)
		if !ok {
			t.failf(call.Pos(), "opaque call %s returns %s", qual, typeString(rt))
		}
		return []*Ex{t.addParam(&tparam{name: leanVar(name), isBool: isBool, lo: lo, hi: hi, goType: typeString(rt), declIdx: -2, opaque: qual})}
	}
	dir, inRepo := t.relDirOf(fn.Pkg())
	if !inRepo {
		t.failf(call.Pos(), "call of %s.%s outside the repository", fn.Pkg().Path(), qual)
	}
	// evaluate receiver and arguments (Go order: receiver, then arguments)
	var recvVal *Ex
	if recvExpr != nil {
		recvVal = t.expr(st, recvExpr)
	}
	args := make([]*Ex, len(call.Args))
	for i, a := range call.Args {
		args[i] = t.expr(st, a)
	}
	// a function of this area's translated set → a call of its Lean def
	if r := t.area.lookup(t.c, dir, rname, fn.Name()); r != nil && len(r.resBool) == 1 && !r.spec.Writes {
		cargs := make([]*Ex, len(r.params))
		for i, p := range r.params {
			switch {
			case p.declIdx == -1:
				cargs[i] = recvVal
			case p.declIdx >= 0:
				cargs[i] = args[p.declIdx]
			case p.opaque != "":
				cargs[i] = t.addParam(&tparam{name: p.name, isBool: p.isBool, lo: p.lo, hi: p.hi, goType: p.goType, declIdx: -2, opaque: p.opaque})
			default:
				var base *Ex
				if p.root == "" {
					base = recvVal
				} else {
					t.failf(call.Pos(), "callee %s reads fields of its parameter %s", qual, p.root)
				}
				if base == nil || base.Op != "path" {
					t.failf(call.Pos(), "callee %s reads receiver fields but the receiver is not a field path here", qual)
				}
				pp := &Ex{Op: "path", Root: base.Root, Fields: append(append([]string{}, base.Fields...), p.fields...)}
				if v, ok := st.store[t.storeKey(pp)]; ok {
					cargs[i] = v
				} else {
					cargs[i] = t.pathParamTyped(pp, p)
				}
			}
		}
		if r.hasPanic {
			g := &Ex{Op: "call", Name: r.qualified() + "_panics", Bool: true, A: cargs}
			t.guards = append(t.guards, andAll(append(append([]*Ex{}, t.gctx...), g)))
		}
		return []*Ex{{Op: "call", Name: r.qualified(), Bool: r.resBool[0], A: cargs}}
	}
	// otherwise inline the callee's body
	return t.inline(st, call, dir, rname, fn, recvVal, args)
}

func (t *trans) pathParamTyped(p *Ex, like *tparam) *Ex {
	key := strings.Join(p.Fields, ".")
	if p.Root == "" {
		if v, ok := t.spec.Assume[key]; ok {
			switch v {
			case "true":
				return blit(true)
			case "false":
				return blit(false)
			}
			n, _ := new(big.Int).SetString(v, 10)
			return lit(n)
		}
	}
	name := strings.Join(p.Fields, "_")
	if p.Root != "" {
		name = p.Root + "_" + name
	}
	return t.addParam(&tparam{name: leanVar(name), isBool: like.isBool, lo: like.lo, hi: like.hi, goType: like.goType, declIdx: -2, root: p.Root, fields: append([]string{}, p.Fields...)})
}

func (t *trans) inline(st *tstate, call *ast.CallExpr, dir, rname string, fn *types.Func, recvVal *Ex, args []*Ex) []*Ex {
	if t.depth > 8 {
		t.failf(call.Pos(), "inlining too deep (recursion?) at %s", fn.Name())
	}
	pkg, err := t.c.Load(dir)
	if err != nil {
		t.failf(call.Pos(), "cannot load %s: %v", dir, err)
	}
	fd := pkg.FuncDecl(rname, fn.Name())
	if fd == nil || fd.Body == nil {
		t.failf(call.Pos(), "no source for %s.%s in %s (interface method?)", rname, fn.Name(), dir)
	}
	saved := t.fr
	t.fr = &frame{pkg: pkg}
	t.depth++
	defer func() { t.fr = saved; t.depth-- }()
	ist := &tstate{env: map[types.Object]*Ex{}, store: st.store}
	nres := t.bindSignature(ist, fd, recvVal, args, call.Pos())
	tree := t.execBody(ist, fd, nres)
	// flatten the callee's tree into expressions; panics inside become guards of the calling statement
	out := make([]*Ex, len(nres))
	for i := range nres {
		out[i] = t.treeVal(tree, i, nres[i])
	}
	if pc := panicCond(tree); !(pc.Op == "blit" && !pc.BVal) {
		t.guards = append(t.guards, andAll(append(append([]*Ex{}, t.gctx...), pc)))
	}
	// writes made by the callee
	for _, k := range storeKeys(tree) {
		st.store[k] = t.treeStore(tree, k, st)
	}
	return out
}

func storeKeys(tree Tree) []string {
	seen := map[string]bool{}
	var walk func(Tree)
	walk = func(tr Tree) {
		switch x := tr.(type) {
		case *TIf:
			walk(x.a)
			walk(x.b)
		case *TRet:
			for k := range x.st.store {
				seen[k] = true
			}
		}
	}
	walk(tree)
	var ks []string
	for k := range seen {
		ks = append(ks, k)
	}
	sort.Strings(ks)
	return ks
}

func (t *trans) treeStore(tree Tree, key string, before *tstate) *Ex {
	switch x := tree.(type) {
	case *TIf:
		return ite(x.c, t.treeStore(x.a, key, before), t.treeStore(x.b, key, before))
	case *TRet:
		if v, ok := x.st.store[key]; ok {
			return v
		}
	}
	if v, ok := before.store[key]; ok {
		return v
	}
	if p, ok := t.pidx[leanVar(key)]; ok {
		return &Ex{Op: "var", Name: p.name, Bool: p.isBool}
	}
	panic(terr{"written field " + key + " has no initial value parameter"})
}

func panicCond(tree Tree) *Ex {
	switch x := tree.(type) {
	case *TIf:
		return ite(x.c, panicCond(x.a), panicCond(x.b))
	case *TPanic:
		return blit(true)
	}
	return blit(false)
}

func (t *trans) treeVal(tree Tree, i int, isBool bool) *Ex {
	switch x := tree.(type) {
	case *TIf:
		return ite(x.c, t.treeVal(x.a, i, isBool), t.treeVal(x.b, i, isBool))
	case *TRet:
		return x.vals[i]
	}
	if isBool {
		return blit(false)
	}
	return litI(0)
}

// bindSignature binds receiver, parameters and named results of fd in st; returns the result kinds.
func (t *trans) bindSignature(st *tstate, fd *ast.FuncDecl, recvVal *Ex, args []*Ex, pos token.Pos) []bool {
	info := t.fr.pkg.Info
	if fd.Recv != nil && len(fd.Recv.List) == 1 && len(fd.Recv.List[0].Names) == 1 {
		obj := info.Defs[fd.Recv.List[0].Names[0]]
		if obj != nil && recvVal != nil {
			st.env[obj] = recvVal
		}
		t.fr.recv = obj
	}
	i := 0
	for _, f := range fd.Type.Params.List {
		if len(f.Names) == 0 {
			i++
			continue
		}
		for _, n := range f.Names {
			if n.Name != "_" {
				if obj := info.Defs[n]; obj != nil {
					if i >= len(args) {
						t.failf(pos, "variadic or mismatched call")
					}
					st.env[obj] = args[i]
				}
			}
			i++
		}
	}
	var res []bool
	if fd.Type.Results != nil {
		for _, f := range fd.Type.Results.List {
			ty := info.Types[f.Type].Type
			_, _, isBool, ok := intRange(ty)
			if !ok {
				t.failf(f.Pos(), "result type %s", typeString(ty))
			}
			n := len(f.Names)
			if n == 0 {
				n = 1
			}
			for k := 0; k < n; k++ {
				res = append(res, isBool)
			}
			for _, nm := range f.Names {
				if obj := info.Defs[nm]; obj != nil {
					if isBool {
						st.env[obj] = blit(false)
					} else {
						st.env[obj] = litI(0)
					}
				}
			}
		}
	}
	return res
}

func (t *trans) namedResults(fd *ast.FuncDecl) []types.Object {
	var out []types.Object
	if fd.Type.Results == nil {
		return nil
	}
	for _, f := range fd.Type.Results.List {
		for _, nm := range f.Names {
			out = append(out, t.fr.pkg.Info.Defs[nm])
		}
	}
	return out
}

type fnCtx struct {
	named []types.Object
	nres  int
}

func (t *trans) execBody(st *tstate, fd *ast.FuncDecl, res []bool) Tree {
	fc := &fnCtx{named: t.namedResults(fd), nres: len(res)}
	savedPC := t.pc
	tree := t.exec(fc, fd.Body.List, st)
	t.pc = savedPC
	// falling off the end
	return t.bind(tree, func(s *tstate) Tree {
		if len(res) == 0 {
			return &TRet{st: s}
		}
		t.failf(fd.Body.Rbrace, "missing return")
		return nil
	})
}

// bind replaces every TFall leaf by k(state), extending the path condition on the way down.
func (t *trans) bind(tree Tree, k func(*tstate) Tree) Tree {
	switch x := tree.(type) {
	case *TFall:
		return k(x.st)
	case *TIf:
		saved := t.pc
		t.pc = append(append([]*Ex{}, saved...), x.c)
		a := t.bind(x.a, k)
		t.pc = append(append([]*Ex{}, saved...), not(x.c))
		b := t.bind(x.b, k)
		t.pc = saved
		return mkIf(x.c, a, b)
	}
	return tree
}

// known reports whether the path condition already decides c (syntactically).
func (t *trans) known(c *Ex) (bool, bool) {
	if c.Op == "blit" {
		return true, c.BVal
	}
	pos, neg := renderProp(c), renderProp(not(c))
	var facts []string
	var add func(e *Ex)
	add = func(e *Ex) {
		if e.Op == "and" {
			add(e.A[0])
			add(e.A[1])
			return
		}
		if e.Op == "not" && e.A[0].Op == "or" {
			add(not(e.A[0].A[0]))
			add(not(e.A[0].A[1]))
			return
		}
		facts = append(facts, renderProp(e))
	}
	for _, e := range t.pc {
		add(e)
	}
	for _, f := range facts {
		if f == pos {
			return true, true
		}
		if f == neg {
			return true, false
		}
	}
	return false, false
}

func mkIf(c *Ex, a, b Tree) Tree {
	if c.Op == "blit" {
		if c.BVal {
			return a
		}
		return b
	}
	if flipCond(c) {
		c, a, b = not(c), b, a
	}
	return &TIf{c, a, b}
}

func (t *trans) exec(fc *fnCtx, stmts []ast.Stmt, st *tstate) Tree {
	for i, s := range stmts {
		tr := t.stmt(fc, s, st)
		if f, ok := tr.(*TFall); ok {
			st = f.st
			continue
		}
		rest := stmts[i+1:]
		return t.bind(tr, func(s2 *tstate) Tree { return t.exec(fc, rest, s2) })
	}
	return &TFall{st}
}

// guarded runs f (which translates the expressions of one statement and updates / returns state);
// divisions by a non-constant and inlined panics met on the way become `if guard then PANIC else …`.
func (t *trans) guarded(f func() Tree) Tree {
	saved := t.guards
	t.guards = nil
	tr := f()
	gs := t.guards
	t.guards = saved
	if len(gs) == 0 {
		return tr
	}
	g := blit(false)
	for _, x := range gs {
		if k, v := t.known(x); k {
			x = blit(v)
		}
		g = bin("or", g, x)
	}
	return mkIf(g, &TPanic{}, tr)
}

func (t *trans) assign(st *tstate, lhs ast.Expr, v *Ex, define bool) {
	switch l := ast.Unparen(lhs).(type) {
	case *ast.Ident:
		if l.Name == "_" {
			return
		}
		obj := t.info().Defs[l]
		if obj == nil {
			obj = t.info().Uses[l]
		}
		if obj == nil {
			t.failf(l.Pos(), "unresolved assignment target %s", l.Name)
		}
		if _, isVar := obj.(*types.Var); !isVar {
			t.failf(l.Pos(), "assignment to %s", l.Name)
		}
		if _, known := st.env[obj]; !known && !define && t.info().Defs[l] == nil {
			t.failf(l.Pos(), "assignment to %s, which is not a local", l.Name)
		}
		st.env[obj] = v
		return
	case *ast.SelectorExpr:
		if !t.spec.Writes {
			t.failf(l.Pos(), "write of field %s (writes are not enabled for this function)", t.exprText(l))
		}
		base := t.expr(st, l.X)
		if base.Op != "path" {
			t.failf(l.Pos(), "write through a non-field path")
		}
		p := &Ex{Op: "path", Root: base.Root, Fields: append(append([]string{}, base.Fields...), l.Sel.Name)}
		ty := t.typeOf(l)
		if _, _, _, ok := intRange(ty); !ok {
			t.failf(l.Pos(), "write of field %s of type %s", t.exprText(l), typeString(ty))
		}
		// make sure the initial value is a parameter (the final value of an unwritten path defaults to it)
		if _, ok := st.store[t.storeKey(p)]; !ok {
			t.pathParam(p, ty, l.Pos())
		}
		st.store[t.storeKey(p)] = v
		return
	}
	t.failf(lhs.Pos(), "assignment target %T", lhs)
}

var opAssign = map[token.Token]token.Token{
	token.ADD_ASSIGN: token.ADD, token.SUB_ASSIGN: token.SUB, token.MUL_ASSIGN: token.MUL, token.QUO_ASSIGN: token.QUO,
	token.REM_ASSIGN: token.REM, token.AND_ASSIGN: token.AND, token.OR_ASSIGN: token.OR, token.XOR_ASSIGN: token.XOR,
	token.SHL_ASSIGN: token.SHL, token.SHR_ASSIGN: token.SHR, token.AND_NOT_ASSIGN: token.AND_NOT,
}

func (t *trans) zeroOf(ty types.Type, pos token.Pos) *Ex {
	_, _, isBool, ok := intRange(ty)
	if !ok {
		t.failf(pos, "variable of type %s", typeString(ty))
	}
	if isBool {
		return blit(false)
	}
	return litI(0)
}

func (t *trans) stmt(fc *fnCtx, s ast.Stmt, st *tstate) Tree {
	switch x := s.(type) {
	case *ast.EmptyStmt:
		return &TFall{st}
	case *ast.BlockStmt:
		return t.exec(fc, x.List, st)
	case *ast.ExprStmt:
		call, ok := x.X.(*ast.CallExpr)
		if !ok {
			t.failf(x.Pos(), "expression statement")
		}
		if id, ok := call.Fun.(*ast.Ident); ok && id.Name == "panic" {
			if _, isB := t.info().Uses[id].(*types.Builtin); isB {
				return &TPanic{}
			}
		}
		if t.ignored(call) {
			return &TFall{st}
		}
		// a call for effect: only meaningful with Writes (inlined callee updating the store)
		return t.guarded(func() Tree {
			t.call(st, call)
			return &TFall{st}
		})
	case *ast.ReturnStmt:
		return t.guarded(func() Tree {
			var vals []*Ex
			if len(x.Results) == 0 {
				for _, o := range fc.named {
					vals = append(vals, st.env[o])
				}
			} else if len(x.Results) == 1 && fc.nres > 1 {
				call, ok := x.Results[0].(*ast.CallExpr)
				if !ok {
					t.failf(x.Pos(), "return of a multi-value non-call")
				}
				vals = t.call(st, call)
			} else {
				for _, r := range x.Results {
					vals = append(vals, t.expr(st, r))
				}
			}
			if len(vals) != fc.nres {
				t.failf(x.Pos(), "return with %d values, want %d", len(vals), fc.nres)
			}
			return &TRet{vals: vals, st: st}
		})
	case *ast.IncDecStmt:
		return t.guarded(func() Tree {
			v := t.expr(st, x.X)
			one := litI(1)
			if x.Tok == token.INC {
				t.assign(st, x.X, bin("+", v, one), false)
			} else {
				r := bin("-", v, one)
				if isUnsigned(t.typeOf(x.X)) {
					t.obligation("0 ≤ " + renderVal(r))
				}
				t.assign(st, x.X, r, false)
			}
			return &TFall{st}
		})
	case *ast.DeclStmt:
		gd, ok := x.Decl.(*ast.GenDecl)
		if !ok {
			t.failf(x.Pos(), "declaration")
		}
		if gd.Tok == token.CONST || gd.Tok == token.TYPE {
			return &TFall{st}
		}
		return t.guarded(func() Tree {
			for _, sp := range gd.Specs {
				vs := sp.(*ast.ValueSpec)
				for i, n := range vs.Names {
					obj := t.info().Defs[n]
					if obj == nil {
						continue
					}
					if len(vs.Values) == 0 {
						st.env[obj] = t.zeroOf(obj.Type(), n.Pos())
					} else if len(vs.Values) == len(vs.Names) {
						st.env[obj] = t.expr(st, vs.Values[i])
					} else {
						t.failf(vs.Pos(), "var declaration from a multi-value call")
					}
				}
			}
			return &TFall{st}
		})
	case *ast.AssignStmt:
		return t.guarded(func() Tree {
			if op, ok := opAssign[x.Tok]; ok {
				if len(x.Lhs) != 1 || len(x.Rhs) != 1 {
					t.failf(x.Pos(), "op-assignment arity")
				}
				be := &ast.BinaryExpr{X: x.Lhs[0], Op: op, Y: x.Rhs[0], OpPos: x.TokPos}
				// go/types has no entry for the synthesised node: give it the type of the target
				t.info().Types[be] = types.TypeAndValue{Type: t.typeOf(x.Lhs[0])}
				v := t.binary(st, be)
				delete(t.info().Types, be)
				t.assign(st, x.Lhs[0], v, false)
				return &TFall{st}
			}
			define := x.Tok == token.DEFINE
			var vals []*Ex
			if len(x.Rhs) == 1 && len(x.Lhs) > 1 {
				call, ok := x.Rhs[0].(*ast.CallExpr)
				if !ok {
					t.failf(x.Pos(), "multi-value assignment from a non-call")
				}
				vals = t.call(st, call)
			} else {
				for _, r := range x.Rhs {
					vals = append(vals, t.expr(st, r))
				}
			}
			if len(vals) != len(x.Lhs) {
				t.failf(x.Pos(), "assignment arity")
			}
			for i, l := range x.Lhs {
				t.assign(st, l, vals[i], define)
			}
			return &TFall{st}
		})
	case *ast.IfStmt:
		return t.ifStmt(fc, x, st)
	case *ast.SwitchStmt:
		return t.switchStmt(fc, x, st)
	}
	t.failf(s.Pos(), "unsupported statement %T", s)
	return nil
}

func (t *trans) branch(fc *fnCtx, c *Ex, body []ast.Stmt, st *tstate) Tree {
	saved := t.pc
	t.pc = append(append([]*Ex{}, saved...), c)
	tr := t.exec(fc, body, st)
	t.pc = saved
	return tr
}

func mergeStates(c *Ex, a, b *tstate) *tstate {
	m := &tstate{env: map[types.Object]*Ex{}, store: map[string]*Ex{}}
	for k, va := range a.env {
		if vb, ok := b.env[k]; ok {
			if va.Op == "path" || vb.Op == "path" {
				if exEqualPath(va, vb) {
					m.env[k] = va
				}
				continue
			}
			m.env[k] = ite(c, va, vb)
		}
	}
	return m
}

func exEqualPath(a, b *Ex) bool {
	return a.Op == "path" && b.Op == "path" && a.Root == b.Root && strings.Join(a.Fields, ".") == strings.Join(b.Fields, ".")
}

// joinBranches: both branches fell through → one merged state (values become `if c then a else b`);
// otherwise an if-node whose fall-through leaves are continued separately by the caller.
func (t *trans) joinBranches(c *Ex, ta, tb Tree, before *tstate) Tree {
	fa, oka := ta.(*TFall)
	fb, okb := tb.(*TFall)
	if oka && okb {
		m := mergeStates(c, fa.st, fb.st)
		keys := map[string]bool{}
		for k := range fa.st.store {
			keys[k] = true
		}
		for k := range fb.st.store {
			keys[k] = true
		}
		for k := range keys {
			va, ha := fa.st.store[k]
			vb, hb := fb.st.store[k]
			if !ha {
				va = t.initialOf(k, before)
			}
			if !hb {
				vb = t.initialOf(k, before)
			}
			m.store[k] = ite(c, va, vb)
		}
		return &TFall{m}
	}
	return mkIf(c, ta, tb)
}

func (t *trans) initialOf(key string, before *tstate) *Ex {
	if v, ok := before.store[key]; ok {
		return v
	}
	if p, ok := t.pidx[leanVar(key)]; ok {
		return &Ex{Op: "var", Name: p.name, Bool: p.isBool}
	}
	panic(terr{"written field " + key + " has no initial value parameter"})
}

func (t *trans) ifStmt(fc *fnCtx, x *ast.IfStmt, st *tstate) Tree {
	var pre Tree = &TFall{st}
	if x.Init != nil {
		pre = t.stmt(fc, x.Init, st)
	}
	return t.bind(pre, func(st *tstate) Tree {
		return t.guarded(func() Tree {
			c := t.expr(st, x.Cond)
			if !c.Bool {
				t.failf(x.Cond.Pos(), "non-boolean condition")
			}
			if k, v := t.known(c); k {
				c = blit(v)
			}
			if c.Op == "blit" {
				if c.BVal {
					return t.exec(fc, x.Body.List, st)
				}
				if x.Else == nil {
					return &TFall{st}
				}
				return t.stmt(fc, x.Else, st)
			}
			ta := t.branch(fc, c, x.Body.List, st.clone())
			var tb Tree
			if x.Else == nil {
				tb = &TFall{st.clone()}
			} else {
				tb = t.branch(fc, not(c), []ast.Stmt{x.Else}, st.clone())
			}
			return t.joinBranches(c, ta, tb, st)
		})
	})
}

func (t *trans) switchStmt(fc *fnCtx, x *ast.SwitchStmt, st *tstate) Tree {
	var pre Tree = &TFall{st}
	if x.Init != nil {
		pre = t.stmt(fc, x.Init, st)
	}
	return t.bind(pre, func(st *tstate) Tree {
		return t.guarded(func() Tree {
			var tag *Ex
			if x.Tag != nil {
				tag = t.expr(st, x.Tag)
				if tag.Op == "path" {
					t.failf(x.Tag.Pos(), "switch on a struct value")
				}
			}
			type arm struct {
				c    *Ex
				body []ast.Stmt
			}
			var arms []arm
			var def []ast.Stmt
			hasDef := false
			for _, cc := range x.Body.List {
				cl := cc.(*ast.CaseClause)
				for _, s := range cl.Body {
					if b, ok := s.(*ast.BranchStmt); ok {
						t.failf(b.Pos(), "%s inside switch", b.Tok)
					}
				}
				if cl.List == nil {
					def, hasDef = cl.Body, true
					continue
				}
				c := blit(false)
				for _, e := range cl.List {
					v := t.expr(st, e)
					if tag != nil {
						v = bin("eq", tag, v)
					}
					c = bin("or", c, v)
				}
				arms = append(arms, arm{c, cl.Body})
			}
			_ = hasDef
			var build func(i int, st *tstate) Tree
			build = func(i int, st *tstate) Tree {
				if i == len(arms) {
					return t.exec(fc, def, st)
				}
				c := arms[i].c
				if c.Op == "blit" {
					if c.BVal {
						return t.exec(fc, arms[i].body, st)
					}
					return build(i+1, st)
				}
				ta := t.branch(fc, c, arms[i].body, st.clone())
				saved := t.pc
				t.pc = append(append([]*Ex{}, saved...), not(c))
				tb := build(i+1, st.clone())
				t.pc = saved
				return t.joinBranches(c, ta, tb, st)
			}
			return build(0, st)
		})
	})
}

// ---------------------------------------------------------------- one function → Lean text

type regEntry struct {
	area string
	spec TFunc
	res  *tresult
	busy bool
	err  error
}

// every function registered for translation, in any area (key dir|recv|name)
var transRegistry = map[string]*regEntry{}

// lookup finds a function of the translated set; a callee of another area (or one registered later in
// this area) is translated on demand into a scratch buffer just to learn its signature.
func (a *transArea) lookup(c *Ctx, dir, recv, name string) *tresult {
	e := transRegistry[tkey(dir, recv, name)]
	if e == nil || e.busy {
		return nil
	}
	if e.res == nil && e.err == nil {
		e.busy = true
		scratch := &LeanFile{}
		e.res, e.err = translateFunc(c, &transArea{name: e.area}, e.spec, scratch)
		e.busy = false
	}
	if e.res != nil && e.area != a.name {
		a.imports[e.area] = true
	}
	return e.res
}

func renderTree(tree Tree, emit func(*TRet) string, dflt string, ind string) string {
	switch x := tree.(type) {
	case *TIf:
		return "if " + renderProp(x.c) + " then\n" + ind + "  " + renderTree(x.a, emit, dflt, ind+"  ") + "\n" + ind + "else\n" + ind + "  " + renderTree(x.b, emit, dflt, ind+"  ")
	case *TRet:
		return emit(x)
	}
	return dflt
}

func treeHasPanic(tree Tree) bool {
	switch x := tree.(type) {
	case *TIf:
		return treeHasPanic(x.a) || treeHasPanic(x.b)
	case *TPanic:
		return true
	}
	return false
}

// simplifyTree merges `if c then X else X`.
func simplifyTree(tree Tree, emit func(*TRet) string, dflt string) Tree {
	x, ok := tree.(*TIf)
	if !ok {
		return tree
	}
	a := simplifyTree(x.a, emit, dflt)
	b := simplifyTree(x.b, emit, dflt)
	if renderTree(a, emit, dflt, "") == renderTree(b, emit, dflt, "") {
		return a
	}
	return &TIf{x.c, a, b}
}

func translateFunc(c *Ctx, area *transArea, spec TFunc, w *LeanFile) (res *tresult, err error) {
	defer func() {
		if r := recover(); r != nil {
			if te, ok := r.(terr); ok {
				err = fmt.Errorf("%s", te.msg)
				return
			}
			panic(r)
		}
	}()
	pkg, lerr := c.Load(spec.Dir)
	if lerr != nil {
		return nil, lerr
	}
	fd := pkg.FuncDecl(spec.Recv, spec.Name)
	if fd == nil || fd.Body == nil {
		return nil, fmt.Errorf("function not found")
	}
	t := &trans{c: c, area: area, spec: spec, pidx: map[string]*tparam{}, safeOb: map[string]bool{}, fr: &frame{pkg: pkg}}
	st := &tstate{env: map[types.Object]*Ex{}, store: map[string]*Ex{}}
	info := pkg.Info
	// receiver
	var recvVal *Ex
	if fd.Recv != nil && len(fd.Recv.List) == 1 {
		rt := info.Types[fd.Recv.List[0].Type].Type
		if lo, hi, isBool, ok := intRange(rt); ok {
			name := "recv"
			if len(fd.Recv.List[0].Names) == 1 && fd.Recv.List[0].Names[0].Name != "_" {
				name = fd.Recv.List[0].Names[0].Name
			}
			recvVal = t.addParam(&tparam{name: leanVar(name), isBool: isBool, lo: lo, hi: hi, goType: typeString(rt), declIdx: -1})
		} else if isStructish(rt) {
			recvVal = &Ex{Op: "path", Root: ""}
		} else {
			return nil, fmt.Errorf("receiver type %s", typeString(rt))
		}
	}
	// declared parameters
	var args []*Ex
	idx := 0
	for _, f := range fd.Type.Params.List {
		ty := info.Types[f.Type].Type
		names := f.Names
		if len(names) == 0 {
			names = []*ast.Ident{{Name: "_"}}
		}
		for _, n := range names {
			if n.Name == "_" {
				args = append(args, litI(0))
				idx++
				continue
			}
			if lo, hi, isBool, ok := intRange(ty); ok {
				args = append(args, t.addParam(&tparam{name: leanVar(n.Name), isBool: isBool, lo: lo, hi: hi, goType: typeString(ty), declIdx: idx}))
			} else if isStructish(ty) {
				args = append(args, &Ex{Op: "path", Root: n.Name})
			} else {
				return nil, fmt.Errorf("parameter %s has unsupported type %s", n.Name, typeString(ty))
			}
			idx++
		}
	}
	nres := t.bindSignature(st, fd, recvVal, args, fd.Pos())
	t.resBool = nres
	tree := t.execBody(st, fd, nres)

	// declared parameters the body never reads are dropped (so `_ T` ↔ a named unused parameter is harmless)
	used := map[string]bool{}
	var walkEx func(e *Ex)
	walkEx = func(e *Ex) {
		if e == nil {
			return
		}
		if e.Op == "var" {
			used[e.Name] = true
		}
		for _, a := range e.A {
			walkEx(a)
		}
	}
	var walkTree func(tr Tree)
	walkTree = func(tr Tree) {
		switch x := tr.(type) {
		case *TIf:
			walkEx(x.c)
			walkTree(x.a)
			walkTree(x.b)
		case *TRet:
			for _, v := range x.vals {
				walkEx(v)
			}
			for k, v := range x.st.store {
				used[leanVar(k)] = true
				walkEx(v)
			}
		}
	}
	walkTree(tree)
	safeText := strings.Join(t.safe, " ")
	var kept []*tparam
	for _, p := range t.params {
		if p.declIdx >= -1 && !used[p.name] && !strings.Contains(safeText, p.name) {
			continue
		}
		kept = append(kept, p)
	}
	t.params = kept
	// parameter order: receiver value, declared parameters, then field/opaque inputs sorted by name
	sort.SliceStable(t.params, func(i, j int) bool {
		a, b := t.params[i], t.params[j]
		if (a.declIdx >= -1) != (b.declIdx >= -1) {
			return a.declIdx >= -1
		}
		if a.declIdx >= -1 {
			return a.declIdx < b.declIdx
		}
		return a.name < b.name
	})
	var sigParts []string
	for _, p := range t.params {
		ty := "Int"
		if p.isBool {
			ty = "Bool"
		}
		sigParts = append(sigParts, fmt.Sprintf("(%s : %s)", p.name, ty))
	}
	sig := strings.Join(sigParts, " ")
	if sig != "" {
		sig = " " + sig
	}
	name := spec.leanName()
	resTy := func(b bool) string {
		if b {
			return "Bool"
		}
		return "Int"
	}
	goName := spec.Name
	if spec.Recv != "" {
		goName = "(" + spec.Recv + ")." + spec.Name
	}
	var out strings.Builder
	P := func(format string, a ...any) { fmt.Fprintf(&out, format+"\n", a...) }
	doc := fmt.Sprintf("%s `%s`", c.pos(fd.Pos()), goName)
	if len(nres) > 0 {
		var tys []string
		for _, b := range nres {
			tys = append(tys, resTy(b))
		}
		emit := func(r *TRet) string {
			var vs []string
			for _, v := range r.vals {
				vs = append(vs, renderArg(v))
			}
			if len(vs) == 1 {
				return vs[0]
			}
			return "(" + strings.Join(vs, ", ") + ")"
		}
		var ds []string
		for _, b := range nres {
			if b {
				ds = append(ds, "false")
			} else {
				ds = append(ds, "(0 : Int)")
			}
		}
		dflt := ds[0]
		if len(ds) > 1 {
			dflt = "(" + strings.Join(ds, ", ") + ")"
		}
		P("/-- %s -/", doc)
		P("def %s%s : %s :=\n  %s", name, sig, strings.Join(tys, " × "), renderTree(simplifyTree(tree, emit, dflt), emit, dflt, "  "))
	}
	// written fields
	for _, k := range storeKeys(tree) {
		k := k
		isBool := false
		if p, ok := t.pidx[leanVar(k)]; ok {
			isBool = p.isBool
		}
		emit := func(r *TRet) string {
			if v, ok := r.st.store[k]; ok {
				return renderArg(v)
			}
			return leanVar(k)
		}
		P("/-- %s: value of field `%s` afterwards -/", doc, strings.ReplaceAll(k, "_", "."))
		P("def %s_set_%s%s : %s :=\n  %s", name, k, sig, resTy(isBool), renderTree(simplifyTree(tree, emit, leanVar(k)), emit, leanVar(k), "  "))
	}
	if treeHasPanic(tree) {
		emit := func(*TRet) string { return "false" }
		P("/-- %s: the inputs for which the Go function panics (explicit `panic`, integer division by zero) -/", doc)
		P("def %s_panics%s : Bool :=\n  %s", name, sig, renderTree(simplifyTree(tree, emit, "true"), emit, "true", "  "))
	}
	// ranges
	var rs []string
	for _, p := range t.params {
		if !p.isBool {
			rs = append(rs, fmt.Sprintf("(%q, %s, %s)", p.name+" : "+p.goType, renderInt(p.lo), renderInt(p.hi)))
		}
	}
	seenR := map[string]bool{}
	for _, r := range t.ranges {
		s := fmt.Sprintf("(%q, %s, %s)", r.what, renderInt(r.lo), renderInt(r.hi))
		if !seenR[s] {
			seenR[s] = true
			rs = append(rs, s)
		}
	}
	P("/-- Go type ranges of the parameters and of every range-relevant conversion / unsigned subtraction of `%s` -/", goName)
	P("def %s_ranges : List (String × Int × Int) := [%s]", name, strings.Join(rs, ", "))
	safe := "True"
	if len(t.safe) > 0 {
		safe = strings.Join(t.safe, " ∧\n  ")
	}
	P("/-- no unsigned subtraction of `%s` goes below 0, every narrowing conversion stays in range, bit operations see non-negative operands -/", goName)
	P("def %s_safe%s : Prop :=\n  %s", name, sig, safe)
	w.b.WriteString(out.String())
	w.P("")
	return &tresult{area: area.name, spec: spec, params: t.params, resBool: nres, hasPanic: treeHasPanic(tree)}, nil
}

// registerTrans registers the extractor Trans<area>: every function is translated independently; a
// function outside the subset is reported and makes the module fail (after all others were emitted).
func registerTrans(area string, funcs ...TFunc) {
	for _, f := range funcs {
		transRegistry[tkey(f.Dir, f.Recv, f.Name)] = &regEntry{area: area, spec: f}
	}
	register("Trans"+area, func(c *Ctx, w *LeanFile) error {
		w.P("set_option linter.unusedVariables false")
		w.P("")
		a := &transArea{name: area, funcs: funcs, imports: map[string]bool{}}
		var errs []string
		for _, f := range funcs {
			e := transRegistry[tkey(f.Dir, f.Recv, f.Name)]
			e.busy = true
			r, err := translateFunc(c, a, f, w)
			e.busy = false
			if err != nil {
				msg := fmt.Sprintf("%s %s.%s: %v", f.Dir, f.Recv, f.Name, err)
				w.P("-- NOT TRANSLATED: %s", msg)
				w.P("")
				errs = append(errs, msg)
				e.err = err
				continue
			}
			e.res = r
		}
		w.Imports = append(w.Imports, "Uquic.Trans.Prelude")
		var ims []string
		for k := range a.imports {
			ims = append(ims, k)
		}
		sort.Strings(ims)
		for _, k := range ims {
			w.Imports = append(w.Imports, "Uquic.Generated.Trans"+k)
		}
		if len(errs) > 0 {
			return fmt.Errorf("translator: %s", strings.Join(errs, "; "))
		}
		return nil
	})
}
