package main

// Extractor H3Transport (property C18, round 5): the cache entries of http3.Transport
// (`roundTripperWithCount`) carry either a dial error or a connection.  Every DEREFERENCE of an entry's
// connection-valued fields (a method call / field access through a pointer- or interface-typed field
// of the entry other than the error field, e.g. `cl.conn.HandshakeComplete()`,
// `cl.clientConn.RoundTrip(req)`) must be dominated by a check of the entry's error field that leaves
// the function, or sit inside a nil test of that very field.  A dereference that is not, is a nil
// pointer dereference as soon as a request finds an entry whose dial failed.
//
// The rule is semantic rather than textual:
//   - the entry type is the struct of package http3 that has exactly one field of type `error` next to
//     a channel field (found by shape, not by name); its "resource" fields are its pointer- and
//     interface-typed fields other than the error field;
//   - a guard is an `if` without else whose body ends in return / panic and whose condition is false
//     only if `<x>.<errField> == nil` — `<x>.<errField> != nil`, a local defined as `:= <x>.<errField>`
//     compared with nil (in the if's init or earlier), any of these as a disjunct of `||`;
//     (also `<x>.failed()` when that method's whole body is `return <recv>.<errField> != nil`);
//   - a dereference of `<x>.<resource>` is guarded if such a guard for the same variable object `<x>`
//     is an earlier statement of a statement list that (transitively) contains the dereference, or if
//     an enclosing `if` tests `<x>.<resource> != nil` or `<x>.<errField> == nil` (as a conjunct of `&&`).
//
// Facts: getClientChecksDialErr, roundTripChecksDialErr (all dereferences in Transport.getClient /
// Transport.doRoundTripOpt and in the helpers only they call are guarded), otherDerefsGuarded.

import (
	"fmt"
	"go/ast"
	"go/token"
	"go/types"
	"sort"
)

func init() {
	register("H3Transport", func(c *Ctx, w *LeanFile) error {
		p, err := c.Load("http3")
		if err != nil {
			return err
		}
		// the entry type, by shape
		var entry *types.Named
		var errField string
		res := map[string]bool{}
		names := p.Types.Scope().Names()
		sort.Strings(names)
		for _, n := range names {
			tn, ok := p.Types.Scope().Lookup(n).(*types.TypeName)
			if !ok {
				continue
			}
			named, ok := tn.Type().(*types.Named)
			if !ok {
				continue
			}
			st, ok := named.Underlying().(*types.Struct)
			if !ok {
				continue
			}
			var errs, chans []string
			r := map[string]bool{}
			hasQuicConn := false
			for i := 0; i < st.NumFields(); i++ {
				f := st.Field(i)
				switch t := f.Type().Underlying().(type) {
				case *types.Interface:
					if types.Identical(f.Type(), types.Universe.Lookup("error").Type()) {
						errs = append(errs, f.Name())
					} else {
						r[f.Name()] = true
					}
				case *types.Chan:
					chans = append(chans, f.Name())
				case *types.Pointer:
					r[f.Name()] = true
					if nt, ok := t.Elem().(*types.Named); ok && nt.Obj().Name() == "Conn" && nt.Obj().Pkg() != nil && nt.Obj().Pkg().Path() == modPath {
						hasQuicConn = true
					}
				}
			}
			if len(errs) == 1 && len(chans) >= 1 && hasQuicConn && len(r) >= 1 {
				if entry != nil {
					return fmt.Errorf("http3: two candidate cache entry types (%s, %s)", entry.Obj().Name(), n)
				}
				entry, errField, res = named, errs[0], r
			}
		}
		if entry == nil {
			return fmt.Errorf("http3: no cache entry type (struct with one error field, a channel and a *quic.Conn) found")
		}
		isEntryVar := func(id *ast.Ident) types.Object {
			obj := p.Info.Uses[id]
			if obj == nil {
				obj = p.Info.Defs[id]
			}
			if obj == nil {
				return nil
			}
			t := obj.Type()
			if pt, ok := t.(*types.Pointer); ok {
				t = pt.Elem()
			}
			if types.Identical(t, entry) {
				return obj
			}
			return nil
		}
		// `<x>.<field>` on an entry variable → (object of x, field name)
		entrySel := func(e ast.Expr) (types.Object, string) {
			for {
				pe, ok := e.(*ast.ParenExpr)
				if !ok {
					break
				}
				e = pe.X
			}
			se, ok := e.(*ast.SelectorExpr)
			if !ok {
				return nil, ""
			}
			id, ok := se.X.(*ast.Ident)
			if !ok {
				return nil, ""
			}
			if obj := isEntryVar(id); obj != nil {
				return obj, se.Sel.Name
			}
			return nil, ""
		}

		// methods of the entry type whose whole body is `return <recv>.<errField> != nil`
		errPredicates := map[string]bool{}
		for _, f := range p.Files {
			for _, d := range f.Decls {
				fd, ok := d.(*ast.FuncDecl)
				if !ok || fd.Body == nil || fd.Recv == nil || len(fd.Body.List) != 1 || fd.Type.Params.NumFields() != 0 {
					continue
				}
				ret, ok := fd.Body.List[0].(*ast.ReturnStmt)
				if !ok || len(ret.Results) != 1 {
					continue
				}
				be, ok := ret.Results[0].(*ast.BinaryExpr)
				if !ok || be.Op != token.NEQ {
					continue
				}
				a, b := be.X, be.Y
				if isNilIdent(a) {
					a, b = b, a
				}
				if !isNilIdent(b) {
					continue
				}
				if x, fld := entrySel(a); x != nil && fld == errField {
					errPredicates[fd.Name.Name] = true
				}
			}
		}

		type site struct {
			fn      string
			text    string
			guarded bool
		}
		var sites []site
		callees := map[string]map[string]bool{} // function → same-package functions it calls

		for _, f := range p.Files {
			for _, d := range f.Decls {
				fd, ok := d.(*ast.FuncDecl)
				if !ok || fd.Body == nil {
					continue
				}
				fname := fd.Name.Name
				if fd.Recv != nil && len(fd.Recv.List) == 1 {
					t := fd.Recv.List[0].Type
					if s, ok := t.(*ast.StarExpr); ok {
						t = s.X
					}
					if id, ok := t.(*ast.Ident); ok {
						fname = id.Name + "." + fname
					}
				}
				callees[fname] = map[string]bool{}
				// aliases of <x>.<errField>: local := <x>.<errField>
				alias := map[types.Object]types.Object{}
				ast.Inspect(fd.Body, func(n ast.Node) bool {
					as, ok := n.(*ast.AssignStmt)
					if !ok || as.Tok != token.DEFINE || len(as.Lhs) != len(as.Rhs) {
						return true
					}
					for i, r := range as.Rhs {
						if x, fld := entrySel(r); x != nil && fld == errField {
							if id, ok := as.Lhs[i].(*ast.Ident); ok {
								if o := p.Info.Defs[id]; o != nil {
									alias[o] = x
								}
							}
						}
					}
					return true
				})
				// cond false ⇒ <x>.<errField> == nil, for which x?
				var errNonNil func(e ast.Expr) []types.Object
				errNonNil = func(e ast.Expr) []types.Object {
					switch v := e.(type) {
					case *ast.ParenExpr:
						return errNonNil(v.X)
					case *ast.CallExpr:
						// `<x>.failed()` where the method's body is `return <recv>.<errField> != nil`
						if se, ok := v.Fun.(*ast.SelectorExpr); ok && len(v.Args) == 0 {
							if id, ok := se.X.(*ast.Ident); ok {
								if x := isEntryVar(id); x != nil && errPredicates[se.Sel.Name] {
									return []types.Object{x}
								}
							}
						}
					case *ast.BinaryExpr:
						switch v.Op {
						case token.LOR:
							return append(errNonNil(v.X), errNonNil(v.Y)...)
						case token.NEQ:
							a, b := v.X, v.Y
							if isNilIdent(a) {
								a, b = b, a
							}
							if !isNilIdent(b) {
								return nil
							}
							if x, fld := entrySel(a); x != nil && fld == errField {
								return []types.Object{x}
							}
							if id, ok := a.(*ast.Ident); ok {
								if x := alias[p.Info.Uses[id]]; x != nil {
									return []types.Object{x}
								}
							}
						}
					}
					return nil
				}
				// cond true ⇒ <x>.<fld> != nil
				var resNonNil func(e ast.Expr) [][2]any
				resNonNil = func(e ast.Expr) [][2]any {
					switch v := e.(type) {
					case *ast.ParenExpr:
						return resNonNil(v.X)
					case *ast.BinaryExpr:
						switch v.Op {
						case token.LAND:
							return append(resNonNil(v.X), resNonNil(v.Y)...)
						case token.NEQ:
							a, b := v.X, v.Y
							if isNilIdent(a) {
								a, b = b, a
							}
							if isNilIdent(b) {
								if x, fld := entrySel(a); x != nil && res[fld] {
									return [][2]any{{x, fld}}
								}
							}
						}
					}
					return nil
				}
				// cond true ⇒ <x>.<errField> == nil
				var errIsNil func(e ast.Expr) []types.Object
				errIsNil = func(e ast.Expr) []types.Object {
					switch v := e.(type) {
					case *ast.ParenExpr:
						return errIsNil(v.X)
					case *ast.UnaryExpr:
						if v.Op == token.NOT {
							return errNonNil(v.X) // only the single-comparison / predicate forms matter here
						}
					case *ast.BinaryExpr:
						switch v.Op {
						case token.LAND:
							return append(errIsNil(v.X), errIsNil(v.Y)...)
						case token.EQL:
							a, b := v.X, v.Y
							if isNilIdent(a) {
								a, b = b, a
							}
							if !isNilIdent(b) {
								return nil
							}
							if x, fld := entrySel(a); x != nil && fld == errField {
								return []types.Object{x}
							}
							if id, ok := a.(*ast.Ident); ok {
								if x := alias[p.Info.Uses[id]]; x != nil {
									return []types.Object{x}
								}
							}
						}
					}
					return nil
				}
				terminates := func(b *ast.BlockStmt) bool {
					if b == nil || len(b.List) == 0 {
						return false
					}
					switch l := b.List[len(b.List)-1].(type) {
					case *ast.ReturnStmt:
						return true
					case *ast.ExprStmt:
						if call, ok := l.X.(*ast.CallExpr); ok {
							if id, ok := call.Fun.(*ast.Ident); ok && id.Name == "panic" {
								return true
							}
						}
					}
					return false
				}
				type guard struct {
					x     types.Object
					after token.Pos // dominates [after, until)
					until token.Pos
				}
				var guards []guard
				type nilScope struct {
					x        types.Object
					fld      string
					from, to token.Pos
				}
				var scopes []nilScope
				addList := func(list []ast.Stmt, end token.Pos) {
					for _, s := range list {
						ifs, ok := s.(*ast.IfStmt)
						if !ok {
							continue
						}
						if ifs.Else == nil && terminates(ifs.Body) {
							for _, x := range errNonNil(ifs.Cond) {
								guards = append(guards, guard{x, ifs.End(), end})
							}
						}
					}
				}
				ast.Inspect(fd.Body, func(n ast.Node) bool {
					switch v := n.(type) {
					case *ast.BlockStmt:
						addList(v.List, v.End())
					case *ast.CaseClause:
						addList(v.Body, v.End())
					case *ast.CommClause:
						addList(v.Body, v.End())
					case *ast.IfStmt:
						for _, s := range resNonNil(v.Cond) {
							scopes = append(scopes, nilScope{s[0].(types.Object), s[1].(string), v.Body.Pos(), v.Body.End()})
						}
						for _, x := range errIsNil(v.Cond) {
							scopes = append(scopes, nilScope{x, "*", v.Body.Pos(), v.Body.End()})
						}
					case *ast.CallExpr:
						switch fn := v.Fun.(type) {
						case *ast.Ident:
							if o, ok := p.Info.Uses[fn].(*types.Func); ok && o.Pkg() == p.Types {
								callees[fname][o.Name()] = true
							}
						case *ast.SelectorExpr:
							if sel := p.Info.Selections[fn]; sel != nil {
								if o, ok := sel.Obj().(*types.Func); ok && o.Pkg() == p.Types {
									rt := sel.Recv()
									if pt, ok := rt.(*types.Pointer); ok {
										rt = pt.Elem()
									}
									if nt, ok := rt.(*types.Named); ok {
										callees[fname][nt.Obj().Name()+"."+o.Name()] = true
									}
								}
							}
						}
					}
					return true
				})
				// dereferences: a selector whose base is <x>.<resource>
				ast.Inspect(fd.Body, func(n ast.Node) bool {
					se, ok := n.(*ast.SelectorExpr)
					if !ok {
						return true
					}
					x, fld := entrySel(se.X)
					if x == nil || !res[fld] {
						return true
					}
					g := false
					for _, gd := range guards {
						if gd.x == x && se.Pos() >= gd.after && se.Pos() < gd.until {
							g = true
						}
					}
					for _, sc := range scopes {
						if sc.x == x && (sc.fld == fld || sc.fld == "*") && se.Pos() >= sc.from && se.Pos() < sc.to {
							g = true
						}
					}
					sites = append(sites, site{fname, fld + "." + se.Sel.Name, g})
					return true
				})
			}
		}
		if _, ok := callees["Transport.getClient"]; !ok {
			return fmt.Errorf("http3: Transport.getClient not found")
		}
		if _, ok := callees["Transport.doRoundTripOpt"]; !ok {
			return fmt.Errorf("http3: Transport.doRoundTripOpt not found")
		}
		// a helper belongs to the function(s) that call it (one level)
		owner := func(fn string) []string {
			if fn == "Transport.getClient" || fn == "Transport.doRoundTripOpt" {
				return []string{fn}
			}
			var o []string
			for _, root := range []string{"Transport.getClient", "Transport.doRoundTripOpt"} {
				if callees[root][fn] {
					o = append(o, root)
				}
			}
			return o
		}
		gc, rt, other := true, true, true
		w.P("/-- the cache entry type of http3.Transport and its error field (found by shape) -/")
		w.P("def entryType : String := %q", entry.Obj().Name())
		w.P("def entryErrField : String := %q", errField)
		w.P("")
		w.P("/-- every dereference of a connection-valued field of a cache entry: (function, field.member, guarded) -/")
		w.P("def derefSites : List (String × String × Bool) := [")
		for i, s := range sites {
			sep := ","
			if i == len(sites)-1 {
				sep = ""
			}
			w.P("  (%q, %q, %v)%s", s.fn, s.text, s.guarded, sep)
			os := owner(s.fn)
			if len(os) == 0 {
				other = other && s.guarded
			}
			for _, o := range os {
				if o == "Transport.getClient" {
					gc = gc && s.guarded
				} else {
					rt = rt && s.guarded
				}
			}
		}
		w.P("]")
		w.P("")
		w.P("/-- Transport.getClient never dereferences the connection of an entry whose dial failed -/")
		w.P("def getClientChecksDialErr : Bool := %v", gc)
		w.P("/-- Transport.doRoundTripOpt never calls into the client connection of an entry whose dial failed -/")
		w.P("def roundTripChecksDialErr : Bool := %v", rt)
		w.P("/-- all other dereferences of an entry's connection fields are guarded (error check or nil test) -/")
		w.P("def otherDerefsGuarded : Bool := %v", other)
		return nil
	})
}
