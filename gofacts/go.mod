module gofacts

go 1.26
