"""Check driver: facts -> Lean proofs + audit -> Go harness -> oracle -> verdict -> evidence."""
import argparse, fcntl, hashlib, json, os, re, shutil, subprocess, sys, time

ROOT = os.path.dirname(os.path.dirname(os.path.abspath(__file__)))
REPO = os.environ.get("VERIF_REPO", "/repo")
WORK = os.path.join(ROOT, ".work")
LEAN = os.path.join(ROOT, "lean")
GEN = os.path.join(LEAN, "Uquic", "Generated")
BIN = os.path.join(WORK, "bin")
GO = "go1.26.8"
MODPATH = "github.com/refraction-networking/uquic"
ALLOWED_AXIOMS = {"propext", "Classical.choice", "Quot.sound"}
FORBIDDEN_RE = re.compile(r"\bsorry\b|\badmit\b|^axiom |native_decide|bv_decide|implemented_by|\bunsafe |maxHeartbeats 0", re.M)

GOENV = dict(os.environ, GOFLAGS="-mod=mod", GOPROXY="off", GOSUMDB="off", GOTOOLCHAIN="local",
             GOCACHE=os.environ.get("GOCACHE", os.path.join(WORK, "gocache")))


def log(*a):
    print("[check]", *a, file=sys.stderr, flush=True)


def run(cmd, cwd=None, env=None, timeout=None, stdin=None):
    t0 = time.time()
    p = subprocess.run(cmd, cwd=cwd, env=env, stdout=subprocess.PIPE, stderr=subprocess.STDOUT,
                       timeout=timeout, stdin=stdin, text=True, errors="replace")
    return p.returncode, p.stdout, time.time() - t0


RSS_LIMIT_KB = int(os.environ.get("VERIF_RSS_LIMIT_GB", "8")) * 1024 * 1024


def run_watched(cmd, cwd=None, env=None, timeout=None, stdin=None):
    """Like run(), but kills the process when its resident set exceeds RSS_LIMIT_KB (a runaway
    driver must not take the sandbox down) or when the timeout expires."""
    import threading, tempfile
    t0 = time.time()
    with tempfile.TemporaryFile(mode="w+", errors="replace") as outf:
        p = subprocess.Popen(cmd, cwd=cwd, env=env, stdout=outf, stderr=subprocess.STDOUT, stdin=stdin)
        killed = []

        def watch():
            while p.poll() is None:
                try:
                    for l in open(f"/proc/{p.pid}/status"):
                        if l.startswith("VmRSS:") and int(l.split()[1]) > RSS_LIMIT_KB:
                            killed.append(f"resident memory above {RSS_LIMIT_KB // 1048576} GB")
                            p.kill()
                except OSError:
                    pass
                if timeout and time.time() - t0 > timeout:
                    killed.append(f"timeout after {timeout}s")
                    p.kill()
                time.sleep(0.5)
        th = threading.Thread(target=watch, daemon=True)
        th.start()
        rc = p.wait()
        th.join(timeout=2)
        outf.seek(0)
        out = outf.read()
    if killed:
        out += "\n[check] process killed: " + killed[0] + "\n"
        rc = rc or 1
    return rc, out, time.time() - t0


class Lock:
    def __init__(self, name):
        os.makedirs(WORK, exist_ok=True)
        self.path = os.path.join(WORK, name)

    def __enter__(self):
        self.f = open(self.path, "w")
        fcntl.flock(self.f, fcntl.LOCK_EX)
        return self

    def __exit__(self, *a):
        fcntl.flock(self.f, fcntl.LOCK_UN)
        self.f.close()


# ---------------------------------------------------------------- facts

def repo_hash():
    h = hashlib.sha256()
    for d, dirs, files in os.walk(REPO):
        dirs[:] = sorted(x for x in dirs if x not in (".git", "integrationtests", "interop", "example", "docs", "assets"))
        for f in sorted(files):
            if f.endswith(".go") and not f.endswith("_test.go"):
                p = os.path.join(d, f)
                h.update(p.encode())
                with open(p, "rb") as fh:
                    h.update(fh.read())
    return h.hexdigest()


def dir_hash(path, exts):
    h = hashlib.sha256()
    for d, dirs, files in os.walk(path):
        dirs.sort()
        for f in sorted(files):
            if f.endswith(exts):
                p = os.path.join(d, f)
                h.update(os.path.relpath(p, path).encode())
                with open(p, "rb") as fh:
                    h.update(fh.read())
    return h.hexdigest()


def stage_facts():
    """Regenerate lean/Uquic/Generated from /repo's working tree. Returns (ok, text, sha)."""
    os.makedirs(BIN, exist_ok=True)
    gofacts = os.path.join(BIN, "gofacts")
    rc, out, _ = run([GO, "build", "-o", gofacts, "."], cwd=os.path.join(ROOT, "gofacts"), env=GOENV)
    if rc != 0:
        return False, "gofacts build failed:\n" + out, ""
    key = repo_hash() + dir_hash(os.path.join(ROOT, "gofacts"), (".go",))
    stamp = os.path.join(WORK, "facts.stamp")
    if os.path.isdir(GEN) and os.path.exists(stamp) and open(stamp).read().split("\n")[0] == key:
        st = open(stamp).read().split("\n")
        return st[1] == "ok", "\n".join(st[2:]), dir_hash(GEN, (".lean",))
    rc, out, dt = run([gofacts, "-repo", REPO, "-out", GEN], env=GOENV)
    ok = rc == 0
    with open(stamp, "w") as f:
        f.write(key + "\n" + ("ok" if ok else "fail") + "\n" + out)
    log(f"facts regenerated in {dt:.1f}s ok={ok}")
    return ok, out, dir_hash(GEN, (".lean",))


# ---------------------------------------------------------------- lean

def lake_build(targets, timeout=3000):
    rc, out, dt = run(["lake", "build"] + targets, cwd=LEAN, timeout=timeout)
    return rc == 0, out, dt


def lean_errors(out, limit=30):
    lines = [l for l in out.splitlines() if l.startswith("error:") or " error: " in l or l.startswith("✖")]
    return lines[:limit]


def props_sources(mods):
    """Source files in the import closure of the property modules that live in this project."""
    seen, todo = set(), list(mods)
    while todo:
        m = todo.pop()
        if m in seen:
            continue
        p = os.path.join(LEAN, *m.split(".")) + ".lean"
        if not os.path.exists(p):
            continue
        seen.add(m)
        for l in open(p):
            mm = re.match(r"\s*(?:public\s+)?import\s+([\w.]+)", l)
            if mm and (mm.group(1).startswith("Uquic.") or mm.group(1).startswith("Oracle.")):
                todo.append(mm.group(1))
    return sorted(seen)


def oracle_root(exe):
    """Root module of a lean_exe of lean/lakefile.toml (oracle_smap -> Oracle.Smap)."""
    txt = open(os.path.join(LEAN, "lakefile.toml")).read()
    m = re.search(r'name = "%s"\s*\nroot = "([\w.]+)"' % re.escape(exe), txt)
    return m.group(1) if m else "Oracle." + exe.split("_", 1)[-1].capitalize()


def strip_comments(src):
    src = re.sub(r"/-.*?-/", "", src, flags=re.S)
    src = re.sub(r"--.*", "", src)
    return src


def grep_forbidden(mods):
    hits = []
    for m in props_sources(mods):
        if m.startswith("Uquic.Generated"):
            continue
        p = os.path.join(LEAN, *m.split(".")) + ".lean"
        src = strip_comments(open(p).read())
        for mt in FORBIDDEN_RE.finditer(src):
            hits.append(f"{m}: {mt.group(0).strip()}")
    return hits


AUDIT_TMPL = """import Lean
%(imports)s
open Lean Elab Command
run_cmd do
  let env ← getEnv
  for modName in [%(mods)s] do
    match env.getModuleIdx? modName with
    | none => logInfo m!"AUDIT-ERR no module {modName}"
    | some idx =>
      let md := env.header.moduleData[idx.toNat]!
      for n in md.constNames do
        if let some ci := env.find? n then
          if (ci matches .thmInfo _) && !n.isInternalDetail then
            let axs ← Lean.collectAxioms n
            logInfo m!"AUDIT {n} :: {axs.toList}"
"""


def audit(mods, pid):
    """Enumerate theorems of the property modules with their axioms. Returns list of (name, [axioms])."""
    d = os.path.join(WORK, "audit")
    os.makedirs(d, exist_ok=True)
    path = os.path.join(d, pid + ".lean")
    with open(path, "w") as f:
        f.write(AUDIT_TMPL % {"imports": "\n".join("import " + m for m in mods),
                              "mods": ", ".join("`" + m for m in mods)})
    rc, out, dt = run(["lake", "env", "lean", path], cwd=LEAN, timeout=1200)
    thms = []
    for m in re.finditer(r"AUDIT (\S+) :: \[(.*?)\]", out, flags=re.S):
        axs = [a.strip() for a in m.group(2).replace("\n", " ").split(",") if a.strip()]
        # auto-generated theorems of inductive types / definitions (injectivity, sizeOf, equation lemmas)
        # are kernel-checked but are not proof obligations of the property: do not count them
        if re.search(r"\.(injEq|inj|sizeOf_spec|eq_\d+|eq_def|congr_simp|match_\d+\S*|proof_\d+|ext|ext_iff)$", m.group(1)):
            continue
        thms.append((m.group(1), axs))
    if rc != 0 or "AUDIT-ERR" in out:
        return None, out
    return thms, out


# ---------------------------------------------------------------- go harness

def overlay_for(driver_cfg, pid):
    """Overlay JSON injecting hooks + vh + this driver package into /repo's module."""
    repl = {}
    hdir = os.path.join(ROOT, "harness")
    for shared in ("vh", "e2e"):
        for f in sorted(os.listdir(os.path.join(hdir, shared))):
            if f.endswith(".go"):
                repl[os.path.join(REPO, "internal/verifharness", shared, f)] = os.path.join(hdir, shared, f)
    ddir = os.path.join(hdir, "drivers", driver_cfg["pkg"])
    for f in sorted(os.listdir(ddir)):
        if f.endswith(".go"):
            repl[os.path.join(REPO, "internal/verifharness", driver_cfg["pkg"], f)] = os.path.join(ddir, f)
    for hk in driver_cfg.get("hooks", []):
        repl[os.path.join(REPO, hk)] = os.path.join(hdir, "hooks", hk)
    os.makedirs(WORK, exist_ok=True)
    path = os.path.join(WORK, f"overlay-{pid}-{driver_cfg['name']}.json")
    with open(path, "w") as f:
        json.dump({"Replace": repl}, f, indent=1)
    return path


def build_driver(driver_cfg, pid):
    ov = overlay_for(driver_cfg, pid)
    os.makedirs(BIN, exist_ok=True)
    out_bin = os.path.join(BIN, f"{pid}-{driver_cfg['name']}.test")
    if os.path.exists(out_bin):
        os.remove(out_bin)   # never run a stale binary
    pkg = f"{MODPATH}/internal/verifharness/{driver_cfg['pkg']}"
    rc, out, dt = run([GO, "test", "-c", "-vet=off", "-tags", "verif", "-overlay", ov, "-o", out_bin, pkg],
                      cwd=REPO, env=GOENV, timeout=1800)
    return (rc == 0 and os.path.exists(out_bin)), out, out_bin, dt


def run_driver(binpath, mode, outpath, seed=1, cases=100, maxops=100, inpath=None, tier="quick", timeout=3000, extra_env=None):
    env = dict(GOENV, VH_MODE=mode, VH_OUT=outpath, VH_SEED=str(seed), VH_CASES=str(cases),
               VH_MAXOPS=str(maxops), VH_TIER=tier, GOMEMLIMIT="8GiB")
    if inpath:
        env["VH_IN"] = inpath
    if extra_env:
        env.update(extra_env)
    rc, out, dt = run_watched([binpath, "-test.run", "^TestDriver$", "-test.count=1", "-test.timeout", "0"],
                              cwd=WORK, env=env, timeout=timeout)
    return rc == 0, out, dt


def run_oracle(oracle, opspath, timeout=3000):
    exe = os.path.join(LEAN, ".lake", "build", "bin", oracle)
    with open(opspath) as f:
        rc, out, dt = run_watched([exe], stdin=f, timeout=timeout)
    return rc == 0, out, dt


def parse_oracle(out):
    res = {"diffs": [], "mons": [], "cases": {}, "stat": {}}
    for l in out.splitlines():
        if l.startswith("DIFF "):
            m = re.match(r"DIFF case=(\S+) line=(\d+) op=(.*?) impl=(.*?) model=(.*)$", l)
            if m:
                res["diffs"].append({"case": m.group(1), "line": int(m.group(2)), "op": m.group(3), "impl": m.group(4), "model": m.group(5)})
        elif l.startswith("MON "):
            m = re.match(r"MON case=(\S+) line=(\d+) name=(\S+) class=(\S+) detail=(.*)$", l)
            if m:
                res["mons"].append({"case": m.group(1), "line": int(m.group(2)), "name": m.group(3), "class": m.group(4), "detail": m.group(5)})
        elif l.startswith("CASE "):
            m = re.match(r"CASE (\S+) ops=(\d+) tags=(.*)$", l)
            if m:
                res["cases"][m.group(1)] = {"ops": int(m.group(2)), "tags": [t for t in m.group(3).split(",") if t]}
        elif l.startswith("STAT "):
            res["stat"] = dict(kv.split("=") for kv in l.split()[1:])
    return res


def split_cases(opspath):
    """-> list of (caseNo, headerLine, [lines])"""
    cases, cur = [], None
    for l in open(opspath, errors="replace"):
        l = l.rstrip("\n")
        if l.startswith("# case"):
            cur = (l.split()[2], l, [])
            cases.append(cur)
        elif cur is not None and l and not l.startswith("#"):
            cur[2].append(l)
    return cases


def write_case(path, header, lines, comments=()):
    with open(path, "w") as f:
        for c in comments:
            f.write("# " + c + "\n")
        f.write(header + "\n")
        for l in lines:
            f.write(l + "\n")


# ---------------------------------------------------------------- shrinking (ddmin over op lines)

def still_fails(binpath, oracle, header, lines, pred, tmpdir, tag):
    a = os.path.join(tmpdir, f"shr-{tag}-in.ops")
    b = os.path.join(tmpdir, f"shr-{tag}-out.ops")
    write_case(a, header, lines)
    ok, out, _ = run_driver(binpath, "replay", b, inpath=a, timeout=300)
    if not ok:
        return False, None
    ok, oout, _ = run_oracle(oracle, b, timeout=300)
    if not ok:
        return False, None
    po = parse_oracle(oout)
    return pred(po), b


def ddmin(binpath, oracle, header, lines, pred, tmpdir, tag, budget=150, deadline=None):
    """ddmin over op lines; stops after `budget` candidate runs or at wall-clock `deadline` (time.time())."""
    ops = [l.split(" => ")[0] for l in lines]
    n = 2
    iters = 0
    best_out = None
    while len(ops) >= 2 and iters < budget and not (deadline and time.time() > deadline):
        chunk = max(1, len(ops) // n)
        reduced = False
        for i in range(0, len(ops), chunk):
            cand = ops[:i] + ops[i + chunk:]
            iters += 1
            f, outp = still_fails(binpath, oracle, header, cand, pred, tmpdir, tag)
            if f:
                ops = cand
                best_out = outp
                n = max(n - 1, 2)
                reduced = True
                break
            if iters >= budget or (deadline and time.time() > deadline):
                break
        if not reduced:
            if chunk == 1:
                break
            n = min(len(ops), n * 2)
    # final: re-run to get lines with results
    f, outp = still_fails(binpath, oracle, header, ops, pred, tmpdir, tag)
    if f and outp:
        cs = split_cases(outp)
        if cs:
            return cs[0][2]
    return lines


# ---------------------------------------------------------------- known findings

def load_known():
    p = os.path.join(ROOT, "known_findings.json")
    if not os.path.exists(p):
        return []
    return [k for k in json.load(open(p)).get("findings", [])]


def match_known(known, pid, mon):
    for k in known:
        if k["property"] == pid and k.get("monitor") == mon["name"] and k.get("class") == mon["class"] and mon["class"] != "-":
            return k
    return None


# ---------------------------------------------------------------- the check

def load_cfg(pid):
    """checks/<pid>.json, plus cross-cutting additions checks/_extra/<pid>.*.json (props_modules / required_theorems /
    level_text_add / level_note_add are appended), so that work spanning several properties does not edit their files."""
    cfg = json.load(open(os.path.join(ROOT, "checks", pid + ".json")))
    xd = os.path.join(ROOT, "checks", "_extra")
    if os.path.isdir(xd):
        for f in sorted(os.listdir(xd)):
            if f.startswith(pid + ".") and f.endswith(".json"):
                x = json.load(open(os.path.join(xd, f)))
                for k in ("props_modules", "required_theorems"):
                    cfg[k] = list(cfg.get(k, [])) + [m for m in x.get(k, []) if m not in cfg.get(k, [])]
                m = cfg.setdefault("manifest", {})
                if x.get("level_text_add"):
                    m["level_text"] = m.get("level_text", "").rstrip() + " " + x["level_text_add"].strip()
                if x.get("level_note_add"):
                    m["level_note"] = m.get("level_note", "").rstrip() + " " + x["level_note_add"].strip()
    return cfg


def check_property(pid, tier, seed, replay=None):
    t0 = time.time()
    cfg = load_cfg(pid)
    known = load_known()
    rundir = os.path.join(WORK, "run", pid)
    shutil.rmtree(rundir, ignore_errors=True)
    os.makedirs(rundir, exist_ok=True)
    os.makedirs(os.path.join(ROOT, "replays"), exist_ok=True)
    os.makedirs(os.path.join(ROOT, "evidence"), exist_ok=True)
    mods = cfg["props_modules"]
    problems = []          # (kind, text)   kind in proof|corr
    violations = []        # dicts with replay path
    known_hits = {}
    ev = {"drivers": {}, "theorems": [], "tags": {}}

    # -- 1/2: facts + lean (serialised: lake and the Generated directory are shared)
    with Lock("lean.lock"):
        facts_ok, facts_out, facts_sha = stage_facts()
        oracles = sorted({d["oracle"] for d in cfg["drivers"]})
        if not facts_ok:
            # An extractor that fails writes the error into its own Generated module (the Lean build of everything
            # importing it then fails).  Only properties whose proofs or oracles import such a module are affected;
            # a fact lost for another property's extractor is not this property's alarm.
            failed = set(re.findall(r"^gofacts: (\w+): ", facts_out, flags=re.M))
            closure = set(props_sources(list(mods) + [oracle_root(o) for o in oracles]))
            mine = sorted(f for f in failed if "Uquic.Generated." + f in closure)
            if mine or not failed:
                problems.append(("proof", "gofacts could not extract a fact the proofs depend on (%s):\n%s" % (",".join(mine) or "?", facts_out[-2000:])))
            else:
                log("gofacts: extractor(s) %s failed, not imported by %s: ignored here" % (",".join(sorted(failed)), pid))
        ok_or, out_or, dt_or = lake_build(oracles)
        if not ok_or:
            problems.append(("corr", "oracle build failed (model no longer compiles against regenerated facts):\n" + "\n".join(lean_errors(out_or))))
        ok_pr, out_pr, dt_pr = lake_build(mods)
        thms = None
        if not ok_pr:
            problems.append(("proof", "Lean build of %s failed:\n%s" % (",".join(mods), "\n".join(lean_errors(out_pr)))))
        else:
            thms, aout = audit(mods, pid)
            if thms is None:
                problems.append(("proof", "audit failed:\n" + aout[-2000:]))
        forb = grep_forbidden(mods)
        if forb:
            problems.append(("proof", "forbidden constructs in proof sources: " + "; ".join(forb)))
        leanchecker_note = None
        if tier == "thorough" and ok_pr:
            for m in mods:
                rc, lo, dtc = run(["lake", "env", "leanchecker", m], cwd=LEAN, timeout=3000)
                leanchecker_note = f"leanchecker {m}: rc={rc} {dtc:.0f}s"
                if rc != 0:
                    problems.append(("proof", f"leanchecker rejected {m}:\n{lo[-1500:]}"))
    obligations = discharged = 0
    if thms is not None:
        for name, axs in thms:
            obligations += 1
            bad = [a for a in axs if a not in ALLOWED_AXIOMS]
            ev["theorems"].append({"name": name, "axioms": axs})
            if bad:
                problems.append(("proof", f"theorem {name} depends on non-standard axioms {bad}"))
            else:
                discharged += 1
        expected = cfg.get("required_theorems", [])
        names = {n for n, _ in thms}
        for e in expected:
            if e not in names:
                obligations += 1
                problems.append(("proof", f"required theorem {e} is missing from {mods}"))
    log(f"{pid}: lean oracles {dt_or:.0f}s props {dt_pr:.0f}s theorems={obligations} discharged={discharged}")

    # -- 3/4: harness
    total_eval = 0
    distinct = set()
    samples = []
    tags_hist = {}
    corr_lines = 0
    all_diffs, all_mons = [], []
    min_tags = cfg.get("nontrivial_min_tags", 2)
    for d in cfg["drivers"]:
        dn = d["name"]
        dev = {"cases": 0, "lines": 0, "diffs": 0, "monitor_failures": 0}
        ev["drivers"][dn] = dev
        okb, outb, binpath, dtb = build_driver(d, pid)
        if not okb:
            problems.append(("corr", f"harness driver {dn} does not compile against /repo's working tree:\n" + outb[-3000:]))
            continue
        if not ok_or:
            continue
        sizes = d.get(tier, d.get("quick", {"cases": 100, "maxops": 100}))
        inputs = []   # (label, opsfile)
        # corpus first
        cdir = os.path.join(ROOT, "corpus", pid, dn)
        if os.path.isdir(cdir):
            for f in sorted(os.listdir(cdir)):
                if f.endswith(".ops"):
                    o = os.path.join(rundir, f"{dn}-corpus-{f}")
                    okr, outr, _ = run_driver(binpath, "replay", o, inpath=os.path.join(cdir, f), tier=tier)
                    if not okr:
                        problems.append(("corr", f"driver {dn} crashed replaying corpus {f}:\n" + outr[-2000:]))
                    else:
                        inputs.append((f"corpus:{f}", o))
        if replay is None:
            o = os.path.join(rundir, f"{dn}-gen.ops")
            okr, outr, dtg = run_driver(binpath, "gen", o, seed=seed, cases=sizes["cases"], maxops=sizes["maxops"], tier=tier,
                                        extra_env=d.get("env"))
            if not okr:
                problems.append(("corr", f"driver {dn} crashed while generating (a panic or fatal error escaped the per-op trap):\n" + outr[-3000:]))
            if os.path.exists(o) and os.path.getsize(o) > 0:
                inputs.append(("gen", o))
            log(f"{pid}/{dn}: built {dtb:.0f}s generated {dtg:.0f}s")
        else:
            if replay_driver_name(replay) in (dn, None):
                o = os.path.join(rundir, f"{dn}-replay.ops")
                okr, outr, _ = run_driver(binpath, "replay", o, inpath=replay, tier=tier)
                if okr:
                    inputs.append(("replay", o))
                else:
                    problems.append(("corr", f"driver {dn} crashed on replay:\n" + outr[-2000:]))
        for label, opsfile in inputs:
            oko, oout, dto = run_oracle(d["oracle"], opsfile)
            if not oko:
                problems.append(("corr", f"oracle {d['oracle']} crashed on {label}:\n" + oout[-1500:]))
                continue
            po = parse_oracle(oout)
            cases = split_cases(opsfile)
            bycase = {c[0]: c for c in cases}
            dev["cases"] += len(cases)
            nlines = sum(len(c[2]) for c in cases)
            dev["lines"] += nlines
            total_eval += nlines
            corr_lines += nlines
            for cn, hdr, lines in cases:
                ci = po["cases"].get(cn, {"tags": []})
                for tg in ci["tags"]:
                    tags_hist[tg] = tags_hist.get(tg, 0) + 1
                if len(ci["tags"]) >= min_tags:
                    distinct.add(hashlib.sha1("\n".join(l.split(" => ")[0] for l in lines).encode()).hexdigest())
            if cases and len(samples) < 3:
                c = cases[min(len(cases) - 1, 1)]
                samples.append({"driver": dn, "source": label, "ops": c[2][:12]})
            if replay is not None:
                print(f"--- replay on driver {dn}: implementation vs model")
                for cn, hdr, lines in cases:
                    for l in lines:
                        print("   ", l)
                for x in po["diffs"]:
                    print("    DIFF", x)
                for x in po["mons"]:
                    print("    MONITOR-FAIL", x)
            # diffs
            for df in po["diffs"]:
                dev["diffs"] += 1
                df["driver"] = dn
                df["_case"] = bycase.get(df["case"])
                df["_bin"], df["_oracle"] = binpath, d["oracle"]
                all_diffs.append(df)
            for mn in po["mons"]:
                dev["monitor_failures"] += 1
                mn["driver"] = dn
                mn["_case"] = bycase.get(mn["case"])
                mn["_bin"], mn["_oracle"] = binpath, d["oracle"]
                all_mons.append(mn)

    # -- 5: verdict
    # C: monitor failures on the real code
    seen_viol = set()
    # shrinking is capped: per driver ("shrink": false / "shrink_budget": n in checks/Cxx.json) and per run
    # (all ddmin passes of one check share VERIF_SHRINK_S seconds, default 90); what is not shrunk is still
    # written as a replay, cut at the failing line
    drv_cfg = {d["name"]: d for d in cfg["drivers"]}
    shrink_deadline = time.time() + float(os.environ.get("VERIF_SHRINK_S", cfg.get("shrink_total_s", 90)))
    for mn in all_mons:
        k = match_known(known, pid, mn)
        if k:
            known_hits.setdefault(k["id"], k)
            continue
        key = (mn["driver"], mn["name"], mn["class"])
        if key in seen_viol:
            continue
        seen_viol.add(key)
        cn, hdr, lines = mn["_case"] if mn["_case"] else ("?", "# case ? seed 0 driver " + mn["driver"], [])
        name, cls = mn["name"], mn["class"]
        pred = lambda po, name=name, cls=cls: any(m["name"] == name and m["class"] == cls for m in po["mons"])
        lines = lines[:mn["line"]] if mn["line"] > 0 else lines
        dc = drv_cfg.get(mn["driver"], {})
        if dc.get("ops_independent") and lines:
            lines = lines[-1:]      # every op line is a self-contained scenario: the failing line is the replay
        if replay is None and lines and dc.get("shrink", True) and time.time() < shrink_deadline:
            lines = ddmin(mn["_bin"], mn["_oracle"], hdr, lines, pred, rundir, "mon",
                          budget=dc.get("shrink_budget", 150), deadline=shrink_deadline)
        rp = os.path.join(ROOT, "replays", f"{pid}-{seed}-{mn['driver']}-{name}.ops")
        write_case(rp, hdr, lines, comments=[f"property {pid}: monitor {name} (class {cls}) failed on the implementation's behaviour",
                                              f"detail: {mn['detail']}", f"replay: ./check {pid} --replay {os.path.relpath(rp, ROOT)}"])
        violations.append({"replay": rp, "nfi": False, "why": f"monitor {name}: {mn['detail']}"})
    # B: correspondence broken
    if all_diffs and not violations:
        df = all_diffs[0]
        cn, hdr, lines = df["_case"] if df["_case"] else ("?", "# case ? seed 0 driver " + df["driver"], [])
        lines = lines[:df["line"]]
        dc = drv_cfg.get(df["driver"], {})
        if replay is None and lines and dc.get("shrink", True) and time.time() < shrink_deadline:
            lines = ddmin(df["_bin"], df["_oracle"], hdr, lines, lambda po: len(po["diffs"]) > 0, rundir, "diff",
                          budget=dc.get("shrink_budget", 150), deadline=shrink_deadline)
        rp = os.path.join(ROOT, "replays", f"{pid}-{seed}-{df['driver']}-corr.ops")
        write_case(rp, hdr, lines, comments=[f"property {pid}: correspondence broken in driver {df['driver']}: model and implementation disagree",
                                              f"op: {df['op']}", f"impl: {df['impl']}", f"model: {df['model']}",
                                              f"{len(all_diffs)} diverging cases in this run; no property monitor failed on any generated history",
                                              f"replay: ./check {pid} --replay {os.path.relpath(rp, ROOT)}"])
        violations.append({"replay": rp, "nfi": True, "why": f"correspondence {df['driver']}: op `{df['op']}` impl `{df['impl']}` model `{df['model']}`"})
    # A / build problems without a concrete failing input
    if problems and not violations:
        kind, text = problems[0]
        rp = os.path.join(ROOT, "replays", f"{pid}-{seed}-{kind}.txt")
        with open(rp, "w") as f:
            f.write(f"# property {pid}: {'proof obligation' if kind == 'proof' else 'correspondence'} no longer checks\n")
            for k2, t2 in problems:
                f.write(f"## {k2}\n{t2}\n")
            f.write("# the generators ran with all monitors on and found no failing input\n")
        violations.append({"replay": rp, "nfi": True, "why": text.splitlines()[0]})
    elif problems:
        for k2, t2 in problems:
            log(f"{pid}: also: {k2}: {t2.splitlines()[0]}")

    # -- evidence
    wall = time.time() - t0
    evidence = {
        "property_id": pid, "tier": tier, "seed": seed, "level": "proof",
        "coverage": {
            "obligations": obligations, "discharged": discharged,
            "checker_cmd": "cd lean && lake build " + " ".join(mods) + " && lake env lean .work/audit/%s.lean  # #print-axioms audit of every theorem" % pid
                           + (" && lake env leanchecker " + " ".join(mods) if tier == "thorough" else ""),
            "trusted_base": cfg.get("trusted_base", []),
            "evaluations": total_eval, "distinct_nontrivial": len(distinct),
            "rule": cfg.get("rule", "") + f" A case counts as non-trivial when the model reports at least {min_tags} distinct branch tags for it; distinct = distinct op sequences (sha1).",
            "samples": samples,
            "theorems": ev["theorems"],
            "corr_lines_compared": corr_lines, "corr_diffs": len(all_diffs),
            "monitor_failures": len(all_mons),
            "known_findings_reproduced": sorted(known_hits.keys()),
            "branch_tag_histogram": dict(sorted(tags_hist.items())),
            "drivers": ev["drivers"],
            "generated_facts_sha": facts_sha, "repo_tree_sha": repo_hash()[:16],
            "problems": [f"{k}: {t.splitlines()[0]}" for k, t in problems],
            "leanchecker": leanchecker_note,
        },
        "assumptions": cfg.get("assumptions", []),
        "wall_s": round(wall, 2),
        "violations": len(violations),
    }
    if replay is None:
        # evidence/ describes runs against /repo itself; a run against a private copy (VERIF_REPO, used for
        # mutation and seed tests) must never overwrite it
        evdir = os.path.join(ROOT, "evidence") if os.path.realpath(REPO) == "/repo" else os.path.join(WORK, "evidence-alt")
        os.makedirs(evdir, exist_ok=True)
        with open(os.path.join(evdir, pid + ".json"), "w") as f:
            json.dump(evidence, f, indent=1)
    for k in known_hits.values():
        print(f"KNOWN-FINDING: property={pid} {k['what']}")
    for v in violations:
        log(f"{pid}: {v['why']}")
        print(f"VIOLATION property={pid} replay={os.path.relpath(v['replay'], ROOT)}" + (" no-failing-input-found" if v["nfi"] else ""))
    if not violations:
        print(f"OK property={pid} tier={tier} seed={seed} theorems={discharged}/{obligations} ops={total_eval} distinct_nontrivial={len(distinct)} wall={wall:.0f}s")
    return 1 if violations else 0


def replay_driver_name(path):
    for l in open(path, errors="replace"):
        if l.startswith("# case"):
            f = l.split()
            if "driver" in f:
                return f[f.index("driver") + 1]
    return None


def setup():
    os.makedirs(WORK, exist_ok=True)
    with Lock("lean.lock"):
        ok, out, _ = stage_facts()
        print("facts:", "ok" if ok else "FAILED\n" + out)
        cfgs = [json.load(open(os.path.join(ROOT, "checks", f))) for f in sorted(os.listdir(os.path.join(ROOT, "checks"))) if f.endswith(".json")]
        targets = sorted({m for c in cfgs for m in c["props_modules"]} | {d["oracle"] for c in cfgs for d in c["drivers"]})
        ok2, out2, dt = lake_build(targets)
        print(f"lake build {len(targets)} targets: {'ok' if ok2 else 'FAILED'} in {dt:.0f}s")
        if not ok2:
            print("\n".join(lean_errors(out2)))
    # warm the Go build cache
    rc, out, dt = run([GO, "build", "./..."], cwd=REPO, env=GOENV)
    print(f"go build ./...: rc={rc} {dt:.0f}s")
    for c in cfgs:
        for d in c["drivers"]:
            okb, outb, _, dtb = build_driver(d, c["property"])
            print(f"driver {c['property']}/{d['name']}: {'ok' if okb else 'FAILED'} {dtb:.0f}s")
            if not okb:
                print(outb[-1500:])
    return 0


def main(argv):
    ap = argparse.ArgumentParser()
    ap.add_argument("property", nargs="?")
    ap.add_argument("--tier", default=os.environ.get("VERIF_TIER", "quick"), choices=["quick", "thorough"])
    ap.add_argument("--replay")
    ap.add_argument("--setup", action="store_true")
    a = ap.parse_args(argv)
    if a.setup:
        return setup()
    if not a.property:
        ap.error("property id required")
    try:
        seed = int(os.environ.get("VERIF_SEED", "1"))
    except ValueError:
        seed = 1
    rp = os.path.abspath(a.replay) if a.replay else None
    # One check at a time per /verif tree: lean/Uquic/Generated and the compiled oracles are shared state that is
    # regenerated from whatever repository the running check points at (VERIF_REPO), so two interleaved checks
    # could run an oracle built against the other's facts.
    with Lock("check.lock"):
        return _main_locked(a, seed, rp)


def _main_locked(a, seed, rp):
    if rp and rp.endswith(".txt"):
        # a proof / build problem report: there is no history to re-run; show it and re-check the proofs
        print(open(rp, errors="replace").read())
        rp = None
    return check_property(a.property, a.tier, seed, replay=rp)
