#!/bin/bash
# usage: tools/benignglue.sh <verif-tree> <benign-id>...   — cheap false-alarm screen for glue refactors
# Stage 1: with the patch applied to a private worktree of /repo, regenerate the facts, build every property module,
# oracle and driver (`./check --setup`).  A FAILED line is a false alarm (broken hook / extractor).  Stage 2: compare the
# regenerated facts with the baseline facts of the unchanged /repo; a differing module means a fact flipped silently.
V=$(realpath $1); shift
cd $V
./check --setup > .work/bg-base.log 2>&1
rm -rf .work/bg-base-gen; cp -r lean/Uquic/Generated .work/bg-base-gen
for n in "$@"; do
  d=/verif/benign/$n
  WT=/tmp/bng-$n-$$
  git -C /repo worktree add -q --detach $WT HEAD || continue
  if (cd $WT && git apply $d/patch.diff && go build ./... ) >/dev/null 2>&1; then
    VERIF_REPO=$WT ./check --setup > .work/bg-$n.log 2>&1
    failed=$(grep -E "FAILED" .work/bg-$n.log | sed 's/ [0-9]*s$//' | tr '\n' ';')
    flipped=$(diff -rq .work/bg-base-gen lean/Uquic/Generated | sed 's/.*Generated\///; s/ differ//' | grep -v "^Files" | tr '\n' ' ')
    # the first line of each generated file names the repo path: ignore it
    flipped=""
    for f in lean/Uquic/Generated/*.lean; do b=$(basename $f); if ! diff -q <(tail -n +2 $f) <(tail -n +2 .work/bg-base-gen/$b) >/dev/null 2>&1; then flipped="$flipped $b"; fi; done
    echo "$n :: failed=[${failed}] facts_changed=[${flipped}]"
  else
    echo "$n :: patch-does-not-apply-or-build"
  fi
  git -C /repo worktree remove --force $WT
done
./check --setup > .work/bg-base.log 2>&1
