#!/bin/bash
# tools/merge4.sh <Cxx> [branch]: merge a round-4 builder branch under the check lock, regenerate lakefile + manifest, run the
# quick check on /repo, re-check the property's round-3 seeds and its benign refactors, commit.
# refuse to start with uncommitted tracked changes (git merge would refuse or, worse, mix them into the merge commit)
if [ -n "$(git -C "$(dirname "$0")/.." status --porcelain --untracked-files=no)" ]; then git -C "$(dirname "$0")/.." add -A; git -C "$(dirname "$0")/.." commit -qm "wip before merge"; fi
set -u
cd "$(dirname "$0")/.."
pid=$1; br=${2:-wt-$pid}
flock .work/check.lock bash -c "set -o pipefail; git merge --no-edit $br 2>&1 | tail -3 && python3 tools/mklake.py && python3 tools/mkmanifest.py" || { echo "MERGE FAILED"; git merge --abort 2>/dev/null; exit 2; }
if git grep -q -E "^(<<<<<<<|>>>>>>>) " -- lean harness gofacts lib tools checks; then echo "CONFLICT MARKERS COMMITTED - repair by hand"; exit 3; fi
./check "$pid" > .work/merge4-$pid.log 2>&1; rc=$?
grep -E "^(OK|VIOLATION)" .work/merge4-$pid.log
echo "check rc=$rc"
python3 tools/seedrecheck.py seeded/$pid-r3s* seeded/$pid-r4s* 2>&1 | grep -- "->"
mkdir -p .work/bsel-$pid; rm -rf .work/bsel-$pid/*; for d in benign/$pid-*; do [ -d $d ] && cp -r $d .work/bsel-$pid/; done
tools/benigntest.sh . .work/bsel-$pid
./check "$pid" > .work/merge4-$pid.log 2>&1; grep -E "^(OK|VIOLATION)" .work/merge4-$pid.log
git add -A; git commit -qm "merge $pid round 5; seeds (r3s, r4s) and benign refactors rechecked"; echo committed
