#!/bin/bash
# tools/merge4.sh <Cxx> [branch]: merge a round-4 builder branch under the check lock, regenerate lakefile + manifest, run the
# quick check on /repo, re-check the property's round-3 seeds and its benign refactors, commit.
set -u
cd "$(dirname "$0")/.."
pid=$1; br=${2:-wt-$pid}
flock .work/check.lock bash -c "git merge --no-edit $br 2>&1 | tail -2 && python3 tools/mklake.py && python3 tools/mkmanifest.py" || { echo "MERGE FAILED"; exit 2; }
./check "$pid" > .work/merge4-$pid.log 2>&1; rc=$?
grep -E "^(OK|VIOLATION)" .work/merge4-$pid.log
echo "check rc=$rc"
python3 tools/seedrecheck.py seeded/$pid-r3s* 2>&1 | grep -- "->"
mkdir -p .work/bsel-$pid; rm -rf .work/bsel-$pid/*; for d in benign/$pid-*; do [ -d $d ] && cp -r $d .work/bsel-$pid/; done
tools/benigntest.sh . .work/bsel-$pid
./check "$pid" > .work/merge4-$pid.log 2>&1; grep -E "^(OK|VIOLATION)" .work/merge4-$pid.log
git add -A; git commit -qm "merge $pid round 4; seeds and benign refactors rechecked"; echo committed
