#!/bin/bash
# usage: tools/seedbatch.sh <slugprefix> <srcprefix> Cxx...   e.g. tools/seedbatch.sh r2s /tmp/seed2- C18 C20
cd "$(dirname "$0")/.."
SLUG=$1; SRC=$2; shift 2
for p in "$@"; do
  for i in 1 2 3; do
    [ -d $SRC$p/out/$i ] || continue
    python3 tools/seedkeep.py $p $SRC$p/out/$i $SLUG$i > .work/seedkeep-$p-$i.log 2>&1
    tail -1 .work/seedkeep-$p-$i.log | cut -c1-60
  done
done
