#!/bin/bash
# usage: tools/seedtest.sh <Cxx> <seed-dir containing patch.diff, *_test.go, meta.json> [more properties to check...]
# Verifies a seeded change in a private worktree of /repo (never touches /repo's working tree):
#  1. existing tests of the touched packages pass with the patch
#  2. the demonstration fails with the patch and passes without it
#  3. runs ./check <Cxx> against the patched copy and reports whether it raises a VIOLATION
set -u
P=$1; D=$(realpath $2); shift 2
WT=/tmp/sv-$P-$$
git -C /repo worktree add -q --detach $WT HEAD || exit 2
trap "git -C /repo worktree remove --force $WT >/dev/null 2>&1" EXIT
cd $WT
PKGS=$(python3 -c "import json;print(' '.join('./'+p.replace('github.com/refraction-networking/uquic/','').replace('github.com/refraction-networking/uquic','.').lstrip('./') if p not in ('.','') else '.' for p in json.load(open('$D/meta.json'))['touched_packages']))" 2>/dev/null)
[ -z "$PKGS" ] && PKGS=$(grep '^+++ b/' $D/patch.diff | sed 's|^+++ b/||' | xargs -n1 dirname | sort -u | sed 's|^|./|')
echo "packages: $PKGS"
git apply $D/patch.diff || { echo "RESULT patch-does-not-apply"; exit 2; }
go build ./... || { echo "RESULT does-not-compile"; exit 2; }
EX=pass; for p in $PKGS; do go test -count=1 -vet=off $p >/tmp/sv-$$.log 2>&1 || { EX=fail; tail -5 /tmp/sv-$$.log; }; done
echo "existing tests with patch: $EX"
DEMO=$(ls $D/*_test.go | head -1); DP=$(echo $PKGS | awk '{print $1}')
[ -f "$D/demo_pkg" ] && DP=$(cat $D/demo_pkg)
cp $DEMO $DP/
go test -count=1 -vet=off -run "$(grep -o 'func Test[A-Za-z0-9_]*' $DEMO | sed 's/func //' | paste -sd'|')" $DP >/tmp/sv-$$.log 2>&1 && DW=pass || DW=fail
echo "demo with patch: $DW"
rm -f $DP/$(basename $DEMO)
for pid in $P "$@"; do
  (cd /verif && VERIF_REPO=$WT ./check $pid 2>&1 | grep -E "^(VIOLATION|OK|KNOWN)" | head -5 | sed "s/^/check $pid: /")
done
git checkout -q -- . ; cp $DEMO $DP/
go test -count=1 -vet=off -run "$(grep -o 'func Test[A-Za-z0-9_]*' $DEMO | sed 's/func //' | paste -sd'|')" $DP >/tmp/sv-$$.log 2>&1 && DN=pass || DN=fail
echo "demo without patch: $DN"
rm -f /tmp/sv-$$.log
echo "RESULT existing=$EX demo_with=$DW demo_without=$DN"
