#!/bin/bash
# tools/mergeb.sh <branch> <Cxx> [seed dirs...]: merge a builder branch, regenerate lakefile + manifest,
# run the property's quick check on /repo, re-check the given kept seeds, and report.
set -u
cd "$(dirname "$0")/.."
br=$1; pid=$2; shift 2
git merge --no-edit "$br" || { echo "MERGE CONFLICT"; git status --short | grep -v '^??' | head; exit 2; }
python3 tools/mklake.py && python3 tools/mkmanifest.py
./check "$pid" > .work/mergeb-$pid.log 2>&1; rc=$?
tail -3 .work/mergeb-$pid.log
echo "check rc=$rc"
if [ $# -gt 0 ]; then python3 tools/seedrecheck.py "$@" 2>&1 | tail -$(( $# * 2 + 2 )); fi
git status --short | grep -v '^??' | head
