#!/usr/bin/env python3
"""usage: tools/benignresults.py first|now <log>...  — record the verdict lines (`<id> :: <verdict>`) printed by
tools/benigntest.sh / tools/benignglue.sh in benign/results.json (key `first`: at first measurement, `now`: latest)."""
import json, os, re, sys
ROOT = os.path.dirname(os.path.dirname(os.path.abspath(__file__)))
p = os.path.join(ROOT, "benign", "results.json")
r = json.load(open(p)) if os.path.exists(p) else {}
key = sys.argv[1]
for f in sys.argv[2:]:
    for l in open(f, errors="replace"):
        m = re.match(r"^((?:C\d\d|G[A-E])-\d+) :: (.*)$", l.strip())
        if not m:
            continue
        v = re.sub(r" theorems=.*", "", m.group(2)).strip()
        e = r.setdefault(m.group(1), {})
        if key == "first" and "first" in e:
            continue
        e[key] = v
json.dump(r, open(p, "w"), indent=1, sort_keys=True)
print(len(r), "entries")
