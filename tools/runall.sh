#!/bin/bash
# usage: tools/runall.sh [tier] [seed] — run every claimed check once, print a one-line verdict each
cd "$(dirname "$0")/.."
TIER=${1:-quick}; export VERIF_SEED=${2:-1}
for f in checks/C*.json; do
  p=$(basename $f .json)
  s=$(date +%s)
  out=$(./check $p --tier $TIER 2>&1)
  v=$(echo "$out" | grep -E "^(OK|VIOLATION)" | head -3 | cut -c1-150 | tr '\n' ' ')
  k=$(echo "$out" | grep -c "^KNOWN-FINDING")
  echo "$p $(( $(date +%s) - s ))s known=$k :: $v"
done
