#!/usr/bin/env python3
"""usage: tools/mkseedtask.py <Cxx> <worktree> <round> — write TASK.md (instructions for an independent bug seeder)
into a scratch worktree of /repo. Nothing of /verif's machinery is disclosed: only the property text, its anchor
files, and the one-line summaries of seeds that already exist (to avoid duplicates)."""
import json, os, sys
ROOT = os.path.dirname(os.path.dirname(os.path.abspath(__file__)))
pid, wt, rnd = sys.argv[1], sys.argv[2], sys.argv[3]
prop = [json.loads(l) for l in open(os.path.join(ROOT, "properties.jsonl")) if json.loads(l)["id"] == pid][0]
prev = json.load(open(os.path.join(ROOT, ".work", "round1-seeds.json"))).get(pid, [])
root_pkg = any("/" not in f for f in prop["anchors"]["files"])
R4TXT = """
Round-4 emphasis: three earlier rounds seeded the spots listed above. Produce TWO changes (not three; out/1 and out/2).
Go where they did not: (a) code the property DEPENDS ON but that is not in its anchor list — shared helpers in
internal/utils (rtt_stats, ringbuffer, linkedlist), internal/protocol (packet number / stream id / version arithmetic),
internal/qerr, internal/monotime, buffer_pool.go, send_queue.go, sys_conn / send_conn, mtu_discoverer.go, qlog hooks that
feed back into behaviour, config.go populateConfig/validateConfig, transport parameter (un)marshalling — a slip THERE
that breaks THIS property; or (b) an ERROR PATH / cleanup path of the anchored code (what happens after a failed write, a
rejected frame, a cancelled context, a closed stream) that leaves state behind which breaks the property on the NEXT
operation; or (c) state carried across a reset / restart / reuse (0-RTT rejection, Retry, version negotiation re-dial,
reused transport, pooled objects reused without reset). Still: compiles, existing tests pass, needs something specific."""
R3 = R4TXT if rnd == "4" else "" if rnd != "3" else """
Round-3 emphasis: two earlier rounds already seeded the obvious spots (the list above). Look for SUBTLER breakage:
at least one of your three changes should consist of TWO cooperating edits in different functions/files that each look
harmless alone; at least one should only manifest under a particular interleaving, timing (timer/deadline ordering) or a
fault at a particular point (loss/duplication/reordering of one specific packet, an error return from one specific
call); prefer rarely-taken branches (error paths, version 2, 0-RTT, retry, key update, path migration, zero-length
connection IDs, boundary sizes, wrap-around values) that the property nevertheless quantifies over."""
t = f"""# TASK for an independent "bug seeder" — property {pid}, round {rnd}

You are a careful Go engineer acting as a bug seeder for a robustness study. Work ONLY inside this scratch git worktree
`{wt}` (a checkout of github.com/refraction-networking/uquic, a QUIC/HTTP3 implementation). Do not look at or touch
/verif or /repo. There is no network (loopback UDP works). Never use `git stash` (shared between worktrees). Use the
default `go` on PATH.

## The property the repository is supposed to satisfy

"{prop['statement']}"

Quantifier: {prop['quantifier']['text']}

Code it is anchored in: {', '.join(prop['anchors']['files'])}
Mechanisms: {'; '.join(m['name'] + ' (' + m['where'] + ')' for m in prop['anchors']['mechanism'])}

## What "the existing tests pass" means here

{"In the ROOT package a full `go test .` aborts with a pre-existing panic in an unrelated test and many synctest-based tests fail or hang with the plain toolchain even on the unchanged tree. So: pick a `-run` regex that selects the existing tests relevant to the files you touch, record per-test outcomes on the UNCHANGED tree with `go test -count=1 -timeout 300s -v -run '<regex>' .` (save to out/baseline.txt), and require that every test that PASSES there still passes with your change. " if root_pkg else ""}For sub-packages (./internal/..., ./http3, ./quicvarint) the whole package's tests must pass
unedited: `go test -count=1 <pkg>` before and after.

## Your task

Produce {"TWO" if rnd == "4" else "THREE"} different, realistic code changes — each the kind of slip a maintainer could make in a refactor or
"optimisation" (an off-by-one, a wrong comparison, a dropped branch, a stale field, a wrong order of two statements, a
value read before it is updated, min/max or two neighbouring fields mixed up, a shallow copy, two cooperating edits that
each look fine alone) — each of which
1. BREAKS the property above (some part of it),
2. still COMPILES (`go build ./...`) and the existing tests (see above) still PASS unedited,
3. needs something SPECIFIC to manifest — a particular interleaving, a multi-step sequence of operations, an unusual
   input or boundary value, a fault at a particular point, or two cooperating sites — NOT something ordinary use would
   expose at once,
4. comes with a DEMONSTRATION: a new Go test file `seed_demo_test.go` in the touched package (standard library +
   testify + packages the repo already imports; it may use unexported identifiers and the package's own test
   helpers/mocks; avoid internal/synctest so that it runs with the plain toolchain; no flakiness: run it 5 times) that
   FAILS with your change applied and PASSES on the unchanged tree. Verify both directions yourself.

These seeds ALREADY EXIST — yours must be genuinely different from them (different function or different mechanism, and
prefer code locations not listed here, in particular CALLERS and glue code around the core data structure):
{chr(10).join('- ' + f + ': ' + s for f, s in prev) or '- (none)'}

Spread your three changes over different sentences of the property and different files where possible.
{R3}

## Output

For each change i (1..{"2" if rnd == "4" else "3"}) create `{wt}/out/i/` containing: `patch.diff` (`git diff` of the SOURCE change only, without
the demo test), the demo test file, and `meta.json` with keys "property": "{pid}", "summary" (one sentence), "needs"
(what specific input/sequence it takes to manifest), "touched_packages" (paths relative to the repo root, e.g. "." or
"./internal/wire"), "demo_run" (the -run regex for the demo test), "ran" (the commands you ran and their outcomes:
existing tests with the patch = pass, demo with the patch = fail, demo without the patch = pass). After writing each
out/i restore the worktree (`git checkout -- . && git clean -fd -e out -e TASK.md`). Finish with the worktree clean
except for out/ and TASK.md. Your final message: a 10-line summary of the three changes.
"""
open(os.path.join(wt, "TASK.md"), "w").write(t)
print("wrote", os.path.join(wt, "TASK.md"), len(t), "chars")
