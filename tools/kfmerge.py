#!/usr/bin/env python3
"""git merge driver for known_findings.json: union of findings (by property+id) and fixed (by property+commit).
usage (git config merge.kfunion.driver): python3 tools/kfmerge.py %O %A %B   — result is written to %A"""
import json, sys
base, ours, theirs = (json.load(open(p)) for p in sys.argv[1:4])
out = dict(ours)
def key_f(e): return (e.get("property"), e.get("id"), e.get("monitor"), e.get("class"))
def key_x(e): return (e.get("property"), e.get("commit"))
for field, key in (("findings", key_f), ("fixed", key_x)):
    seen = {}
    removed_by_theirs = {key(e) for e in base.get(field, [])} - {key(e) for e in theirs.get(field, [])}
    removed_by_ours = {key(e) for e in base.get(field, [])} - {key(e) for e in ours.get(field, [])}
    for e in ours.get(field, []) + theirs.get(field, []):
        k = key(e)
        if k in removed_by_theirs or k in removed_by_ours:
            continue
        # prefer the longer description
        if k not in seen or len(json.dumps(e)) > len(json.dumps(seen[k])):
            seen[k] = e
    out[field] = list(seen.values())
json.dump(out, open(sys.argv[2], "w"), indent=1)
