#!/usr/bin/env python3
"""usage: tools/mkbenigntask2.py <worktree> <label> <file:func,func;file:func...> — TASK.md for behaviour-preserving
refactors of GLUE functions (second benign round)."""
import os, sys
wt, label, spec = sys.argv[1], sys.argv[2], sys.argv[3]
items = []
for part in spec.split(";"):
    f, fns = part.split(":")
    items.append(f"- `{f}`: " + ", ".join(f"`{x}`" for x in fns.split(",")))
t = f"""# TASK — behaviour-preserving refactors of connection glue code (robustness study of a verification tool)

You are a careful Go engineer. Work ONLY inside this scratch git worktree `{wt}` (a checkout of
github.com/refraction-networking/uquic, a QUIC/HTTP3 implementation). Do not look at or touch /verif or /repo. No network.
Never use `git stash`. Never write to system paths (/dev/null etc. only as redirection targets). Use the default `go`.

A verification tool watches this repository. We want to know whether it raises FALSE alarms on harmless maintenance of
the code that wires the protocol cores together. Produce EIGHT different refactors, spread over the functions listed
below (each refactor touches one or two of them, 15–80 changed lines). Each must be

1. strictly BEHAVIOUR-PRESERVING for every input, state and schedule: same results, errors, wire bytes, same order of
   externally visible effects (frames queued, callbacks, qlog events, timer deadlines, map registrations), same
   constants, same locking. If you are not certain, do not use it.
2. REALISTIC: extract or inline a helper function/method, rename unexported identifiers (functions, struct fields,
   locals, constants), `switch` <-> `if/else`, flip an if/else, index loop <-> range, early returns, reorder INDEPENDENT
   statements or struct fields, split a long function, move a function to another file of the same package, literal <->
   named constant, `a <= b` as `!(a > b)`, hoist a common sub-expression, comments. Do NOT change exported API, exported
   struct fields, names of existing files, wire formats or error message texts.
3. compiles (`go build ./...`) and the existing tests of each touched package still pass (sub-packages: `go test -count=1
   <pkg>`; ROOT package: a full `go test .` aborts with a pre-existing panic and many tests need synctest, so pick a `-run`
   regex for the tests of the files you touch, record per-test results on the unchanged tree first (run tests
   individually if needed), and require that every test passing there still passes).

## Functions to refactor

{chr(10).join(items)}

## Output

For refactor i = 1..8 create `{wt}/out/{label}-i/` with `patch.diff` (`git diff`) and `meta.json` with keys "summary" (one
sentence: what, which functions), "kinds", "touched_packages", "why_preserving", "ran". After writing each, restore the
worktree (`git checkout -- . && git clean -fd -e out -e TASK.md`). Finish with a clean worktree except out/ and TASK.md.
Final message: one line per refactor.
"""
open(os.path.join(wt, "TASK.md"), "w").write(t)
print("wrote", wt)
