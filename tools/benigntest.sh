#!/bin/bash
# usage: tools/benigntest.sh <verif-tree> <dir with Cxx-i/patch.diff ...>   — false-alarm measurement
# For every <dir>/Cxx-i: apply patch.diff to a private worktree of /repo, build, run `./check Cxx` of <verif-tree>
# against it and print the verdict.  A behaviour-preserving refactor should give OK.
V=$(realpath $1); D=$(realpath $2)
for d in $D/C*-*; do
  n=$(basename $d); P=${n%%-*}
  [ -f $d/patch.diff ] || continue
  WT=/tmp/bnt-$n-$$
  git -C /repo worktree add -q --detach $WT HEAD || continue
  if (cd $WT && git apply $d/patch.diff && go build ./... ) >/dev/null 2>&1; then
    out=$(cd $V && VERIF_REPO=$WT ./check $P 2>&1)
    echo "$n :: $(echo "$out" | grep -E '^(OK|VIOLATION)' | cut -c1-160 | tr '\n' ' ')"
    echo "$out" > $V/.work/benign-$n.log
  else
    echo "$n :: patch-does-not-apply-or-build"
  fi
  git -C /repo worktree remove --force $WT
done
