#!/usr/bin/env python3
"""usage: tools/mkbuildmsg.py Cxx [wt] — print the round-4 builder prompt for a property from seeded/Cxx-r3s*/meta.json"""
import json, glob, os, sys
ROOT = os.path.dirname(os.path.dirname(os.path.abspath(__file__)))
pid = sys.argv[1]; wt = sys.argv[2] if len(sys.argv) > 2 else pid; tag = sys.argv[3] if len(sys.argv) > 3 else "r3s"
lines = []
for d in sorted(glob.glob(os.path.join(ROOT, "seeded", pid + "-" + tag + "*"))):
    j = json.load(open(os.path.join(d, "meta.json")))
    vs = [c["verdict"] for c in j.get("check_result_at_keep_time", []) if not c["verdict"].startswith("KNOWN")]
    v = "; ".join(x[:120] for x in vs)
    if "VIOLATION" not in v: st = "MISSED"
    elif all("no-failing-input-found" in x or "OK " in x for x in vs if "VIOLATION" in x): st = "only corr/proof (no-failing-input-found)"
    else: st = "caught by a monitor"
    lines.append(f"- {os.path.basename(d)}: {st} — {j.get('summary','')[:300]}")
print(f"""You are the builder (round after seeding round {tag[1]}) for property {pid} of the uQUIC verification framework in /verif (Lean 4 proofs + correspondence harness against the Go repository /repo). Work ONLY in the git worktree /verif/.work/wt/{wt} (branch wt-{wt}); start with `cd /verif/.work/wt/{wt} && git merge --no-edit main` (main moved a lot: every property got new drivers/modules, a Go-to-Lean translator gofacts/trans.go with tie theorems Uquic.Props.Trans* was added, checks/_extra/*.json overlays extend props_modules — read HOWTO.md again; /repo HEAD has new fix commits) and copy the build caches (`cp -a /verif/lean/.lake lean/ 2>/dev/null; cp -a /verif/lean/Uquic/Generated lean/Uquic/ 2>/dev/null`). Then read /verif/.work/wt/{wt}/ROUND4.md and follow it exactly (it points to HOWTO.md, ROUND3.md, DESIGN.md). Never edit /repo; never work in /verif itself (only your worktree); commit on your branch when done.

Seeds {tag}* of {pid} and what `./check {pid}` said when they were kept:
{chr(10).join(lines)}

Work on every seed that is MISSED or only corr/proof. Report in ≤ 12 lines.""")
