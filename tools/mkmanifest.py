#!/usr/bin/env python3
"""Regenerate MANIFEST.json from checks/*.json (claimed) and properties.jsonl (the rest -> not_applicable)."""
import json, os, sys
ROOT = os.path.dirname(os.path.dirname(os.path.abspath(__file__)))
sys.path.insert(0, os.path.join(ROOT, "lib"))
import vcheck as V
props = [json.loads(l) for l in open(os.path.join(ROOT, "properties.jsonl"))]
cfgs = {}
for f in sorted(os.listdir(os.path.join(ROOT, "checks"))):
    if f.endswith(".json"):
        c = V.load_cfg(f[:-5])
        cfgs[c["property"]] = c
na_reasons = {}
p = os.path.join(ROOT, "checks", "not_applicable.txt")
if os.path.exists(p):
    for l in open(p):
        if l.strip() and not l.startswith("#"):
            k, _, v = l.strip().partition(" ")
            na_reasons[k] = v
checks, na = [], []
for pr in props:
    pid = pr["id"]
    c = cfgs.get(pid)
    if c is None or c.get("disabled"):
        na.append({"property_id": pid, "reason": na_reasons.get(pid, "check not built yet (framework under construction; see DESIGN.md)")})
        continue
    m = c.get("manifest", {})
    checks.append({
        "property_id": pid,
        "quick_cmd": f"./check {pid} --tier quick",
        "thorough_cmd": f"./check {pid} --tier thorough",
        "evidence_file": f"/verif/evidence/{pid}.json",
        "replay_cmd_template": f"./check {pid} --replay {{path}}",
        "engine": "lean4-proof+correspondence",
        "level_claimed": {"category": "proof", "text": m.get("level_text", ""), "design_ref": m.get("design_ref", f"DESIGN.md §7 {pid}")},
        "level_note": m.get("level_note", ""),
        "technique": m.get("technique", "Lean 4 theorems over a hand-written model, tied to the Go code by regenerated facts and a differential correspondence harness"),
    })
manifest = {
    "version": 1,
    "setup_cmd": "./check --setup",
    "hooks": {
        "guard": "verif",
        "enable": "go1.26.8 test -c -vet=off -tags verif -overlay /verif/.work/overlay-<id>-<driver>.json (hook files live in /verif/harness/hooks and are injected by overlay; nothing is committed to /repo)",
        "baseline_off_cmd": "for m in $(cat /w/out/gomods.txt); do MF=$(cd /repo/$m && . /w/out/goenv.sh && gomodflag); (cd /repo/$m && go test $MF -json -vet=off -count=1 -timeout 25m ./...); done",
        "source_commits": [],
        "add_only": True,
    },
    "engines": [{"name": "lean4-proof+correspondence", "path": "/verif/check",
                 "serves_properties": [c["property_id"] for c in checks],
                 "kind_free_text": "Lean 4 kernel-checked theorems about hand-written executable models; models tied to /repo by gofacts-regenerated constants/tables and by a Go differential harness (real code in-process vs compiled Lean oracle) with property monitors"}],
    "checks": checks,
    "not_applicable": na,
    "notes": "See DESIGN.md. known_findings.json lists recorded findings and fix: commits.",
}
json.dump(manifest, open(os.path.join(ROOT, "MANIFEST.json"), "w"), indent=1)
print(f"claimed {len(checks)}, not_applicable {len(na)}")
