#!/usr/bin/env python3
"""Statement coverage of /repo reached by the correspondence drivers (quick sizes).

For every driver of every checks/Cxx.json: build the driver test binary with
-cover -coverpkg=<module>/... (same overlay as ./check), run it in gen mode with the quick sizes,
and merge the profiles.  Output: coverage/SUMMARY.md (per package, per file, per function) and
coverage/uncovered_funcs.txt.  This is a measurement of what the *correspondence* side exercises
(the part of the trusted base that is "modelled, then compared"); it proves nothing and is not
part of any check.  Usage: tools/cover.py [C07 C18 ...]   (default: all properties)
"""
import glob, json, os, re, shutil, sys
sys.path.insert(0, os.path.join(os.path.dirname(os.path.abspath(__file__)), "..", "lib"))
import vcheck as V

OUT = os.path.join(V.ROOT, "coverage")
SCR = os.path.join(V.WORK, "cover")


def main():
    pids = sys.argv[1:] or sorted(os.path.basename(p)[:-5] for p in glob.glob(os.path.join(V.ROOT, "checks", "C*.json")))
    os.makedirs(SCR, exist_ok=True)
    os.makedirs(OUT, exist_ok=True)
    profiles = []
    # `go tool cover` does not honour -overlay, so the hooks and drivers are copied as real files into a
    # scratch worktree of the repo (outside /repo and /verif), which is removed at the end
    scratch = f"/tmp/verif-cover-{os.getpid()}"
    V.run(["git", "-C", V.REPO, "worktree", "add", "--detach", scratch, "HEAD"])
    rc, diff, _ = V.run(["git", "-C", V.REPO, "diff", "HEAD"])
    if diff.strip():
        with open(os.path.join(SCR, "wt.diff"), "w") as f:
            f.write(diff)
        V.run(["git", "-C", scratch, "apply", os.path.join(SCR, "wt.diff")])
    try:
        profiles = collect(pids, scratch)
        report(profiles)
    finally:
        V.run(["git", "-C", V.REPO, "worktree", "remove", "--force", scratch])
        shutil.rmtree(SCR, ignore_errors=True)


def collect(pids, scratch):
    profiles = []
    hdir = os.path.join(V.ROOT, "harness")
    for shared in ("vh", "e2e"):
        shutil.copytree(os.path.join(hdir, shared), os.path.join(scratch, "internal/verifharness", shared))
    for pid in pids:
        cfg = V.load_cfg(pid)
        for d in cfg["drivers"]:
            # hooks are per driver (two properties' root-package hooks may declare the same names)
            V.run(["git", "-C", scratch, "clean", "-fdq", "-e", "internal/verifharness/vh", "-e", "internal/verifharness/e2e"])
            shutil.copytree(os.path.join(hdir, "drivers", d["pkg"]), os.path.join(scratch, "internal/verifharness", d["pkg"]))
            for hk in d.get("hooks", []):
                os.makedirs(os.path.dirname(os.path.join(scratch, hk)), exist_ok=True)
                shutil.copy(os.path.join(hdir, "hooks", hk), os.path.join(scratch, hk))
            binp = os.path.join(SCR, f"{pid}-{d['name']}.cover.test")
            pkg = f"{V.MODPATH}/internal/verifharness/{d['pkg']}"
            rc, out, dt = V.run([V.GO, "test", "-c", "-vet=off", "-tags", "verif", "-cover",
                                 "-coverpkg", V.MODPATH + "/...", "-o", binp, pkg],
                                cwd=scratch, env=V.GOENV, timeout=1800)
            if rc != 0:
                print(f"{pid}/{d['name']}: build failed\n{out[-2000:]}", file=sys.stderr)
                continue
            sizes = d.get("quick", {"cases": 100, "maxops": 100})
            prof = os.path.join(SCR, f"{pid}-{d['name']}.prof")
            ops = os.path.join(SCR, f"{pid}-{d['name']}.ops")
            env = dict(V.GOENV, VH_MODE="gen", VH_OUT=ops, VH_SEED="1", VH_CASES=str(sizes["cases"]),
                       VH_MAXOPS=str(sizes["maxops"]), VH_TIER="quick", GOMEMLIMIT="8GiB")
            env.update(d.get("env", {}))
            rc, out, dt = V.run_watched([binp, "-test.run", "^TestDriver$", "-test.count=1", "-test.timeout", "0",
                                         "-test.coverprofile", prof], cwd=SCR, env=env, timeout=3000)
            os.remove(binp)
            if os.path.exists(ops):
                os.remove(ops)
            if not os.path.exists(prof):
                print(f"{pid}/{d['name']}: no profile (rc={rc})\n{out[-1500:]}", file=sys.stderr)
                continue
            profiles.append((pid, d["name"], prof))
            print(f"{pid}/{d['name']}: {dt:.0f}s", file=sys.stderr)
    return profiles


def report(profiles):
    # merge: block -> (nstmts, set of (pid,driver))
    blocks = {}
    for pid, dn, prof in profiles:
        for l in open(prof):
            m = re.match(r"(\S+):(\d+)\.(\d+),(\d+)\.(\d+) (\d+) (\d+)$", l.strip())
            if not m:
                continue
            f = m.group(1)
            if "/internal/verifharness/" in f or "/verif_" in f:
                continue
            key = (f, int(m.group(2)), int(m.group(3)), int(m.group(4)), int(m.group(5)))
            b = blocks.setdefault(key, [int(m.group(6)), set()])
            if int(m.group(7)) > 0:
                b[1].add(pid)
    # per file
    files = {}
    for (f, l1, c1, l2, c2), (n, who) in blocks.items():
        rel = f[len(V.MODPATH) + 1:] if f.startswith(V.MODPATH + "/") else f
        fe = files.setdefault(rel, {"stmts": 0, "cov": 0, "blocks": []})
        fe["stmts"] += n
        if who:
            fe["cov"] += n
        fe["blocks"].append((l1, l2, n, who))
    # per function via `go tool cover -func` on a merged profile
    merged = os.path.join(SCR, "merged.prof")
    with open(merged, "w") as mf:
        mf.write("mode: set\n")
        for (f, l1, c1, l2, c2), (n, who) in sorted(blocks.items()):
            mf.write(f"{f}:{l1}.{c1},{l2}.{c2} {n} {1 if who else 0}\n")
    rc, fout, _ = V.run([V.GO, "tool", "cover", "-func", merged], cwd=V.REPO, env=V.GOENV, timeout=600)
    funcs = []
    for l in fout.splitlines():
        m = re.match(r"(\S+):(\d+):\s+(\S+)\s+([\d.]+)%$", l)
        if m and m.group(3) != "(statements)":
            f = m.group(1)
            rel = f[len(V.MODPATH) + 1:] if f.startswith(V.MODPATH + "/") else f
            funcs.append((rel, int(m.group(2)), m.group(3), float(m.group(4))))
    pk = {}
    for rel, fe in files.items():
        p = os.path.dirname(rel) or "."
        e = pk.setdefault(p, [0, 0])
        e[0] += fe["stmts"]
        e[1] += fe["cov"]
    tot = sum(e[0] for e in pk.values())
    cov = sum(e[1] for e in pk.values())
    with open(os.path.join(OUT, "SUMMARY.md"), "w") as o:
        o.write("# Statement coverage of /repo by the correspondence drivers (quick sizes, seed 1)\n\n")
        o.write("Generated by `tools/cover.py`; a measurement, not a check. It bounds what the correspondence\n"
                "side of the tie can see: a statement no driver reaches is compared with nothing, so a change there\n"
                "can only be noticed by the regenerated facts (gofacts) — or not at all.\n\n")
        o.write(f"drivers run: {len(profiles)}; statements {cov}/{tot} = {100.0 * cov / max(tot, 1):.1f}%\n\n")
        o.write("| package | statements | reached | % |\n|---|---:|---:|---:|\n")
        for p in sorted(pk):
            s, c = pk[p]
            o.write(f"| {p} | {s} | {c} | {100.0 * c / max(s, 1):.0f} |\n")
        o.write("\n## files\n\n| file | statements | reached | % | properties whose drivers reach it |\n|---|---:|---:|---:|---|\n")
        for rel in sorted(files):
            fe = files[rel]
            who = sorted(set().union(*[b[3] for b in fe["blocks"]]) if fe["blocks"] else [])
            o.write(f"| {rel} | {fe['stmts']} | {fe['cov']} | {100.0 * fe['cov'] / max(fe['stmts'], 1):.0f} | {' '.join(who)} |\n")
    with open(os.path.join(OUT, "funcs.txt"), "w") as o:
        for rel, ln, fn, pct in sorted(funcs):
            o.write(f"{pct:5.1f}% {rel}:{ln} {fn}\n")
    with open(os.path.join(OUT, "uncovered_funcs.txt"), "w") as o:
        for rel, ln, fn, pct in sorted(funcs):
            if pct == 0.0:
                o.write(f"{rel}:{ln} {fn}\n")
    print(f"total {cov}/{tot} = {100.0 * cov / max(tot, 1):.1f}%")


if __name__ == "__main__":
    main()
