#!/usr/bin/env python3
"""usage: tools/seedkeep.py <Cxx> <seed-out-dir> <slug>  — verify a seeded change (tools/seedtest.sh) and, if it is
valid (existing tests pass, demo fails with / passes without), keep it as seeded/<Cxx>-<slug>/ with my own run recorded."""
import json, os, re, shutil, subprocess, sys
ROOT = os.path.dirname(os.path.dirname(os.path.abspath(__file__)))
pid, src, slug = sys.argv[1], os.path.abspath(sys.argv[2]), sys.argv[3]
out = subprocess.run([os.path.join(ROOT, "tools", "seedtest.sh"), pid, src], stdout=subprocess.PIPE, stderr=subprocess.STDOUT, text=True).stdout
print(out[-1500:])
m = re.search(r"RESULT existing=(\w+) demo_with=(\w+) demo_without=(\w+)", out)
if not m or m.groups() != ("pass", "fail", "pass"):
    print("NOT KEPT (invalid seed)"); sys.exit(1)
checks = re.findall(r"check (C\d+): (.*)", out)
dst = os.path.join(ROOT, "seeded", f"{pid}-{slug}")
os.makedirs(dst, exist_ok=True)
for f in os.listdir(src):
    if f.endswith("_test.go") or f == "patch.diff":
        shutil.copy(os.path.join(src, f), os.path.join(dst, f + (".txt" if f.endswith("_test.go") else "")))
meta = json.load(open(os.path.join(src, "meta.json")))
meta["breaks_property"] = pid
meta["confirmed_by_me"] = {"how": "tools/seedtest.sh in a private worktree of /repo HEAD: git apply patch.diff; go build ./...; go test of touched packages; demo test with and without the patch",
                           "existing_tests_with_patch": "pass", "demo_with_patch": "fail", "demo_without_patch": "pass"}
meta["check_result_at_keep_time"] = [{"check": c, "verdict": v} for c, v in checks]
json.dump(meta, open(os.path.join(dst, "meta.json"), "w"), indent=1)
print("KEPT", dst, checks)
