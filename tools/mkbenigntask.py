#!/usr/bin/env python3
"""usage: tools/mkbenigntask.py <worktree> Cxx [Cxx...] — write TASK.md for an independent engineer who produces
BEHAVIOUR-PRESERVING refactors of the code the given properties are anchored in (to measure false alarms of the checks).
Nothing of /verif's machinery is disclosed."""
import json, os, sys
ROOT = os.path.dirname(os.path.dirname(os.path.abspath(__file__)))
wt, pids = sys.argv[1], sys.argv[2:]
props = {json.loads(l)["id"]: json.loads(l) for l in open(os.path.join(ROOT, "properties.jsonl"))}
blocks = []
for pid in pids:
    p = props[pid]
    blocks.append(f"""### {pid}
"{p['statement']}"
Code: {', '.join(p['anchors']['files'])}
Mechanisms: {'; '.join(m['name'] + ' (' + m['where'] + ')' for m in p['anchors']['mechanism'])}
""")
t = f"""# TASK — behaviour-preserving refactors (robustness study of a verification tool)

You are a careful Go engineer. Work ONLY inside this scratch git worktree `{wt}` (a checkout of
github.com/refraction-networking/uquic, a QUIC/HTTP3 implementation). Do not look at or touch /verif or /repo. No network.
Never use `git stash`. Use the default `go` on PATH.

A verification tool watches the properties below. We want to know whether it raises FALSE alarms on harmless maintenance.
For EACH property below produce TWO different refactors of the code it is anchored in. Each refactor must be

1. strictly BEHAVIOUR-PRESERVING for every input, state and schedule: same results, same errors, same wire bytes, same
   order of externally visible effects (frames queued, callbacks invoked, log/qlog events, timer deadlines), same
   constants. If you are not certain a change preserves behaviour, do not use it.
2. REALISTIC and non-trivial — what a maintainer does in a clean-up: extract or inline a helper function, rename
   unexported identifiers (functions, fields, locals, constants), convert `switch` to `if/else` chains or back, flip an
   `if` and its `else`, replace an index loop by `range` (or back), early-return restructuring, reorder INDEPENDENT
   statements or struct fields, split a long function, move a function/const to another file of the same package,
   replace a literal by a named constant or vice versa, rewrite `a <= b` as `!(a > b)` / `b >= a`, hoist a common
   sub-expression, replace a small map by a slice lookup when order does not matter, rewrite arithmetic in an equivalent
   form over the actual value range (mind overflow!), change comments. 15–80 changed lines each; touch the central
   functions named under "Mechanisms", not peripheral ones.
   Do NOT change exported API, exported struct fields, file names of existing files, wire formats, or the text of
   error messages.
3. compiles (`go build ./...`) and the existing tests of each touched package pass (`go test -count=1 <pkg>`; for the
   ROOT package a full `go test .` aborts with a pre-existing panic in an unrelated test, so there pick a `-run` regex
   for the tests of the files you touch, record per-test results on the unchanged tree first, and require that every
   test passing there still passes).

## Properties

{chr(10).join(blocks)}

## Output

For property Cxx and refactor i (1 or 2) create `{wt}/out/Cxx-i/` containing `patch.diff` (`git diff` output) and
`meta.json` with keys "property", "summary" (one sentence: what was refactored, which functions), "kinds" (list of
refactoring kinds used), "touched_packages", "why_preserving" (one or two sentences), "ran" (commands + outcomes).
After writing each, restore the worktree (`git checkout -- . && git clean -fd -e out -e TASK.md`). Finish with a clean
worktree except out/ and TASK.md. Final message: one line per refactor.
"""
open(os.path.join(wt, "TASK.md"), "w").write(t)
print("wrote", os.path.join(wt, "TASK.md"))
