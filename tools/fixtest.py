#!/usr/bin/env python3
"""tools/fixtest.py <patch.diff> [pkg ...]: would this repair keep the pinned suite green?

Applies the patch in a private worktree of /repo (removed afterwards), runs the baseline's stable-pass
tests of every package the patch touches (plus the packages given) with `go test -json`, and lists every
stable-pass test that did not pass.  Exit 0 iff the list is empty.  The verdict is read from the JSON
events, never from a piped exit status.
"""
import json, os, re, subprocess, sys

MOD = "github.com/refraction-networking/uquic"


def main():
    patch = os.path.abspath(sys.argv[1])
    extra = sys.argv[2:]
    base = json.load(open("/root/.vp/BASELINE.json"))
    stable = {}
    for x in base["stable_pass"]:
        p, t = x.split("::", 1)
        stable.setdefault(p, set()).add(t)
    wt = f"/tmp/fixtest-{os.getpid()}"
    subprocess.run(["git", "-C", "/repo", "worktree", "add", "-q", "--detach", wt, "HEAD"], check=True)
    try:
        r = subprocess.run(["git", "-C", wt, "apply", patch])
        if r.returncode != 0:
            print("patch does not apply")
            return 2
        pkgs = set(extra)
        for l in open(patch):
            if l.startswith("+++ b/"):
                d = os.path.dirname(l[6:].strip())
                pkgs.add("./" + d if d else ".")
        env = dict(os.environ)
        r = subprocess.run(["go", "build", "./..."], cwd=wt, env=env)
        if r.returncode != 0:
            print("does not build")
            return 2
        bad = []
        total = 0
        for p in sorted(pkgs):
            full = MOD if p in (".", "./") else MOD + "/" + p[2:]
            names = sorted({t.split("/")[0] for t in stable.get(full, ())})
            if not names:
                print(f"{p}: no stable-pass tests in the baseline")
                continue
            rx = "^(" + "|".join(names) + ")$"
            out = subprocess.run(["go", "test", "-json", "-vet=off", "-count=1", "-timeout", "25m", "-run", rx, p],
                                 cwd=wt, env=env, stdout=subprocess.PIPE, stderr=subprocess.STDOUT, text=True).stdout
            res = {}
            for l in out.splitlines():
                try:
                    e = json.loads(l)
                except ValueError:
                    continue
                if e.get("Test") and e.get("Action") in ("pass", "fail", "skip"):
                    res[e["Test"]] = e["Action"]
            for t in sorted(stable[full]):
                total += 1
                if res.get(t) != "pass":
                    bad.append(f"{full}::{t} -> {res.get(t, 'not run')}")
            print(f"{p}: {len(stable[full])} stable-pass tests checked")
        print(f"ran {total} stable-pass failures: {bad}")
        return 1 if bad else 0
    finally:
        subprocess.run(["git", "-C", "/repo", "worktree", "remove", "--force", wt])


if __name__ == "__main__":
    sys.exit(main())
