#!/usr/bin/env python3
"""usage: tools/seedrecheck.py seeded/<id> [...] — re-run the check against a kept seed (private worktree) and record
the current verdict in meta.json under "recheck" (and "later" when it was missed at keep time and is caught now)."""
import json, os, re, subprocess, sys, shutil, tempfile
ROOT = os.path.dirname(os.path.dirname(os.path.abspath(__file__)))
for d in sys.argv[1:]:
    d = os.path.abspath(d); meta = json.load(open(os.path.join(d, "meta.json"))); pid = meta["breaks_property"]
    tmp = tempfile.mkdtemp(prefix="seedre-")
    for f in os.listdir(d):
        shutil.copy(os.path.join(d, f), os.path.join(tmp, f[:-4] if f.endswith("_test.go.txt") else f))
    out = subprocess.run([os.path.join(ROOT, "tools", "seedtest.sh"), pid, tmp], stdout=subprocess.PIPE, stderr=subprocess.STDOUT, text=True).stdout
    shutil.rmtree(tmp)
    checks = [v for _, v in re.findall(r"check (C\d+): (.*)", out) if not v.startswith("KNOWN")]
    caught = [v for v in checks if v.startswith("VIOLATION")]
    meta["recheck"] = checks
    was_missed = not any(v["verdict"].startswith("VIOLATION") for v in meta.get("check_result_at_keep_time", []))
    weak = all("no-failing-input-found" in v["verdict"] for v in meta.get("check_result_at_keep_time", []) if v["verdict"].startswith("VIOLATION"))
    mons = sorted({re.sub(r".*replays/C\d+-\d+-", "", v).replace(".ops", "") for v in caught})
    if caught and (was_missed or weak):
        meta["later"] = "after strengthening the check: caught by " + ", ".join(mons)
    json.dump(meta, open(os.path.join(d, "meta.json"), "w"), indent=1)
    print(os.path.basename(d), "->", mons or checks)
