import Uquic.Oracle.Frame
import Uquic.Model.Cong.Sender
import Uquic.Spec.CongMon

/-!
Oracle of the `cong` driver (property C20).  Line protocol (times in ns, sizes in bytes):

  new <mds> <z>                  => ok r=<latest>,<min>,<srtt>       z=1: zero-valued RTTStats
  rtt <sendDelta> <ackDelay>     => r=<latest>,<min>,<srtt>          RTTStats.UpdateRTT
  rtt0 <t>                       => r=…                              RTTStats.SetInitialRTT
  sent <t> <pn> <bytes> <ae>     => hb=<0|1>                         HasPacingBudget(t), then OnPacketSent
  acked <pn> <bytes> <prior> <t> <n> => ok|PANIC                     OnPacketAcked for pn … pn+n-1
  lost <pn> <bytes> <prior>      => ok
  exitss                         => ok|PANIC
  mds <m>                        => ok|PANIC
  cansend <bfl>                  => 0|1
  budget <t>                     => <bytes> hb=<0|1>
  until                          => <time>|PANIC
  mode <amp> <probes> <pto> <bfl> <t> => none|ack|pto-…|pacing|any   sentPacketHandler.SendMode
every result is followed by ` | w=<cwnd> ss=<0|1> rec=<0|1> th=<ssthresh> na=<numAcked> B=<budgetAtLastSent> T=<lastSentTime>`.
The RTT triple is environment: the model takes it from the implementation's output.
-/

open Uquic.Oracle Uquic.Model.Cong Uquic.Spec.CongMon

structure St where
  s : Sender := Sender.new 1252 Rtt.default
  g : Ghost := Ghost.init 1252 Rtt.default.srtt
  /-- the implementation's previous outputs (window, slow-start flag) -/
  lastW : Option Nat := none
  lastSS : Bool := true

def b2s (b : Bool) : String := if b then "1" else "0"

def suffix (s : Sender) : String :=
  s!" | w={s.cwnd} ss={b2s s.inSlowStart} rec={b2s s.inRecovery} th={s.ssthresh} na={s.numAcked} B={s.pacer.budgetAtLastSent} T={s.pacer.lastSent}"

def field (impl : String) (key : String) : Option String :=
  (words impl).findSome? fun w => if w.startsWith key then some (w.drop key.length).toString else none

def parseRtt (impl : String) : Option Rtt :=
  match field impl "r=" with
  | some v => match v.splitOn "," with
    | [a, b, c] => match a.toInt?, b.toInt?, c.toInt? with
      | some x, some y, some z => some { latest := x, min := y, srtt := z }
      | _, _, _ => none
    | _ => none
  | none => none

def fmtRtt (r : Rtt) : String := s!"r={r.latest},{r.min},{r.srtt}"

def modeName : SendMode → String
  | .none => "none" | .ack => "ack" | .ptoInitial => "pto-initial" | .ptoHandshake => "pto-handshake"
  | .ptoAppData => "pto-appdata" | .pacingLimited => "pacing" | .any => "any"

def modeOfCode : Nat → SendMode
  | 0 => .none | 1 => .ack | 2 => .ptoInitial | 3 => .ptoHandshake | 4 => .ptoAppData | 5 => .pacingLimited | _ => .any

def growTag : Grow → String
  | .appLimited => "ack:applimited" | .atMax => "ack:atmax" | .slowStart => "ack:slowstart"
  | .caCount => "ack:ca-count" | .caGrow => "ack:ca-grow" | .panic => "ack:panic"

/-- `n` acknowledgements of consecutive packet numbers (int64: the driver's `pn+i` wraps) with the same priorInFlight -/
def ackLoop (s : Sender) (pn : Int) (prior : Nat) : Nat → List String → Sender × Out × List String
  | 0, tags => (s, .ok, tags)
  | n + 1, tags =>
    let (s', o, g) := s.onPacketAcked pn prior
    let t := match g with | some g => growTag g | none => "ack:recovery"
    let tags := if tags.contains t then tags else t :: tags
    if o == .panic then (s', .panic, tags) else ackLoop s' (wrapI64 (pn + 1)) prior n tags

def step (st : St) (op impl : String) : St × StepOut :=
  let w := words op
  let implHead := (words impl).headD ""
  let implW := (field impl "w=").map natOf
  let implSS := field impl "ss=" == some "1"
  -- finish: model text, coverage tags, monitor failures; bounds are checked on every line
  let fin (s' : Sender) (g' : Ghost) (head : String) (tags : List String) (fails : List Fail) : St × StepOut :=
    let fails := fails ++ (match implW with | some x => checkBounds g' x | none => [])
    ({ s := s', g := g', lastW := implW, lastSS := implSS }, { model := head ++ suffix s', tags := tags, fails := fails })
  -- the implementation's window before / after this op
  let wPre := st.lastW
  let delta (f : Nat → Nat → List Fail) : List Fail :=
    match wPre, implW with | some a, some b => f a b | _, _ => []
  match w with
  | ["new", m, _z] =>
    let m := natOf m
    let r := (parseRtt impl).getD Rtt.default
    let s' := Sender.new m r
    fin s' (Ghost.init m r.srtt) ("ok " ++ fmtRtt r) ["new"] []
  | "rtt" :: _ | "rtt0" :: _ =>
    let r := (parseRtt impl).getD st.s.rtt
    let s' := { st.s with rtt := r }
    let tag := if r.srtt ≤ 0 then "rtt:nonpositive" else if st.s.bw = 0 then "rtt:bw0" else "rtt"
    fin s' { st.g with srtt := r.srtt } (fmtRtt r) [tag] (delta fun a b => onOther a b "rtt")
  | ["sent", t, pn, bytes, ae] =>
    let t := intOf t; let pn := intOf pn; let bytes := natOf bytes; let ae := ae == "1"
    let hb := st.s.hasPacingBudget t
    let s' := st.s.onPacketSent t pn bytes ae
    let implHb := implHead == "hb=1"
    let (g', f) := onSent st.g t pn bytes ae implHb (implW.getD 0)
    let tags := [if hb then "sent:budget" else "sent:nobudget"] ++
      (if st.s.pacer.lastSent = 0 then ["sent:first"] else []) ++
      (if s'.pacer.budgetAtLastSent = 0 then ["sent:drained"] else []) ++
      (if st.s.pacer.lastSent ≠ 0 ∧ wrapI64 (t - st.s.pacer.lastSent) > 0 ∧
          st.s.bw ≠ 0 ∧ (wrapI64 (t - st.s.pacer.lastSent)).toNat > (2 ^ 64 - 1) / st.s.bw then ["sent:overflow-guard"] else []) ++
      (if st.s.budget t = maxBurstSize st.s.bw st.s.pacer.mds ∧ st.s.pacer.lastSent ≠ 0 then ["sent:capped"] else [])
    fin s' g' s!"hb={b2s hb}" tags (f ++ delta fun a b => onOther a b "sent")
  | ["acked", pn, _bytes, prior, _t, n] =>
    let pn := intOf pn; let prior := natOf prior; let n := natOf n
    let (s', o, tags) := ackLoop st.s pn prior n []
    let (g', f) := match wPre, implW with
      | some a, some b => onAcked st.g pn n prior a st.lastSS b
      | _, _ => onAcked st.g pn n prior 0 st.lastSS 0
    fin s' g' (if o == .panic then "PANIC" else "ok") tags f
  | ["lost", pn, _bytes, _prior] =>
    let pn := intOf pn
    let (s', cut) := st.s.onCongestionEvent pn
    let (g', f) := match wPre, implW with
      | some a, some b => onLost st.g pn a b
      | _, _ => onLost st.g pn 0 0
    let tags := if !cut then ["lost:same-window"] else
      (if s'.cwnd = s'.minCwnd then ["lost:cut-to-floor"] else ["lost:cut"]) ++
      (if st.s.inSlowStart then ["lost:in-slowstart"] else [])
    fin s' g' "ok" tags f
  | ["exitss"] =>
    let (s', o) := st.s.maybeExitSlowStart
    let tags := if o == .panic then ["exitss:panic"] else
      if !st.s.inSlowStart then ["exitss:not-in-ss"] else
      if s'.ssthresh ≠ st.s.ssthresh then ["exitss:exit"] else
      if s'.hs.found then ["exitss:found-low-window"] else
      if s'.hs.rttSampleCount = hyMinSamples then ["exitss:round-check"] else ["exitss:sample"]
    fin s' st.g (if o == .panic then "PANIC" else "ok") tags (delta fun a b => onOther a b "exitss")
  | ["mds", m] =>
    let m := natOf m
    let (s', o) := st.s.setMaxDatagramSize m
    if o == .panic then
      fin s' st.g "PANIC" ["mds:panic"] (delta fun a b => onOther a b "mds_panic")
    else
      let (g', f) := match wPre, implW with
        | some a, some b => onMDS st.g m a b
        | _, _ => onMDS st.g m 0 0
      fin s' g' "ok" [if s'.cwnd ≠ st.s.cwnd then "mds:refloor" else if m = st.s.mds then "mds:same" else "mds:raise"] f
  | ["cansend", bfl] =>
    let bfl := natOf bfl
    let r := st.s.canSend bfl
    let f : List Fail := match implW with
      | some x => if implHead == "1" && bfl ≥ x then [("send_gating", "-", s!"CanSend({bfl}) with cwnd={x}")] else []
      | none => []
    fin st.s st.g (b2s r) [if r then "cansend:yes" else "cansend:no"] (f ++ delta fun a b => onOther a b "cansend")
  | ["budget", t] =>
    let t := intOf t
    let b := st.s.budget t
    let hb := st.s.hasPacingBudget t
    let f := match implW with | some x => onBudget st.g (natOf implHead) x | none => []
    fin st.s st.g s!"{b} hb={b2s hb}" [if hb then "budget:yes" else "budget:no"] (f ++ delta fun a b => onOther a b "budget")
  | ["until"] =>
    match st.s.timeUntilSend with
    | none => fin st.s st.g "PANIC" ["until:panic-bw0"] (delta fun a b => onOther a b "until")
    | some t => fin st.s st.g s!"{t}" [if t = 0 then "until:now" else if t = wrapI64 (st.s.pacer.lastSent + minPacingDelay) then "until:min-delay" else "until:later"]
                  (delta fun a b => onOther a b "until")
  | ["mode", amp, probes, pto, bfl, t] =>
    let bfl := natOf bfl
    let m := sendMode st.s (amp == "1") 0 Uquic.Gen.Protocol.MaxTrackedSentPackets.toNat
      Uquic.Gen.Protocol.MaxOutstandingSentPackets.toNat (natOf probes) (modeOfCode (natOf pto)) bfl (intOf t)
    let f : List Fail := match implW with
      | some x => if (implHead == "any" || implHead == "pacing") && bfl ≥ x then
          [("send_gating", "-", s!"SendMode={implHead} with bytesInFlight={bfl} cwnd={x}")] else []
      | none => []
    fin st.s st.g (modeName m) ["mode:" ++ modeName m] (f ++ delta fun a b => onOther a b "mode")
  | _ => (st, { model := "bad-op" })

def main : IO Unit := run { init := ({} : St), step := step }
