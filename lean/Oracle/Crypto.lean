import Uquic.Oracle.Frame
import Uquic.Model.Reassembly.Crypto
import Uquic.Spec.ReasmMon

/-!
Oracle of driver `crypto`: the real frame parser + cryptoStreamManager (Initial / Handshake / 1-RTT
crypto streams), driven packet by packet the way `Conn.handleFrames` / `Conn.handleCryptoFrame` do.

  init <salt>
  pkt <lvl> <off>:<len>[,<off>:<len>…] <pad>  => r=<res>[,<res>…] d=<msg>[;<msg>…]|-      (lvl: I | H | A)
       the driver serialises the CRYPTO frames (with `pad` PADDING/PING bytes in between) into its one reused
       packet buffer, parses them with the real parser, hands each to the stream manager and drains
       GetCryptoData (copying, as the TLS stack does); the first error ends the packet; afterwards the packet
       buffer is overwritten (it goes back to the pool and is reused by the next packet)
  drop <lvl>                                   => ok|E:T<code>|PANIC
-/

open Uquic.Oracle Uquic.Model.Reassembly Uquic.Spec.Reasm

structure LvlGhost where
  recv : IvSet := []
  rp : Nat := 0
  finished : Bool := false
  highest : Nat := 0          -- highest offset of any CRYPTO frame the stream accepted before Finish
  dead : Bool := false

structure St where
  ini : CryptoStream := {}
  hs : CryptoStream := {}
  app : CryptoStream := {}
  salt : Nat := 0
  mdead : Bool := false
  gi : LvlGhost := {}
  gh : LvlGhost := {}
  ga : LvlGhost := {}

abbrev Fail := String × String × String

def tErr (code : Int) : String := s!"E:T{code}"

def fmtCryptoErr : Option CryptoErr → String
  | none => "ok"
  | some .cryptoBufferExceeded => tErr Uquic.Gen.Reassembly.CryptoBufferExceeded
  | some .protocolViolation => tErr Uquic.Gen.Reassembly.ProtocolViolation
  | some .tooManyGaps => "E:gaps"
  | some .panic => "PANIC"

def getM (s : St) : String → CryptoStream
  | "I" => s.ini | "H" => s.hs | _ => s.app
def setM (s : St) (l : String) (c : CryptoStream) : St :=
  match l with | "I" => { s with ini := c } | "H" => { s with hs := c } | _ => { s with app := c }
def getG (s : St) : String → LvlGhost
  | "I" => s.gi | "H" => s.gh | _ => s.ga
def setG (s : St) (l : String) (g : LvlGhost) : St :=
  match l with | "I" => { s with gi := g } | "H" => { s with gh := g } | _ => { s with ga := g }

def parseFrames (t : String) : List (Nat × Nat) :=
  (t.splitOn ",").filterMap fun p => match p.splitOn ":" with
    | [a, b] => some (natOf a, natOf b)
    | _ => none

def field (ws : List String) (key : String) : Option String :=
  ws.findSome? fun w => if w.startsWith key then some (w.drop key.length).toString else none

/-- what the ghost expects for the next frame of a packet -/
def expectFrame (g : LvlGhost) (off len : Nat) : String :=
  let hi := off + len
  if hi > maxCryptoStreamOffset then tErr Uquic.Gen.Reassembly.CryptoBufferExceeded
  else if g.finished then (if hi > g.highest then tErr Uquic.Gen.Reassembly.ProtocolViolation else "ok")
  else if ivGapCount (if len = 0 then g.recv else ivInsert g.recv off hi) > maxStreamFrameSorterGaps then "E:gaps"
  else "ok"

def step (s : St) (op impl : String) : St × StepOut :=
  let w := words op
  let iw := words impl
  if s.mdead && w.headD "" != "init" then (s, { model := "skip" }) else
  match w with
  | ["init", salt] => ({ s with salt := natOf salt }, { model := "ok" })
  | ["pkt", lvl, fr, _pad] => Id.run do
    let frames := parseFrames fr
    let m := getM s lvl
    let (m', res, msgs) := m.handlePacket (frames.map fun (o, l) => (o, srcSeg s.salt 0 o l))
    let model := s!"r={",".intercalate (res.map fmtCryptoErr)} d={if msgs.isEmpty then "-" else ";".intercalate (msgs.map fmtBytes)}"
    -- ghost + monitors, frame by frame, on the implementation's answers
    let implRes := ((field iw "r=").getD "").splitOn ","
    let implMsgs := match (field iw "d=").getD "-" with
      | "-" => []
      | t => t.splitOn ";"
    let mut g := getG s lvl
    let mut fails : List Fail := []
    let mut idx := 0
    for (o, l) in frames do
      match implRes[idx]? with
      | none => break        -- the implementation stopped at an earlier error
      | some ir =>
        let ex := expectFrame g o l
        if !g.dead && o + l < maxByteCount && ir != ex then
          fails := fails ++ [(if g.finished then "crypto_after_finish" else "crypto_limits", "-",
            s!"CRYPTO [{o},{o + l}) at level {lvl} finished={g.finished} highest={g.highest}: answered {ir}, expected {ex}")]
        if ir == "ok" then
          if !g.finished then
            g := { g with recv := if l > 0 then ivInsert g.recv o (o + l) else g.recv, highest := max g.highest (o + l) }
        else
          g := { g with dead := g.dead || ir == "E:gaps" || ir == "PANIC" }
        idx := idx + 1
    -- everything contiguous must have been handed over, and exactly the source bytes
    if !g.dead then
      let mut pos := g.rp
      for t in implMsgs do
        let n := tokLen t
        if n == 0 || !ivCoversRange g.recv pos (pos + n) then
          fails := fails ++ [("crypto_only_received", "-", s!"level {lvl}: [{pos},{pos + n}) handed to TLS but not received")]
        if t != fmtBytes (srcSeg s.salt 0 pos n) then
          fails := fails ++ [("crypto_exact_bytes", "-", s!"level {lvl}: [{pos},{pos + n}) handed to TLS as {t}, the peer sent {fmtBytes (srcSeg s.salt 0 pos n)} (bytes of a queued frame changed after its packet buffer was reused?)")]
        pos := pos + n
      let lastOk := implRes.getLast? == some "ok"
      if lastOk && ivCovers g.recv pos then
        fails := fails ++ [("crypto_progress", "-", s!"level {lvl}: byte {pos} was received but not handed to TLS")]
      g := { g with rp := pos }
    let tags := (res.map fun r => s!"frame:{fmtCryptoErr r}") ++
      (if msgs.length > 1 then ["pkt:multi-msg"] else if msgs.length == 1 then ["pkt:msg"] else ["pkt:queued"]) ++
      (if frames.length > 1 then ["pkt:coalesced"] else []) ++
      (if (getG s lvl).finished then ["pkt:after-finish"] else []) ++
      (if m'.queue.gaps.length > 1 then ["pkt:behind-gap"] else [])
    let s' := setG (setM s lvl m') lvl g
    return ({ s' with mdead := res.any (fun r => r == some .panic || r == some .tooManyGaps) },
            { model := model, tags := dedup tags, fails := fails })
  | ["drop", lvl] =>
    if lvl != "I" && lvl != "H" then ({ s with mdead := true }, { model := "PANIC", tags := ["drop:panic"] }) else
    let m := getM s lvl
    let (m', err) := m.finish
    let g := getG s lvl
    let pending := ivSize (g.recv.filterMap fun iv => if iv.2 ≤ g.rp then none else some (max iv.1 g.rp, iv.2))
    let expect := if pending > 0 then tErr Uquic.Gen.Reassembly.ProtocolViolation else "ok"
    let implHead := iw.headD ""
    let fails : List Fail :=
      if !g.dead && implHead != expect then
        [("crypto_finish", "-", s!"level {lvl}: Finish with {pending} undelivered bytes answered {implHead}")] else []
    let g' := { g with finished := g.finished || implHead == "ok" }
    (setG (setM s lvl m') lvl g', { model := fmtCryptoErr err, tags := [s!"drop:{fmtCryptoErr err}"], fails := fails })
  | _ => (s, { model := "bad-op" })

def main : IO Unit := run { init := ({} : St), step := step }
