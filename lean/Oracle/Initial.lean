import Uquic.Oracle.Frame
import Uquic.Model.UQuic.Initial
import Uquic.Model.UQuic.InitialBuild
import Uquic.Spec.Observe
import Uquic.Spec.ObserveMon

/-!
Oracle of the `initial` driver (property C10).

One op = one real `UTransport.Dial`.  The implementation's result carries, per datagram of the first
flight, the raw datagram length and the packet with Initial protection removed by the driver's
server-side opener.  The oracle
  * runs the OBSERVER (`Spec.Observe.observe`) on those bytes,
  * runs the MODEL (`Model.Initial`) on (spec, index, scripted random stream, ClientHello length) and
    compares the predicted view field by field (a mismatch makes the predicted text differ: `DIFF`),
  * evaluates the MONITORS (`Spec.ObserveMon`) on the observer's views against the spec of the op.
-/

open Uquic.Oracle Uquic.Model.Initial Uquic.Spec.Observe Uquic.Spec.ObserveMon

/-! ### parsing -/

def hexVal (c : Char) : Nat :=
  if '0' ≤ c ∧ c ≤ '9' then c.toNat - '0'.toNat
  else if 'a' ≤ c ∧ c ≤ 'f' then c.toNat - 'a'.toNat + 10
  else if 'A' ≤ c ∧ c ≤ 'F' then c.toNat - 'A'.toNat + 10 else 0

def hexBytes (s : String) : List Nat :=
  let rec go : List Char → List Nat → List Nat
    | a :: b :: rest, acc => go rest ((hexVal a * 16 + hexVal b) :: acc)
    | _, acc => acc.reverse
  go s.toList []

def kvOf (ws : List String) (key : String) : String :=
  (ws.findSome? fun w => if w.startsWith (key ++ "=") then some (w.drop (key.length + 1)).toString else none).getD ""

def parseRF (s : String) : Option RF :=
  match (s.splitOn ".").map natOf with
  | [a, b, c, d, e, f, l] => some { minPing := a, maxPing := b, minCrypto := c, maxCrypto := d, minPad := e, maxPad := f, length := l }
  | _ => none

def parseQFrames (s : String) : Option (List QFrame) :=
  if s.isEmpty then some [] else
  (s.splitOn ",").mapM fun x =>
    if x == "G" then some QFrame.ping
    else if x.startsWith "P" then some (QFrame.padding (natOf (x.drop 1).toString))
    else if x.startsWith "C" then
      match ((x.drop 1).toString.splitOn ".") with
      | [a, b] => some (QFrame.crypto (intOf a) (intOf b))
      | _ => none
    else none

def parseBuilder (s : String) : Option Builder :=
  if s == "nil" then some .nil
  else if s.startsWith "qf:" then (parseQFrames (s.drop 3).toString).map .frames
  else if s.startsWith "rf:" then (parseRF (s.drop 3).toString).map .random
  else if s.startsWith "md:" then (((s.drop 3).toString.splitOn "|").mapM parseRF).map .multi
  else if s.startsWith "ff:" then (((s.drop 3).toString.splitOn "|").mapM parseQFrames).map .flight
  else if s.startsWith "rff:" then
    (((s.drop 4).toString.splitOn "|").mapM fun (x : String) =>
      match x.splitOn "@" with
      | [rs, rf] =>
        (parseRF rf).bind fun rf =>
          ((rs.splitOn ";").mapM fun (r : String) => match r.splitOn "." with
            | [a, b] => some (intOf a, intOf b)
            | _ => none).map fun ranges => ({ ranges := ranges, frames := rf } : RFD)
      | _ => none).map .randFlight
  else none

structure Cfg where
  live : Bool
  ips : Nat
  spec : Spec
  script : Array Nat

def parseCfg (ws : List String) : Option Cfg := do
  let mode := kvOf ws "mode"
  if mode ≠ "dead" ∧ mode ≠ "live" then none
  let builder ← parseBuilder (kvOf ws "fb")
  let pnls := kvOf ws "pnls"
  let pnLens := if pnls == "-" || pnls.isEmpty then [] else (pnls.splitOn ".").map natOf
  let tokS := kvOf ws "tok"
  let token ← if tokS == "-" || tokS.isEmpty then some TokenCfg.none
    else if tokS.startsWith "x:" then some (TokenCfg.explicit (hexBytes (tokS.drop 2).toString))
    else match tokS.splitOn ":" with
      | ["p", pre, len] => some (TokenCfg.synth (hexBytes pre) (natOf len))
      | _ => none
  let plansS := kvOf ws "plans"
  let plans ← if plansS == "-" || plansS.isEmpty then some [] else
    (plansS.splitOn ",").mapM fun x => match x.splitOn "/" with
      | [c, s] => some ({ cryptoLength := natOf c, packetSize := natOf s } : Plan)
      | _ => none
  some { live := mode == "live", ips := natOf (kvOf ws "ips"),
         spec := { scidLen := natOf (kvOf ws "scid"), dcidLen := natOf (kvOf ws "dcid"), initPN := natOf (kvOf ws "ipn"),
                   pnLen1 := natOf (kvOf ws "pnl1"), pnLens := pnLens, token := token, builder := builder, plans := plans,
                   udpMin := natOf (kvOf ws "udp") },
         script := (hexBytes (kvOf ws "script")).toArray }

/-! ### the scripted random stream (same as the driver's scriptReader) -/

def fnv (bs : Array Nat) : UInt64 :=
  bs.foldl (fun h b => (h ^^^ UInt64.ofNat b) * 1099511628211) 1469598103934665603

def splitmix (seed : UInt64) (j : Nat) : UInt64 :=
  let z := seed + UInt64.ofNat j * 0x9e3779b97f4a7c15
  let z := (z ^^^ (z >>> 30)) * 0xbf58476d1ce4e5b9
  let z := (z ^^^ (z >>> 27)) * 0x94d049bb133111eb
  z ^^^ (z >>> 31)

def mkStream (script : Array Nat) : Nat → Nat :=
  let seed := fnv script
  fun k => if k < script.size then script[k]! else ((splitmix seed (k - script.size + 1)).toNat % 256)

/-! ### implementation result -/

structure Dgram where
  rawLen : Nat
  status : String
  tz : Bool
  plain : List Nat
deriving Inhabited

structure Impl where
  err : String
  L : Nat
  max : Nat
  tokOff : Option Nat
  n : Nat
  srv : List Int
  hasSrv : Bool
  dgrams : Array Dgram

def parseImpl (impl : String) : Option Impl :=
  match impl.splitOn " | " with
  | [] => none
  | head :: rest =>
    let ws := words head
    let err := kvOf ws "err"
    if err.isEmpty then none else
    let tok := intOf (kvOf ws "tokoff")
    let srvS := kvOf ws "srv"
    let ds := rest.filterMap fun d => match d.splitOn ":" with
      | [a, st, tz, hx] => some ({ rawLen := natOf a, status := st, tz := tz == "1", plain := hexBytes hx } : Dgram)
      | _ => none
    some { err := err, L := natOf (kvOf ws "L"), max := natOf (kvOf ws "max"), tokOff := if tok < 0 then none else some tok.toNat,
           n := natOf (kvOf ws "n"), srv := if srvS == "-" || srvS.isEmpty then [] else (srvS.splitOn ".").map intOf,
           hasSrv := !srvS.isEmpty, dgrams := ds.toArray }

/-! ### model prediction, compared field by field -/

def witnessOf (fs : List Frame) : List (Nat × Nat) × Nat :=
  ((cryptoFrames fs).map (fun f => (f.offset, f.len)), numPing fs)

/-- the witnessed CRYPTO frames are a valid outcome of cutting `[off, off+n)`: sorted by offset they tile it -/
def tiles (crypto : List (Nat × Nat)) (off n : Nat) : Bool :=
  let sorted := crypto.toArray.qsort (fun a b => a.1 < b.1) |>.toList
  let endp := sorted.foldl (fun (acc : Option Nat) f => acc.bind fun e => if f.1 == e && f.2 > 0 then some (e + f.2) else none) (some off)
  endp == some (off + n)

/-- compare one observed datagram with the model's `assemble` for header `h`, builder outcome `w` -/
def sizesOf (h : Hdr) (w : W) (plan : Plan) (udpMin : Nat) : Except Err Out :=
  assemble h (List.replicate w.payloadLen 0) plan udpMin maxPacketBufferSize

def cmpDatagram (i : Nat) (h : Hdr) (w : W) (exactFrames : Bool) (plan : Plan) (out : Out) (d : Dgram) (v : View) : List String :=
  -- sizes from the model's `assemble`; the payload bytes themselves are not predicted (C09), only their layout
  let fill := innerPad plan h.len h.pnLen w.payloadLen
  let hb := out.plain.take h.len
  let chk (name : String) (ok : Bool) (detail : String) : List String := if ok then [] else [s!"d{i}.{name}:{detail}"]
  chk "header" (d.plain.take hb.length == hb) s!"exp={hb.length}B" ++
  chk "payloadLen" (v.payloadLen == out.payloadLen) s!"exp={out.payloadLen} got={v.payloadLen}" ++
  chk "packetLen" (v.packetLen == out.packetLen) s!"exp={out.packetLen} got={v.packetLen}" ++
  chk "datagramLen" (d.rawLen == out.datagramLen) s!"exp={out.datagramLen} got={d.rawLen}" ++
  (match v.frames with
   | none => [s!"d{i}.frames:unparsable"]
   | some fs =>
     let (cr, pg) := witnessOf fs
     chk "pings" (pg == w.pings) s!"exp={w.pings} got={pg}" ++
     chk "padding" (paddingBytes fs == w.padBytes + fill) s!"exp={w.padBytes + fill} got={paddingBytes fs}" ++
     (if exactFrames then chk "crypto" (cr == w.crypto) s!"exp={w.crypto} got={cr}" else []))

/-- a datagram the driver's opener could not sample (`short`): the model must agree that the packet is
    too short for a header-protection sample (pnLen + payload < 4); only its sizes are compared -/
def shortCmp (i : Nat) (h : Hdr) (out : Out) (d : Dgram) : List String :=
  if d.status == "short" then
    (if h.pnLen + out.payloadLen < 4 then [] else [s!"d{i}.short:model payload {out.payloadLen} pnLen {h.pnLen} has a sample"]) ++
    (if d.rawLen == out.datagramLen then [] else [s!"d{i}.datagramLen:exp={out.datagramLen} got={d.rawLen}"])
  else [s!"d{i}:unobservable status={d.status}"]

structure Pred where
  /-- expected dial outcome: "" = no model error (timeout / ok) -/
  err : String := ""
  mism : List String := []
  tags : List String := []
  /-- number of flight datagrams the model expects before the error / end -/
  n : Nat := 0

def builderTag : Builder → String
  | .nil => "b:nil" | .frames [] => "b:qf-empty" | .frames _ => "b:qf" | .random _ => "b:rf" | .multi _ => "b:md"
  | .flight _ => "b:ff" | .randFlight _ => "b:rff"

/-- non-flight builders: one `PackCoalescedPacket` per datagram until the CRYPTO stream is drained -/
partial def predictSeq (c : Cfg) (s : Nat → Nat) (im : Impl) (views : Array (Option View)) (maxSize : Nat)
    (i off remaining : Nat) (p : Pred) : Pred :=
  if remaining = 0 ∨ i ≥ 64 then { p with n := i }
  else
    let spec := c.spec
    let h := hdrOf spec s (im.tokOff.getD 0) i
    let plan := planOf spec i
    let n := popLen spec plan h.len off remaining maxSize
    if n = 0 then { p with n := i, tags := p.tags ++ ["pop:stuck"] }
    else
      let budgetTag := if plan.cryptoLength > 0 ∧ n == plan.cryptoLength then "budget:cryptoLength"
        else if n < remaining then (match spec.builder with | .random rf => if rf.length > 0 ∧ rf.minPad ≥ 1 then "budget:reserve" else "budget:full" | _ => "budget:full")
        else "budget:rest"
      let view := (views[i]?).join
      -- a randomised builder: the outcome of its draws is read off the wire (recovered witness). When the
      -- datagram was never emitted because the packet did not fit the buffer there is no witness; the error
      -- is accepted if the largest outcome the bounds allow would indeed not fit.
      let randomW (rf : RF) : Except String (W × Bool) :=
        if !rf.boundsOK then .error "E:bounds" else
        match view.bind (·.frames) with
        | some fs => let (cr, pg) := witnessOf fs; .ok (rfW rf cr pg off, false)
        | none =>
          let hiC := min (max (drawHi rf.minCrypto rf.maxCrypto) 1) n
          let ub := max (n + hiC * (1 + varintLen (off + n) + varintLen n) + drawHi rf.minPing rf.maxPing) rf.length
          if im.err == "E:nofit" ∧ h.len + ub + tagLen > maxPacketBufferSize then .error "E:nofit"
          else .ok (rfW rf [(off, n)] 0 off, false)
      -- builder outcome
      let wE : Except String (W × Bool) :=
        match spec.builder with
        | .nil => .ok (passThroughW off n, true)
        | .frames l => if l.length = 0 then .ok (passThroughW off n, true) else
            match qfBuild l n off with | some w => .ok (w, true) | none => .error "PANIC"
        | .random rf => randomW rf
        | .multi l =>
            match rfFor l i with
            | none => .error "E:other"
            | some rf => randomW rf
        | _ => .error "E:other"
      match wE with
      | .error e => { p with n := i, err := e, tags := p.tags ++ [s!"err:{e}"] }
      | .ok (w, exact) =>
        match sizesOf h w plan spec.udpMin with
        | .error .nofit => { p with n := i, err := "E:nofit", tags := p.tags ++ ["err:E:nofit"] }
        | .error .badPnLen => { p with n := i, err := "E:other", tags := p.tags ++ ["err:badPnLen"] }
        | .ok out =>
          let fill := exactFill plan h.len w.payloadLen
          let mism := match views[i]?, im.dgrams[i]? with
            | some (some v), some d =>
              cmpDatagram i h w exact plan out d v ++
                (if !exact ∧ !(tiles w.crypto off n) then [s!"d{i}.witness:crypto frames {w.crypto} do not tile [{off},{off + n})"] else [])
            | some none, some d => shortCmp i h out d
            | _, _ => [s!"d{i}:missing"]
          let tags := [budgetTag, if plan.packetSize > 0 then (if fill > 0 then "pad:exact" else "pad:exact-nofill") else if out.datagramLen > out.packetLen then "pad:udp" else "pad:none"]
          predictSeq c s im views maxSize (i + 1) (off + n) (remaining - n) { p with mism := p.mism ++ mism, tags := p.tags ++ tags }

/-- flight builders: the whole flight is planned from the complete stream, then serialised -/
def predictFlight (c : Cfg) (s : Nat → Nat) (im : Impl) (views : Array (Option View)) (maxSize : Nat) : Pred := Id.run do
  let spec := c.spec
  let L := im.L
  let h0 := hdrOf spec s (im.tokOff.getD 0) 0
  let budgets := flightBudgets spec.plans L maxSize h0.len
  let mut p : Pred := {}
  -- the builder's outcome per datagram
  let wsE : Except String (List (W × Bool)) :=
    match spec.builder with
    | .flight ds =>
      if ds.length = 0 then .error "E:flight" else
      match ds.mapM (fun l => ffBuild l L) with
      | some ws => .ok (ws.map (·, true))
      | none => .error "E:flight"
    | .randFlight ds =>
      if ds.length = 0 then .error "E:flight" else
      let rec go (i : Nat) (ds : List RFD) (acc : List (W × Bool)) : Except String (List (W × Bool)) :=
        match ds with
        | [] => .ok acc.reverse
        | d :: rest =>
          if d.ranges.length = 0 ∨ !d.frames.flightBoundsOK then .error "E:flight" else
          match d.ranges.mapM (fun r => resolve r.1 r.2 L) with
          | none => .error "E:flight"
          | some rs =>
            let rs := rs.filter (fun se => se.2 > se.1)
            if rs.length = 0 then .error "E:flight" else
            -- witness when the datagram was observed, else the coarsest cut (one frame per range)
            let (cr, pg) := match (views[i]?).join.bind (·.frames) with
              | some fs => witnessOf fs
              | none => (rs.map (fun se => (se.1, se.2 - se.1)), 0)
            go (i + 1) rest ((rfW d.frames cr pg 0, false) :: acc)
      go 0 ds []
    | _ => .error "E:other"
  match wsE with
  | .error e => return { p with err := e, tags := [s!"err:{e}"] }
  | .ok ws =>
    let wl := ws.map (·.1)
    -- for the random flight the coverage is decided by the ranges, not by the cuts
    let covW : List W := match spec.builder with
      | .randFlight ds => ds.map fun d => { crypto := (d.ranges.filterMap fun r => resolve r.1 r.2 L).map fun se => (se.1, se.2 - se.1) }
      | _ => wl
    let budgetOK := (List.range wl.length).all fun i =>
      let budget := budgets.getD (min i (budgets.length - 1)) 0
      !(budget > 0 && (wl.getD i {}).payloadLen > budget)
    match spec.builder with
    | .randFlight _ =>
      if !(validateFlight covW (budgets.map fun _ => 0) L) then return { p with err := "E:flight", tags := ["err:E:flight-coverage"] }
      -- budget: judged on the witnessed outcome; when the plan was rejected there is no witness and the
      -- rejection is accepted as reported
      if !budgetOK then return { p with err := "E:flight", tags := ["err:E:flight-budget"] }
      if im.err == "E:flight" then return { p with err := "E:flight", tags := ["err:E:flight-random-budget"] }
    | _ =>
      if !(validateFlight wl budgets L) then return { p with err := "E:flight", tags := [if budgetOK then "err:E:flight-coverage" else "err:E:flight-budget"] }
    for i in [0:ws.length] do
      let (w, exact) := ws.getD i ({}, true)
      let h := hdrOf spec s (im.tokOff.getD 0) i
      let plan := planOf spec i
      let fill := exactFill plan h.len w.payloadLen
      match sizesOf h w plan spec.udpMin with
      | .error .nofit => return { p with n := i, err := "E:nofit", tags := p.tags ++ ["err:E:nofit"] }
      | .error .badPnLen => return { p with n := i, err := "E:other", tags := p.tags ++ ["err:badPnLen"] }
      | .ok out =>
        let mism := match views[i]?, im.dgrams[i]? with
          | some (some v), some d =>
            cmpDatagram i h w exact plan out d v ++
              (match spec.builder, exact with
               | .randFlight ds, false =>
                 let rs := ((ds.getD i { ranges := [], frames := {} }).ranges.filterMap fun r => resolve r.1 r.2 L).filter (fun se => se.2 > se.1)
                 -- the witnessed frames must cut exactly the assigned ranges
                 let sorted := (w.crypto.toArray.qsort (fun a b => a.1 < b.1)).toList
                 let ok := rs.all fun se =>
                   let inside := sorted.filter fun f => se.1 ≤ f.1 ∧ f.1 < se.2
                   tiles inside se.1 (se.2 - se.1)
                 if ok ∧ (w.crypto.map (·.2)).foldl (· + ·) 0 == (rs.map fun se => se.2 - se.1).foldl (· + ·) 0 then [] else [s!"d{i}.witness:crypto frames {w.crypto} do not cut the ranges {rs}"]
               | _, _ => [])
          | some none, some d => shortCmp i h out d
          | _, _ => [s!"d{i}:missing"]
        p := { p with mism := p.mism ++ mism, n := i + 1,
                      tags := p.tags ++ [if plan.packetSize > 0 then (if fill > 0 then "pad:exact" else "pad:exact-nofill") else if out.datagramLen > out.packetLen then "pad:udp" else "pad:none"] }
    return p


/-! ### the caller's spec after a dial (round 4) -/

/-- ghost: the op line's own description of the spec.  `after=` is the driver's description of the spec value as it
    reads AFTER the dial ('&' for ' '), `slack=` the bytes behind the windows its slices are (prefix / packet-number
    lengths / plans / explicit token), which the driver filled with 0xc5 -/
def specAfterFails (ws iw : List String) : List (String × String × String) :=
  let after := kvOf iw "after"
  let slack := kvOf iw "slack"
  let changed := (after.splitOn "&").filterMap fun item =>
    match item.splitOn "=" with
    | k :: rest => let v := "=".intercalate rest; if kvOf ws k == v then none else some s!"{k}: {kvOf ws k} -> {v}"
    | [] => none
  let dirty := slack ≠ "-" && !((slack.splitOn "/").all fun part => (hexBytes part).all (· == 0xc5))
  (if after.isEmpty ∨ !changed.isEmpty then
     [("spec_untouched_by_dial", "-", s!"the caller's spec reads differently after the dial: {changed}")] else []) ++
  (if slack.isEmpty ∨ dirty then
     [("spec_untouched_by_dial", "-", s!"bytes behind the spec's slices (token prefix/pn lengths/plans/explicit token) were written: {slack}")] else [])

def fmtBytes (b : List Nat) : String := String.ofList (b.flatMap fun x => [Nat.digitChar (x / 16), Nat.digitChar (x % 16)])

/-- `overlap`: two dials with ONE spec value on a dead path, B started while A still has Initial packets to send
    (PTO retransmissions).  Every Initial datagram of both connections is reported with the connection ID and token
    it shows on the wire (no protection covers them).  The number and timing of the packets is outside the model; the
    token of every one of them is predicted (`tokenFor` at the witnessed read position of its own dial). -/
def stepOverlap (ws : List String) (c : Cfg) (impl : String) : StepOut :=
  let parts := impl.splitOn " | "
  let iw := words (parts.headD "")
  let spec := c.spec
  let s := mkStream c.script
  let offsS := kvOf iw "tokoffs"
  let offs : List Nat := if offsS == "-" || offsS.isEmpty then [] else (offsS.splitOn ".").map natOf
  let pk : List (String × Nat × String × List Nat) := (parts.drop 1).filterMap fun d => match d.splitOn ":" with
    | [who, tm, dcid, tok] => some (who, natOf tm, dcid, if tok == "-" then [] else hexBytes tok)
    | _ => none
  let tailLen := match spec.token with | .synth pre len => tokenLength pre len - pre.length | _ => 0
  let needTok := tailLen > 0
  let rejected := dialRejects spec
  let expOf (k : Nat) : Option (List Nat) := if needTok then (offs[k]?).map (tokenFor spec s ·) else some (tokenFor spec s 0)
  let conn (who : String) := pk.filter (·.1 == who)
  let judge (who : String) (k : Nat) : List String × List (String × String × String) :=
    let ps := conn who
    match ps with
    | [] => ([], [])
    | p0 :: _ =>
      let exp := expOf k
      let mism := (match exp with
        | none => [s!"tokoffs:{who} sent Initial packets but no token read position was reported"]
        | some e => (ps.filter (·.2.2.2 ≠ e)).map fun p => s!"{who}@{p.2.1}ms.token:exp={fmtBytes e} got={fmtBytes p.2.2.2}")
      let fails :=
        (ps.filter (·.2.2.2 ≠ p0.2.2.2)).map (fun p => ("token_stable_within_connection", "-",
          s!"connection {who}: Initial packet at {p.2.1} ms carries token {fmtBytes p.2.2.2}, its first Initial carried {fmtBytes p0.2.2.2}")) ++
        (match exp with
         | some e => (ps.filter (·.2.2.2 ≠ e)).map (fun p => ("token_as_specified", "-",
             s!"connection {who}: Initial packet at {p.2.1} ms carries token {fmtBytes p.2.2.2}, specified {fmtBytes e}"))
         | none => []) ++
        (if spec.dcidLen > 0 then (ps.filter (fun p => p.2.2.1.length ≠ 2 * spec.dcidLen)).map (fun p => ("header_as_specified", "-",
             s!"connection {who}: Initial packet at {p.2.1} ms has destination connection ID {p.2.2.1}, specified length {spec.dcidLen}")) else [])
      (mism, fails)
  let (mA, fA) := judge "A" 0
  let (mB, fB) := judge "B" 1
  -- fresh per dial: where the random source supplied different tails, the two connections' tokens differ
  let fresh := match (conn "A").head?, (conn "B").head?, offs with
    | some a, some b, [oa, ob] =>
      if tailLen ≥ 4 ∧ takeStream s oa tailLen ≠ takeStream s ob tailLen ∧ a.2.2.2 == b.2.2.2 then
        [("token_fresh_per_dial", "-", s!"connections A and B carry the same token {fmtBytes a.2.2.2}")] else []
    | _, _, _ => []
  let rej := if rejected ∧ !pk.isEmpty then [s!"n:exp=0 got={pk.length} (dial must be rejected before anything is sent)"] else []
  let after := specAfterFails ws iw
  let mism := mA ++ mB ++ rej ++ after.map (fun f => s!"spec:{f.2.2}")
  let firstB := ((conn "B").head?.map (·.2.1)).getD 1000000
  let late := (conn "A").any (fun p => p.2.1 > firstB)
  { model := if mism.isEmpty then impl else "MISMATCH " ++ " ".intercalate mism,
    fails := fA ++ fB ++ fresh ++ after,
    tags := ["op:overlap", if late then "ov:A-sends-after-B-dialled" else "ov:no-late-packet", s!"ov:nA:{min (conn "A").length 6}",
             s!"ov:gap:{kvOf ws "gap"}", if kvOf ws "shs" == "1" then "spec:shared" else "spec:fresh",
             if kvOf ws "slk" == "1" then "spec:slack" else "spec:tight", builderTag spec.builder,
             s!"err:{(((kvOf iw "err").splitOn "/").headD "").take 7}"] ++
            (match spec.token with | .none => ["tok:none"] | .explicit _ => ["tok:explicit"] | .synth _ _ => ["tok:synth"]) }

/-! ### the step -/

structure St where
  /-- random tails of synthesised tokens seen in earlier dials of this case, with the bytes the random
      source supplied for them -/
  tails : List (List Nat × List Nat) := []

def step (st : St) (op impl : String) : St × StepOut :=
  let ws := words op
  if ws.headD "" ≠ "dial" ∧ ws.headD "" ≠ "overlap" then (st, { model := "bad-op" }) else
  match parseCfg ws with
  | none => (st, { model := "bad-op" })
  | some c =>
  if ws.headD "" == "overlap" then
    (if impl.startsWith "err=" then (st, stepOverlap ws c impl) else (st, { model := "unparsable-result", tags := ["impl:unparsable"] })) else
  match parseImpl impl with
  | none => (st, { model := "unparsable-result", tags := ["impl:unparsable"] })
  | some im => Id.run do
    let spec := c.spec
    let s := mkStream c.script
    let maxSize := maxSizeFor c.ips
    let views : Array (Option View) := im.dgrams.map fun d =>
      if d.status == "ok" ∨ d.status == "pnmiss" then observe d.plain d.rawLen else none
    -- ---------------- model
    let rejected := dialRejects spec
    let pred : Pred := if rejected then { err := "E:pnfit", tags := ["err:E:pnfit"] }
                else if spec.builder.isFlight then predictFlight c s im views maxSize
                else predictSeq c s im views maxSize 0 0 im.L {}
    let mut mism := pred.mism
    -- a rejected dial creates no connection (the driver then reports max=-1)
    if !rejected ∧ im.max ≠ maxSize then mism := mism ++ [s!"max:exp={maxSize} got={im.max}"]
    if rejected ∧ im.n ≠ 0 then mism := mism ++ [s!"n:exp=0 got={im.n} (dial must be rejected before anything is sent)"]
    let errOK :=
      if pred.err ≠ "" then im.err == pred.err || (pred.err == "E:other" && im.err.startsWith "E:other")
      -- against the live server the dial goes on after the first flight (handshake, or PTO retransmissions when
      -- the server cannot open the flight); its final outcome is outside the model as long as the whole
      -- predicted flight was emitted first
      else if c.live then im.err == "ok" || im.err == "timeout" || (im.err.startsWith "E:" && im.n ≥ pred.n)
      else im.err == "timeout"
    if !errOK then mism := mism ++ [s!"err:exp={if pred.err == "" then "none" else pred.err} got={im.err}"]
    if pred.err == "" ∧ im.n ≠ pred.n then mism := mism ++ [s!"n:exp={pred.n} got={im.n}"]
    -- the token store's read position must be reported exactly when a random tail is drawn
    let needTok := match spec.token with | .synth pre len => decide (tokenLength pre len > pre.length) | _ => false
    if pred.err == "" ∧ needTok ≠ im.tokOff.isSome then mism := mism ++ [s!"tokoff:exp-present={needTok}"]
    let iw := words ((impl.splitOn " | ").headD "")
    let after := specAfterFails ws iw
    mism := mism ++ after.map (fun f => s!"spec:{f.2.2}")
    let model := if mism.isEmpty then impl else "MISMATCH " ++ " ".intercalate mism
    -- ---------------- monitors (ghost: the spec of the op + the scripted stream only)
    let mut fails : List (String × String × String) := after
    let mut st := st
    -- monitors judge what the implementation emitted; when the model expects the dial to be refused for its packet
    -- number but datagrams went out, they are judged all the same (the flight cannot be opened)
    let judged := if pred.err == "E:pnfit" then (if im.err == "E:pnfit" then 0 else im.dgrams.size)
      else if pred.err ≠ "" then 0 else if im.err.startsWith "E:" then min pred.n im.dgrams.size else im.dgrams.size
    let mut largest : Int := 0        -- a server's opener starts at 0 (quic-go) and tracks the largest opened
    let mut prevMinOff : Option Nat := none
    let mut prevPlanCrypto : Nat := 0
    -- a dial may be refused for its packet number only when that number really cannot be conveyed
    if im.err == "E:pnfit" then
      let l := intendedPnLen spec 0
      if !(1 ≤ l ∧ l ≤ 4 ∧ intendedFirstPN spec ≥ 256 ^ l) then
        fails := fails ++ [("decryptable", "-", s!"dial rejected although first packet number {intendedFirstPN spec} fits {l} byte(s)")]
      if im.n ≠ 0 then
        fails := fails ++ [("decryptable", "-", s!"dial rejected for its packet number after {im.n} datagram(s) were sent")]
    for i in [0:judged] do
      let d := im.dgrams[i]!
      match views[i]! with
      | none =>
        fails := fails ++ [("decryptable", "-", s!"datagram {i}: status {d.status}")]
      | some v =>
        let plan := intendedPlan spec i
        if !headerShapeOK spec v then
          fails := fails ++ [("header_as_specified", "-", s!"datagram {i}: first={v.firstByte} version={v.version} dcidLen={v.dcidLen} scidLen={v.scidLen}")]
        if !pnOK spec i v then
          fails := fails ++ [("pn_sequence", "-", s!"datagram {i}: wire pn {v.pn} ({v.pnLen} bytes), expected {intendedPN spec i}")]
        if !pnLenOK spec i v then
          fails := fails ++ [("pn_len_as_specified", "-", s!"datagram {i}: pnLen {v.pnLen}, specified {intendedPnLen spec i}")]
        if !tokenOK spec s im.tokOff v then
          fails := fails ++ [("token_as_specified", "-", s!"datagram {i}: token {fmtBytes v.token}")]
        if i == 0 then
          let tail := tokenTail spec v
          let drawn := match im.tokOff with | some o => takeStream s o tail.length | none => []
          if tail.length ≥ 4 then
            -- fresh per dial: where the random source supplied different bytes, the tokens differ
            if st.tails.any (fun (t, dr) => t == tail && dr != drawn) then
              fails := fails ++ [("token_fresh_per_dial", "-", s!"token tail {fmtBytes tail} repeats an earlier dial's")]
            st := { st with tails := (tail, drawn) :: st.tails }
        let sv := sizesOK spec i v d.tz
        if !sv.ok then
          fails := fails ++ [("sizes_as_specified", "-", s!"datagram {i}: {sv.why}")]
        match v.frames with
        | none => fails := fails ++ [("frame_counts_within_bounds", "-", s!"datagram {i}: payload is not a PADDING/PING/CRYPTO sequence")]
        | some fs =>
          if !frameCountsOK spec i im.L fs then
            fails := fails ++ [("frame_counts_within_bounds", "-", s!"datagram {i}: {numCrypto fs} CRYPTO, {numPing fs} PING, {numPaddingRuns fs} PADDING runs")]
          -- CryptoLength c on datagram i-1 => this datagram's lowest CRYPTO offset is c further on
          if !spec.builder.isFlight then
            match prevMinOff, minCryptoOffset fs with
            | some po, some mo =>
              if prevPlanCrypto > 0 ∧ mo ≠ po + prevPlanCrypto then
                fails := fails ++ [("crypto_split_offsets", "-", s!"datagram {i}: lowest CRYPTO offset {mo}, previous {po} + CryptoLength {prevPlanCrypto}")]
            | _, _ => pure ()
            -- the last datagram of the stream may carry less than CryptoLength; every other one exactly it
            if plan.cryptoLength > 0 ∧ i + 1 < judged ∧ cryptoBytes fs ≠ plan.cryptoLength ∧ plan.cryptoLength + 64 < maxSize - v.headerLen then
              fails := fails ++ [("crypto_split_offsets", "-", s!"datagram {i}: {cryptoBytes fs} CRYPTO bytes, CryptoLength {plan.cryptoLength}")]
            prevMinOff := minCryptoOffset fs
            prevPlanCrypto := if cryptoBytes fs == plan.cryptoLength then plan.cryptoLength else 0
          -- none exceeds the connection's current maximum packet size (unless the spec asked for that size)
          let rfLen := match spec.builder with
            | .random rf => rf.length
            | .multi l => (rfFor l i).map (·.length) |>.getD 0
            | .randFlight ds => (ds[i]?).map (·.frames.length) |>.getD 0
            | _ => 0
          -- sizes the spec itself asked for: an exact PacketSize, or a frame payload padded to the builder's Length
          let asked := max plan.packetSize (if v.payloadLen ≤ rfLen then v.headerLen + rfLen + 16 else 0)
          if v.packetLen > max maxSize asked then
            let single := match minCryptoOffset fs with | some mo => cryptoFrameLen mo (cryptoBytes fs) | none => 0
            let overhead := v.payloadLen - single
            -- the two listed findings are NARROW: the excess must be explained by the frames the builder added on
            -- top of the single CRYPTO frame the packer budgeted (without them the packet would have fitted)
            let explained := decide (v.packetLen - overhead ≤ max maxSize asked)
            let cls := match spec.builder with
              | .random rf => if rf.length > 0 ∧ rf.minPad ≥ 1 then (if overhead > paddingReserve ∧ explained then "random_frames_overhead_exceeds_reserve" else "-")
                              else if overhead > 0 ∧ explained then "builder_frames_not_budgeted" else "-"
              | .flight _ => "-"
              | .randFlight _ => "-"
              | _ => if overhead > 0 ∧ explained then "builder_frames_not_budgeted" else "-"
            fails := fails ++ [("within_max_packet_size", cls, s!"datagram {i}: packet {v.packetLen} > max {maxSize} (payload {v.payloadLen}, one-frame size {single})")]
        -- decryptable: the independent opener, and the live server when there is one
        let fullPN := intendedPN spec i
        if d.status ≠ "ok" then
          fails := fails ++ [("decryptable", "-", s!"datagram {i}: opener status {d.status}, pn {fullPN} sent in {v.pnLen} bytes")]
        else if c.live ∧ im.hasSrv ∧ !(im.srv.contains (fullPN : Int)) then
          let cls := if v.dcidLen < 8 then "dcid_shorter_than_8" else "-"
          fails := fails ++ [("decryptable", cls, s!"datagram {i}: server did not process Initial pn {fullPN} (received {im.srv})")]
        if d.status == "ok" then largest := max largest fullPN
    -- ---------------- tags
    let tags := [builderTag spec.builder, if c.live then "mode:live" else "mode:dead", if kvOf ws "shr" == "1" then "conf:shared" else "conf:fresh",
      if kvOf ws "shs" == "1" then "spec:shared" else "spec:fresh", if kvOf ws "slk" == "1" then "spec:slack" else "spec:tight", s!"n:{min im.n 5}", s!"err:{(im.err.splitOn ":").take 2 |> ":".intercalate}"] ++
      (match spec.token with | .none => ["tok:none"] | .explicit _ => ["tok:explicit"] | .synth _ _ => ["tok:synth"]) ++
      [if spec.dcidLen = 0 then "dcid:default" else if spec.dcidLen < 8 then "dcid:short" else "dcid:fixed",
       if spec.scidLen = 0 then "scid:empty" else "scid:fixed",
       if spec.pnLens.length > 0 then "pnlen:list" else if spec.pnLen1 ≠ 0 then "pnlen:single" else "pnlen:default",
       if spec.initPN > maxPN then "ipn:beyond-2^62" else if spec.initPN ≥ 256 then "ipn:large" else "ipn:small"] ++
      (if spec.plans.length > 0 then ["plans:set"] else []) ++
      (im.dgrams.toList.filterMap fun d => if d.status ≠ "ok" then some s!"status:{d.status}" else none) ++ pred.tags
    return (st, { model := model, tags := dedup tags, fails := fails })

def main : IO Unit := run { init := ({} : St), step := step }
