import Uquic.Oracle.Frame
import Uquic.Model.H3.Fields
import Uquic.Model.H3.Writer
import Uquic.Model.H3.Glue
import Uquic.Model.H3.ReqLock
import Uquic.Model.H3.ReqLockFault
import Uquic.Model.H3.TrailerGate
import Uquic.Model.H3.RespFault
import Uquic.Spec.H3FieldsWF
import Uquic.Spec.H3FieldsMon
import Uquic.Spec.H3GlueMon

/-!
Oracle of the C19 glue driver `h3g` (see harness/drivers/h3g/h3g_test.go for the line protocol).
Model: Uquic/Model/H3/Glue.lean (+ Fields.lean, Writer.lean, ReqLock.lean); monitors:
Uquic/Spec/H3GlueMon.lean — they judge what the implementation's PEER observed against the reference
predicate of the op's field sections only.
-/

open Uquic.Oracle Uquic.Model.H3.Fields Uquic.Model.H3.Writer Uquic.Model.H3.Glue
open Uquic.Spec.H3GlueMon



/-! ## text helpers -/

def hexDigit (n : Nat) : Char := if n < 10 then Char.ofNat (48 + n) else Char.ofNat (87 + n)
def hx (bs : List Nat) : String := String.ofList (bs.flatMap fun b => [hexDigit (b / 16), hexDigit (b % 16)])

def hexVal (c : Char) : Nat :=
  let n := c.toNat
  if 48 ≤ n && n ≤ 57 then n - 48 else if 97 ≤ n && n ≤ 102 then n - 87 else if 65 ≤ n && n ≤ 70 then n - 55 else 0

def unhxL : List Char → List Nat
  | a :: b :: rest => (hexVal a * 16 + hexVal b) :: unhxL rest
  | _ => []
def unhx (s : String) : List Nat := unhxL s.toList

def splitFirst (s : String) (sep : String) : String × String :=
  match s.splitOn sep with
  | [] => ("", "")
  | [a] => (a, "")
  | a :: rest => (a, sep.intercalate rest)

/-- a field token `<hexname>=<hexvalue>[^]` → (field, flagged) -/
def parseFieldTok (t : String) : (List Nat × List Nat) × Bool :=
  let flagged := t.endsWith "^"
  let t := if flagged then (t.dropEnd 1).toString else t
  let (n, v) := splitFirst t "="
  ((unhx n, unhx v), flagged)

def parseFieldToks (ts : List String) : List (List Nat × List Nat) × List (List Nat) :=
  let ps := (ts.filter (fun t => t.contains '=')).map parseFieldTok
  (ps.map (·.1), (ps.filter (·.2)).map (·.1.1))

/-- `strings.ToLower(name) == name` for names with a byte ≥ 0x80: taken from the op line -/
def extOf (flagged : List (List Nat)) : List Nat → Bool := fun n => !flagged.contains n

def fmtFieldTok (flagged : List (List Nat)) (f : List Nat × List Nat) : String :=
  hx f.1 ++ "=" ++ hx f.2 ++ (if flagged.contains f.1 then "^" else "")

def ltBytes : List Nat → List Nat → Bool
  | [], [] => false
  | [], _ :: _ => true
  | _ :: _, [] => false
  | a :: as, b :: bs => if a < b then true else if a > b then false else ltBytes as bs

def insertBy {α} (lt : α → α → Bool) (x : α) : List α → List α
  | [] => [x]
  | y :: ys => if lt x y then x :: y :: ys else y :: insertBy lt x ys
/-- stable insertion sort -/
def sortBy {α} (lt : α → α → Bool) (l : List α) : List α := l.foldr (fun x acc => insertBy lt x acc) []

def dedupL (l : List (List Nat)) : List (List Nat) :=
  l.foldl (fun acc x => if acc.contains x then acc else acc ++ [x]) []

/-- Go `fmtHdrs`: keys sorted, values in insertion order -/
def fmtHdrs (h : Headers) : String :=
  if h.isEmpty then "-"
  else
    let keys := sortBy ltBytes (dedupL (h.map (·.1)))
    ";".intercalate (keys.map fun k => hx k ++ ":" ++ ",".intercalate ((hdrValues h k).map hx))

def fmtTrailerKeys : Option (List (List Nat)) → String
  | none => "nil"
  | some ks => "[" ++ ",".intercalate ((sortBy ltBytes (dedupL ks)).map hx) ++ "]"

def argOf (ws : List String) (key : String) : String :=
  match ws.find? (fun w => w.startsWith (key ++ "=")) with
  | some w => (w.drop (key.length + 1)).toString
  | none => ""

def fmtInt (i : Int) : String := toString i

/-! ## model results as text -/

def fmtHdrRes : Except Err Hdr → String
  | .error e => e.text
  | .ok h => s!"ok p={hx h.path} m={hx h.method} a={hx h.authority} s={hx h.scheme} st={hx h.status} pr={hx h.protocol} cl={fmtInt h.contentLength} h={fmtHdrs h.headers}"

def fmtReqRes : Except Err Req → String
  | .error e => e.text
  | .ok r => s!"ok m={hx r.method} proto={hx r.proto} host={hx r.host} uri={hx r.requestURI} cl={fmtInt r.contentLength} h={fmtHdrs r.headers} tr={fmtTrailerKeys r.trailer}"

def fmtRspRes : Except Err Resp → String
  | .error e => e.text
  | .ok r => s!"ok code={fmtInt r.status} cl={fmtInt r.contentLength} h={fmtHdrs r.headers} tr={fmtTrailerKeys r.trailer}"


/-! ## parsing the op -/

def natOfS (s : String) : Nat := s.toNat?.getD 0

structure PMsg where
  enc : Int
  qerr : Bool
  dlen : Option Nat
  tenc : Int
  fs : List (List Nat × List Nat)
  flagged : List (List Nat)
  trl : Option (List (List Nat × List Nat))
  tflagged : List (List Nat)
  /-- frames behind the trailer section: a further field section / a DATA frame -/
  tail : List (Sum (List (List Nat × List Nat)) Nat) := []
  /-- the first `nest` of them are the payload of the (oversized) trailer HEADERS frame -/
  nest : Nat := 0

/-- split at every occurrence of `sep` -/
def splitAtWord (sep : String) : List String → List (List String)
  | [] => [[]]
  | w :: ws =>
    match splitAtWord sep ws with
    | [] => [[]]
    | g :: gs => if w == sep then [] :: g :: gs else (w :: g) :: gs

def parseTailItem (g : List String) : Option (Sum (List (List Nat × List Nat)) Nat × List (List Nat)) :=
  match g with
  | "h" :: toks => let (fs, fl) := parseFieldToks toks; some (.inl fs, fl)
  | ["d", n] => some (.inr (n.toNat?.getD 0), [])
  | _ => none

def parsePart (p : String) : PMsg :=
  let w := words p
  let pre := w.takeWhile (· != "f")
  let all := (w.dropWhile (· != "f")).drop 1
  let rest := all.takeWhile (· != "x")
  let items := ((splitAtWord "x" (all.dropWhile (· != "x"))).drop 1).filterMap parseTailItem
  let ftoks := rest.takeWhile (· != "t")
  let hasT := rest.contains "t"
  let ttoks := (rest.dropWhile (· != "t")).drop 1
  let (fs, fl) := parseFieldToks ftoks
  let (ts, tfl) := parseFieldToks ttoks
  let d := intOf (argOf pre "d")
  { enc := intOf (argOf pre "e"), qerr := argOf pre "q" == "1", dlen := if d < 0 then none else some d.toNat,
    tenc := intOf (argOf pre "te"), fs := fs, flagged := fl, trl := if hasT then some ts else none,
    tflagged := tfl ++ items.flatMap (·.2), tail := items.map (·.1), nest := natOfS (argOf pre "nest") }

def lowerB (b : Nat) : Nat := if 65 ≤ b && b ≤ 90 then b + 32 else b
def hasCL (fs : List (List Nat × List Nat)) : Bool := fs.any (fun (f : List Nat × List Nat) => f.1.map lowerB == nContentLength)

def toMsg (lim : Int) (m : PMsg) : Msg :=
  { lim := lim, enc := m.enc, qerr := m.qerr, fs := m.fs, dlen := m.dlen, trl := m.trl.map (fun t => (m.tenc, t)) }

/-- text after `key=` up to the next space -/
def wordArg (s key : String) : String := argOf (words s) key

open Uquic.Model.H3.TrailerGate in
def tailEvents (m : PMsg) : List Ev :=
  m.tail.map fun it => match it with
    | .inl fs => Ev.headers 0 fs   -- the frame length of a later section never matters: the gate is closed
    | .inr n => Ev.data n

open Uquic.Model.H3.TrailerGate in
/-- io.ReadAll, `again` further io.ReadAll calls, then the trailers (Model/H3/TrailerGate.lean) -/
def readMsg (lim : Int) (m : PMsg) (again : Nat) : MsgObs :=
  readMessage .markFirst (extOf m.tflagged) lim (events m.dlen (m.trl.map fun t => (m.tenc, t)) (tailEvents m)) again

def bodyText (b : Uquic.Model.H3.TrailerGate.MsgObs) (again : Bool) : String :=
  s!" b={b.bytes} rerr={if b.failed then 1 else 0}" ++ (if again then s!" again={b.againBytes}" else "") ++ s!" t={fmtHdrs b.trailers}"

def againOf (implView : String) : Option Nat :=
  if (implView.splitOn " again=").length == 2 then (argOf (words implView) "again").toNat? else none

/-! ## srv -/

def srvPart (lim : Int) (rr : Nat) (m : PMsg) (impl : String) : String × List String × List Fail :=
  let implView := (splitFirst impl " h=").2
  let handled := implView != "-" && implView != ""
  -- url.ParseRequestURI is external: plain paths are accepted; for any other path the answer is taken
  -- from the implementation (the monitors judge plain paths only)
  let implRejected := !handled
  let urlOK := fun (p : List Nat) => plainPath p || !implRejected
  let out := handleRequestStream (extOf m.flagged) urlOK lim m.enc m.fs m.qerr
  let body := readMsg lim m rr
  let showBody := !hasCL m.fs
  let model := match out with
    | .reject431 c => s!"st=431 rd=eof wr=stop:{c} h=-"
    | .reset c => s!"st=- rd=rst:{c} wr=stop:{c} h=-"
    | .handler req =>
      let wr := if body.failed then s!"stop:{Uquic.Gen.H3Fields.ErrCodeNoError}" else "open"
      (if rr > 0 then "st=* rd=* wr=*" else s!"st=200 rd=eof wr={wr}") ++
        s!" h={fmtReqRes (.ok req)}" ++ (if showBody then bodyText body (rr > 0) else "")
  let tags := match out with
    | .reject431 _ => [if m.enc > lim then "srv:431-frame" else "srv:431-decoded"]
    | .reset c => [s!"srv:reset-{c}"]
    | .handler _ => ["srv:handler"] ++ (if m.trl.isSome then [if body.failed then "srv:trailers-bad" else "srv:trailers-ok"] else []) ++
        (if !m.tail.isEmpty then ["srv:tail"] else []) ++ (if m.nest > 0 then ["srv:nested"] else []) ++ (if rr > 0 then ["srv:read-again"] else [])
  let obs : SrvObs := { status := wordArg impl "st", rd := wordArg impl "rd", wr := wordArg impl "wr", handled := handled, view := implView }
  let bodyShown := handled && showBody && (implView.splitOn " b=").length == 2
  -- a consumer that read on: what the raw peer saw of the exchange is not reported (`*`)
  let masked := handled && wordArg impl "st" == "*"
  let fails := (if masked then [] else serverMonitors (toMsg lim m) obs) ++
    trailerMonitors "request" lim (m.trl.map fun t => (m.tenc, t)) bodyShown
      (wordArg implView "rerr" == "1") (wordArg implView "t") (!m.tail.isEmpty) ++
    stickyMonitors "request" (m.trl.map fun t => (m.tenc, t)) bodyShown (againOf implView) (wordArg implView "t")
  (model, tags, fails)

/-! ## cli -/

def unsupportedResponse (fs : List (List Nat × List Nat)) : Bool :=
  fs.any (fun (f : List Nat × List Nat) => f.1 == nStatus && (match atoi f.2 with
    | some c => 100 ≤ c && c ≤ 199 && c != 101
    | none => false))

def statusShown (fs : List (List Nat × List Nat)) : Bool :=
  match fs.find? (fun (f : List Nat × List Nat) => f.1 == nStatus) with
  | some f => f.2 == B "200" || f.2 == B "404" || f.2 == B "500"
  | none => false

def cliPart (lim : Int) (rr : Nat) (m : PMsg) (impl : String) : String × List String × List Fail :=
  if unsupportedResponse m.fs then ("stop=- r=unsupported", ["cli:unsupported"], [])
  else
    let implView := (splitFirst impl " r=").2
    let out := readResponse (extOf m.flagged) lim m.enc m.fs m.qerr
    let body := readMsg lim m rr
    let showBody := !hasCL m.fs && statusShown m.fs
    let model := match out with
      | .failed c => s!"stop=stop:{c} r=E"
      | .response r =>
        let stop := if !showBody || rr > 0 then "*" else if body.failed then s!"stop:{Uquic.Gen.H3Fields.ErrCodeRequestCanceled}" else "open"
        s!"stop={stop} r={fmtRspRes (.ok r)}" ++ (if showBody then bodyText body (rr > 0) else "")
    let tags := match out with
      | .failed c => [s!"cli:failed-{c}"]
      | .response _ => ["cli:response"] ++ (if m.trl.isSome && showBody then [if body.failed then "cli:trailers-bad" else "cli:trailers-ok"] else []) ++
          (if !m.tail.isEmpty && showBody then ["cli:tail"] else []) ++ (if m.nest > 0 && showBody then ["cli:nested"] else []) ++
          (if rr > 0 && showBody then ["cli:read-again"] else [])
    let obs : CliObs := { stop := wordArg impl "stop", ok := implView.startsWith "ok", view := implView }
    let bodyShown := obs.ok && showBody && (implView.splitOn " b=").length == 2
    let fails := clientMonitors (toMsg lim m) obs ++
      trailerMonitors "response" lim (m.trl.map fun t => (m.tenc, t)) bodyShown
        (wordArg implView "rerr" == "1") (wordArg implView "t") (!m.tail.isEmpty) ++
      stickyMonitors "response" (m.trl.map fun t => (m.tenc, t)) bodyShown (againOf implView) (wordArg implView "t")
    (model, tags, fails)

/-! ## conc -/

structure PConc where
  /-- 0: none; k: the k-th write to the stream fails -/
  ef : Nat := 0
  at_ : Nat
  gz : Bool
  c : ConcReq

def parseConc (p : String) : PConc :=
  let w := words p
  { ef := natOfS (argOf w "ef"), at_ := natOfS (argOf w "at"), gz := argOf w "gz" == "1",
    c := { method := unhx (argOf w "m"), host := unhx (argOf w "host"), path := unhx (argOf w "path"), x := unhx (argOf w "x") } }

/-- the request as net/http builds it from the op (`http.NewRequest(m, "https://"+host+path, nil)` + X-Id) -/
def concWReq (p : PConc) : WReq :=
  { method := p.c.method, proto := vHTTP11, puny := some p.c.host, reqURI := p.c.path, scheme := B "https",
    headers := [(B "X-Id", [p.c.x])], trailerKeys := [], contentLength := 0, gzip := p.gz }

def concStep (parts : List String) (impl : String) : StepOut :=
  let ps := parts.map parseConc
  let blocks : List (Except WErr (List (List Nat × List Nat))) := ps.map fun p => encodeHeaders Uquic.Gen.H3Fields.defaultUserAgent (concWReq p)
  -- the lock model: whatever the interleaving, writer i emits block i (ReqLock.owner is the proved statement)
  -- with injected write errors: the calls take effect one after the other (ReqLockFault); a failed call
  -- leaves nothing behind (failed_request_leaves_writer_clean)
  let faulty := ps.any (·.ef != 0)
  let emitted := if faulty then Uquic.Model.H3.ReqLockFault.emittedBlocks ps.length (ps.map (·.ef))
    else Uquic.Model.H3.ReqLock.emittedBlocks ps.length (ps.map (·.at_))
  let model := " | ".intercalate (emitted.map fun j =>
    if j == ps.length + 1 then "E:other(verif: injected write error)" else
    match blocks.getD j (.error .host) with
    | .ok fs => ("ok " ++ " ".intercalate (fs.map (fmtFieldTok []))).trimAsciiEnd.toString
    | .error e => e.text)
  let implParts := impl.splitOn " | "
  let fails := (ps.zipIdx.flatMap fun (p, i) =>
    let ip := implParts.getD i ""
    let got := if ip.startsWith "ok" then some (parseFieldToks ((words ip).drop 1)).1 else none
    -- a request whose write was made to fail has nothing to show
    if p.ef != 0 then [] else concMonitors i p.c got)
  let interleaved := ps.any (fun p => p.at_ < 2)
  { model := model, tags := ["conc"] ++ (if interleaved then ["conc:interleaved"] else []) ++ (if ps.length > 2 then ["conc:3"] else []) ++
      (if ps.any (·.gz) then ["conc:gzip"] else []) ++ (if faulty then ["conc:write-error"] else []), fails := fails }

/-! ## rsp -/

open Uquic.Model.H3.RespFault in
def parseAct (a : String) : Option Act :=
  if a == "fl" then some .flush
  else if a == "dl1" then some (.deadline true)
  else if a == "dl0" then some (.deadline false)
  else if a == "st" then some .setTrailer
  else if a.startsWith "wh" then (a.drop 2).toString.toNat?.map .writeHeader
  else if a.startsWith "w" then (a.drop 1).toString.toNat?.map .write
  else none

def rspDate : List Nat := B "Mon, 01 Jan 2024 00:00:00 GMT"

open Uquic.Model.H3.RespFault in
def fmtRespFrame (id : List Nat) (tr : Bool) : Frame → String
  | .hdr st cl =>
    -- responseWriter.writeHeader: :status, then the header map (lower-cased keys); printed sorted by name
    let fs : List (List Nat × List Nat) :=
      [(B ":status", B (toString st))] ++ (match cl with | some n => [(B "content-length", B (toString n))] | none => []) ++
      [(B "content-type", B "text/plain"), (B "date", rspDate)] ++ (if tr then [(B "trailer", B "X-T")] else []) ++ [(B "x-id", id)]
    s!"H{st}:" ++ ";".intercalate (fs.map fun f => hx f.1 ++ "=" ++ hx f.2)
  | .data n => s!"D{n}"
  | .trl => "H-:" ++ hx (B "x-t") ++ "=" ++ hx (B "tv-" ++ id)

open Uquic.Model.H3.RespFault in
def fmtOut : Act → Out → String
  | .write _, .wrote n => toString n
  | .flush, .unit => "ok"
  | _, .err => "E"
  | _, _ => "-"

open Uquic.Model.H3.RespFault in
def rspPart (i : Nat) (p : String) (impl : String) : String × List String × List Fail :=
  let w := words p
  let id := unhx (argOf w "id")
  let tr := argOf w "tr" == "1"
  let a := argOf w "a"
  let acts := (if a == "" then [] else a.splitOn ",").filterMap parseAct
  let (s, outs) := serve .markAfter acts
  let o := if acts.isEmpty then "-" else ",".intercalate ((acts.zip outs).map fun (a, o) => fmtOut a o)
  let wire := if s.wire.isEmpty then "-" else ",".intercalate (s.wire.map (fmtRespFrame id tr))
  let model := s!"o={o} w={wire} end=eof"
  let expiredAtEnd := (handler .markAfter {} acts).1.expired
  let faulted := acts.contains (.deadline true)
  let tags := ["rspw"] ++ (if faulted then ["rspw:deadline"] else []) ++ (if outs.contains .err then ["rspw:failed-call"] else []) ++
    (if faulted && !expiredAtEnd then ["rspw:recovered"] else []) ++ (if s.wire.contains .trl then ["rspw:trailers"] else []) ++
    (if s.wire.any (fun f => match f with | .hdr st _ => st < 200 | _ => false) then ["rspw:interim"] else []) ++
    (if s.wire.isEmpty then ["rspw:nothing-sent"] else [])
  -- ghost state from the script only: is the deadline expired when the handler returns?
  let endsWritable := (acts.foldl (fun e a => match a with | .deadline x => x | _ => e) false) == false
  let fails := respMonitors i endsWritable id (parseWire (wordArg impl "w"))
  (model, tags, fails)

/-! ## the driver -/

structure St where
  dummy : Unit := ()

def step (s : St) (op impl : String) : St × StepOut :=
  let parts := op.splitOn " | "
  let head := words (parts.headD "")
  let msgs := parts.drop 1
  let implParts := impl.splitOn " | "
  match head with
  | "srv" :: l :: more =>
    let lim := intOf (l.drop 4).toString
    let rr := natOfS (argOf more "rr")
    -- only the consumer of the LAST message reads on
    let rs := msgs.zipIdx.map fun (p, i) => srvPart lim (if i + 1 == msgs.length then rr else 0) (parsePart p) (implParts.getD i "")
    (s, { model := " | ".intercalate (rs.map (·.1)), tags := ["srv"] ++ rs.flatMap (·.2.1), fails := rs.flatMap (·.2.2) })
  | "cli" :: l :: more =>
    let lim := intOf (l.drop 4).toString
    let rr := natOfS (argOf more "rr")
    let rs := msgs.zipIdx.map fun (p, i) => cliPart lim (if i + 1 == msgs.length then rr else 0) (parsePart p) (implParts.getD i "")
    (s, { model := " | ".intercalate (rs.map (·.1)), tags := ["cli"] ++ rs.flatMap (·.2.1), fails := rs.flatMap (·.2.2) })
  | ["rsp"] =>
    let rs := msgs.zipIdx.map fun (p, i) => rspPart i p (implParts.getD i "")
    (s, { model := " | ".intercalate (rs.map (·.1)), tags := rs.flatMap (·.2.1), fails := rs.flatMap (·.2.2) })
  | ["conc"] => (s, concStep msgs impl)
  | _ => (s, { model := "bad-op" })

def main : IO Unit := run { init := ({} : St), step := step }
