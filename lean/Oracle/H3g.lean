import Uquic.Oracle.Frame
import Uquic.Model.H3.Fields
import Uquic.Model.H3.Writer
import Uquic.Model.H3.Glue
import Uquic.Model.H3.ReqLock
import Uquic.Spec.H3FieldsWF
import Uquic.Spec.H3FieldsMon
import Uquic.Spec.H3GlueMon

/-!
Oracle of the C19 glue driver `h3g` (see harness/drivers/h3g/h3g_test.go for the line protocol).
Model: Uquic/Model/H3/Glue.lean (+ Fields.lean, Writer.lean, ReqLock.lean); monitors:
Uquic/Spec/H3GlueMon.lean — they judge what the implementation's PEER observed against the reference
predicate of the op's field sections only.
-/

open Uquic.Oracle Uquic.Model.H3.Fields Uquic.Model.H3.Writer Uquic.Model.H3.Glue
open Uquic.Spec.H3GlueMon



/-! ## text helpers -/

def hexDigit (n : Nat) : Char := if n < 10 then Char.ofNat (48 + n) else Char.ofNat (87 + n)
def hx (bs : List Nat) : String := String.ofList (bs.flatMap fun b => [hexDigit (b / 16), hexDigit (b % 16)])

def hexVal (c : Char) : Nat :=
  let n := c.toNat
  if 48 ≤ n && n ≤ 57 then n - 48 else if 97 ≤ n && n ≤ 102 then n - 87 else if 65 ≤ n && n ≤ 70 then n - 55 else 0

def unhxL : List Char → List Nat
  | a :: b :: rest => (hexVal a * 16 + hexVal b) :: unhxL rest
  | _ => []
def unhx (s : String) : List Nat := unhxL s.toList

def splitFirst (s : String) (sep : String) : String × String :=
  match s.splitOn sep with
  | [] => ("", "")
  | [a] => (a, "")
  | a :: rest => (a, sep.intercalate rest)

/-- a field token `<hexname>=<hexvalue>[^]` → (field, flagged) -/
def parseFieldTok (t : String) : (List Nat × List Nat) × Bool :=
  let flagged := t.endsWith "^"
  let t := if flagged then (t.dropEnd 1).toString else t
  let (n, v) := splitFirst t "="
  ((unhx n, unhx v), flagged)

def parseFieldToks (ts : List String) : List (List Nat × List Nat) × List (List Nat) :=
  let ps := (ts.filter (fun t => t.contains '=')).map parseFieldTok
  (ps.map (·.1), (ps.filter (·.2)).map (·.1.1))

/-- `strings.ToLower(name) == name` for names with a byte ≥ 0x80: taken from the op line -/
def extOf (flagged : List (List Nat)) : List Nat → Bool := fun n => !flagged.contains n

def fmtFieldTok (flagged : List (List Nat)) (f : List Nat × List Nat) : String :=
  hx f.1 ++ "=" ++ hx f.2 ++ (if flagged.contains f.1 then "^" else "")

def ltBytes : List Nat → List Nat → Bool
  | [], [] => false
  | [], _ :: _ => true
  | _ :: _, [] => false
  | a :: as, b :: bs => if a < b then true else if a > b then false else ltBytes as bs

def insertBy {α} (lt : α → α → Bool) (x : α) : List α → List α
  | [] => [x]
  | y :: ys => if lt x y then x :: y :: ys else y :: insertBy lt x ys
/-- stable insertion sort -/
def sortBy {α} (lt : α → α → Bool) (l : List α) : List α := l.foldr (fun x acc => insertBy lt x acc) []

def dedupL (l : List (List Nat)) : List (List Nat) :=
  l.foldl (fun acc x => if acc.contains x then acc else acc ++ [x]) []

/-- Go `fmtHdrs`: keys sorted, values in insertion order -/
def fmtHdrs (h : Headers) : String :=
  if h.isEmpty then "-"
  else
    let keys := sortBy ltBytes (dedupL (h.map (·.1)))
    ";".intercalate (keys.map fun k => hx k ++ ":" ++ ",".intercalate ((hdrValues h k).map hx))

def fmtTrailerKeys : Option (List (List Nat)) → String
  | none => "nil"
  | some ks => "[" ++ ",".intercalate ((sortBy ltBytes (dedupL ks)).map hx) ++ "]"

def argOf (ws : List String) (key : String) : String :=
  match ws.find? (fun w => w.startsWith (key ++ "=")) with
  | some w => (w.drop (key.length + 1)).toString
  | none => ""

def fmtInt (i : Int) : String := toString i

/-! ## model results as text -/

def fmtHdrRes : Except Err Hdr → String
  | .error e => e.text
  | .ok h => s!"ok p={hx h.path} m={hx h.method} a={hx h.authority} s={hx h.scheme} st={hx h.status} pr={hx h.protocol} cl={fmtInt h.contentLength} h={fmtHdrs h.headers}"

def fmtReqRes : Except Err Req → String
  | .error e => e.text
  | .ok r => s!"ok m={hx r.method} proto={hx r.proto} host={hx r.host} uri={hx r.requestURI} cl={fmtInt r.contentLength} h={fmtHdrs r.headers} tr={fmtTrailerKeys r.trailer}"

def fmtRspRes : Except Err Resp → String
  | .error e => e.text
  | .ok r => s!"ok code={fmtInt r.status} cl={fmtInt r.contentLength} h={fmtHdrs r.headers} tr={fmtTrailerKeys r.trailer}"


/-! ## parsing the op -/

def natOfS (s : String) : Nat := s.toNat?.getD 0

structure PMsg where
  enc : Int
  qerr : Bool
  dlen : Option Nat
  tenc : Int
  fs : List (List Nat × List Nat)
  flagged : List (List Nat)
  trl : Option (List (List Nat × List Nat))
  tflagged : List (List Nat)

def parsePart (p : String) : PMsg :=
  let w := words p
  let pre := w.takeWhile (· != "f")
  let rest := (w.dropWhile (· != "f")).drop 1
  let ftoks := rest.takeWhile (· != "t")
  let hasT := rest.contains "t"
  let ttoks := (rest.dropWhile (· != "t")).drop 1
  let (fs, fl) := parseFieldToks ftoks
  let (ts, tfl) := parseFieldToks ttoks
  let d := intOf (argOf pre "d")
  { enc := intOf (argOf pre "e"), qerr := argOf pre "q" == "1", dlen := if d < 0 then none else some d.toNat,
    tenc := intOf (argOf pre "te"), fs := fs, flagged := fl, trl := if hasT then some ts else none, tflagged := tfl }

def lowerB (b : Nat) : Nat := if 65 ≤ b && b ≤ 90 then b + 32 else b
def hasCL (fs : List (List Nat × List Nat)) : Bool := fs.any (fun (f : List Nat × List Nat) => f.1.map lowerB == nContentLength)

def toMsg (lim : Int) (m : PMsg) : Msg :=
  { lim := lim, enc := m.enc, qerr := m.qerr, fs := m.fs, dlen := m.dlen, trl := m.trl.map (fun t => (m.tenc, t)) }

/-- text after `key=` up to the next space -/
def wordArg (s key : String) : String := argOf (words s) key

def bodyText (b : BodyObs) : String :=
  s!" b={b.bytes} rerr={if b.failed then 1 else 0} t={fmtHdrs b.trailers}"

/-! ## srv -/

def srvPart (lim : Int) (m : PMsg) (impl : String) : String × List String × List Fail :=
  let implView := (splitFirst impl " h=").2
  let handled := implView != "-" && implView != ""
  -- url.ParseRequestURI is external: plain paths are accepted; for any other path the answer is taken
  -- from the implementation (the monitors judge plain paths only)
  let implRejected := !handled
  let urlOK := fun (p : List Nat) => plainPath p || !implRejected
  let out := handleRequestStream (extOf m.flagged) urlOK lim m.enc m.fs m.qerr
  let body := readBody (extOf m.tflagged) lim m.dlen (m.trl.map fun t => (m.tenc, t))
  let showBody := !hasCL m.fs
  let model := match out with
    | .reject431 c => s!"st=431 rd=eof wr=stop:{c} h=-"
    | .reset c => s!"st=- rd=rst:{c} wr=stop:{c} h=-"
    | .handler req =>
      let wr := if body.failed then s!"stop:{Uquic.Gen.H3Fields.ErrCodeNoError}" else "open"
      s!"st=200 rd=eof wr={wr} h={fmtReqRes (.ok req)}" ++ (if showBody then bodyText body else "")
  let tags := match out with
    | .reject431 _ => [if m.enc > lim then "srv:431-frame" else "srv:431-decoded"]
    | .reset c => [s!"srv:reset-{c}"]
    | .handler _ => ["srv:handler"] ++ (if m.trl.isSome then [if body.failed then "srv:trailers-bad" else "srv:trailers-ok"] else [])
  let obs : SrvObs := { status := wordArg impl "st", rd := wordArg impl "rd", wr := wordArg impl "wr", handled := handled, view := implView }
  let fails := serverMonitors (toMsg lim m) obs ++
    trailerMonitors "request" lim (m.trl.map fun t => (m.tenc, t)) (handled && showBody && (implView.splitOn " b=").length == 2)
      (wordArg implView "rerr" == "1") (wordArg implView "t")
  (model, tags, fails)

/-! ## cli -/

def unsupportedResponse (fs : List (List Nat × List Nat)) : Bool :=
  fs.any (fun (f : List Nat × List Nat) => f.1 == nStatus && (match atoi f.2 with
    | some c => 100 ≤ c && c ≤ 199 && c != 101
    | none => false))

def statusShown (fs : List (List Nat × List Nat)) : Bool :=
  match fs.find? (fun (f : List Nat × List Nat) => f.1 == nStatus) with
  | some f => f.2 == B "200" || f.2 == B "404" || f.2 == B "500"
  | none => false

def cliPart (lim : Int) (m : PMsg) (impl : String) : String × List String × List Fail :=
  if unsupportedResponse m.fs then ("stop=- r=unsupported", ["cli:unsupported"], [])
  else
    let implView := (splitFirst impl " r=").2
    let out := readResponse (extOf m.flagged) lim m.enc m.fs m.qerr
    let body := readBody (extOf m.tflagged) lim m.dlen (m.trl.map fun t => (m.tenc, t))
    let showBody := !hasCL m.fs && statusShown m.fs
    let model := match out with
      | .failed c => s!"stop=stop:{c} r=E"
      | .response r =>
        let stop := if !showBody then "*" else if body.failed then s!"stop:{Uquic.Gen.H3Fields.ErrCodeRequestCanceled}" else "open"
        s!"stop={stop} r={fmtRspRes (.ok r)}" ++ (if showBody then bodyText body else "")
    let tags := match out with
      | .failed c => [s!"cli:failed-{c}"]
      | .response _ => ["cli:response"] ++ (if m.trl.isSome && showBody then [if body.failed then "cli:trailers-bad" else "cli:trailers-ok"] else [])
    let obs : CliObs := { stop := wordArg impl "stop", ok := implView.startsWith "ok", view := implView }
    let fails := clientMonitors (toMsg lim m) obs ++
      trailerMonitors "response" lim (m.trl.map fun t => (m.tenc, t)) (obs.ok && showBody && (implView.splitOn " b=").length == 2)
        (wordArg implView "rerr" == "1") (wordArg implView "t")
    (model, tags, fails)

/-! ## conc -/

structure PConc where
  at_ : Nat
  gz : Bool
  c : ConcReq

def parseConc (p : String) : PConc :=
  let w := words p
  { at_ := natOfS (argOf w "at"), gz := argOf w "gz" == "1",
    c := { method := unhx (argOf w "m"), host := unhx (argOf w "host"), path := unhx (argOf w "path"), x := unhx (argOf w "x") } }

/-- the request as net/http builds it from the op (`http.NewRequest(m, "https://"+host+path, nil)` + X-Id) -/
def concWReq (p : PConc) : WReq :=
  { method := p.c.method, proto := vHTTP11, puny := some p.c.host, reqURI := p.c.path, scheme := B "https",
    headers := [(B "X-Id", [p.c.x])], trailerKeys := [], contentLength := 0, gzip := p.gz }

def concStep (parts : List String) (impl : String) : StepOut :=
  let ps := parts.map parseConc
  let blocks : List (Except WErr (List (List Nat × List Nat))) := ps.map fun p => encodeHeaders Uquic.Gen.H3Fields.defaultUserAgent (concWReq p)
  -- the lock model: whatever the interleaving, writer i emits block i (ReqLock.owner is the proved statement)
  let emitted := Uquic.Model.H3.ReqLock.emittedBlocks ps.length (ps.map (·.at_))
  let model := " | ".intercalate (emitted.map fun j => match blocks.getD j (.error .host) with
    | .ok fs => ("ok " ++ " ".intercalate (fs.map (fmtFieldTok []))).trimAsciiEnd.toString
    | .error e => e.text)
  let implParts := impl.splitOn " | "
  let fails := (ps.zipIdx.flatMap fun (p, i) =>
    let ip := implParts.getD i ""
    let got := if ip.startsWith "ok" then some (parseFieldToks ((words ip).drop 1)).1 else none
    concMonitors i p.c got)
  let interleaved := ps.any (fun p => p.at_ < 2)
  { model := model, tags := ["conc"] ++ (if interleaved then ["conc:interleaved"] else []) ++ (if ps.length > 2 then ["conc:3"] else []) ++
      (if ps.any (·.gz) then ["conc:gzip"] else []), fails := fails }

/-! ## the driver -/

structure St where
  dummy : Unit := ()

def step (s : St) (op impl : String) : St × StepOut :=
  let parts := op.splitOn " | "
  let head := words (parts.headD "")
  let msgs := parts.drop 1
  let implParts := impl.splitOn " | "
  match head with
  | ["srv", l] =>
    let lim := intOf (l.drop 4).toString
    let rs := msgs.zipIdx.map fun (p, i) => srvPart lim (parsePart p) (implParts.getD i "")
    (s, { model := " | ".intercalate (rs.map (·.1)), tags := ["srv"] ++ rs.flatMap (·.2.1), fails := rs.flatMap (·.2.2) })
  | ["cli", l] =>
    let lim := intOf (l.drop 4).toString
    let rs := msgs.zipIdx.map fun (p, i) => cliPart lim (parsePart p) (implParts.getD i "")
    (s, { model := " | ".intercalate (rs.map (·.1)), tags := ["cli"] ++ rs.flatMap (·.2.1), fails := rs.flatMap (·.2.2) })
  | ["conc"] => (s, concStep msgs impl)
  | _ => (s, { model := "bad-op" })

def main : IO Unit := run { init := ({} : St), step := step }
