import Uquic.Oracle.Frame
import Uquic.Model.FlowControl
import Uquic.Spec.FlowMon

open Uquic.Oracle Uquic.Model.FlowControl Uquic.Spec.FlowMon

structure St where
  started : Bool := false
  s : State := {}
  g : Ghost := {}

def b2s (b : Bool) : String := if b then "1" else "0"

def fmtBase (b : Base) : String :=
  s!"{b.bytesSent}/{b.sendWindow}/{b.lastBlockedAt}/{b.bytesRead}/{b.highestReceived}/{b.receiveWindow}/{b.receiveWindowSize}/{b.maxReceiveWindowSize}/{b.epochStartTime}/{b.epochStartOffset}"

def fmtStream (s : Stream) : String := s!"{fmtBase s.base}/f{b2s s.receivedFinalOffset}"

def fmtCalls (l : List Int) : String :=
  if l.isEmpty then "cb=-" else "cb=" ++ ",".intercalate (l.map toString)

def fmtOut : Out → String
  | .skip => "skip"
  | .unit => "ok"
  | .created id => toString id
  | .recv .ok => "ok"
  | .recv .finalSize => "E:FINAL_SIZE_ERROR"
  | .recv .flowControl => "E:FLOW_CONTROL_ERROR"
  | .read a b => s!"{b2s a} {b2s b}"
  | .upd off calls => s!"{off} {fmtCalls calls}"
  | .panic calls => s!"PANIC {fmtCalls calls}"
  | .sent a b => s!"{a} {b}"
  | .updated b => b2s b
  | .win n => toString n
  | .blocked b off => s!"{b2s b} {off}"
  | .resetOk => "ok"
  | .resetErr => "E:other"

def parseBase (t : String) : Option (Base × Option Bool) :=
  let f := t.splitOn "/"
  match f.take 10 |>.map String.toInt? with
  | [some a, some b, some c, some d, some e, some f', some g, some h, some i, some j] =>
    let fin := match f.drop 10 with
      | ["f1"] => some true | ["f0"] => some false | _ => none
    some ({ bytesSent := a, sendWindow := b, lastBlockedAt := c, bytesRead := d, highestReceived := e,
            receiveWindow := f', receiveWindowSize := g, maxReceiveWindowSize := h, epochStartTime := i,
            epochStartOffset := j }, fin)
  | _ => none

def parseCalls (t : String) : List Int :=
  if t == "cb=-" then [] else ((t.drop 3).toString.splitOn ",").filterMap String.toInt?

/-- the implementation's answer, parsed according to the operation -/
def parseOut (op : Op) (w : List String) : Option Out :=
  match op, w with
  | _, ["skip"] => some .skip
  | _, "PANIC" :: c :: _ => some (.panic (parseCalls c))
  | _, ["PANIC"] => some (.panic [])
  | .newStream .., [id] => id.toNat?.map .created
  | .rtt _, _ => some .unit
  | .recv .., ["ok"] => some (.recv .ok)
  | .recv .., ["E:FINAL_SIZE_ERROR"] => some (.recv .finalSize)
  | .recv .., ["E:FLOW_CONTROL_ERROR"] => some (.recv .flowControl)
  | .read .., [a, b] => some (.read (a == "1") (b == "1"))
  | .abandon _, ["ok"] => some .unit
  | .supd .., [off, c] => off.toInt?.map (.upd · (parseCalls c))
  | .cupd .., [off, c] => off.toInt?.map (.upd · (parseCalls c))
  | .sent .., [a, b] => match a.toInt?, b.toInt? with
    | some x, some y => some (.sent x y) | _, _ => none
  | .smax .., [b] => some (.updated (b == "1"))
  | .cmax _, [b] => some (.updated (b == "1"))
  | .swin _, [n] => n.toInt?.map .win
  | .cwin, [n] => n.toInt?.map .win
  | .sblocked _, [b] => some (.blocked (b == "1") 0)
  | .cblocked, [b, off] => off.toInt?.map (.blocked (b == "1") ·)
  | .reset, ["ok"] => some .resetOk
  | .reset, ["E:other"] => some .resetErr
  | _, _ => none

def field (w : List String) (key : String) : Option String :=
  w.findSome? fun x => if x.startsWith key then some (x.drop key.length).toString else none

def parseOp (w : List String) (implW : List String) : Option Op :=
  match w with
  | ["s.new", a, b, c] => some (.newStream (intOf a) (intOf b) (intOf c))
  | "rtt.upd" :: _ => (field implW "srtt=").bind String.toInt? |>.map .rtt
  | "rtt.init" :: _ => (field implW "srtt=").bind String.toInt? |>.map .rtt
  | ["s.recv", id, off, fin, now] => some (.recv (natOf id) (intOf off) (fin == "1") (intOf now))
  | ["s.read", id, n] => some (.read (natOf id) (intOf n))
  | ["s.abandon", id] => some (.abandon (natOf id))
  | ["s.upd", id, now, al] => some (.supd (natOf id) (intOf now) (al == "1"))
  | ["c.upd", now, al] => some (.cupd (intOf now) (al == "1"))
  | ["s.sent", id, n] => some (.sent (natOf id) (intOf n))
  | ["s.max", id, v] => some (.smax (natOf id) (intOf v))
  | ["c.max", v] => some (.cmax (intOf v))
  | ["s.win?", id] => some (.swin (natOf id))
  | ["c.win?"] => some .cwin
  | ["s.blocked?", id] => some (.sblocked (natOf id))
  | ["c.blocked?"] => some .cblocked
  | ["c.reset"] => some .reset
  | _ => none

def opStream : Op → Option Nat
  | .recv id .. | .read id _ | .abandon id | .supd id .. | .sent id _ | .smax id _ | .swin id | .sblocked id => some id
  | _ => none

def suffix (s : State) (id : Option Nat) : String :=
  " | c=" ++ fmtBase s.conn ++
    (match id.bind (s.streams[·]?) with
     | some st => " s=" ++ fmtStream st
     | none => "")

def step (st : St) (op impl : String) : St × StepOut :=
  let w := words op
  let parts := impl.splitOn " | "
  let resW := words (parts.headD "")
  let dumpW := words ((parts.drop 1).headD "")
  let seenConn : Base := ((field dumpW "c=").bind parseBase |>.map (·.1)).getD {}
  let seenStream : Option Stream := (field dumpW "s=").bind parseBase |>.map fun (b, f) => { base := b, receivedFinalOffset := f.getD false }
  match w with
  | ["init", rw, maxrw, cbnil] =>
    if st.started then (st, { model := "skip" })
    else
      -- the initial smoothed RTT is an environment input
      let srtt := ((field resW "srtt=").bind String.toInt?).getD 0
      let s0 := { State.init (intOf rw) (intOf maxrw) (cbnil == "1") with rtt := srtt }
      let g0 := Ghost.init (intOf rw) (intOf maxrw)
      let (g1, fails) := dumpChecks g0 none { out := .unit, conn := seenConn }
      ({ started := true, s := s0, g := g1 }, { model := s!"ok srtt={srtt}" ++ suffix s0 none, tags := ["init"], fails := fails })
  | _ =>
    if !st.started then (st, { model := "skip" })
    else
      match parseOp w resW with
      | none => (st, { model := "bad-op" })
      | some o =>
        let (s', out, tags) := stepT st.s o
        let sid : Option Nat := match o, out with
          | .newStream .., .created id => some id
          | _, _ => opStream o
        let head := match o with
          | .rtt v => s!"srtt={v}"
          | .sblocked _ => (match out with | .blocked b _ => b2s b | _ => fmtOut out)
          | _ => fmtOut out
        let model := if out == .skip then "skip" else head ++ suffix s' sid
        -- monitors judge the implementation's own answer
        let (g', fails) := match parseOut o resW with
          | some io => observe st.g o { out := io, conn := seenConn, stream := seenStream }
          | none => (st.g, [("unparsable_result", "-", impl)])
        ({ st with s := s', g := g' }, { model := model, tags := tags, fails := fails })

def main : IO Unit := run { init := ({} : St), step := step }
