import Uquic.Oracle.Frame
import Uquic.Model.Wire.Varint
import Uquic.Model.Wire.Frames
import Uquic.Model.Wire.Parser
import Uquic.Model.Wire.Header
import Uquic.Model.Wire.TransportParams
import Uquic.Model.Wire.Token
import Uquic.Model.Wire.Split
import Uquic.Model.Wire.VNHeap
import Uquic.Model.Wire.Ticket
import Uquic.Spec.WireMon

open Uquic.Oracle Uquic.Model.Wire Uquic.Spec.WireMon

/-! ### text helpers (must agree with harness/drivers/wire/wire_test.go) -/

def hexDigitVal (c : Char) : Nat :=
  if '0' ≤ c ∧ c ≤ '9' then c.toNat - '0'.toNat
  else if 'a' ≤ c ∧ c ≤ 'f' then c.toNat - 'a'.toNat + 10
  else if 'A' ≤ c ∧ c ≤ 'F' then c.toNat - 'A'.toNat + 10
  else 0

def unhexChars : List Char → Bytes
  | a :: b :: rest => UInt8.ofNat (hexDigitVal a * 16 + hexDigitVal b) :: unhexChars rest
  | _ => []

def unhx (s : String) : Bytes := if s = "-" then [] else unhexChars s.toList

def hexChar (n : Nat) : Char := if n < 10 then Char.ofNat (48 + n) else Char.ofNat (87 + n)

def hx (b : Bytes) : String :=
  if b.isEmpty then "-"
  else String.ofList (b.flatMap fun x => [hexChar (x.toNat / 16), hexChar (x.toNat % 16)])

def b01 (b : Bool) : String := if b then "1" else "0"

def dropPrefix (s : String) (n : Nat) : String := (s.drop n).toString

/-- value of `k=` among the words -/
def kv (ws : List String) (k : String) : String :=
  match ws.find? (·.startsWith k) with
  | some w => dropPrefix w k.length
  | none => ""

def kvn (ws : List String) (k : String) : Nat := natOf (kv ws k)

/-! ### frames <-> text -/

def stName : StreamType → String
  | .bidi => "bidi"
  | .uni => "uni"

def fmtRanges (rs : List AckRange) : String :=
  if rs.isEmpty then "-" else ";".intercalate (rs.map fun r => s!"{r.1}-{r.2}")

def fmtFrame : Frame → String
  | .ping => "ping"
  | .ack rs d e0 e1 ce => s!"ack d={d} e={e0},{e1},{ce} r={fmtRanges rs}"
  | .resetStream sid ec fs rs => s!"rst sid={sid} ec={ec} fs={fs} rs={rs}"
  | .stopSending sid ec => s!"stop sid={sid} ec={ec}"
  | .crypto off data => s!"crypto off={off} data={hx data}"
  | .newToken tok => s!"newtoken tok={hx tok}"
  | .stream sid off data fin dlp => s!"stream sid={sid} off={off} fin={b01 fin} len={b01 dlp} data={hx data}"
  | .maxData v => s!"maxdata v={v}"
  | .maxStreamData sid v => s!"maxsd sid={sid} v={v}"
  | .maxStreams t v => s!"maxstreams t={stName t} v={v}"
  | .dataBlocked v => s!"blocked v={v}"
  | .streamDataBlocked sid v => s!"sdblocked sid={sid} v={v}"
  | .streamsBlocked t v => s!"sblocked t={stName t} v={v}"
  | .newConnectionID seq rpt cid tok => s!"ncid seq={seq} rpt={rpt} cid={hx cid} srt={hx tok}"
  | .retireConnectionID seq => s!"rcid seq={seq}"
  | .pathChallenge d => s!"pchal d={hx d}"
  | .pathResponse d => s!"presp d={hx d}"
  | .connectionClose isApp ec ft reason => s!"close app={b01 isApp} ec={ec} ft={ft} reason={hx reason}"
  | .handshakeDone => "hsdone"
  | .datagram dlp data => s!"dgram len={b01 dlp} data={hx data}"
  | .ackFrequency seq th mad rt => s!"ackfreq seq={seq} aet={th} mad={mad} rt={rt}"
  | .immediateAck => "immack"

def kindOfFrame (f : Frame) : String := ((fmtFrame f).splitOn " ").headD ""

def parseRangeText (s : String) : Option AckRange :=
  match s.splitOn "-" with
  | [a, b] => some (natOf a, natOf b)
  | _ => none

def padTo (b : Bytes) (n : Nat) : Bytes := (b ++ List.replicate n 0).take n

/-- the frame value described by the words of an `enc` op (as the Go driver builds it) -/
def frameOfWords (ws : List String) : Option Frame :=
  let n := kvn ws
  match ws.headD "" with
  | "ping" => some .ping
  | "ack" =>
    let e := (kv ws "e=").splitOn ","
    let (e0, e1, ce) := match e with
      | [a, b, c] => (natOf a, natOf b, natOf c)
      | _ => (0, 0, 0)
    let r := kv ws "r="
    let rs := if r = "-" ∨ r = "" then [] else (r.splitOn ";").filterMap parseRangeText
    some (.ack rs (n "d=") e0 e1 ce)
  | "rst" => some (.resetStream (n "sid=") (n "ec=") (n "fs=") (n "rs="))
  | "stop" => some (.stopSending (n "sid=") (n "ec="))
  | "crypto" => some (.crypto (n "off=") (unhx (kv ws "data=")))
  | "newtoken" => some (.newToken (unhx (kv ws "tok=")))
  | "stream" => some (.stream (n "sid=") (n "off=") (unhx (kv ws "data=")) (kv ws "fin=" = "1") (kv ws "len=" = "1"))
  | "maxdata" => some (.maxData (n "v="))
  | "maxsd" => some (.maxStreamData (n "sid=") (n "v="))
  | "maxstreams" => some (.maxStreams (if kv ws "t=" = "uni" then .uni else .bidi) (n "v="))
  | "blocked" => some (.dataBlocked (n "v="))
  | "sdblocked" => some (.streamDataBlocked (n "sid=") (n "v="))
  | "sblocked" => some (.streamsBlocked (if kv ws "t=" = "uni" then .uni else .bidi) (n "v="))
  | "ncid" => some (.newConnectionID (n "seq=") (n "rpt=") ((unhx (kv ws "cid=")).take 20) (padTo (unhx (kv ws "srt=")) 16))
  | "rcid" => some (.retireConnectionID (n "seq="))
  | "pchal" => some (.pathChallenge (padTo (unhx (kv ws "d=")) 8))
  | "presp" => some (.pathResponse (padTo (unhx (kv ws "d=")) 8))
  | "close" => some (.connectionClose (kv ws "app=" = "1") (n "ec=") (n "ft=") (unhx (kv ws "reason=")))
  | "hsdone" => some .handshakeDone
  | "dgram" => some (.datagram (kv ws "len=" = "1") (unhx (kv ws "data=")))
  | "ackfreq" => some (.ackFrequency (n "seq=") (n "aet=") (n "mad=") (n "rt="))
  | "immack" => some .immediateAck
  | _ => none

def errName : Err → String
  | .eof => "eof" | .ueof => "ueof" | .unknownType => "unknown" | .encLevel => "enclevel"
  | .ackFirst => "ack_first" | .ackRanges => "ack_ranges" | .streamOverflow => "stream_overflow"
  | .reliableGtFinal => "reliable_gt_final" | .emptyToken => "empty_token" | .streamCount => "stream_count"
  | .retireGtSeq => "retire_gt_seq" | .zeroCID => "zero_cid" | .cidLen => "cid_len"

def lvlOf (s : String) : Nat :=
  match s with
  | "I" => 1 | "H" => 2 | "Z" => 3 | _ => 4

def ctxOf (lvl flags exp : String) : Ctx :=
  let f := flags.toList ++ ['0', '0', '0']
  { lvl := lvlOf lvl, supportsDatagrams := f.getD 0 '0' == '1', supportsResetStreamAt := f.getD 1 '0' == '1',
    supportsAckFrequency := f.getD 2 '0' == '1', ackDelayExponent := natOf exp % 256 }

def fmtDec : DecOut → String
  | .frame f n => s!"ok {fmtFrame f} n={n}"
  | .done => "END"
  | .err e ft => s!"E:{errName e} ft={ft}"
  | .panic => "PANIC"

def fmtEnc : EncOut → String
  | .ok b l => s!"{hx b} len={l}"
  | .err .emptyStream => "E:empty_stream"
  | .err .cidLen => "E:cid_len"
  | .panic => "PANIC"

/-! ### headers <-> text -/

open Uquic.Model.Wire.Hdr in
def herrName : HErr → String
  | .eof => "eof" | .ueof => "ueof" | .notLong => "notlong" | .notShort => "notshort" | .notQUIC => "notquic"
  | .cidLen => "cid_len" | .unsupportedVersion => "unsupported" | .shortPacket => "short_packet"
  | .reservedBits => "reserved" | .pnLen => "pnlen" | .vnEmpty => "vn_empty" | .vnLen => "vn_len"

def vlist (vs : List Nat) : String := if vs.isEmpty then "-" else ",".intercalate (vs.map toString)

open Uquic.Model.Wire.Hdr in
def fmtLhdr (data : Bytes) : String :=
  match parsePacket data with
  | .err e => s!"E:{herrName e}"
  | .unsupported h => s!"unsup v={h.version} d={hx h.dest} s={hx h.src} pl={h.parsedLen}"
  | .ok h pkt rest =>
    let ext :=
      if h.ptype ≠ ptRetry ∧ h.version ≠ 0 then
        match parseExtended h.parsedLen data with
        | none => "PANIC"
        | some (.error e) => s!"E:{herrName e}"
        | some (.ok x) => s!"{x.pn}/{x.pnLen}/{x.parsedLen}/{if x.reservedOK then "ok" else "bad"}"
      else "-"
    s!"ok t={h.ptype} v={h.version} d={hx h.dest} s={hx h.src} len={h.length} tok={hx h.token} pl={h.parsedLen} pkt={pkt} rest={rest} ext={ext}"

/-! ### transport parameters <-> text -/

open Uquic.Model.Wire.TP in
def terrName : TErr → String
  | .eof => "eof" | .ueof => "ueof" | .paramLen => "param_len" | .read => "read" | .inconsistentLen => "inconsistent_len"
  | .streamsTooLarge => "streams_too_large" | .udpPayload => "udp_payload" | .ackDelayExponent => "ack_delay_exponent"
  | .maxAckDelay => "max_ack_delay" | .activeCIDLimit => "active_cid_limit" | .clientSent => "client_sent"
  | .wrongLen => "wrong_len" | .cidLen => "cid_len" | .paCIDLen => "pa_cid_len" | .paLen => "pa_len"
  | .minGtMax => "min_gt_max" | .missingODCID => "missing_odcid" | .missingISCID => "missing_iscid"
  | .duplicate => "duplicate" | .ticketVersion => "ticket_version" | .panic => "PANIC"

def hexRaw (b : Bytes) : String := String.ofList (b.flatMap fun x => [hexChar (x.toNat / 16), hexChar (x.toNat % 16)])

def fmtAddrPort : Option (Bytes × Nat) → String
  | none => "-"
  | some (ip, port) => s!"{hexRaw ip}:{port}"

open Uquic.Model.Wire.TP in
def fmtTP (p : Params) : String :=
  let dg := match p.maxDatagramFrameSize with | some v => toString v | none => "-"
  let minad := match p.minAckDelay with | some v => toString v | none => "-"
  let srt := match p.srt with | some t => hx t | none => "nil"
  let rscid := match p.rscid with | some c => hx c | none => "nil"
  let pa := match p.preferredAddress with
    | some a => s!"{fmtAddrPort a.v4},{fmtAddrPort a.v6},{hx a.connID},{hx a.token}"
    | none => "nil"
  s!"bl={p.initialMaxStreamDataBidiLocal} br={p.initialMaxStreamDataBidiRemote} un={p.initialMaxStreamDataUni} md={p.initialMaxData} sb={p.maxBidiStreamNum} su={p.maxUniStreamNum} idle={p.maxIdleTimeout} udp={p.maxUDPPayloadSize} mad={p.maxAckDelay} ade={p.ackDelayExponent} dam={b01 p.disableActiveMigration} acl={p.activeConnectionIDLimit} dg={dg} rsa={b01 p.enableResetStreamAt} minad={minad} odcid={hx p.odcid} iscid={hx p.iscid} rscid={rscid} srt={srt} pa={pa}"

def addrPortOf (s : String) (n : Nat) : Option (Bytes × Nat) :=
  if s = "-" ∨ s = "" then none
  else match s.splitOn ":" with
    | [ip, port] => some (padTo (unhx ip) n, natOf port % 65536)
    | _ => none

open Uquic.Model.Wire.TP in
def tpOfWords (ws : List String) : Params :=
  let n := kvn ws
  let opt (k : String) : Option Nat := if kv ws k = "-" then none else some (n k)
  let cid (s : String) : Bytes := (unhx s).take 20
  let pa : Option PreferredAddress :=
    let s := kv ws "pa="
    if s = "nil" ∨ s = "" then none
    else match s.splitOn "," with
      | [a, b, c, d] => some { v4 := addrPortOf a 4, v6 := addrPortOf b 16, connID := cid c, token := padTo (unhx d) 16 }
      | _ => none
  { initialMaxStreamDataBidiLocal := n "bl=", initialMaxStreamDataBidiRemote := n "br=", initialMaxStreamDataUni := n "un=",
    initialMaxData := n "md=", maxBidiStreamNum := n "sb=", maxUniStreamNum := n "su=", maxIdleTimeout := n "idle=",
    maxUDPPayloadSize := n "udp=", maxAckDelay := n "mad=", ackDelayExponent := n "ade=" % 256,
    disableActiveMigration := kv ws "dam=" = "1", activeConnectionIDLimit := n "acl=", maxDatagramFrameSize := opt "dg=",
    enableResetStreamAt := kv ws "rsa=" = "1", minAckDelay := opt "minad=", odcid := cid (kv ws "odcid="), iscid := cid (kv ws "iscid="),
    rscid := if kv ws "rscid=" = "nil" then none else some (cid (kv ws "rscid=")),
    srt := if kv ws "srt=" = "nil" then none else some (padTo (unhx (kv ws "srt=")) 16),
    preferredAddress := pa }

/-! ### oracle state: the model's last decoded frame, and ghost records of what the
implementation printed for recent operations (used by the monitors) -/

structure EncRec where
  frameText : String
  hex : String

structure DecRec where
  ctx : String
  hex : String
  impl : String

structure St where
  /-- model: frame of the last successful `dec` (for `reenc`) -/
  last : Option Frame := none
  lastCtx : String := ""
  /-- ghost: recent `enc` ops with the bytes the implementation produced -/
  encs : List EncRec := []
  /-- ghost: recent `dec` ops with the implementation's answer -/
  decs : List DecRec := []
  /-- ghost: the implementation's last successful dec (ctx, input hex, frame text) -/
  implLast : Option (String × String × String) := none
  /-- ghost: after a `reenc`: (ctx, original input hex, frame text, re-encoded hex) -/
  implReenc : Option (String × String × String × String) := none
  lhdrEncs : List (String × List String) := []     -- (impl hex, op words) of recent enclhdr
  shdrEncs : List (String × List String) := []
  vnEncs : List (String × List String) := []
  tpEncs : List (String × String × String) := []   -- (impl hex, perspective, tp text)
  /-- model: the `FrameParser` objects of this case, one per flag set (key = the three flag characters);
      their exponent is a function of the ops only (last `setexp` / numeric exponent of a parse op), so
      the monitors may use it as ghost state -/
  parsers : List (String × Parser) := []
  /-- `vnc`: the parameters that name the caller's memory (consecutive ops with the same key share it) -/
  stkEncs : List (String × List String) := []     -- (impl hex, tp words) of recent `stk`
  vnKey : Option String := none
  /-- model: arrays 0 (versions) and 1 (receive buffer) of the `VNHeap` heap -/
  vnHeap : List (List Nat) := []
  /-- ghost, from the op line only: both arrays as the driver built them -/
  vnGhostV : List Nat := []
  vnGhostB : Bytes := []
  vnCalls : Nat := 0

abbrev Fail := String × String × String

def keep {α} (n : Nat) (x : α) (l : List α) : List α := (x :: l).take n

/-- `ok <frame text> n=<n>` → (frame text, n) -/
def splitOk (impl : String) : Option (String × Nat) :=
  if impl.startsWith "ok " then
    let ws := words impl
    match ws.getLast? with
    | some w =>
      if w.startsWith "n=" then
        some (" ".intercalate ((ws.drop 1).dropLast), natOf (dropPrefix w 2))
      else none
    | none => none
  else none

def isPanic (impl : String) : Bool := impl.startsWith "PANIC"

/-- The ACK Delay field has the resolution of the *sender's* exponent: a value parsed with exponent
    `e` and written with `protocol.AckDelayExponent` only survives when the two agree. When they
    differ the delay is not part of the fixpoint comparison. -/
def maskAckDelay (c : Ctx) (ftext : String) : String :=
  let eff := if c.lvl ≠ encryption1RTT then defaultAckDelayExponent else c.ackDelayExponent
  if ftext.startsWith "ack " ∧ eff ≠ sendAckDelayExponent then
    " ".intercalate ((words ftext).filter (fun w => !w.startsWith "d="))
  else ftext

def hexLen (s : String) : Nat := if s = "-" then 0 else s.length / 2

/-! ### sweeps -/

def sweepEntry (c : Ctx) (t : Nat) (tail : Bytes) : String :=
  match decode c (UInt8.ofNat t :: tail) with
  | .frame f n => s!"ok:{kindOfFrame f}:{n}"
  | .done => "END"
  | .err e ft => s!"E:{errName e},ft={ft}"
  | .panic => "PANIC"

def vsweep1Entry (i : Nat) : String :=
  match Varint.parse [UInt8.ofNat i] with
  | .ok (v, n) => s!"{v}/{n}"
  | .error .eof => "e"
  | .error .ueof => "u"

def vsweep2Entry (hi lo : Nat) : String :=
  match Varint.parse [UInt8.ofNat hi, UInt8.ofNat lo] with
  | .ok (v, n) => s!"{v}/{n}/{hx (Varint.enc v)}/{Varint.len v}"
  | .error .eof => "e"
  | .error .ueof => "u"

/-- monitors that only need the input bytes, the level and the implementation's one-word verdict -/
def encLevelFails (lvl : Nat) (b : Bytes) (e : String) : List (String × String × String) :=
  if e.startsWith "PANIC" ∨ e = "skip" then [] else
  match encLevelMismatch lvl b (e.startsWith "E:enclevel") with
  | some why => [("enc_level_rfc", "-", why)]
  | none => []

/-! ### composite boundary ops: one-word summaries of a parser run -/

def commas (s : String) : String := ",".intercalate (words s)

def decSumm (c : Ctx) (b : Bytes) : String :=
  match decode c b with
  | .frame f n => s!"ok:{kindOfFrame f}:{n}"
  | .done => "END"
  | .err e ft => s!"E:{errName e},ft={ft}"
  | .panic => "PANIC"

def tpSumm (r : Except TP.TErr TP.Params) : String :=
  match r with
  | .ok _ => "ok"
  | .error .panic => "PANIC"
  | .error e => s!"E:{terrName e}"

def shdrText (n : Nat) (b : Bytes) : String :=
  match Hdr.parseShortHeader b n with
  | .error e => s!"E:{herrName e}"
  | .ok o => s!"ok n={o.n} pn={o.pn} pnl={o.pnLen} kp={o.keyPhase} res={if o.reservedOK then "ok" else "bad"}"

def cidText (n : Nat) (b : Bytes) : String :=
  match Hdr.parseConnectionID b n with
  | .error e => s!"E:{herrName e}"
  | .ok c => s!"ok {hx c}"

def acidText (b : Bytes) : String :=
  match Hdr.parseArbitraryLenConnectionIDs b with
  | .error e => s!"E:{herrName e}"
  | .ok (n, d, sc) => s!"ok n={n} d={hx d} s={hx sc}"

def vnText (b : Bytes) : String :=
  match Hdr.parseVersionNegotiation b with
  | .error e => s!"E:{herrName e}"
  | .ok (d, sc, vs) => s!"ok d={hx d} s={hx sc} v={vlist vs}"

/-- the model's summary for `kind args` on `b` (same words as `runner.summ` in the Go driver) -/
def summ (kind : String) (args : List String) (b : Bytes) : String :=
  match kind, args with
  | "dec", [lvl, flags, exp] => decSumm (ctxOf lvl flags exp) b
  | "tpdec", [pers] => tpSumm (TP.unmarshal b (if pers = "s" then TP.perspectiveServer else TP.perspectiveClient) false)
  | "tpstdec", [] => tpSumm (TP.unmarshalFromSessionTicket b)
  | "lhdr", [] => commas (fmtLhdr b)
  | "shdr", [n] => commas (shdrText (natOf n) b)
  | "cid", [n] => commas (cidText (natOf n) b)
  | "acid", [] => commas (acidText b)
  | "vn", [] => commas (vnText b)
  | _, _ => "skip"

/-- monitors on one summary the implementation printed for input `b` -/
def summFails (kind : String) (args : List String) (b : Bytes) (e : String) : List (String × String × String) :=
  let ws := e.splitOn ","
  (if e.startsWith "PANIC" then [("no_panic", "-", s!"{kind} panicked on {hx b}")] else []) ++
  (match kind, args with
   | "dec", [lvl, flags, exp] =>
     encLevelFails (lvlOf lvl) b e ++
     if e.startsWith "ok:" then
       let c := ctxOf lvl flags exp
       (match e.splitOn ":" with
        | [_, _, n] => if natOf n > b.length then [("consumed_le_len", "-", s!"n={n} > {b.length} bytes of {hx b}")] else []
        | _ => []) ++
       (match rfcForbidden c.lvl c.supportsDatagrams c.supportsResetStreamAt c.supportsAckFrequency b with
        | some why => [("rejects_out_of_range", "-", s!"{hx b} accepted although RFC 9000 forbids it: {why}")]
        | none => [])
     else []
   | "tpdec", [pers] =>
     if e = "ok" then
       match tpForbidden (pers = "c") b with
       | some why => [(if why = "duplicate_parameter" then "tp_no_duplicates" else "rejects_out_of_range", "-",
                       s!"transport parameters {hx b} accepted although RFC 9000 §18.2 / §7.4 forbids: {why}")]
       | none => []
     else []
   | "tpstdec", [] =>
     -- the session-ticket format is the transport parameter format after a version varint
     if e = "ok" then
       match takeSpec b with
       | some (_, r) => (match tpScan (r.length + 1) r with
         | some ps => if hasDupKey ps then [("tp_no_duplicates", "-", s!"session ticket parameters {hx b} accepted with a repeated id")] else []
         | none => [])
       | none => []
     else []
   | "lhdr", [] =>
     if e.startsWith "ok," then
       let pl := kvn ws "pl="; let pkt := kvn ws "pkt="; let rest := kvn ws "rest="
       if pl > b.length ∨ pkt + rest ≠ b.length ∨ pl > pkt then [("hdr_consumed", "-", s!"pl={pl} pkt={pkt} rest={rest} of {b.length} bytes")] else []
     else if e.startsWith "unsup," then
       if kvn ws "pl=" > b.length then [("hdr_consumed", "-", s!"pl={kvn ws "pl="} of {b.length} bytes")] else []
     else []
   | "shdr", [_] => if e.startsWith "ok," ∧ kvn ws "n=" > b.length then [("hdr_consumed", "-", s!"n={kvn ws "n="} of {b.length} bytes")] else []
   | "acid", [] => if e.startsWith "ok," ∧ kvn ws "n=" > b.length then [("hdr_consumed", "-", s!"n={kvn ws "n="} of {b.length} bytes")] else []
   | "cid", [_] => if e.startsWith "ok," ∧ hexLen (ws.getD 1 "-") > 20 then [("rejects_out_of_range", "-", "connection ID longer than 20 bytes")] else []
   | _, _ => [])

/-- a varint of `v` in `width` bytes (minimal width when it does not fit), as the driver's `putVarint` -/
def encWidth (v width : Nat) : Bytes :=
  if Varint.len v > width then Varint.enc v else (Varint.appendWithLen [] v width).getD (Varint.enc v)

/-- run model and monitors over a list of inputs; `impl` is the `;`-joined list the implementation printed -/
def runEntries (kind : String) (args : List String) (inputs : List Bytes) (impl : String) : String × List (String × String × String) :=
  let model := ";".intercalate (inputs.map (summ kind args))
  let entries := impl.splitOn ";"
  let fails := (inputs.zip entries).flatMap fun (b, e) => summFails kind args b e
  (model, fails ++ (if entries.length ≠ inputs.length ∧ !isPanic impl then [("sweep_complete", "-", s!"{entries.length} entries for {inputs.length} inputs")] else []))

/-! ### the step function -/

open Uquic.Model.Wire.Hdr in
def headerOfWords (ws : List String) : Header :=
  { ptype := kvn ws "t=", version := kvn ws "v=" % 2 ^ 32, dest := (unhx (kv ws "d=")).take 20, src := (unhx (kv ws "s=")).take 20,
    length := kvn ws "len=", token := unhx (kv ws "tok=") }

def stepCore (s : St) (op impl : String) : St × StepOut :=
  let w := words op
  let noPanic (fails : List Fail) : List Fail :=
    if isPanic impl then fails ++ [("no_panic", "-", s!"{w.headD ""} panicked")] else fails
  match w with
  | ["vparse", h] =>
    let b := unhx h
    let model := match Varint.parse b with
      | .ok (v, n) => s!"ok v={v} n={n}"
      | .error .eof => "E:eof"
      | .error .ueof => "E:ueof"
    -- monitor: the RFC 9000 §16 value and length, judged on the implementation's answer
    let spec := match specVarint b with
      | some (v, n) => s!"ok v={v} n={n}"
      | none => "E"
    let fails : List Fail :=
      if impl.startsWith "ok" ∧ impl ≠ spec then [("varint_spec", "-", s!"RFC 9000 §16 gives {spec}")]
      else if impl.startsWith "E:" ∧ spec ≠ "E" then [("varint_spec", "-", s!"a complete varint was rejected; RFC gives {spec}")]
      else []
    (s, { model := model, tags := [s!"vparse:{(model.take 4).toString}:{b.length}"], fails := noPanic fails })
  | ["vread", h] =>
    let b := unhx h
    let model := match Varint.read b with
      | (some v, n) => s!"ok v={v} n={n}"
      | (none, n) => s!"E:eof n={n}"
    let fails : List Fail := match specVarint b with
      | some (v, n) => if impl ≠ s!"ok v={v} n={n}" then [("varint_spec", "-", s!"Read: RFC 9000 §16 gives v={v} n={n}")] else []
      | none => if impl.startsWith "ok" then [("varint_spec", "-", "Read accepted a truncated varint")] else []
    (s, { model := model, tags := [s!"vread:{(model.take 2).toString}"], fails := noPanic fails })
  | ["venc", vs] =>
    let v := natOf vs
    let model := if Varint.fits v then s!"{hx (Varint.enc v)} len={Varint.len v}" else "PANIC"
    -- monitors: minimal length, predicted length = bytes written, decodes to v (RFC view)
    let fails : List Fail :=
      match specVarintLen v with
      | none => if !isPanic impl then [("varint_range", "-", s!"{v} > 2^62-1 was encoded")] else []
      | some l =>
        let iw := words impl
        let bytes := unhx (iw.headD "")
        (if isPanic impl then [("no_panic", "-", s!"Append({v}) panicked")] else
          (if bytes.length ≠ l then [("varint_minimal", "-", s!"{v} written in {bytes.length} bytes, minimal is {l}")] else []) ++
          (if kvn iw "len=" ≠ bytes.length then [("length_exact", "-", s!"Len={kvn iw "len="} but {bytes.length} bytes written")] else []) ++
          (if specVarint bytes ≠ some (v, bytes.length) then [("varint_roundtrip", "-", s!"bytes decode to {repr (specVarint bytes)}")] else []))
    (s, { model := model, tags := [s!"venc:{if Varint.fits v then toString (Varint.len v) else "panic"}"], fails := fails })
  | ["vencl", vs, ls] =>
    let v := natOf vs
    let l := natOf ls
    let model := match Varint.appendWithLen [] v l with
      | some b => hx b
      | none => "PANIC"
    let fails : List Fail :=
      if isPanic impl then [] else
        let bytes := unhx impl
        (if bytes.length ≠ l then [("length_exact", "-", s!"AppendWithLen wrote {bytes.length} bytes, asked {l}")] else []) ++
        (if specVarint bytes ≠ some (v, l) then [("varint_roundtrip", "-", s!"bytes decode to {repr (specVarint bytes)}")] else [])
    (s, { model := model, tags := [s!"vencl:{if model = "PANIC" then "panic" else ls}"], fails := fails })
  | ["vsweep1"] =>
    let model := ";".intercalate ((List.range 256).map vsweep1Entry)
    let spec := ";".intercalate ((List.range 256).map fun i =>
      match specVarint [UInt8.ofNat i] with
      | some (v, n) => s!"{v}/{n}"
      | none => "u")
    let fails : List Fail := if impl ≠ spec then [("varint_spec", "-", "exhaustive 1-byte sweep differs from RFC 9000 §16")] else []
    (s, { model := model, tags := ["vsweep1"], fails := noPanic fails })
  | ["vsweep2", his] =>
    let hi := natOf his % 256
    let model := ";".intercalate ((List.range 256).map (vsweep2Entry hi))
    let spec := ";".intercalate ((List.range 256).map fun lo =>
      match specVarint [UInt8.ofNat hi, UInt8.ofNat lo] with
      | some (v, n) =>
        let l := (specVarintLen v).getD 0
        -- minimal encoding of v, RFC style: big-endian with the length prefix
        let enc := (List.range l).map fun j => UInt8.ofNat ((v / 256 ^ (l - 1 - j)) % 256 + (if j = 0 then (if l = 1 then 0 else if l = 2 then 64 else if l = 4 then 128 else 192) else 0))
        s!"{v}/{n}/{hx enc}/{l}"
      | none => "u")
    let fails : List Fail := if impl ≠ spec then [("varint_spec", "-", s!"exhaustive 2-byte sweep (first byte {hi}) differs from RFC 9000 §16")] else []
    (s, { model := model, tags := [s!"vsweep2:{hi / 64}"], fails := noPanic fails })
  | "enc" :: fw =>
    match frameOfWords fw with
    | none => (s, { model := "skip", tags := ["enc:skip"] })
    | some f =>
      let out := encode f
      let model := fmtEnc out
      let iw := words impl
      let ihex := iw.headD ""
      let isBytes := !(impl.startsWith "E:") ∧ !isPanic impl ∧ impl ≠ "skip"
      let fails : List Fail :=
        (if isBytes ∧ kvn iw "len=" ≠ hexLen ihex then [("length_exact", "-", s!"Length()={kvn iw "len="} but Append wrote {hexLen ihex} bytes")] else []) ++
        (if isPanic impl ∧ roundTripDomain f then [("no_panic", "-", "Append/Length panicked on an encodable frame")] else [])
      let s' := if isBytes then { s with encs := keep 6 { frameText := " ".intercalate fw, hex := ihex } s.encs } else s
      let tag := match out with
        | .ok _ _ => s!"enc:{kindOfFrame f}"
        | .err _ => "enc:error"
        | .panic => "enc:panic"
      (s', { model := model, tags := [tag], fails := fails })
  | ["dec", lvl, flags, exp, h] =>
    let c := ctxOf lvl flags exp
    let b := unhx h
    let out := decode c b
    let model := fmtDec out
    let ctxText := s!"{lvl} {flags} {exp}"
    let implOk := splitOk impl
    let mut_fails : List Fail := Id.run do
      let mut fails : List Fail := noPanic [] ++ encLevelFails c.lvl b impl
      -- one FrameParser serves the whole case (as it serves a connection): the answer for the same
      -- bytes in the same context must not depend on what was parsed before
      match s.decs.find? (fun d => d.ctx = ctxText ∧ d.hex = h) with
      | some d =>
        if d.impl ≠ impl then
          fails := fails ++ [("parser_history_independent", "-", s!"{h} parsed as `{d.impl}` earlier in this case and as `{impl}` now")]
      | none => pure ()
      match implOk with
      | some (ftext, n) =>
        -- consumes exactly what it reports, within the input
        if n > b.length then fails := fails ++ [("consumed_le_len", "-", s!"n={n} > {b.length} input bytes")]
        -- out-of-range values must be rejected
        match rfcForbidden c.lvl c.supportsDatagrams c.supportsResetStreamAt c.supportsAckFrequency b with
        | some why => fails := fails ++ [("rejects_out_of_range", "-", s!"accepted although RFC 9000 forbids it: {why}")]
        | none => pure ()
        -- ACK (0x02) carries no ECN counts, ACK_ECN (0x03) exactly the three it ends with
        match ackEcnSpec b with
        | some (e0, e1, ce) =>
          if ftext.startsWith "ack " ∧ kv (words ftext) "e=" ≠ s!"{e0},{e1},{ce}" then
            fails := fails ++ [("ack_ecn_spec", "-", s!"RFC 9000 §19.3 gives ECN counts {e0},{e1},{ce}, implementation {kv (words ftext) "e="}")]
        | none => pure ()
        -- the ACK Delay is scaled by the exponent that applies at this level
        match ackDelaySpecNs c.lvl c.ackDelayExponent b with
        | some ns =>
          if ftext.startsWith "ack " ∧ kvn (words ftext) "d=" ≠ ns then
            fails := fails ++ [("ack_delay_spec", "-", s!"RFC 9000 §19.3 gives a delay of {ns} ns, implementation {kvn (words ftext) "d="}")]
        | none => pure ()
        -- dec(enc(v)) = v
        match s.encs.find? (fun e => e.hex = h) with
        | some e =>
          if ctxText = "A 111 3" then
            match frameOfWords (words e.frameText) with
            | some fv =>
              if roundTripDomain fv ∧ (ftext ≠ fmtFrame fv ∨ n ≠ b.length) then
                fails := fails ++ [("enc_dec_roundtrip", "-", s!"encoded `{fmtFrame fv}` decodes to `{ftext}` n={n} of {b.length}")]
            | none => pure ()
        | none => pure ()
        -- re-encoding what parsed parses to the same result
        match s.implReenc with
        | some (rctx, orig, rtext, rhex) =>
          if rctx = ctxText ∧ rhex = h ∧ (maskAckDelay c ftext ≠ maskAckDelay c rtext ∨ n ≠ b.length) then
            let ob := unhx orig
            let cls :=
              if ackDelayOverflows c.lvl c.ackDelayExponent ob then "ack_delay_overflow"
              else if ackRangeCountAbove maxNumAckRanges ob then "ack_ranges_truncated"
              else if ackFreqDelayOverflows ob then "ackfreq_delay_overflow"
              else "-"
            fails := fails ++ [("reencode_fixpoint", cls, s!"`{rtext}` re-encodes to {rhex}, which parses to `{ftext}` n={n}")]
        | none => pure ()
      | none =>
        -- the re-encoding of a parsed frame must parse
        match s.implReenc with
        | some (rctx, orig, rtext, rhex) =>
          if rctx = ctxText ∧ rhex = h then
            let ob := unhx orig
            let cls :=
              if ackDelayOverflows c.lvl c.ackDelayExponent ob then "ack_delay_overflow"
              else if ackRangeCountAbove maxNumAckRanges ob then "ack_ranges_truncated"
              else if ackFreqDelayOverflows ob then "ackfreq_delay_overflow"
              else "-"
            fails := fails ++ [("reencode_fixpoint", cls, s!"`{rtext}` re-encodes to {rhex}, which is rejected: {impl}")]
        | none => pure ()
        match s.encs.find? (fun e => e.hex = h) with
        | some e =>
          if ctxText = "A 111 3" then
            match frameOfWords (words e.frameText) with
            | some fv =>
              if roundTripDomain fv then
                fails := fails ++ [("enc_dec_roundtrip", "-", s!"encoded `{fmtFrame fv}` is rejected: {impl}")]
            | none => pure ()
        | none => pure ()
      -- re-parse of the consumed prefix gives the same result
      for d in s.decs do
        if d.ctx = ctxText ∧ d.hex ≠ h ∧ d.hex.startsWith h then
          match splitOk d.impl with
          | some (_, dn) =>
            if dn = b.length ∧ impl ≠ d.impl then
              fails := fails ++ [("prefix_reparse", "-", s!"{d.hex} gave `{d.impl}` but its consumed prefix gives `{impl}`")]
          | none => pure ()
      return fails
    let s' : St := { s with
      last := (match out with | .frame f _ => some f | _ => none),
      lastCtx := ctxText,
      decs := keep 6 { ctx := ctxText, hex := h, impl := impl } s.decs,
      implLast := implOk.map (fun (ft, _) => (ctxText, h, ft)),
      implReenc := none }
    let tag := match out with
      | .frame f _ => s!"dec:{kindOfFrame f}"
      | .done => "dec:END"
      | .err e _ => s!"dec:E:{errName e}"
      | .panic => "dec:PANIC"
    (s', { model := model, tags := [tag], fails := mut_fails })
  | ["reenc"] =>
    let model := match s.last with
      | none => "skip"
      | some f => fmtEnc (encode f)
    let iw := words impl
    let ihex := iw.headD ""
    let isBytes := !(impl.startsWith "E:") ∧ !isPanic impl ∧ impl ≠ "skip"
    let fails : List Fail :=
      (if isBytes ∧ kvn iw "len=" ≠ hexLen ihex then [("length_exact", "-", s!"Length()={kvn iw "len="} but Append wrote {hexLen ihex} bytes")] else []) ++
      (if isPanic impl then [("no_panic", "-", "re-encoding a parsed frame panicked")] else [])
    let s' := { s with implReenc := match s.implLast with
                  | some (c, h, ft) => if isBytes then some (c, h, ft, ihex) else none
                  | none => none }
    (s', { model := model, tags := [if model = "skip" then "reenc:skip" else if model.startsWith "E:" then "reenc:error" else "reenc:ok"], fails := fails })
  | ["sweep", lvl, flags, exp, tail] =>
    let c := ctxOf lvl flags exp
    let tb := unhx tail
    let model := ";".intercalate ((List.range 256).map fun t => sweepEntry c t tb)
    -- monitor on every entry: no panic, consumed ≤ len, RFC-forbidden types rejected
    let entries := impl.splitOn ";"
    let fails : List Fail := Id.run do
      let mut fails : List Fail := []
      let mut t := 0
      for e in entries do
        fails := fails ++ encLevelFails c.lvl (UInt8.ofNat t :: tb) e
        if e.startsWith "PANIC" then fails := fails ++ [("no_panic", "-", s!"type byte {t} at level {lvl} panicked")]
        if e.startsWith "ok:" then
          match e.splitOn ":" with
          | [_, _, n] => if natOf n > tb.length + 1 then fails := fails ++ [("consumed_le_len", "-", s!"type byte {t}: n={n}")]
          | _ => pure ()
          match rfcForbidden c.lvl c.supportsDatagrams c.supportsResetStreamAt c.supportsAckFrequency (UInt8.ofNat t :: tb) with
          | some why => fails := fails ++ [("rejects_out_of_range", "-", s!"type byte {t} at level {lvl} accepted: {why}")]
          | none => pure ()
        t := t + 1
      if entries.length ≠ 256 then fails := fails ++ [("sweep_complete", "-", s!"{entries.length} entries")]
      return fails
    (s, { model := model, tags := [s!"sweep:{lvl}:{flags}"], fails := fails })
  | ["fuzz", target, _] =>
    (s, { model := "ok", tags := [s!"fuzz:{target}"], fails := noPanic [] })
  | ["lhdr", h] =>
    let b := unhx h
    let model := fmtLhdr b
    let iw := words impl
    let fails : List Fail := Id.run do
      let mut fails : List Fail := noPanic []
      if impl.startsWith "ok " then
        let pl := kvn iw "pl="; let pkt := kvn iw "pkt="; let rest := kvn iw "rest="
        if pl > b.length ∨ pkt + rest ≠ b.length ∨ pl > pkt then
          fails := fails ++ [("hdr_consumed", "-", s!"pl={pl} pkt={pkt} rest={rest} of {b.length} bytes")]
        if hexLen (kv iw "d=") > 20 ∨ hexLen (kv iw "s=") > 20 then
          fails := fails ++ [("rejects_out_of_range", "-", "connection ID longer than 20 bytes accepted in a v1/v2 long header")]
        -- round trip of an encoded header
        match s.lhdrEncs.find? (fun e => h.startsWith e.1 ∧ e.1 ≠ "-") with
        | some (_, ew) =>
          let t := kvn ew "t="
          let pnl := kvn ew "pnl="
          if t ≠ 2 ∧ 1 ≤ pnl ∧ pnl ≤ 4 then
            let want := s!"t={t} v={kvn ew "v="} d={kv ew "d="} s={kv ew "s="} len={kvn ew "len="} tok={if t = 1 then kv ew "tok=" else "-"}"
            let got := s!"t={kvn iw "t="} v={kvn iw "v="} d={kv iw "d="} s={kv iw "s="} len={kvn iw "len="} tok={kv iw "tok="}"
            let wantExt := s!"{kvn ew "pn=" % 256 ^ pnl}/{pnl}/"
            if want ≠ got ∨ !(kv iw "ext=").startsWith wantExt then
              fails := fails ++ [("hdr_roundtrip", "-", s!"encoded `{want} pn={wantExt}` parsed as `{got} ext={kv iw "ext="}`")]
        | none => pure ()
        -- the fields are where RFC 9000 §17.2 / RFC 9369 §3.2 put them
        if kvn iw "v=" = 1 ∨ kvn iw "v=" = 0x6b3343cf then
          match specLongHeader b with
          | some sp =>
            let want := s!"t={sp.ptype} v={sp.version} d={hx sp.dcid} s={hx sp.scid} len={sp.length} tok={hx sp.token} pl={sp.hdrLen}"
            let got := s!"t={kvn iw "t="} v={kvn iw "v="} d={kv iw "d="} s={kv iw "s="} len={kvn iw "len="} tok={kv iw "tok="} pl={kvn iw "pl="}"
            if want ≠ got then fails := fails ++ [("hdr_spec", "-", s!"RFC layout gives `{want}`, implementation `{got}`")]
            else if sp.ptype ≠ 2 then
              -- packet number (after header protection removal): length from the low two bits, reserved bits 0x0c must be 0
              let ext := kv iw "ext="
              if b.length ≥ sp.hdrLen + sp.pnLen then
                let pn := beSpec ((b.drop sp.hdrLen).take sp.pnLen)
                let resOK := (b.getD 0 0).toNat / 4 % 4 = 0
                let wantExt := s!"{pn}/{sp.pnLen}/{sp.hdrLen + sp.pnLen}/{if resOK then "ok" else "bad"}"
                if ext ≠ wantExt then fails := fails ++ [("hdr_spec", "-", s!"packet number / reserved bits: RFC gives {wantExt}, implementation {ext}")]
              else if !ext.startsWith "E:" then fails := fails ++ [("hdr_spec", "-", s!"packet number read beyond the input: {ext}")]
          | none => fails := fails ++ [("hdr_spec", "-", s!"accepted a long header that is truncated or malformed per RFC 9000 §17.2: {impl}")]
      else if impl.startsWith "E:" then
        -- a complete, well-formed v1/v2 long header whose packet fits the datagram must parse
        match specLongHeader b with
        | some sp =>
          if b.length ≥ sp.hdrLen + sp.length then
            fails := fails ++ [("hdr_spec", "-", s!"well-formed long header (type {sp.ptype}, header {sp.hdrLen} bytes, length {sp.length}) rejected: {impl}")]
        | none => pure ()
      return fails
    (s, { model := model, tags := [s!"lhdr:{(words model).headD ""}{if model.startsWith "ok" then ":t" ++ kv (words model) "t=" else ""}"], fails := fails })
  | ["shdr", cl, h] =>
    let b := unhx h
    let n := natOf cl
    let model := match Hdr.parseShortHeader b n with
      | .error e => s!"E:{herrName e}"
      | .ok o => s!"ok n={o.n} pn={o.pn} pnl={o.pnLen} kp={o.keyPhase} res={if o.reservedOK then "ok" else "bad"}"
    let iw := words impl
    let fails : List Fail := Id.run do
      let mut fails : List Fail := noPanic []
      if impl.startsWith "ok " then
        if kvn iw "n=" > b.length ∨ kvn iw "n=" ≠ 1 + n + kvn iw "pnl=" then
          fails := fails ++ [("hdr_consumed", "-", s!"short header n={kvn iw "n="} of {b.length} bytes")]
        -- RFC 9000 §17.3.1: 0|1|S|R|R|K|P|P, connection ID, packet number
        let first := (b.getD 0 0).toNat
        let pnl := first % 4 + 1
        let wantS := s!"ok n={1 + n + pnl} pn={beSpec ((b.drop (1 + n)).take pnl)} pnl={pnl} kp={first / 4 % 2 + 1} res={if first / 8 % 4 = 0 then "ok" else "bad"}"
        if impl ≠ wantS then fails := fails ++ [("hdr_spec", "-", s!"short header: RFC 9000 §17.3.1 gives `{wantS}`, implementation `{impl}`")]
      else if impl.startsWith "E:" then
        let first := (b.getD 0 0).toNat
        if !b.isEmpty ∧ first / 128 % 2 = 0 ∧ first / 64 % 2 = 1 ∧ b.length ≥ 1 + n + first % 4 + 1 then
          fails := fails ++ [("hdr_spec", "-", s!"complete short header rejected: {impl}")]
      match s.shdrEncs.find? (fun e => e.1 = h) with
      | some (_, ew) =>
        let pnl := kvn ew "pnl="
        let want := s!"ok n={1 + n + pnl} pn={kvn ew "pn=" % 256 ^ pnl} pnl={pnl} kp={kvn ew "kp="} res=ok"
        if impl ≠ want then fails := fails ++ [("hdr_roundtrip", "-", s!"short header: want `{want}` got `{impl}`")]
      | none => pure ()
      return fails
    (s, { model := model, tags := [s!"shdr:{if model.startsWith "ok" then "ok" else model}"], fails := fails })
  | ["cid", sl, h] =>
    let model := match Hdr.parseConnectionID (unhx h) (natOf sl) with
      | .error e => s!"E:{herrName e}"
      | .ok c => s!"ok {hx c}"
    let fails : List Fail :=
      noPanic (if impl.startsWith "ok " ∧ hexLen ((words impl).getD 1 "-") > 20 then [("rejects_out_of_range", "-", "connection ID longer than 20 bytes")] else [])
    (s, { model := model, tags := [s!"cid:{(model.take 2).toString}"], fails := fails })
  | ["acid", h] =>
    let b := unhx h
    let model := match Hdr.parseArbitraryLenConnectionIDs b with
      | .error e => s!"E:{herrName e}"
      | .ok (n, d, sc) => s!"ok n={n} d={hx d} s={hx sc}"
    let iw := words impl
    let fails : List Fail :=
      noPanic (if impl.startsWith "ok " ∧ (kvn iw "n=" > b.length ∨ kvn iw "n=" ≠ 7 + hexLen (kv iw "d=") + hexLen (kv iw "s=")) then
        [("hdr_consumed", "-", s!"n={kvn iw "n="} of {b.length}")] else [])
    (s, { model := model, tags := [s!"acid:{(model.take 2).toString}"], fails := fails })
  | ["vn", h] =>
    let b := unhx h
    let model := match Hdr.parseVersionNegotiation b with
      | .error e => s!"E:{herrName e}"
      | .ok (d, sc, vs) => s!"ok d={hx d} s={hx sc} v={vlist vs}"
    let iw := words impl
    let fails : List Fail := Id.run do
      let mut fails : List Fail := noPanic []
      if impl.startsWith "ok " then
        -- RFC 9000 §17.2.1: DCID len, DCID, SCID len, SCID, then a non-empty list of 32-bit versions
        let dl := (b.getD 5 0).toNat
        let sl := (b.getD (6 + dl) 0).toNat
        let vs := b.drop (7 + dl + sl)
        let wantVN := s!"ok d={hx ((b.drop 6).take dl)} s={hx ((b.drop (7 + dl)).take sl)} v={vlist ((List.range (vs.length / 4)).map fun i => beSpec ((vs.drop (4 * i)).take 4))}"
        if vs.isEmpty ∨ vs.length % 4 ≠ 0 ∨ b.length < 7 + dl + sl ∨ impl ≠ wantVN then
          fails := fails ++ [("hdr_spec", "-", s!"version negotiation: RFC 9000 §17.2.1 gives `{wantVN}`, implementation `{impl}`")]
        match s.vnEncs.find? (fun e => e.1 = h) with
        | some (_, ew) =>
          let got := ((kv iw "v=").splitOn ",").filter (· ≠ "-")
          let want := ((kv ew "v=").splitOn ",").filter (fun x => x ≠ "-" ∧ x ≠ "")
          -- exactly one extra, reserved (0x?a?a?a?a) version; the rest in order
          let ok := got.length = want.length + 1 ∧
            (List.range got.length).any (fun i => got.eraseIdx i = want ∧ natOf (got.getD i "0") % 16 = 10 ∧ natOf (got.getD i "0") / 256 % 16 = 10
              ∧ natOf (got.getD i "0") / 65536 % 16 = 10 ∧ natOf (got.getD i "0") / 16777216 % 16 = 10)
          if kv iw "d=" ≠ kv ew "d=" ∨ kv iw "s=" ≠ kv ew "s=" ∨ !ok then
            fails := fails ++ [("vn_roundtrip", "-", s!"composed d={kv ew "d="} s={kv ew "s="} v={kv ew "v="}; parsed `{impl}`")]
        | none => pure ()
      return fails
    (s, { model := model, tags := [s!"vn:{if model.startsWith "ok" then "ok" else model}"], fails := fails })
  | ["pred", h] =>
    let b := unhx h
    let first := (b.getD 0 0).toNat
    let lq := if b.isEmpty then "long=- quic=-" else s!"long={b01 (Hdr.isLongHeaderPacket first)} quic={b01 (Hdr.isPotentialQUICPacket first)}"
    let ver := match Hdr.parseVersion b with
      | .ok v => toString v
      | .error _ => "E:eof"
    let model := s!"{lq} vn={b01 (Hdr.isVersionNegotiationPacket b)} 0rtt={b01 (Hdr.is0RTTPacket b)} ver={ver}"
    (s, { model := model, tags := ["pred"], fails := noPanic [] })
  | "enclhdr" :: fw =>
    let h := headerOfWords fw
    let pn := kvn fw "pn="
    let pnl := kvn fw "pnl=" % 256
    let model := match Hdr.appendLong h pn pnl h.version with
      | .ok b => s!"{hx b} len={Hdr.getLength h pnl}"
      | .err e => s!"E:{herrName e}"
      | .panic => "PANIC"
    let iw := words impl
    let ihex := iw.headD ""
    let isBytes := !(impl.startsWith "E:") ∧ !isPanic impl
    let fails : List Fail :=
      if isBytes ∧ h.ptype ≠ Hdr.ptRetry ∧ kvn iw "len=" ≠ hexLen ihex then
        [("length_exact", "-", s!"GetLength()={kvn iw "len="} but Append wrote {hexLen ihex} bytes")] else []
    let s' := if isBytes then { s with lhdrEncs := keep 4 (ihex, fw) s.lhdrEncs } else s
    (s', { model := model, tags := [s!"enclhdr:t{h.ptype}:{if isBytes then "ok" else (model.take 6).toString}"], fails := fails })
  | "encshdr" :: fw =>
    let d := (unhx (kv fw "d=")).take 20
    let pnl := kvn fw "pnl=" % 256
    let model := match Hdr.appendShortHeader d (kvn fw "pn=") pnl (kvn fw "kp=") with
      | some b => s!"{hx b} len={Hdr.shortHeaderLen d pnl}"
      | none => "E:pnlen"
    let iw := words impl
    let ihex := iw.headD ""
    let isBytes := !(impl.startsWith "E:") ∧ !isPanic impl
    let fails : List Fail :=
      if isBytes ∧ kvn iw "len=" ≠ hexLen ihex then
        [("length_exact", "-", s!"ShortHeaderLen={kvn iw "len="} but AppendShortHeader wrote {hexLen ihex} bytes")] else []
    let s' := if isBytes then { s with shdrEncs := keep 4 (ihex, fw) s.shdrEncs } else s
    (s', { model := model, tags := [s!"encshdr:{if isBytes then "ok" else "err"}"], fails := fails })
  | "encvn" :: fw =>
    -- the random first byte and the greased version list are recovered from the output (DESIGN §3.3)
    let ib := unhx impl
    let d := unhx (kv fw "d=")
    let sc := unhx (kv fw "s=")
    let greased := Hdr.versionList (ib.drop (7 + d.length + sc.length))
    let model := hx (Hdr.composeVersionNegotiation (ib.getD 0 0).toNat d sc greased)
    let s' := { s with vnEncs := keep 4 (impl, fw) s.vnEncs }
    let nv := (((kv fw "v=").splitOn ",").filter (fun x => x ≠ "-" ∧ x ≠ "")).length
    let fails : List Fail :=
      if !isPanic impl ∧ ib.length ≠ 7 + d.length + sc.length + 4 * (nv + 1) then
        [("length_exact", "-", s!"version negotiation packet has {ib.length} bytes, expected {7 + d.length + sc.length + 4 * (nv + 1)}")] else []
    (s', { model := model, tags := ["encvn"], fails := noPanic fails })
  | ["tpdec", pers, h] =>
    let b := unhx h
    let sentBy := if pers = "s" then TP.perspectiveServer else TP.perspectiveClient
    let model := match TP.unmarshal b sentBy false with
      | .ok p => s!"ok {fmtTP p}"
      | .error .panic => "PANIC"
      | .error e => s!"E:{terrName e}"
    let iw := words impl
    let fails : List Fail := Id.run do
      let mut fails : List Fail := noPanic []
      if impl.startsWith "ok " then
        match tpForbidden (pers = "c") b with
        | some why =>
          fails := fails ++ [(if why = "duplicate_parameter" then "tp_no_duplicates" else "rejects_out_of_range", "-",
                              s!"transport parameters accepted although RFC 9000 §18.2 / §7.4 forbids: {why}")]
        | none => pure ()
        -- Marshal → Unmarshal keeps every field that was sent
        match s.tpEncs.find? (fun e => e.1 = h ∧ e.2.1 = pers) with
        | some (_, _, tptext) =>
          let ew := words tptext
          let same (ks : List String) := ks.filter (fun k => kv ew k ≠ kv iw k)
          let always := ["bl=", "br=", "un=", "md=", "sb=", "su=", "ade=", "dam=", "acl=", "dg=", "rsa=", "iscid=", "minad="]
          let serverOnly := if pers = "s" then ["odcid=", "rscid=", "srt=", "pa="] else []
          let bad := same (always ++ serverOnly)
            ++ (if kvn iw "idle=" ≠ max 5000000000 (kvn ew "idle=" / 1000000 * 1000000) then ["idle="] else [])
            ++ (if kvn iw "udp=" ≠ (if kvn ew "udp=" = 0 then 2 ^ 62 - 1 else kvn ew "udp=") then ["udp="] else [])
            ++ (if kvn iw "mad=" ≠ kvn ew "mad=" / 1000000 * 1000000 then ["mad="] else [])
          if !bad.isEmpty then
            fails := fails ++ [("tp_roundtrip", "-", s!"fields {bad} changed: sent `{tptext}` got `{impl}`")]
        | none => pure ()
      else if impl.startsWith "E:" then
        -- what Marshal wrote for parameters RFC 9000 §18.2 allows must be accepted
        match s.tpEncs.find? (fun e => e.1 = h ∧ e.2.1 = pers) with
        | some (_, _, tptext) =>
          let ew := words tptext
          let madMs := kvn ew "mad=" / 1000000
          let paOK : Bool := kv ew "pa=" = "nil" || pers = "c" || (match (kv ew "pa=").splitOn "," with | [_, _, c, _] => c != "-" | _ => false)
          let minOK : Bool := kv ew "minad=" = "-" || decide (kvn ew "minad=" / 1000 * 1000 ≤ madMs * 1000000)
          if (kvn ew "udp=" = 0 ∨ kvn ew "udp=" ≥ 1200) ∧ kvn ew "ade=" ≤ 20 ∧ madMs < 16384 ∧ kvn ew "acl=" ≥ 2
              ∧ kvn ew "sb=" ≤ 2 ^ 60 ∧ kvn ew "su=" ≤ 2 ^ 60 ∧ paOK = true ∧ minOK = true then
            fails := fails ++ [("tp_roundtrip", "-", s!"Marshal output for valid parameters `{tptext}` is rejected: {impl}")]
        | none => pure ()
      return fails
    (s, { model := model, tags := [s!"tpdec:{pers}:{if model.startsWith "ok" then "ok" else model}"], fails := fails })
  | "tpenc" :: pers :: fw =>
    let p := tpOfWords fw
    let sentBy := if pers = "s" then TP.perspectiveServer else TP.perspectiveClient
    -- the greased parameter at the front is recovered from the output (DESIGN §3.3)
    let ib := unhx impl
    let (gid, gval) := match takeSpecN 2 ib with
      | some ([id, len], r) => (id, r.take len)
      | _ => (0, [])
    let model := match TP.marshal p sentBy gid gval with
      | some b => hx b
      | none => "PANIC"
    let fails : List Fail :=
      if !isPanic impl ∧ !(gid % 31 = 27 ∧ gval.length < 16) then [("tp_grease", "-", s!"first parameter id={gid} len={gval.length} is not a reserved (31N+27) parameter")] else []
    let s' := if !isPanic impl then { s with tpEncs := keep 4 (impl, pers, " ".intercalate fw) s.tpEncs } else s
    (s', { model := model, tags := [s!"tpenc:{pers}:{if model = "PANIC" then "panic" else "ok"}"], fails := fails })
  | "tpst" :: fw =>
    let p := tpOfWords fw
    let model := match TP.marshalForSessionTicket p with
      | some b => hx b
      | none => "PANIC"
    (s, { model := model, tags := [s!"tpst:{if model = "PANIC" then "panic" else "ok"}"] })
  | ["tpstdec", h] =>
    let model := match TP.unmarshalFromSessionTicket (unhx h) with
      | .ok p => s!"ok {fmtTP p}"
      | .error .panic => "PANIC"
      | .error e => s!"E:{terrName e}"
    let dupFails : List Fail := summFails "tpstdec" [] (unhx h) (if impl.startsWith "ok" then "ok" else impl)
    (s, { model := model, tags := [s!"tpstdec:{if model.startsWith "ok" then "ok" else model}"], fails := dupFails })
  | "stk" :: fw =>
    let p := tpOfWords fw
    let model := match Ticket.ticketMarshal p with
      | some b => hx b
      | none => "PANIC"
    -- monitor: the envelope is the revision varint, then what MarshalForSessionTicket writes on its own
    let fails : List Fail :=
      if isPanic impl then (if model = "PANIC" then [] else [("no_panic", "-", "sessionTicket.Marshal panicked on encodable parameters")]) else
      match specVarint (unhx impl) with
      | some (v, _) => if v ≠ Ticket.revision then [("ticket_revision", "-", s!"a fresh ticket starts with revision {v}, the library's is {Ticket.revision}")] else []
      | none => [("ticket_revision", "-", "a fresh ticket does not start with a varint")]
    let s' := if isPanic impl then s else { s with stkEncs := keep 4 (impl, fw) s.stkEncs }
    (s', { model := model, tags := [s!"stk:{if model = "PANIC" then "panic" else "ok"}"], fails := fails })
  | ["stkdec", h] =>
    let b := unhx h
    let model := match Ticket.ticketUnmarshal b with
      | .ok p => s!"ok {fmtTP p}"
      | .error .revRead => "E:revread"
      | .error (.revision r) => s!"E:rev({r})"
      | .error (.tp .panic) => "PANIC"
      | .error (.tp e) => s!"E:tp:{terrName e}"
    let iw := words impl
    let fails : List Fail := Id.run do
      let mut fails : List Fail := noPanic []
      -- another revision is refused, whatever follows
      match specVarint b with
      | some (v, n) =>
        if v ≠ Ticket.revision ∧ impl ≠ s!"E:rev({v})" ∧ !isPanic impl then
          fails := fails ++ [("ticket_revision", "-", s!"a ticket of revision {v} (the library's is {Ticket.revision}) was answered `{(impl.take 60).toString}`")]
        if v = Ticket.revision ∧ impl.startsWith "ok" then
          fails := fails ++ summFails "tpstdec" [] (b.drop n) "ok"
      | none =>
        if impl.startsWith "ok" then fails := fails ++ [("ticket_revision", "-", "a ticket without a complete revision varint was accepted")]
      -- what Marshal wrote comes back
      match s.stkEncs.find? (fun e => e.1 = h) with
      | some (_, ew) =>
        if kvn ew "sb=" ≤ 2 ^ 60 ∧ kvn ew "su=" ≤ 2 ^ 60 ∧ kvn ew "acl=" ≥ 2 ∧ !isPanic impl then
          if !impl.startsWith "ok" then
            fails := fails ++ [("ticket_roundtrip", "-", s!"a fresh ticket is refused: {impl}")]
          else
            let bad := ["bl=", "br=", "un=", "md=", "sb=", "su=", "acl=", "dg=", "rsa="].filter (fun k => kv ew k ≠ kv iw k)
            if !bad.isEmpty then
              fails := fails ++ [("ticket_roundtrip", "-", s!"fields {bad} changed: stored `{" ".intercalate ew}` restored `{impl}`")]
      | none => pure ()
      return fails
    (s, { model := model, tags := [s!"stkdec:{if model.startsWith "ok" then "ok" else if model.startsWith "E:rev(" then "E:rev" else model}"], fails := fails })
  | "stkx" :: rest =>
    let spec := rest.headD "-"
    let items := if spec = "-" ∨ spec = "" then [] else spec.splitOn ","
    let entries : List Bytes := items.map fun e =>
      if e.startsWith "+" then Ticket.addExtraPrefix (unhx (dropPrefix e 1)) else unhx e
    let echo := ",".intercalate (entries.map hx)
    let model := match Ticket.findExtra entries with
      | some r => s!"ok {hx r} entries={echo}"
      | none => s!"nil entries={echo}"
    let iw := words impl
    let printed := ((kv iw "entries=").splitOn ",").filter (· ≠ "")
    let fails : List Fail := noPanic <|
      (if impl.startsWith "nil" ∧ items.any (·.startsWith "+") then
         [("extra_found", "-", "an entry tagged by addSessionStateExtraPrefix is not found by findSessionStateExtraData")] else []) ++
      (if impl.startsWith "ok " ∧ !(printed.any fun e => (if e = "-" then "" else e).endsWith (let r := iw.getD 1 "-"; if r = "-" then "" else r)) then
         [("extra_found", "-", s!"findSessionStateExtraData returned {iw.getD 1 "-"}, which is the tail of no entry")] else []) ++
      ((items.zip printed).filterMap fun (it, pr) =>
         if it.startsWith "+" ∧ !(pr.endsWith (let x := dropPrefix it 1; if x = "-" then "" else x) ∧ hexLen pr = hexLen (dropPrefix it 1) + Ticket.extraPrefix.length) then
           some ("extra_found", "-", s!"addSessionStateExtraPrefix({dropPrefix it 1}) = {pr}: not the tag followed by the data") else none)
    (s, { model := model, tags := [s!"stkx:{if model.startsWith "ok" then "found" else "nil"}:{min entries.length 3}"], fails := fails })
  | ["smax", ms, a, b, c] =>
    let ws := [a, b, c]
    let n := streamMaxDataLen (kvn ws "sid=") (kvn ws "off=") (kv ws "len=" = "1") (natOf ms)
    -- monitor: a frame carrying that many bytes fits the budget
    let implN := natOf impl
    let f := Frame.stream (kvn ws "sid=") (kvn ws "off=") (List.replicate implN 0) false (kv ws "len=" = "1")
    let fails : List Fail := noPanic (if implN > 0 ∧ f.bytes.length > natOf ms then
      [("maxlen_fits", "-", s!"MaxDataLen={implN} but a frame with that much data takes {f.bytes.length} > {ms} bytes")] else [])
    (s, { model := toString n, tags := [s!"smax:{if n = 0 then "0" else "pos"}"], fails := fails })
  | ["cmax", ms, a] =>
    let n := cryptoMaxDataLen (kvn [a] "off=") (natOf ms)
    let implN := natOf impl
    let f := Frame.crypto (kvn [a] "off=") (List.replicate implN 0)
    let fails : List Fail := noPanic (if implN > 0 ∧ f.bytes.length > natOf ms then
      [("maxlen_fits", "-", s!"MaxDataLen={implN} but a CRYPTO frame with that much data takes {f.bytes.length} > {ms} bytes")] else [])
    (s, { model := toString n, tags := [s!"cmax:{if n = 0 then "0" else "pos"}"], fails := fails })
  | ["dmax", ms, a] =>
    let n := datagramMaxDataLen (kv [a] "len=" = "1") (natOf ms)
    let implN := natOf impl
    let f := Frame.datagram (kv [a] "len=" = "1") (List.replicate implN 0)
    let fails : List Fail := noPanic (if implN > 0 ∧ f.bytes.length > natOf ms then
      [("maxlen_fits", "-", s!"MaxDataLen={implN} but a DATAGRAM frame with that much data takes {f.bytes.length} > {ms} bytes")] else [])
    (s, { model := toString n, tags := [s!"dmax:{if n = 0 then "0" else "pos"}"], fails := fails })
  | "ssplit" :: ms :: fw =>
    match frameOfWords fw with
    | some (.stream sid off data fin dlp) =>
      let out := streamSplit sid off data fin dlp (natOf ms)
      let model := match out with
        | .notNeeded => "nosplit" | .tooSmall => "nil" | .panic => "PANIC"
        | .split a b => s!"{fmtFrame a} | {fmtFrame b}"
      let fails : List Fail := Id.run do
        let mut fails : List Fail := []
        match impl.splitOn " | " with
        | [a, b] =>
          match frameOfWords (words a), frameOfWords (words b) with
          | some (.stream sid1 off1 d1 fin1 dlp1), some (.stream sid2 off2 d2 fin2 dlp2) =>
            if (Frame.stream sid1 off1 d1 fin1 dlp1).bytes.length > natOf ms then
              fails := fails ++ [("split_fits", "-", s!"the split-off frame takes {(Frame.stream sid1 off1 d1 fin1 dlp1).bytes.length} > {ms} bytes")]
            if d1 ++ d2 ≠ data ∨ d1.isEmpty ∨ sid1 ≠ sid ∨ sid2 ≠ sid ∨ off1 ≠ off ∨ off2 ≠ off + d1.length ∨ fin1 ∨ fin2 ≠ fin ∨ dlp1 ≠ dlp ∨ dlp2 ≠ dlp then
              fails := fails ++ [("split_preserves", "-", s!"`{" ".intercalate fw}` split into `{impl}`")]
          | _, _ => fails := fails ++ [("split_preserves", "-", s!"unreadable split result `{impl}`")]
        | _ =>
          if impl = "nosplit" ∧ (Frame.stream sid off data fin dlp).bytes.length > natOf ms then
            fails := fails ++ [("split_fits", "-", s!"not split although the frame takes {(Frame.stream sid off data fin dlp).bytes.length} > {ms} bytes")]
        return fails
      (s, { model := model, tags := [s!"ssplit:{(model.take 5).toString}"], fails := fails })
    | _ => (s, { model := "skip", tags := ["skip"] })
  | "csplit" :: ms :: fw =>
    match frameOfWords fw with
    | some (.crypto off data) =>
      let out := cryptoSplit off data (natOf ms)
      let model := match out with
        | .notNeeded => "nosplit" | .tooSmall => "nil" | .panic => "PANIC"
        | .split a b => s!"{fmtFrame a} | {fmtFrame b}"
      let fails : List Fail := Id.run do
        let mut fails : List Fail := noPanic []
        match impl.splitOn " | " with
        | [a, b] =>
          match frameOfWords (words a), frameOfWords (words b) with
          | some (.crypto off1 d1), some (.crypto off2 d2) =>
            if (Frame.crypto off1 d1).bytes.length > natOf ms then
              fails := fails ++ [("split_fits", "-", s!"the split-off frame takes {(Frame.crypto off1 d1).bytes.length} > {ms} bytes")]
            if d1 ++ d2 ≠ data ∨ d1.isEmpty ∨ off1 ≠ off ∨ off2 ≠ off + d1.length then
              fails := fails ++ [("split_preserves", "-", s!"`{" ".intercalate fw}` split into `{impl}`")]
          | _, _ => fails := fails ++ [("split_preserves", "-", s!"unreadable split result `{impl}`")]
        | _ =>
          if impl = "nosplit" ∧ (Frame.crypto off data).bytes.length > natOf ms then
            fails := fails ++ [("split_fits", "-", s!"not split although the frame takes {(Frame.crypto off data).bytes.length} > {ms} bytes")]
        return fails
      (s, { model := model, tags := [s!"csplit:{(model.take 5).toString}"], fails := fails })
    | _ => (s, { model := "skip", tags := ["skip"] })
  | ["tpb", pers, pre, ids, vs, fol] =>
    let pre := unhx pre; let id := natOf ids; let v := unhx vs; let fol := unhx fol
    let one (declared : Nat) (val : Bytes) : List Bytes :=
      let body := pre ++ Varint.enc id ++ Varint.enc declared ++ val
      [body, body ++ fol]
    let cutIns := (List.range (v.length + 3)).flatMap fun l => one l ((v ++ List.replicate l 0x5a).take l)
    let offIns := ([-2, -1, 1, 2] : List Int).flatMap fun d =>
      if (v.length : Int) + d ≥ 0 then one ((v.length : Int) + d).toNat v else []
    let (model, fails) := runEntries "tpdec" [pers] (cutIns ++ offIns) impl
    (s, { model := model, tags := [s!"tpb:{pers}:{if id = 13 then "pa" else if id = 2 then "srt" else if id = 0 ∨ id = 15 ∨ id = 16 then "cid" else "other"}"], fails := fails })
  | "cut" :: kind :: rest =>
    let args := rest.dropLast
    let b := unhx (rest.getLast?.getD "-")
    let (model, fails) := runEntries kind args ((List.range (b.length + 1)).map fun k => b.take k) impl
    (s, { model := model, tags := [s!"cut:{kind}"], fails := fails })
  | "lenb" :: kind :: rest =>
    let n := rest.length
    let args := rest.take (n - 5)
    let pre := unhx (rest.getD (n - 5) "-"); let v := natOf (rest.getD (n - 4) "0"); let width := natOf (rest.getD (n - 3) "0")
    let post := unhx (rest.getD (n - 2) "-"); let fol := unhx (rest.getD (n - 1) "-")
    let inputs := ([-2, -1, 0, 1, 2] : List Int).flatMap fun d =>
      if (v : Int) + d < 0 then [] else
        let nv := ((v : Int) + d).toNat
        if width = 0 then (if nv > 255 then [] else [pre ++ [UInt8.ofNat nv] ++ post, pre ++ [UInt8.ofNat nv] ++ post ++ fol])
        else if nv > 2 ^ 62 - 1 then []
        else [pre ++ encWidth nv width ++ post, pre ++ encWidth nv width ++ post ++ fol]
    let (model, fails) := runEntries kind args inputs impl
    (s, { model := model, tags := [s!"lenb:{kind}"], fails := fails })
  | ["tokdec", _, h] =>
    let b := unhx h
    let model := match Token.decodeOutcome b with
      | .nilToken => "nil"
      | .tooShort => "E:short"
      | .authFail => "E:auth"
    let fails : List Fail :=
      noPanic (if impl = "ok" then [("token_forgery", "-", "a random byte string was accepted as a token")] else [])
    (s, { model := model, tags := [s!"tokdec:{model}"], fails := fails })
  | "tokrt" :: _key :: kind :: ak :: ip :: port :: odcid :: rscid :: rtt :: _ =>
    let retry := kind = "retry"
    let ipb := unhx ip
    let addr : Bytes := if ak = "u" then Token.encodeUDPAddr ipb else Token.encodeStringAddr (Token.tcpAddrString ipb (natOf port))
    let iw := words impl
    -- the timestamp is not an input: its DER length is recovered from the token length
    let od := if retry then (unhx odcid).take 20 else []
    let rs := if retry then (unhx rscid).take 20 else []
    let rttUs := if retry then 0 else natOf rtt
    let n := kvn iw "n="
    let tsLen := Token.recoverTimestampLen retry addr rttUs od rs n
    let model := s!"ok retry={b01 retry} addr=1 other=0 odcid={hx od} rscid={hx rs} rtt={rttUs * 1000} time=1 tamper=1 n={Token.tokenLen retry addr tsLen rttUs od rs}"
    let fails : List Fail := Id.run do
      let mut fails : List Fail := noPanic []
      if impl.startsWith "ok " then
        if kv iw "addr=" ≠ "1" ∨ kv iw "odcid=" ≠ hx od ∨ kv iw "rscid=" ≠ hx rs ∨ kvn iw "rtt=" ≠ rttUs * 1000 ∨ kv iw "retry=" ≠ b01 retry then
          fails := fails ++ [("token_roundtrip", "-", s!"decoded token differs from what was encoded: {impl}")]
        if kv iw "other=" ≠ "0" then fails := fails ++ [("token_address", "-", "token validates a different address")]
        if kv iw "tamper=" ≠ "1" then fails := fails ++ [("token_forgery", "-", "a modified token was accepted")]
        if tsLen < 1 ∨ tsLen > 9 then fails := fails ++ [("length_exact", "-", s!"token length {n} is not nonce + DER + tag for any timestamp width")]
      else if !isPanic impl then fails := fails ++ [("token_roundtrip", "-", s!"fresh token did not decode: {impl}")]
      return fails
    (s, { model := model, tags := [s!"tokrt:{kind}:{ak}"], fails := fails })
  | _ => (s, { model := "skip", tags := ["skip"] })

/-! ### the `FrameParser` object

`dec` / `sweep` / `cut dec` / `lenb dec` name a parser by its flags.  A numeric exponent means the driver
called `SetAckDelayExponent` right before parsing; `=` means it did not, so the parse runs with whatever
the object holds (set by an earlier `setexp` or numeric op of the same case; 0 for a fresh parser).  The
model's `Parser` resolves the exponent; `stepCore` then judges the parse under that context. -/

def flagKey (flags : String) : String := String.ofList ((flags.toList ++ ['0', '0', '0']).take 3)

def parserOf (s : St) (flags : String) : Parser :=
  match s.parsers.find? (fun kp => kp.1 = flagKey flags) with
  | some (_, p) => p
  | none =>
    let f := (flagKey flags).toList
    Parser.new (f.getD 0 '0' == '1') (f.getD 1 '0' == '1') (f.getD 2 '0' == '1')

def putParser (s : St) (flags : String) (p : Parser) : St :=
  { s with parsers := (flagKey flags, p) :: s.parsers.filter (fun kp => kp.1 ≠ flagKey flags) }

def step (s : St) (op impl : String) : St × StepOut :=
  let w := words op
  match w with
  | ["setexp", flags, e] =>
    let p := (parserOf s flags).setAckDelayExponent (natOf e)
    (putParser s flags p,
      { model := "ok", tags := [s!"setexp:{if p.ackDelayExponent = defaultAckDelayExponent then "default" else if p.ackDelayExponent ≤ 20 then "valid" else "large"}"],
        fails := if isPanic impl then [("no_panic", "-", "SetAckDelayExponent panicked")] else [] })
  | _ =>
    let pos : Option Nat := match w with
      | "dec" :: _ => some 2
      | "sweep" :: _ => some 2
      | "cut" :: "dec" :: _ => some 3
      | "lenb" :: "dec" :: _ => some 3
      | _ => none
    match pos with
    | some i =>
      if w.length ≤ i + 1 then stepCore s op impl else
      let flags := w.getD i ""
      let exp := w.getD (i + 1) ""
      let p0 := parserOf s flags
      let p := if exp = "=" then p0 else p0.setAckDelayExponent (natOf exp)
      let w' := w.set (i + 1) (toString p.ackDelayExponent)
      let (s1, out) := stepCore s (" ".intercalate w') impl
      -- `Parser.parse` returns the parser unchanged (Uquic.Props.C08Parser.parse_keeps_configuration)
      (putParser s1 flags p,
        { out with tags := out.tags ++ (if exp = "=" then [s!"parser:kept_exp:{w.getD (i - 1) ""}:{if p.ackDelayExponent = defaultAckDelayExponent then "default" else "other"}"] else []) })
    | none => stepCore s op impl

/-! ### memory ownership (`harness/drivers/wire/mem_test.go`)

`at <pre> <slk> <inner>`: the inner codec call inside a caller-owned buffer.  `dirty <inner dec>`: the parse
after the StreamFrame pool was filled with used objects, twice.  `vnc`: Version Negotiation composition on one
caller-owned versions slice; the model is `Model.Wire.VNHeap` (theorems: `Uquic.Props.C08Alias`). -/

/-- content of caller-owned bytes at arena position `i` (as `memPattern` in the driver) -/
def memPattern (start n : Nat) : Bytes := (List.range n).map fun i => UInt8.ofNat ((0xc5 + 3 * (start + i)) % 256)

def atEncKinds : List String := ["enc", "venc", "vencl", "enclhdr", "encshdr", "tpst"]
def atDecKinds : List String := ["vparse", "dec", "lhdr", "shdr", "cid", "acid", "vn", "pred", "tpdec", "tpstdec", "tokdec", "stkdec"]
/-- parse ops whose result the connection keeps after the receive buffer is reused: it is rendered again after
    the input buffer was overwritten -/
def atOwnKinds : List String := ["dec", "lhdr", "cid", "tpdec", "tpstdec", "stkdec"]

def parseVList (t : String) : List Nat := if t = "-" ∨ t = "" then [] else (t.splitOn ",").map natOf

def canaryVersion : Nat := 0xc5c5c5c5

open Uquic.Model.TokenHeap Uquic.Model.Wire.VNHeap in
def stepVNC (s : _root_.St) (fw : List String) (impl : String) : _root_.St × StepOut :=
  let via := kv fw "via="
  let vs := parseVList (kv fw "v=")
  let d := unhx (kv fw "d=")
  let sc := unhx (kv fw "s=")
  let voff := kvn fw "voff="; let vslk := kvn fw "vslk="; let boff := kvn fw "boff="; let bslk := kvn fw "bslk="
  if voff > 64 ∨ vslk > 64 ∨ boff > 64 ∨ bslk > 64 ∨ vs.length > 64 ∨ d.length > 255 ∨ sc.length > 255 then
    (s, { model := "skip", tags := ["vnc:skip"] }) else
  let key := " ".intercalate (fw.filter (fun w => !w.startsWith "via="))
  let s : _root_.St := if s.vnKey = some key then s else
    let varr := List.replicate voff canaryVersion ++ vs ++ List.replicate vslk canaryVersion
    let barr := memPattern 0 boff ++ d ++ sc ++ memPattern (boff + d.length + sc.length) bslk
    { s with vnKey := some key, vnHeap := [varr, barr.map (·.toNat)], vnGhostV := varr, vnGhostB := barr, vnCalls := 0 }
  let sup : Slice := { arr := 0, off := voff, len := vs.length, cap := vs.length + vslk }
  let dest : Slice := { arr := 1, off := boff, len := d.length, cap := d.length + sc.length + bslk }
  let src : Slice := { arr := 1, off := boff + d.length, len := sc.length, cap := sc.length + bslk }
  let iw := words impl
  let rS := kv iw "r="
  let pkt := unhx rS
  -- the random draws are recovered from the output (DESIGN §3.3)
  let listed : List Nat := if via = "g" then parseVList rS else Hdr.versionList (pkt.drop (7 + d.length + sc.length))
  let good (i : Nat) : Bool := isReserved (listed.getD i 0) && listed.eraseIdx i == vs
  let posOK := (List.range listed.length).find? good
  let pos := match posOK with
    | some i => i
    | none => ((List.range listed.length).find? (fun i => isReserved (listed.getD i 0))).getD 0
  let reserved := listed.getD pos 0
  let g := getGreased s.vnHeap sup (min pos vs.length) reserved
  let rModel :=
    if via = "g" then vlist (bytesOf g.1 g.2)
    else hx (Hdr.composeVersionNegotiation ((pkt.headD 0).toNat) (toBytes (bytesOf g.1 dest)) (toBytes (bytesOf g.1 src)) (bytesOf g.1 g.2))
  let heap' := g.1.take 2
  let model := s!"r={rModel} vmem={vlist (readArr heap' 0)} bmem={hx (toBytes (readArr heap' 1))}"
  let fails : List Fail :=
    if isPanic impl then [("no_panic", "-", "composing a Version Negotiation packet panicked")] else
    (if kv iw "vmem=" ≠ vlist s.vnGhostV then
       [("caller_memory_untouched", "-", s!"the array behind the caller's versions slice reads {kv iw "vmem="} after call {s.vnCalls + 1}, it was built as {vlist s.vnGhostV}")] else []) ++
    (if kv iw "bmem=" ≠ hx s.vnGhostB then
       [("caller_memory_untouched", "-", s!"the buffer behind the connection IDs reads {kv iw "bmem="}, it was built as {hx s.vnGhostB}")] else []) ++
    (if posOK.isNone then
       [("vn_lists_supported", "-", s!"call {s.vnCalls + 1} lists versions {vlist listed}: not the supported versions {vlist vs} plus one reserved version")] else []) ++
    (if via ≠ "g" ∧ pkt.length ≠ 7 + d.length + sc.length + 4 * (vs.length + 1) then
       [("length_exact", "-", s!"version negotiation packet has {pkt.length} bytes, expected {7 + d.length + sc.length + 4 * (vs.length + 1)}")] else []) ++
    (if via ≠ "g" ∧ ((pkt.headD 0).toNat < 128 ∨
         (pkt.drop 1).take (6 + d.length + sc.length) ≠ [0, 0, 0, 0, UInt8.ofNat d.length] ++ d ++ [UInt8.ofNat sc.length] ++ sc) then
       [("vn_layout_rfc", "-", s!"RFC 8999 §6 layout (long form, version 0, both connection IDs) not met by {rS}")] else [])
  let tags := [s!"vnc:{if via = "g" then "greased" else "compose"}:{if vslk = 0 then "tight" else "slack"}:{if pos = 0 then "first" else if pos ≥ vs.length then "last" else "mid"}",
               s!"vnc:call{min (s.vnCalls + 1) 4}:n{min vs.length 3}", if voff > 0 ∨ boff > 0 then "vnc:offset" else "vnc:front"]
  ({ s with vnHeap := heap', vnCalls := s.vnCalls + 1 }, { model := model, tags := tags, fails := fails })

def stepTop (s : St) (op impl : String) : St × StepOut :=
  match words op with
  | "vnc" :: fw => stepVNC s fw impl
  | "dirty" :: inner =>
    if inner.headD "" ≠ "dec" ∧ inner.headD "" ≠ "ssplit" then (s, { model := "skip", tags := ["dirty:skip"] }) else
    let parts := impl.splitOn " @@ "
    let second := parts.getD 1 (parts.headD impl)
    let (s', out) := step s (" ".intercalate inner) second
    if out.model = "PANIC" ∨ isPanic impl then (s', { out with tags := out.tags ++ ["dirty:panic"] }) else
    let fails : List Fail :=
      if parts.length = 2 ∧ parts.headD "" ≠ second then
        [("pooled_object_reinitialised", "-", s!"`{inner.headD ""}` answers `{parts.headD ""}` and `{second}` for the same input depending on what the pooled StreamFrame held before")]
      else []
    (s', { model := s!"{out.model} @@ {out.model}", tags := out.tags ++ [s!"dirty:{(out.model.take 9).toString}"], fails := out.fails ++ fails })
  | "at" :: pre :: slk :: inner =>
    let kind := inner.headD ""
    let isEnc := atEncKinds.contains kind
    let isDec := atDecKinds.contains kind
    if inner.isEmpty ∨ natOf pre > 4096 ∨ natOf slk > 4096 ∨ (!isEnc ∧ !isDec) then (s, { model := "skip", tags := ["at:skip"] }) else
    let parts := impl.splitOn " @@ "
    let innerImpl := parts.headD impl
    let (s', out) := step s (" ".intercalate inner) innerImpl
    if out.model = "PANIC" ∨ out.model = "skip" then (s', { out with tags := out.tags ++ ["at:bare"] }) else
    let capTag := if natOf slk = 0 then "tight" else "slack"
    if isEnc then
      let want := hx (memPattern 0 (natOf pre))
      -- an encoder that refuses (error) still returns; the caller's bytes are judged all the same
      let model := s!"{out.model} @@ pre={if out.model.startsWith "E:" then "?" else want} mem={want}"
      let iw := words (parts.getD 1 "")
      let fails : List Fail :=
        if isPanic impl ∨ parts.length < 2 then [] else
        (if kv iw "pre=" ≠ "?" ∧ kv iw "pre=" ≠ want then
           [("append_keeps_prefix", "-", s!"{kind}: the {pre} bytes in front of the appended encoding read {kv iw "pre="} in the returned slice, they were {want}")] else []) ++
        (if kv iw "mem=" ≠ want then
           [("append_keeps_prefix", "-", s!"{kind}: the caller's {pre} bytes read {kv iw "mem="} after Append, they were {want}")] else [])
      (s', { model := model, tags := out.tags ++ [s!"at:enc:{capTag}:{if natOf pre = 0 then "empty" else "content"}"], fails := out.fails ++ fails })
    else
      let data := unhx (inner.getLast?.getD "-")
      let arena := memPattern 0 (natOf pre) ++ data ++ memPattern (natOf pre + data.length) (natOf slk)
      -- only values the connection keeps beyond the life of the receive buffer (of a long header: the Retry token)
      let own := atOwnKinds.contains kind ∧ out.model.startsWith "ok" ∧
        (kind ≠ "lhdr" ∨ kvn (words out.model) "t=" = Hdr.ptRetry)
      let model := s!"{out.model} @@ mem={hx arena} @@ {if own then out.model else "-"}"
      let fails : List Fail :=
        if isPanic impl ∨ parts.length < 3 then [] else
        (if parts.getD 1 "" ≠ s!"mem={hx arena}" then
           [("parse_keeps_input", "-", s!"{kind}: the buffer around the parsed bytes reads {parts.getD 1 ""} after the call, it was {hx arena}")] else []) ++
        (if parts.getD 2 "-" ≠ "-" ∧ parts.getD 2 "-" ≠ innerImpl then
           [("parsed_value_owns_memory", "-", s!"{kind}: parsed `{innerImpl}`; after the input buffer was overwritten the same value reads `{parts.getD 2 "-"}`")] else [])
      (s', { model := model, tags := out.tags ++ [s!"at:dec:{capTag}:{if own then "own" else "plain"}"], fails := out.fails ++ fails })
  | _ => step s op impl

def main : IO Unit := run { init := ({} : St), step := stepTop }
