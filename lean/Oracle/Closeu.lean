import Uquic.Oracle.Frame
import Uquic.Spec.CloseMon
import Uquic.Model.Close.IdleSeq
import Uquic.Model.Close.TrLife
import Uquic.Generated.CloseTr

/-! Oracle of the `closeu` driver (C17, unit level): see harness/drivers/closeu/closeu_test.go for the ops. -/

open Uquic.Oracle Uquic.Model.Close Uquic.Model.Idle Uquic.Spec.CloseMon

structure OSt where
  dummy : Unit := ()

def b (s : String) : Bool := s == "1"

def optInt (s : String) (base : Int) : Int := if s == "-" then 0 else base + intOf s

/-- the arbitrary non-zero instant standing for `monotime.Now()` of a `timer` op -/
def now0 : Int := 1000000000000000000

/-- caller name → (kind, waitable object); "accept2", "open3", … are further callers on the SAME object,
    "read2" / "write2" use a second stream -/
def callerOf (name : String) : Option (CallKind × Nat) :=
  let base := (name.dropEndWhile Char.isDigit).toString
  match name with
  | "read2" => some (.read, 9)
  | "write2" => some (.write, 10)
  | _ =>
    match base with
    | "read" => some (.read, 0) | "readuni" => some (.read, 1) | "write" => some (.write, 2)
    | "writesmall" => some (.write, 2)
    | "accept" => some (.acceptStream, 3) | "acceptuni" => some (.acceptStream, 4)
    | "open" => some (.openStreamSync, 5) | "openuni" => some (.openStreamSync, 6) | "opennow" => some (.openStreamSync, 5)
    | "senddgram" => some (.sendDatagram, 8)
    | "rcvdgram" => some (.receiveDatagram, 7)
    | _ => none

def retName (specs : List Spec) : Ret → String
  | .ok => "nil" | .err c => canonCause specs c | .pending => "BLOCKED"

def laterNames (qd : Nat) : List String :=
  ["read", "write", "writesmall", "accept", "acceptuni", "open", "openuni", "opennow"]
  ++ (List.range (qd + 1)).map (fun i => s!"rcvdgram{i}") ++ ["senddgram"]

def mkSteps (names : List String) (base : Nat) : List Step :=
  (names.zipIdx).filterMap fun (n, i) => (callerOf n).map fun (k, r) => Step.call (base + i) k r

def lookupRet (rets : Rets) (id : Nat) : Ret :=
  ((rets.find? (·.1 == id)).map (·.2)).getD .pending

def closeStep (w : List String) (impl : String) : StepOut := Id.run do
  match w with
  | [_, cl, sfp, ql, tok, errs, blocked, later, qd, pkts] =>
    let specs := (errs.splitOn ";").filterMap parseSpec
    if specs.isEmpty then return { model := "bad-op" }
    let persp := if b cl then Perspective.client else .server
    let qd := natOf qd; let pkts := natOf pkts
    let blockedL := if blocked == "-" then [] else blocked.splitOn ","
    -- first cause wins
    let cs := (specs.zipIdx).foldl (fun (s : CloseState) (sp, i) => s.setCloseError (sp.closeError i)) {}
    let ce := cs.closeErr.getD { err := none, immediate := false }
    let cl' := classify ce
    let env : Env := { persp := persp, sentFirstPacket := b sfp, hasQlog := b ql }
    let effects := handleCloseError env ce
    let routing := routingOf persp (b sfp) ce
    let nids := if b cl then 1 else 2
    -- blocked callers and later calls, on the Blocked model
    let sendFull := blockedL.any (·.startsWith "senddgram")
    let res : List Res := (List.range 11).map fun i =>
      if i == 7 then { avail := qd } else if i == 8 then { avail := if sendFull then 0 else 32 } else {}
    let sys0 : Sys := { res := res }
    let (sys1, r1) := sys0.run (mkSteps blockedL 0)
    let pre := r1.isEmpty
    let (sys2, _) := sys1.step (.fanout cl'.cause)
    let (sys3, r3) := sys2.run ((List.range blockedL.length).map Step.wake)
    let returns := sortStrings ((blockedL.zipIdx).map fun (n, i) => s!"{n}={retName specs (lookupRet (r1 ++ r3) i)}")
    let lnames := if b later then laterNames qd else []
    let r4 := (sys3.run (mkSteps lnames 100)).2
    let laterS := (lnames.zipIdx).map fun (n, i) => s!"{n}={retName specs (lookupRet r4 (100 + i))}"
    -- observable effects
    let evs := effects.flatMap fun e => match e with
      | .qlogClosed rem tr app trig => [s!"qlog:{if rem then "remote" else "local"}:tr={optNat tr}:app={optNat app}:trig={triggerName trig}"]
      | .routing .replaceRemote => [s!"replace:remote:{nids}"]
      | .routing .removeAll => List.replicate nids "remove"
      | .routing (.sendAndReplace f) =>
        [(if f.isApp then s!"pack:app:{f.code}" else s!"pack:tr:{f.code}{if f.bug then ":bug" else ""}"), "write", s!"replace:local:{nids}"]
      | .connIDManagerClose => if b tok then ["rmtoken"] else []
      | _ => []
    let replies := match standInOf routing with
      | some s => (s.feed pkts).2
      | none => 0
    let h := match routing with | .removeAll => 0 | _ => nids
    let exp := match routing with | .removeAll => 0 | _ => 3
    let model := s!"pre={if pre then 1 else 0} rec={(specs.headD default).canon}/{ce.immediate} ret={canonOpt specs cl'.ret} " ++
      s!"returns={joinOrDash returns} later={joinOrDash laterS} ev={joinOrDash evs} replies={replies} h={h} hx=0 exp={exp} tok=0"
    -- ---------------- monitors on the implementation's text (ghost from the op only)
    let first := specs.headD default
    let mut fails : List (String × String × String) := []
    let iret := field impl "ret"
    let irets := listField impl "returns"
    let ilater := listField impl "later"
    let ievs := listField impl "ev"
    if field impl "rec" ≠ s!"{first.canon}/{first.immediate}" then
      fails := fails ++ [("first_cause_wins", "-", s!"recorded {field impl "rec"} but the first request was {first.canon}/{first.immediate}")]
    -- one cause for everybody: the value the context is cancelled with (or &ApplicationError{} for nil)
    let cause := if iret == "nil" then "app:0:l" else iret
    for r in irets do
      if valOf r ≠ cause then
        fails := fails ++ [("all_same_cause", "-", s!"blocked {r} but the cause is {cause}")]
    for r in ilater do
      let n := nameOf r
      let v := valOf r
      if v ≠ cause then
        if n.startsWith "rcvdgram" && v == "nil" && n ≠ s!"rcvdgram{qd}" then
          pure ()   -- a datagram received before the close is still delivered
        else
          fails := fails ++ [("all_same_cause", "-", s!"later {r} but the cause is {cause}")]
    -- the cause handed out is the recorded one unless the code maps it (non-immediate unknown error → INTERNAL_ERROR)
    let plainKinds := ["idle", "hstimeout", "reset", "vn", "recreate", "app", "tr", "trapp"]
    if plainKinds.contains first.kind && iret ≠ first.canon then
      fails := fails ++ [("context_cause_matches", "-", s!"closed with {first.canon} but run returns {iret}")]
    -- CONNECTION_CLOSE exactly when due, with the matching code
    let isRemote := (first.kind == "app" || first.kind == "tr" || first.kind == "trapp") && first.remote
    let due := !isRemote && !first.immediate && !(b cl && !b sfp)
    let packs := ievs.filter (·.startsWith "pack:")
    let wrote := ievs.contains "write"
    if due then
      let want := match first.kind with
        | "app" => s!"pack:app:{first.code}"
        | "tr" => s!"pack:tr:{first.code}"
        | "trapp" => s!"pack:tr:{256 + first.code}"
        | "nil" => "pack:app:0"
        | "other" | "tclosed" => s!"pack:tr:{internalError}"
        | _ => s!"pack:tr:{internalError}:bug"
      if packs ≠ [want] || !wrote then
        fails := fails ++ [("peer_informed_iff_due", "-", s!"CONNECTION_CLOSE due ({want}) but events are {field impl "ev"}")]
    else if !packs.isEmpty || wrote then
      fails := fails ++ [("peer_informed_iff_due", "-", s!"no CONNECTION_CLOSE due but events are {field impl "ev"}")]
    let wantReplies := if due then powersUpTo pkts else 0
    if natOf (field impl "replies") ≠ wantReplies then
      fails := fails ++ [("standin_backoff", "-", s!"{pkts} packets after the close: {field impl "replies"} retransmissions, expected {wantReplies}")]
    if field impl "hx" ≠ "0" || field impl "tok" ≠ "0" then
      fails := fails ++ [("routing_released", "-", s!"after the retirement period: {field impl "hx"} routing entries, {field impl "tok"} reset tokens")]
    if b tok && ievs.getLast? ≠ some "rmtoken" then
      fails := fails ++ [("idmanager_closed_last", "-", s!"events {field impl "ev"}")]
    let branch := match ce.err with
      | none => "nil"
      | some e => if e.isIdle || e.isHsTimeout then "timeout" else if e.asReset then "reset" else if e.asVN then "vn"
        else if e.asRecreate then "recreate" else if e.asApp.isSome then "app" else if e.asTr.isSome then "tr"
        else if ce.immediate then "immediate" else "internal"
    let rt := match routing with | .replaceRemote => "remote" | .removeAll => "removeAll" | .sendAndReplace f => if f.isApp then "sendApp" else "sendTr"
    let tags := [s!"class:{branch}", s!"routing:{rt}"] ++ (if specs.length > 1 then ["multi"] else [])
      ++ (if blockedL.length ≥ 4 then ["blocked≥4"] else []) ++ (if blockedL.any (fun n => n.back.isDigit) then ["same-kind×n"] else []) ++ (if b later then ["later"] else [])
      ++ (if first.wrapped then ["wrapped"] else []) ++ (if b cl && !b sfp then ["client-nopacket"] else [])
    return { model := model, tags := tags, fails := fails }
  | _ => return { model := "bad-op" }

def idleStep (lr fae idl kap kai kps : String) (iw : List String) : StepOut := Id.run do
  let pto := intOf (iw.headD "0")
  let st : Uquic.Model.Idle.St := {
    lastPacketReceivedTime := intOf lr, firstAESent := intOf fae, idleTimeout := intOf idl,
    keepAlivePeriod := intOf kap, keepAliveInterval := intOf kai, keepAlivePingSent := b kps }
  let model := s!"{pto} {st.idleStart} {st.nextIdle pto} {st.nextKeepAlive pto}"
  let mut fails : List (String × String × String) := []
  -- idle deadline never before (last packet received + negotiated period)
  match iw with
  | [_, _, ni, ka] =>
    if intOf ni < intOf lr + intOf idl then
      fails := fails ++ [("idle_not_early", "-", s!"idle deadline {ni} < lastRcv {lr} + idleTimeout {idl}")]
    if intOf ka ≠ 0 && intOf idl ≥ 2 * intOf kai && intOf kai ≥ (pto * 3 / 2) && intOf ka ≥ intOf ni then
      fails := fails ++ [("keepalive_before_idle", "-", s!"keep-alive {ka} not before idle deadline {ni}")]
  | _ => pure ()
  let tags := [if decide (st.firstAESent ≠ 0 ∧ st.firstAESent > st.lastPacketReceivedTime) then "idle:start=sent" else "idle:start=rcvd",
               if st.idleTimeout ≥ pto * 3 then "idle:period=cfg" else "idle:period=3pto",
               if st.nextKeepAlive pto = 0 then "ka:off" else if st.keepAliveInterval ≥ pto * 3 / 2 then "ka:interval" else "ka:pto"]
  return { model := model, tags := tags, fails := fails }

/-- the arbitrary non-zero instant standing for the initial `lastPacketReceivedTime` of a `kaseq` op -/
def base0 : Int := 1000000000000

/-- one event of a `kaseq` op: kind character and the time since the previous event -/
def parseKaEv (e : String) : Option (Char × Int) :=
  match e.toList with
  | k :: rest => if "rasnp".toList.contains k then (String.ofList rest).toInt?.map (fun d => (k, d)) else none
  | [] => none

/-- `kaseq`: the model replays the events on `Idle.St`; the monitor `keepalive_armed` judges the deadlines the
    implementation printed against ghost state from the ops only: since the last packet received, was a PING
    already declared in flight (initial `pingSent`), and was an ack-eliciting packet sent that is NOT a path
    probe packet (such a packet is retransmitted on PTO until it is acknowledged, so the peer's liveness is
    being tested anyway)? If neither, and keep-alives are on with the negotiated interval (≤ idleTimeout/2), a
    keep-alive must be scheduled, strictly before the idle deadline - whatever else was sent, path probes included. -/
def kaseqStep (idl kap kai kps evs impl : String) : StepOut := Id.run do
  let pto := intOf (field impl "pto")
  let evL := (evs.splitOn ",").filterMap parseKaEv
  if evL.length ≠ (evs.splitOn ",").length then return { model := "bad-op" }
  let implSeq := (field impl "seq").splitOn ","
  let mut st : Uquic.Model.Idle.St := {
    lastPacketReceivedTime := base0, idleTimeout := intOf idl, keepAlivePeriod := intOf kap,
    keepAliveInterval := intOf kai, keepAlivePingSent := b kps }
  let mut now := base0
  let mut out : List String := []
  let mut fails : List (String × String × String) := []
  -- ghost
  let mut pingInFlight := b kps
  let mut retransmittableInFlight := false
  let mut sawProbe := false
  let mut i := 0
  let preOk := intOf kap ≠ 0 && intOf idl > 0 && intOf kai ≥ 0 && 2 * intOf kai ≤ intOf idl && pto > 0
  for (k, dt) in evL do
    now := now + dt
    match k with
    | 'r' | 'a' =>
      st := st.applyEv (.recv now)
      pingInFlight := false; retransmittableInFlight := false
    | 's' => st := st.applyEv (.sent true false now); retransmittableInFlight := true
    | 'n' => st := st.applyEv (.sent false false now)
    | _ => st := st.applyEv (.sent true true now); sawProbe := true
    let ka := st.nextKeepAlive pto
    out := out ++ [s!"{if ka = 0 then "-" else toString (ka - base0)}:{st.nextIdle pto - base0}"]
    -- monitor on what the implementation printed
    match (implSeq.getD i "").splitOn ":" with
    | [ika, iidle] =>
      if preOk && !pingInFlight && !retransmittableInFlight then
        if ika == "-" then
          fails := fails ++ [("keepalive_armed", "-", s!"after event {i} ({k}): keep-alives are on, nothing that is retransmitted is in flight since the last packet received, yet no keep-alive is scheduled (idle deadline {iidle})")]
        else if intOf ika ≥ intOf iidle then
          fails := fails ++ [("keepalive_armed", "-", s!"after event {i} ({k}): keep-alive at {ika} not before the idle deadline {iidle}")]
    | _ => fails := fails ++ [("keepalive_armed", "-", s!"after event {i} ({k}): the real code failed: {implSeq.getD i ""}")]
    i := i + 1
  let tags := [if intOf kap = 0 then "kaseq:off" else if preOk then "kaseq:on" else "kaseq:odd-interval"]
    ++ (if sawProbe then ["kaseq:probe"] else []) ++ (if st.firstAESent ≠ 0 then ["kaseq:ae-in-flight"] else [])
    ++ (if b kps then ["kaseq:ping-sent"] else []) ++ (if evL.any (fun e => e.1 == 'a') then ["kaseq:rcv-nonae"] else [])
  return { model := s!"pto={pto} seq={",".intercalate out}", tags := tags, fails := fails }

/-- one event of a `trlife` op -/
def parseTrEv (e : String) : Option Uquic.Model.Close.TrLife.Ev :=
  let num (t : String) : Option Nat := if t.isEmpty then none else t.toNat?
  if e == "L" then some .listen
  else if e == "c" then some .closeListener
  else if e == "T" then some .close
  else if e.startsWith "rl" || e.startsWith "rr" then (num (e.drop 2).toString).map (fun k => .replace k (e.startsWith "rl"))
  else if e.startsWith "a" then (num (e.drop 1).toString).map .add
  else if e.startsWith "x" then (num (e.drop 1).toString).map .remove
  else if e.startsWith "w" then (num (e.drop 1).toString).map (fun n => .wait (Int.ofNat n))
  else none

/-- `trlife`: the model replays the events on `TrLife.Tr` (Remove as the regenerated fact says); two monitors
    judge what the real Transport printed against ghost state from the ops and the printed handler counts only:
    `transport_released` - single-use, listener closed (an `L` that succeeded, then `c`), nothing routed => the
    read loop has returned; `transport_stops_early` - no call but Transport.Close ends the read loop of a transport
    that is not single-use, whose listener is open, or that still routes something. -/
def trlifeStep (single created nids expiry evs impl : String) : StepOut := Id.run do
  let evTxt := evs.splitOn ","
  let evL := evTxt.filterMap parseTrEv
  if evL.length ≠ evTxt.length then return { model := "bad-op" }
  let cfg : Uquic.Model.Close.TrLife.Cfg := ⟨b single, b created, natOf nids, intOf expiry, Uquic.Gen.CloseTr.removeStopsListening⟩
  let implSeq := (field impl "seq").splitOn ","
  let mut st : Uquic.Model.Close.TrLife.Tr := {}
  let mut out : List String := []
  let mut fails : List (String × String × String) := []
  -- ghost
  let mut listening := false      -- a listener is open
  let mut lnClosed := false       -- the listener of a single-use transport was closed
  let mut userClosed := false
  let mut prevStopped := false
  let mut prevH := 0
  let mut lastDrain := "-"        -- the latest event that emptied the table or closed the listener
  let mut reported := false
  let mut i := 0
  for e in evL do
    let bad := Uquic.Model.Close.TrLife.failed cfg st e
    st := Uquic.Model.Close.TrLife.step cfg st e
    out := out ++ [s!"{if st.stopped then 1 else 0}{if st.connClosed then 1 else 0}:{st.handlers.length}{if bad then ":E" else ""}"]
    let txt := evTxt.getD i ""
    match (implSeq.getD i "").splitOn ":" with
    | sc :: h :: rest =>
      let iStopped := sc.startsWith "1"
      let iH := natOf h
      let iErr := rest.contains "E"
      match e with
      | .listen => if !iErr then listening := true
      | .closeListener =>
        if listening then
          listening := false
          if b single then lnClosed := true
          lastDrain := txt
      | .close => userClosed := true; listening := false
      | _ => pure ()
      if iH == 0 && prevH > 0 then lastDrain := txt
      if iStopped && !prevStopped && !userClosed && (!b single || !lnClosed || iH ≠ 0) then
        fails := fails ++ [("transport_stops_early", "-", s!"after event {i} ({txt}): the read loop has returned although {if !b single then "the transport is not single-use" else if !lnClosed then "its listener was not closed" else s!"{iH} connection IDs are still routed"}")]
      if b single && lnClosed && iH == 0 && !iStopped && !reported then
        reported := true
        let cls := if lastDrain.startsWith "x" then "remove_path" else "-"
        fails := fails ++ [("transport_released", cls, s!"after event {i} ({txt}): single-use transport, listener closed, nothing routed (emptied by {lastDrain}), yet the read loop still runs{if b created then " and the socket it created is open" else ""}")]
      prevStopped := iStopped
      prevH := iH
    | _ => fails := fails ++ [("transport_released", "-", s!"after event {i}: unreadable observation {implSeq.getD i ""}")]
    i := i + 1
  let tags := [if b single then "trlife:single-use" else "trlife:shared"]
    ++ (if st.stopped && !st.userClosed then ["trlife:stopped-by-drain"] else [])
    ++ (if st.userClosed then ["trlife:closed"] else [])
    ++ (if evL.any (·.isRemove) then ["trlife:remove"] else [])
    ++ (if evL.any (fun e => match e with | .replace _ _ => true | _ => false) then ["trlife:replace"] else [])
    ++ (if lnClosed then ["trlife:listener-closed"] else [])
    ++ (if b created then ["trlife:own-socket"] else [])
  return { model := s!"seq={",".intercalate out}", tags := tags, fails := fails }

def step (s : OSt) (op impl : String) : OSt × StepOut :=
  let w := words op
  let iw := words impl
  match w with
  | ["idle", lr, fae, idl, kap, kai, kps, _rtt, _mad] => (s, idleStep lr fae idl kap kai kps iw)
  | ["nego", cfg, peer, kap] =>
    -- the value the endpoint advertises: populateConfig turns 0 into the default
    let l : Int := if intOf cfg = 0 then Uquic.Gen.Protocol.DefaultIdleTimeout else intOf cfg
    let p : Int := intOf peer
    let (idle, kai) := negotiate l p (intOf kap)
    -- RFC 9000 10.1, independent of the model: "the effective value … is computed as the minimum of the two
    -- advertised values (or the sole advertised value, if only one endpoint advertises a non-zero value)"
    let rfc : Int := if p = 0 then l else if l = 0 then p else (if l < p then l else p)
    let got := intOf (iw.headD "0")
    let fails := if got ≠ rfc then
        [("negotiated_idle_rfc", "-", s!"local max_idle_timeout {l} ns, peer {p} ns (0 = absent): effective idle timeout {got} ns, RFC 9000 10.1 says {rfc}")]
      else []
    (s, { model := s!"{idle} {kai}", fails := fails,
          tags := [if p = 0 then "nego:peer-absent" else if decide (p < l) then "nego:peer" else "nego:cfg",
                   if intOf cfg = 0 then "nego:local-default" else "nego:local-set",
                   if intOf kap ≤ idle / 2 then "nego:kap" else "nego:half"] })
  | ["timer", lr, fae, cr, idl, kap, kai, kps, hc, hit, _rtt, _mad, blk, _ack, loss, pace] =>
    let pto := intOf (iw.headD "0")
    let alarm := optInt (iw.getD 1 "-") now0
    let st : Uquic.Model.Idle.St := {
      lastPacketReceivedTime := now0 + intOf lr, firstAESent := optInt fae now0, idleTimeout := intOf idl,
      keepAlivePeriod := intOf kap, keepAliveInterval := intOf kai, keepAlivePingSent := b kps, handshakeComplete := b hc,
      creationTime := now0 + intOf cr, handshakeIdleTimeout := intOf hit }
    let bm := match blk with | "1" => Blocked.congestionLimited | "2" => .hardBlocked | _ => .none
    let d := st.timerDeadline pto bm alarm (optInt loss now0) (optInt pace now0)
    let fire := if d - now0 > 0 then d - now0 else 0
    let base := st.baseDeadline pto bm
    let tags := [if !b hc then "timer:handshake" else if bm ≠ .none then "timer:blocked-idle" else if st.nextKeepAlive pto ≠ 0 then "timer:keepalive" else "timer:idle",
                 if d = base then "timer:base" else "timer:alarm", if fire = 0 then "timer:past" else "timer:future"]
    (s, { model := s!"{pto} {iw.getD 1 "-"} {fire}", tags := tags })
  | ["kaseq", idl, kap, kai, kps, _rtt, evs] => (s, kaseqStep idl kap kai kps evs impl)
  | ["trlife", single, created, nids, expiry, evs] => (s, trlifeStep single created nids expiry evs impl)
  | "close" :: _ => (s, closeStep w impl)
  | ["closedconn", kind, n] =>
    let si : StandIn := if kind == "local" then .closedLocal 0 else .closedRemote
    let n := natOf n
    let r := (si.feed n).2
    let want := if kind == "local" then powersUpTo n else 0
    let fails := if natOf impl ≠ want then [("standin_backoff", "-", s!"{n} packets: {impl} retransmissions, expected {want}")] else []
    (s, { model := toString r, tags := [s!"closedconn:{kind}"], fails := fails })
  | _ => (s, { model := "bad-op" })

def main : IO Unit := run { init := ({} : OSt), step := step }
