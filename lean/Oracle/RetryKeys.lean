import Uquic.Oracle.Frame
import Uquic.Model.Crypto.Packet
import Uquic.Model.Crypto.Prim
import Uquic.Spec.RetryKeysMon

/-!
Oracle of the C05 end-to-end driver `retrykeys`: the INDEPENDENT observer of the Initial keys.
The driver only copies Initial and Retry packets from the wire; everything is judged here with this
library's own HKDF / AES-128-GCM / header protection (Uquic/Model/Crypto/Prim.lean, written from the RFCs
and FIPS documents, vector-tested) and the packet model's `unprotect`.
-/

open Uquic.Oracle Uquic.Model.Bytes Uquic.Spec.RetryKeysMon
open Uquic.Model.Prim (InitialKeys initialKeys gcmOpen aesHPMask retryIntegrityTag)

abbrev Fail := String × String × String

def mk (model : String) (tags : List String := []) (fails : List Fail := []) : StepOut :=
  { model := model, tags := tags, fails := fails }

def implField (impl : String) (key : String) : Option String :=
  (words impl).findSome? fun w => if w.startsWith key then some (w.drop key.length).toString else none

def hx (b : Bytes) : String := if b.isEmpty then "-" else toHex b

/-- the observer's opener for an Initial packet: keys of `cid` for the sending side -/
def keysOf (ver : Nat) (cid : Bytes) (fromClient : Bool) : Uquic.Model.Packet.Keys :=
  let ks := initialKeys ver cid
  let k := if fromClient then ks.1 else ks.2
  { aead := { enc := fun _ _ m => m, dec := fun n a c => gcmOpen k.key n a c },
    iv := k.iv, hp := fun sample i => (aesHPMask k.hp sample).getD i 0, long := true }

def opens (ver : Nat) (cid : Bytes) (fromClient : Bool) (pkt : Bytes) (pnOffset : Nat) (largest : Int) : Option Int :=
  match Uquic.Model.Packet.unprotect (keysOf ver cid fromClient) pkt pnOffset largest with
  | .ok o => some o.pn
  | .error _ => none

def parseItem (s : String) : Option Item :=
  match s.splitOn "," with
  | ["I", dir, ver, off, dcid, scid, tok, bytes] =>
    match ofHex dcid, ofHex scid, ofHex bytes with
    | some d, some sc, some b => some (.initial (dir == "c2s") (natOf ver) (natOf off) d sc (natOf tok) b)
    | _, _, _ => none
  | ["R", ver, dcid, scid, bytes] =>
    match ofHex dcid, ofHex scid, ofHex bytes with
    | some d, some sc, some b => some (.retry (natOf ver) d sc b)
    | _, _, _ => none
  | _ => none

/-- one wire item: update the ghost, judge -/
def judge (g : Ghost) (it : Item) : Ghost × List Fail × List String :=
  match it with
  | .retry ver _ scid bytes =>
    let odcid := g.orig.getD []
    let body := bytes.take (bytes.length - 16)
    let tag := bytes.drop (bytes.length - 16)
    let f : List Fail := if bytes.length < 16 || retryIntegrityTag ver odcid body != tag then
      [("retry_tag_rfc", "-", s!"Retry packet (scid {hx scid}): integrity tag does not verify for the original destination connection ID {hx odcid} (RFC 9001 §5.8)")] else []
    (g.onRetry scid, f, [if g.retrySCIDs.isEmpty then "wire:retry" else "wire:second-retry"])
  | .initial fromClient ver off dcid _ tok bytes =>
    let g := if fromClient then g.onClientInitial dcid else g
    let cid := g.keyCID
    let largest := if fromClient then g.hiC else g.hiS
    match opens ver cid fromClient bytes off largest with
    | some pn =>
      let g := if fromClient then { g with hiC := max g.hiC pn } else { g with hiS := max g.hiS pn }
      (g, [], [if fromClient then (if g.retrySCIDs.contains cid then "wire:c2s-retry-keys" else "wire:c2s-orig-keys") else
                (if g.retrySCIDs.contains cid then "wire:s2c-retry-keys" else "wire:s2c-orig-keys"),
               if tok > 0 then "wire:token" else "wire:no-token"])
    | none =>
      -- diagnosis only: does one of the other connection IDs seen on the wire open it?
      let others := ((g.orig.toList ++ g.retrySCIDs).filter (· != cid)).filter fun c => (opens ver c fromClient bytes off largest).isSome
      let why := match others with
        | c :: _ => s!"it opens with the keys of {hx c}" ++ (if some c == g.orig then " (the ORIGINAL destination connection ID)" else "")
        | [] => "none of the connection IDs seen on the wire opens it"
      (g, [("initial_keys_rfc9001_5_2", "-", s!"{if fromClient then "client" else "server"} Initial (dcid {hx dcid}, token {tok} bytes, {bytes.length} bytes) cannot be opened with the Initial keys derived from {hx cid}" ++
            (if g.retrySCIDs.contains cid then " (the Retry's source connection ID, RFC 9001 §5.2)" else " (the destination connection ID of the client's first Initial)") ++ s!": {why}")], ["wire:unopened"])

def step (s : Unit) (op impl : String) : Unit × StepOut :=
  let w := words op
  if w.headD "" != "hs" then (s, mk "skip") else
  let pk := (implField impl "pk=").getD "-"
  let items := if pk == "-" then [] else (pk.splitOn ";").filterMap parseItem
  let nraw := if pk == "-" then 0 else (pk.splitOn ";").length
  let (_, fails, tags) := items.foldl (fun (acc : Ghost × List Fail × List String) it =>
    let (g, f, t) := judge acc.1 it
    (g, acc.2.1 ++ f, acc.2.2 ++ t)) (({} : Ghost), [], [])
  let hs := (implField impl "hs=").getD "?"
  let f1 : List Fail := if hs != "ok" then
    [("handshake_completes", "-", s!"{op}: the handshake did not complete ({hs}) although at most two datagrams were lost")] else []
  let f2 : List Fail := if items.length ≠ nraw then [("wire_items_parse", "-", s!"{nraw - items.length} wire items could not be parsed")] else []
  (s, mk s!"hs=ok pk={pk}" (dedup (tags ++ [s!"hs:{(w.getD 1 "")}", s!"hs:{(w.getD 2 "")}", s!"hs:{(w.getD 3 "")}",
      if (w.getD 7 "") == "drop=-" then "hs:no-loss" else "hs:loss"])) (f1 ++ f2 ++ fails))

def main : IO Unit := run { init := (), step := step }
