import Uquic.Oracle.Frame
import Uquic.Model.Stream.Send
import Uquic.Spec.SendMon
import Uquic.Model.Stream.FramePool

/-!
Oracle for the `sstream` driver: a real `SendStream` with a scripted flow controller.

line:  `<op> => <res> ev=<d>,<c>,<x> w=<-|B|R<n>,<err>> wo= no= rq= nf= dfw= rs= fl= qr= sig= pb=<tokens|->`

`pb=` (round 5, pool hygiene) is what the driver's sweep of the STREAM frame pool found after the op (sscore/pool.go):
`e<k>` / `d<j>` = the frame object emitted as frame k / handed to the receive stream as delivery j is back in the
pool; `again:<l>` = an object that had already been released is in the pool again; `dup:<l>` = an object is in the
pool twice; `alias:<old>:<new>` = an object was handed out as <new> while <old> still owned it (or after <old> had
released it). The field is echoed by the model side (object identities are not part of the SendStream model) and
judged by `poolMonitors`, which replays the tokens as get/put events of `Model.Stream.FramePool` — the monitor is the
executable form of the hypothesis `Disciplined` of the theorems in Props/C01Pool.
-/

open Uquic.Oracle Uquic.Model.Stream.Send Uquic.Spec.SendMon

structure Ghost where
  written : Bytes := []
  closed : Bool := false
  reset : Bool := false           -- cancel / stop issued
  shut : Bool := false
  supports : Bool := false
  boundarySet : Bool := false     -- a reliable boundary was ever set (RESET_STREAM_AT semantics may apply)
  contractBroken : Bool := false  -- SetReliableBoundary after a reset (API misuse)
  emitted : Array (Nat × Nat × Bool) := #[]   -- the implementation's frames: off, len, fin
  outstanding : List Nat := []
  acked : List (Nat × Nat) := []
  ackedFin : Bool := false
  nextNew : Nat := 0
  doneCount : Nat := 0
  closeBeforeCancel : Bool := false
  dead : Bool := false
  -- receive side (spair)
  emittedData : Array Bytes := #[]
  segs : List (Nat × Bytes × Bool) := []   -- delivered frames
  out : Bytes := []                         -- everything Read returned so far
  rErr : Bool := false                      -- the reader was reset (RESET_STREAM delivered / CancelRead)
  rEnded : Bool := false                    -- Read returned EOF or an error
  rPendingN : Option Nat := none
  nDeliv : Nat := 0                         -- deliveries that went through the frame parser so far (label d<j>)
  deliveredIdx : List Nat := []             -- emission indices handed to the receive stream at least once
  ackedIdx : List Nat := []                 -- emission indices the driver acknowledged
  -- frame pool (round 5): the pool model driven by the observed hand-outs and releases
  pool : Uquic.Model.Stream.FramePool.Pool := {}
  poolIds : List (String × Nat) := []        -- label of a hand-out ↦ its holder in `pool`
deriving Inhabited

structure St where
  m : State := {}
  g : Ghost := {}
  ctrlEmitted : Array ResetFrame := #[]
  ctrlOpen : List Nat := []
  nops : Nat := 0

def fmtErr : Err → String
  | .none => "nil"
  | .reset c r => s!"reset:{c}:{if r then "R" else "L"}"
  | .shutdown => "shutdown"
  | .closed => "closed"
  | .closeCanceled => "closecanceled"

def b01 (b : Bool) : String := if b then "1" else "0"

def fmtFrameShort (f : Frame) : String := s!"{f.offset}+{f.data.length}{if f.fin then "F" else ""}"

def digest (s : State) : String :=
  let rq := if s.retransQ.isEmpty then "-" else ",".intercalate (s.retransQ.map fmtFrameShort)
  let nf := match s.nextFrame with | none => "-" | some f => s!"{f.offset}+{f.data.length}"
  let fl := b01 s.finishedWriting ++ b01 s.finSent ++ b01 s.cancellationFlagged ++ b01 s.completed
            ++ b01 s.shutdown ++ b01 s.resetErr.isSome
  let qr := match s.queuedReset with | none => "-" | some f => s!"{f.finalSize}:{f.code}:{f.reliableSize}"
  s!"wo={s.writeOffset} no={s.numOutstanding} rq={rq} nf={nf} dfw={s.dataForWriting.length} rs={s.reliableSize} fl={fl} qr={qr} sig={b01 s.signal}"

def fmtPop (o : PopOut) : String :=
  let f := match o.frame with
    | none => "-"
    | some f => s!"{f.offset}:{hexOrDash f.data}:{b01 f.fin}"
  let b := match o.blocked with | none => "-" | some n => toString n
  s!"f={f} b={b} m={b01 o.hasMore}"

def field (impl key : String) : Option String :=
  (words impl).findSome? fun w => if w.startsWith key then some (w.drop key.length).toString else none

/-- parse `off+len[F]` -/
def parseShort (s : String) : Option (Nat × Nat × Bool) :=
  let fin := s.endsWith "F"
  let s := if fin then (s.dropEnd 1).toString else s
  match s.splitOn "+" with
  | [a, b] => match a.toNat?, b.toNat? with
    | some x, some y => some (x, y, fin)
    | _, _ => none
  | _ => none

def parseRq (s : String) : List (Nat × Nat × Bool) :=
  if s == "-" then [] else (s.splitOn ",").filterMap parseShort

/-- the implementation's popped frame: (off, data, fin) -/
def parseImplFrame (impl : String) : Option (Nat × Bytes × Bool) :=
  match field impl "f=" with
  | none => none
  | some "-" => none
  | some t => match t.splitOn ":" with
    | [o, h, f] => some (natOf o, bytesOfHex h, f == "1")
    | _ => none

def mon (n d : String) : String × String × String := (n, "-", d)

def segRanges (g : Ghost) : List (Nat × Nat) := g.segs.map fun (o, d, _) => (o, o + d.length)

/-- receive-side monitors on the `rd=` field (`B`, `-`, or `R<hex>,<err>`) -/
def readMonitors (g : Ghost) (rd : String) (n : Nat) : Ghost × List (String × String × String) := Id.run do
  let mut g := g
  let mut fails : List (String × String × String) := []
  let covered := coveredFrom (segRanges g) 0
  let avail := covered - g.out.length
  let finAt : Option Nat := g.segs.findSome? fun (o, d, f) => if f then some (o + d.length) else none
  let readerLive := !g.rErr && !g.rEnded
  if rd == "B" then
    if readerLive && n > 0 && avail > 0 then
      fails := fails ++ [mon "read_complete" s!"Read({n}) blocks although {avail} contiguous bytes were delivered beyond {g.out.length}"]
    if readerLive && avail == 0 && finAt == some g.out.length then
      fails := fails ++ [mon "read_complete" s!"Read blocks at offset {g.out.length} although the FIN for that offset was delivered"]
    -- the sender said "completed" (so the connection drops the stream from the framer and nothing more is
    -- ever sent), neither side reported an error, and every frame that was acknowledged has really been
    -- delivered (an ACK implies delivery): then the reader must not be left waiting for written bytes
    if readerLive && n > 0 && g.doneCount ≥ 1 && g.closed && !g.reset && !g.shut &&
        g.ackedIdx.all (g.deliveredIdx.contains ·) && (avail == 0 && finAt != some g.out.length) then
      fails := fails ++ [mon "read_complete" s!"the sender reported the stream completed and every acknowledged frame was delivered, but the reader waits at offset {g.out.length} of {g.written.length} bytes written"]
    g := { g with rPendingN := some n }
  else if rd.startsWith "R" then
    g := { g with rPendingN := none }
    match (rd.drop 1).toString.splitOn "," with
    | [h, e] =>
      let b := bytesOfHex h
      let out' := g.out ++ b
      if !g.contractBroken then
        if !isPrefixOf out' g.written then
          fails := fails ++ [mon "read_is_prefix" s!"bytes read ({out'.length}) are not a prefix of the {g.written.length} bytes written"]
      if out'.length > covered then
        fails := fails ++ [mon "read_within_delivered" s!"read up to {out'.length} but contiguous delivered data ends at {covered}"]
      if b.length > n then
        fails := fails ++ [mon "read_len" s!"Read({n}) returned {b.length} bytes"]
      if e == "EOF" then
        if !(g.closed && out'.length == g.written.length) && !g.contractBroken then
          fails := fails ++ [mon "eof_only_at_end" s!"EOF after {out'.length} bytes, closed={g.closed} written={g.written.length}"]
        if finAt != some out'.length then
          fails := fails ++ [mon "eof_needs_fin" s!"EOF at {out'.length} but no FIN frame ending there was delivered"]
      else if e != "nil" then
        if readerLive then
          fails := fails ++ [mon "read_no_spurious_error" s!"Read failed with {e} although the reader was never reset or shut down"]
      else
        if readerLive && n > 0 && avail > 0 && b.isEmpty then
          fails := fails ++ [mon "read_complete" s!"Read({n}) returned nothing although {avail} bytes are available"]
        if readerLive && n > 0 && avail == 0 && finAt == some g.out.length then
          fails := fails ++ [mon "read_complete" s!"Read returned (0,nil) at the FIN offset instead of EOF"]
      g := { g with out := out', rEnded := g.rEnded || e != "nil" }
    | _ => pure ()
  return (g, fails)

/-- Pool hygiene, judged on the `pb=` tokens with ghost state from the op lines only. `handedOut` are the labels of
    the frame objects this op handed to a new owner (`e<k>` for a popped frame, `d<j>` for a delivery); every label
    is a fresh holder of `FramePool` taking a fresh buffer, every release token is that holder's `put`.
    * `pool_release_once`      a `put` by a holder that does not hold the buffer (any more): `again:` / `dup:` tokens,
                               or the same label released twice — the pool model's `Disciplined` fails;
    * `pool_exclusive`         `alias:` — an object is handed out while somebody else still owns it / after release;
    * `pool_release_in_flight` `e<k>` is released although frame k is still in flight (neither acknowledged nor lost):
                               the packer may still serialise it. -/
def poolMonitors (g : Ghost) (impl : String) (handedOut : List String) : Ghost × List (String × String × String) × List String := Id.run do
  let mut g := g
  let mut fails : List (String × String × String) := []
  let mut tags : List String := []
  -- hand-outs first (the release of an object handed out by this very op comes after it)
  for l in handedOut do
    let h := g.poolIds.length
    g := { g with pool := (g.pool.step (.get h 0)).1, poolIds := (l, h) :: g.poolIds }
  let pb := (field impl "pb=").getD "-"
  if pb != "-" then
    for t in pb.splitOn "," do
      if t.startsWith "alias:" then
        fails := fails ++ [mon "pool_exclusive" s!"a STREAM frame object has two owners or is used after its release ({t})"]
      else if t.startsWith "again:" || t.startsWith "dup:" then
        fails := fails ++ [mon "pool_release_once" s!"a STREAM frame object was handed back to the pool twice ({t})"]
      else
        tags := tags ++ [if t.startsWith "e" then "pool:release-emitted" else "pool:release-delivered"]
        match g.poolIds.lookup t with
        | none => fails := fails ++ [mon "pool_release_once" s!"released frame object {t} was never handed out"]
        | some h =>
          match Uquic.Model.Stream.FramePool.bufOf g.pool h with
          | none => fails := fails ++ [mon "pool_release_once" s!"frame object {t} was handed back to the pool twice"]
          | some b =>
            let (p', ok) := g.pool.step (.put h b)
            if !ok then
              fails := fails ++ [mon "pool_release_once" s!"frame object {t} was handed back to the pool by someone who does not hold it"]
            g := { g with pool := p' }
        if t.startsWith "e" then
          let k := natOf (t.drop 1).toString
          if g.outstanding.contains k then
            fails := fails ++ [mon "pool_release_in_flight" s!"frame {k} was handed back to the pool while it is in flight (neither acknowledged nor lost)"]
  return (g, fails, tags)

/-- deliver / read / rreset / cancelread: the model side is the abstract contract only (C03 owns the
    reassembly model), so the line is echoed and judged by the monitors. -/
def stepRecv (st : St) (w : List String) (impl : String) : St × StepOut := Id.run do
  let mut g := st.g
  let head := (words impl).headD ""
  let rd := (field impl "rd=").getD "-"
  let mut n := g.rPendingN.getD 0
  let mut tags : List String := []
  let mut fails : List (String × String × String) := []
  let mut handedOut : List String := []
  match w with
  | ["deliver", i] =>
    let i := natOf i
    match g.emitted[i]?, g.emittedData[i]? with
    | some (o, _, f), some d =>
      if head == "skip" then
        fails := fails ++ [mon "deliver_known_frame" s!"frame {i} was emitted but the driver skipped it"]
      else
        let dup := g.segs.any fun (o', d', f') => o' == o && d'.length == d.length && f' == f
        tags := [if dup then "deliver:dup" else if o + d.length ≤ coveredFrom (segRanges g) 0 then "deliver:old"
                 else if o > coveredFrom (segRanges g) 0 then "deliver:gap" else "deliver:next"]
        if head != "nil" && !g.rErr then
          fails := fails ++ [mon "deliver_accepted" s!"handleStreamFrame({o}+{d.length}) failed: {head}"]
        g := { g with segs := g.segs ++ [(o, d, f)], deliveredIdx := if g.deliveredIdx.contains i then g.deliveredIdx else i :: g.deliveredIdx }
        -- the frame parser takes a pool object for 128 bytes of data or more (internal/wire/stream_frame.go)
        if d.length ≥ Uquic.Gen.Protocol.MinStreamFrameBufferSize.toNat then
          handedOut := [s!"d{g.nDeliv}"]
          tags := tags ++ ["deliver:pooled"]
        if !d.isEmpty || f then g := { g with nDeliv := g.nDeliv + 1 }
    | _, _ => tags := ["deliver:skip"]
  | ["read", k] =>
    if head != "skip" then
      n := natOf k
      tags := [if rd == "B" then "read:blocks" else if rd.endsWith ",EOF" then "read:eof" else if rd.endsWith ",nil" then "read:data" else "read:error"]
    else tags := ["read:skip"]
  | ["rreset", _] => g := { g with rErr := true }; tags := ["rreset"]
  | ["cancelread", _] => g := { g with rErr := true, reset := true }; tags := ["cancelread"]
  | _ => pure ()
  if head != "skip" || w.head? != some "read" then
    let (g', f') := readMonitors g rd n
    g := g'; fails := fails ++ f'
    if w.head? == some "deliver" && rd.startsWith "R" then tags := tags ++ ["deliver:wakes-reader"]
  let (g2, pf, pt) := poolMonitors g impl handedOut
  g := g2; fails := fails ++ pf; tags := tags ++ pt
  return ({ st with g := g, nops := st.nops + 1 }, { model := impl, tags := tags, fails := fails })

/-- monitors evaluated after every op on the implementation's digest -/
def stateMonitors (g : Ghost) (impl : String) : List (String × String × String) := Id.run do
  let mut fails : List (String × String × String) := []
  if g.dead then return fails
  let live := !g.reset && !g.shut
  match (field impl "wo=").bind (·.toNat?), field impl "rq=", field impl "nf=", (field impl "dfw=").bind (·.toNat?), field impl "fl=" with
  | some wo, some rqs, some nfs, some dfw, some fl =>
    let rq := parseRq rqs
    let nfLen := match parseShort nfs with | some (_, l, _) => l | none => 0
    let flc := fl.toList
    let finSent := flc.getD 1 '0' == '1'
    if live then
      -- nothing accepted by Write vanishes
      if wo + nfLen + dfw != g.written.length then
        fails := fails ++ [mon "written_accounted" s!"wo={wo} nf={nfLen} dfw={dfw} written={g.written.length}"]
      -- every byte below writeOffset is acked, outstanding, or queued for retransmission
      let outR := g.outstanding.filterMap fun i => (g.emitted[i]?).map fun (o, l, _) => (o, o + l)
      let rqR := rq.map fun (o, l, _) => (o, o + l)
      let all := g.acked ++ outR ++ rqR
      if !coversPrefix all wo then
        fails := fails ++ [mon "no_byte_forgotten" s!"first uncovered byte {coveredFrom all 0} < writeOffset {wo}"]
      -- the FIN, once sent, is acked, outstanding or queued
      let finOut := g.outstanding.any fun i => match g.emitted[i]? with | some (_, _, f) => f | none => false
      let finQ := rq.any fun (_, _, f) => f
      if finSent && !(g.ackedFin || finOut || finQ) then
        fails := fails ++ [mon "fin_not_forgotten" "finSent but the FIN is neither acked, outstanding nor queued"]
      match (field impl "no=").bind (·.toInt?) with
      | some no =>
        if no != (g.outstanding.length : Int) then
          fails := fails ++ [mon "outstanding_count" s!"numOutstandingFrames={no} but {g.outstanding.length} frames are in flight"]
      | none => pure ()
      -- completion: closed, everything acknowledged, nothing left to send
      if g.closed && finSent && g.outstanding.isEmpty && rq.isEmpty && nfLen == 0 && dfw == 0 then
        if !(coversPrefix g.acked g.written.length && g.ackedFin) then
          fails := fails ++ [mon "send_complete" s!"all frames resolved but acked bytes stop at {coveredFrom g.acked 0} of {g.written.length} fin={g.ackedFin}"]
        if g.doneCount != 1 then
          fails := fails ++ [mon "completed_once" s!"stream fully acknowledged, onStreamCompleted called {g.doneCount} times"]
    if g.doneCount > 1 then
      fails := fails ++ [mon "completed_once" s!"onStreamCompleted called {g.doneCount} times"]
  | _, _, _, _, _ => pure ()
  return fails

def step (st : St) (op impl : String) : St × StepOut :=
  let w := words op
  let s := st.m
  if s.dead then
    (st, { model := "dead", tags := ["dead"] })
  else if ["deliver", "read", "rreset", "cancelread"].contains (w.headD "") then
    stepRecv st w impl
  else Id.run do
    -- 1. the model
    let mut res := "bad-op"
    let mut s1 := s
    let mut ev : Ev := {}
    let mut wret : Option (Nat × Err) := none
    let mut tags : List String := []
    let mut st := st
    match w with
    | ["new", sid, sup] =>
      if st.nops == 0 then
        s1 := { sid := natOf sid, supportsResetAt := sup == "1" }
        res := "ok"; tags := ["new"]
      else
        res := "skip"; tags := ["new:skip"]
    | ["write", h] =>
      let (a, e, r) := writeCall s (bytesOfHex h)
      s1 := a; ev := e
      match r with
      | .skip => res := "skip"; tags := ["write:skip"]
      | .ret n err => res := "ok"; wret := some (n, err)
                      tags := [if err == .none then (if n == 0 then "write:empty" else "write:buffered") else "write:reject"]
      | .blocked => res := "ok"; tags := ["write:blocked"]
    | ["close"] =>
      let (a, e, r) := close s
      s1 := a; ev := e; res := fmtErr r
      tags := [if s.shutdown || s.finishedWriting then "close:noop" else s!"close:{fmtErr r}"]
    | ["pop", mb, win, nb] =>
      if natOf mb > maxPacketBufferSize then
        res := "skip"; tags := ["pop:skip"]
      else
        let (a, o) := pop s (natOf mb) (natOf win) (nb == "1")
        s1 := a; res := fmtPop o
        let kind :=
          if s.shutdown then "pop:shutdown"
          else if s.resetErr.isSome && o.frame.isNone && !o.hasMore then "pop:reset-nothing"
          else if !s.retransQ.isEmpty then
            (match o.frame with
             | none => "pop:retrans-nofit"
             | some _ => if a.retransQ.length == s.retransQ.length then "pop:retrans-split" else "pop:retrans-whole")
          else match o.frame with
            | none => if o.hasMore then (if natOf win == 0 then "pop:window0" else "pop:new-nofit") else "pop:nothing"
            | some f =>
              if f.data.isEmpty then "pop:fin-only"
              else if s.nextFrame.isSome then (if a.nextFrame.isSome then "pop:buffered-split" else "pop:buffered-whole")
              else (if a.dataForWriting.isEmpty then "pop:direct-all" else "pop:direct-part")
        tags := [kind] ++ (match o.frame with | some f => if f.fin && !f.data.isEmpty then ["pop:fin-piggyback"] else [] | none => [])
                       ++ (if o.blocked.isSome then ["pop:blocked"] else [])
                       ++ (if s.resetErr.isSome && o.frame.isSome then ["pop:after-reset-at"] else [])
    | ["ack", i] =>
      let (a, e, r) := acked s (natOf i)
      s1 := a; ev := e
      res := match r with | .skip => "skip" | .ok => "ok" | .panic => "PANIC"
      tags := [s!"ack:{res}"] ++ (if e.completed > 0 then ["ack:completes"] else [])
    | ["lost", i] =>
      let (a, e, r) := lost s (natOf i)
      s1 := a; ev := e
      res := match r with | .skip => "skip" | .ok => "ok" | .panic => "PANIC"
      tags := [if r == .ok then (if a.retransQ.length > s.retransQ.length then "lost:requeued" else "lost:dropped") else s!"lost:{res}"]
    | ["cancel", c] =>
      let (a, e) := cancelWrite s (natOf c)
      s1 := a; ev := e; res := "ok"
      tags := [if s.shutdown then "cancel:shutdown" else if s.resetErr.isSome then "cancel:again"
               else if a.reliableOffset > 0 then "cancel:reliable" else "cancel:first"]
    | ["stop", c] =>
      let (a, e) := stopSending s (natOf c)
      s1 := a; ev := e; res := "ok"
      tags := [if e.hasCtrl > 0 then (if s.resetErr.isSome then "stop:after-reset-at" else "stop:first") else "stop:noop"]
    | ["shutdown"] =>
      s1 := shutdownStep s; res := "ok"
      tags := [if s1.shutdown && !s.shutdown then "shutdown:first" else "shutdown:noop"]
    | ["boundary"] =>
      s1 := setReliableBoundary s; res := "ok"; tags := ["boundary"]
    | ["ctrl"] =>
      let (a, f) := getControlFrame s
      s1 := a
      match f with
      | none => res := "r=-"; tags := ["ctrl:none"]
      | some f =>
        res := s!"r={f.finalSize}:{f.code}:{f.reliableSize}"; tags := ["ctrl:reset"]
        st := { st with ctrlOpen := st.ctrlOpen ++ [st.ctrlEmitted.size], ctrlEmitted := st.ctrlEmitted.push f }
    | ["rack", j] =>
      let j := natOf j
      if st.ctrlOpen.contains j then
        let (a, e, r) := resetAcked s st.ctrlEmitted[j]!
        s1 := a; ev := e
        res := match r with | .panic => "PANIC" | _ => "ok"
        st := { st with ctrlOpen := st.ctrlOpen.filter (· != j) }
        tags := [s!"rack:{res}"]
      else
        res := "skip"; tags := ["rack:skip"]
    | ["rlost", j] =>
      let j := natOf j
      if st.ctrlOpen.contains j then
        let (a, e) := resetLost s st.ctrlEmitted[j]!
        s1 := a; ev := e; res := "ok"
        st := { st with ctrlOpen := st.ctrlOpen.filter (· != j) }
        tags := ["rlost"]
      else
        res := "skip"; tags := ["rlost:skip"]
    | _ => pure ()
    -- 2. settle: a parked Write that was signalled runs one more pass of its loop
    let mut s2 := s1
    if s1.pending.isSome && s1.signal && !s1.dead then
      let (a, e, r) := wake s1
      s2 := a; ev := ev.add e
      match r with
      | some x => wret := some x; tags := tags ++ [if x.2 == .none then "wake:done" else "wake:error"]
      | none => tags := tags ++ ["wake:again"]
    let wtxt := match wret with
      | some (n, e) => s!"R{n},{fmtErr e}"
      | none => if s2.pending.isSome then "B" else "-"
    let model := if res == "PANIC" then "PANIC"
      else s!"{res} ev={ev.hasData},{ev.hasCtrl},{ev.completed} w={wtxt} {digest s2} pb={(field impl "pb=").getD "-"}"
    -- 3. ghost (from the ops and the implementation's own answers) and monitors
    let mut g := st.g
    let mut fails : List (String × String × String) := []
    let implHead := (words impl).headD ""
    let implEv := ((field impl "ev=").getD "0,0,0").splitOn ","
    g := { g with doneCount := g.doneCount + natOf (implEv.getD 2 "0") }
    let implW := (field impl "w=").getD "-"
    if implHead == "PANIC" then g := { g with dead := true }
    match w with
    | ["new", _, sup] => if st.nops == 0 then g := { g with supports := sup == "1" }
    | ["write", h] =>
      let p := bytesOfHex h
      let rejected := implHead == "skip" || (implW.startsWith "R0," && implW != "R0,nil")
      if !rejected then g := { g with written := g.written ++ p }
    | ["close"] =>
      -- Close() after CancelWrite returns an error but still marks the stream finished (finishedWriting)
      if (implHead == "nil" || implHead == "closecanceled") && !g.shut then
        g := { g with closed := true, closeBeforeCancel := g.closeBeforeCancel || !g.reset }
    | ["cancel", _] => g := { g with reset := true }
    | ["stop", _] => g := { g with reset := true }
    | ["shutdown"] => g := { g with shut := true }
    | ["boundary"] => g := { g with boundarySet := true, contractBroken := g.contractBroken || g.reset }
    | ["pop", mb, _, _] =>
      match parseImplFrame impl with
      | none => pure ()
      | some (off, d, fin) =>
        if !g.contractBroken then
          if !frameFaithful g.written off d then
            fails := fails ++ [mon "frame_faithful" s!"frame off={off} len={d.length} is not written[{off},{off + d.length}) (written {g.written.length} bytes)"]
          if fin && !(g.closed && off + d.length == g.written.length) then
            fails := fails ++ [mon "fin_at_final_size" s!"FIN on frame ending at {off + d.length}, closed={g.closed} written={g.written.length}"]
          if off > g.nextNew then
            fails := fails ++ [mon "new_data_contiguous" s!"frame at {off} but new data starts at {g.nextNew}"]
          if off < g.nextNew && off + d.length > g.nextNew then
            fails := fails ++ [mon "new_data_contiguous" s!"frame {off}+{d.length} straddles the new-data frontier {g.nextNew}"]
        if d.isEmpty && !fin then
          fails := fails ++ [mon "frame_nonempty_or_fin" s!"empty frame without FIN at {off}"]
        let fr : Frame := { offset := off, data := d, fin := fin, dataLenPresent := true }
        -- the framer never asks with less than MinStreamFrameSize left (framer.go), which always fits a
        -- FIN-only frame; the code emits that frame without looking at maxBytes
        let finOnlyBelowContract := d.isEmpty && (natOf mb : Int) < Uquic.Gen.Protocol.MinStreamFrameSize
        if fr.length st.m.sid > natOf mb && !finOnlyBelowContract then
          fails := fails ++ [mon "frame_fits_budget" s!"frame length {fr.length st.m.sid} > maxBytes {mb}"]
        g := { g with outstanding := g.outstanding ++ [g.emitted.size], emitted := g.emitted.push (off, d.length, fin), emittedData := g.emittedData.push d,
                      nextNew := max g.nextNew (off + d.length) }
    | ["ack", i] =>
      let i := natOf i
      if implHead == "ok" && g.outstanding.contains i then
        match g.emitted[i]? with
        | some (o, l, f) => g := { g with outstanding := g.outstanding.filter (· != i), acked := (o, o + l) :: g.acked, ackedFin := g.ackedFin || f, ackedIdx := i :: g.ackedIdx }
        | none => pure ()
    | ["lost", i] =>
      let i := natOf i
      if implHead == "ok-MODIFIED" then
        fails := fails ++ [mon "outstanding_frame_unmodified" s!"frame {i} changed while it was in flight"]
      if (implHead == "ok" || implHead == "ok-MODIFIED") && g.outstanding.contains i then
        g := { g with outstanding := g.outstanding.filter (· != i) }
    | _ => pure ()
    -- Write's return value
    if implW.startsWith "R" then
      match (implW.drop 1).toString.splitOn "," with
      | [n, e] =>
        if e == "nil" && !g.reset && !g.shut then
          -- a successful Write consumed its whole argument: checked through written_accounted
          pure ()
        if natOf n > g.written.length then
          fails := fails ++ [mon "write_return_sound" s!"Write returned n={n} > bytes handed in"]
      | _ => pure ()
    -- the completion callback may fire only when every written byte and the FIN have been acknowledged
    -- (unless the stream was reset / cancelled / shut down)
    if natOf (implEv.getD 2 "0") > 0 && !g.reset && !g.shut && !g.dead then
      if !(g.closed && coversPrefix g.acked g.written.length && g.ackedFin) then
        fails := fails ++ [mon "completed_only_when_all_acked" s!"onStreamCompleted fired but acked bytes stop at {coveredFrom g.acked 0} of {g.written.length}, fin acked={g.ackedFin}, closed={g.closed}"]
    fails := fails ++ stateMonitors g impl
    -- frame pool: a popped frame with data is a pool object owned by the packer / ack handler from now on
    let handedOut := match w, parseImplFrame impl with
      | ["pop", _, _, _], some (_, d, _) => if d.isEmpty then [] else [s!"e{g.emitted.size - 1}"]
      | _, _ => []
    let (g2, pf, pt) := poolMonitors g impl handedOut
    g := g2; fails := fails ++ pf; tags := tags ++ pt
    return ({ st with m := s2, g := g, nops := st.nops + 1 }, { model := model, tags := tags, fails := fails })

def main : IO Unit := run { init := ({} : St), step := step }
