import Uquic.Oracle.Frame
import Uquic.Model.Conn.Timer

/-!
Oracle for the `ctimer` driver: the REAL `Conn.maybeResetTimer`, observed through the moment its timer fires
(virtual time in a synctest bubble).
  `timer hc= bl= cr= lr= ae= idle= hs= kap= kas= kai= ack= loss= pace= => fired=<ms> pto=<ms>`
(times: ms relative to now; `-` = not set)
-/
open Uquic.Oracle Uquic.Model.Conn.Timer

def fld (s key : String) : Option String :=
  (words s).findSome? fun w => if w.startsWith key then some (w.drop key.length).toString else none

def optInt (s : Option String) : Option Int :=
  match s with
  | some "-" => none
  | some t => t.toInt?
  | none => none

def step (_ : Unit) (op impl : String) : Unit × StepOut := Id.run do
  if (words op).head? != some "timer" then return ((), { model := "bad-op" })
  let geti (k : String) : Int := (optInt (fld op k)).getD 0
  let pto := ((fld impl "pto=").bind (·.toInt?)).getD 0
  let bl : Blocked := match geti "bl=" with | 1 => .congestionLimited | 2 => .hardBlocked | _ => .none
  let i : Input := {
    handshakeComplete := geti "hc=" == 1, blocked := bl, created := geti "cr=", lastRecv := geti "lr=",
    firstAE := optInt (fld op "ae="), idleTimeout := geti "idle=", hsIdleTimeout := geti "hs=",
    keepAlivePeriod := geti "kap=", keepAlivePingSent := geti "kas=" == 1, keepAliveInterval := geti "kai=",
    pto := pto, ackAlarm := optInt (fld op "ack="), loss := optInt (fld op "loss="), pacing := optInt (fld op "pace=") }
  let d := deadline i
  let clamp (x : Int) : Int := if x < 0 then 0 else x
  let model := s!"fired={clamp d} pto={pto}"
  let fired := ((fld impl "fired=").bind (·.toInt?)).getD (-1)
  let mut fails : List (String × String × String) := []
  -- judged on the implementation's answer and the inputs only
  if bl != .hardBlocked then
    match i.loss with
    | some t => if fired > clamp t then
        fails := fails ++ [("timer_covers_every_due_deadline", "-", s!"loss-detection/PTO deadline in {t} ms but the timer fires after {fired} ms (blocked={geti "bl="})")]
    | none => pure ()
    match i.ackAlarm with
    | some t => if fired > clamp t then
        fails := fails ++ [("timer_covers_every_due_deadline", "-", s!"ACK alarm in {t} ms but the timer fires after {fired} ms (blocked={geti "bl="})")]
    | none => pure ()
  if bl == .none then
    match i.pacing with
    | some t => if fired > clamp t then
        fails := fails ++ [("timer_covers_every_due_deadline", "-", s!"pacing deadline in {t} ms but the timer fires after {fired} ms")]
    | none => pure ()
  if fired > clamp (baseDeadline i) then
    fails := fails ++ [("timer_covers_every_due_deadline", "-", s!"idle/handshake/keep-alive deadline in {baseDeadline i} ms but the timer fires after {fired} ms")]
  let which := if d == baseDeadline i then "base" else if i.loss == some d then "loss" else if i.ackAlarm == some d then "ack" else "pacing"
  let tags := [s!"blocked:{geti "bl="}", s!"hc:{geti "hc="}", s!"wins:{which}"] ++ (if d < 0 then ["past"] else [])
  return ((), { model := model, tags := tags, fails := fails })

def main : IO Unit := run { init := (), step := step }
