import Uquic.Oracle.Frame
import Uquic.Spec.LimitsMon

open Uquic.Oracle Uquic.Gen Uquic.Model.UQuic.Limits Uquic.Spec.LimitsMon

structure St where
  haveSpec : Bool := false
  plain : Bool := false
  /-- model: integer parameters that go on the wire, from the generated spec table + the edits -/
  mWire : List (String × Int) := []
  /-- ghost: what the implementation said the spec lists (the "advertised" of the monitors) -/
  gWire : List (String × Int) := []
  user : Config := {}

abbrev Fail := String × String × String

def St.pc (s : St) : Config := populateConfig s.user

/-- the parameters on the wire: model view / ghost view (plain client: from the Config) -/
def St.modelWire (s : St) : List (String × Int) :=
  if s.plain then plainWire (plainParams s.pc) else s.mWire
def St.ghostWire (s : St) : List (String × Int) :=
  if s.plain then plainWire (plainParams s.pc) else s.gWire

def St.ownModel (s : St) : OwnParams :=
  if s.plain then plainParams s.pc else populate (toParamList s.mWire)

/-- value given to SetConnectionIDLimit (0 for the plain client) -/
def cidSet (plain : Bool) (wire : List (String × Int)) : Int :=
  if plain then 0 else (populate (toParamList wire)).activeConnectionIDLimit

/-- the Config the components are built from (plain client: the populated Config) -/
def effConfig (plain : Bool) (user : Config) (wire : List (String × Int)) : Config :=
  if plain then populateConfig user else specConfig user (populate (toParamList wire))

/-- the per-kind record `newFlowController` consults (none for the plain client) -/
def effAdv (plain : Bool) (wire : List (String × Int)) : Option OwnParams :=
  if plain then none else specStreamAdv (populate (toParamList wire))

/-- enforced limits as the code derives them, model view / ghost view -/
def St.enfModel (s : St) : Limits :=
  enforced (effConfig s.plain s.user s.mWire) (effAdv s.plain s.mWire) (cidSet s.plain s.mWire)
def St.enfGhost (s : St) : Limits :=
  enforced (effConfig s.plain s.user s.gWire) (effAdv s.plain s.gWire) (cidSet s.plain s.gWire)

/-- sections of the read-back text: `name: body | name: body …` -/
def sections (impl : String) : List (String × String) :=
  (impl.splitOn " | ").filterMap fun sec =>
    match sec.splitOn ": " with
    | name :: rest => some (name, ": ".intercalate rest)
    | [] => none

def sectionOf (impl name : String) : Option String := (sections impl).lookup name

def fieldOf (body key : String) : Option String :=
  (words body).findSome? fun w => if w.startsWith (key ++ "=") then some (w.drop (key.length + 1)).toString else none

def hexOfBytes (bs : List Nat) : String :=
  String.join (bs.map fun b =>
    let d := Nat.toDigits 16 b
    String.ofList (if d.length < 2 then '0' :: d else d))

def fmtAdv (a : Adv) : String :=
  s!"imd={a.imd} imsdbl={a.bl} imsdbr={a.br} imsdu={a.uni} imsb={a.imsb} imsu={a.imsu} acil={a.acil} mdfs={a.mdfs} mit={a.mit}"

def containsSub (s sub : String) : Bool := (s.splitOn sub).length > 1

/-- the limit kinds for which the ghost advertised value exceeds `enf` -/
def uncovered (a : Adv) (enf : Limits) : List (String × Int × Int) :=
  let chk (n : String) (adv e : Int) := if adv > e then [(n, adv, e)] else []
  chk "imd" a.imd enf.connData ++ chk "imsdbl" a.bl enf.streamBidiLocal ++ chk "imsdbr" a.br enf.streamBidiRemote ++
  chk "imsdu" a.uni enf.streamUni ++ chk "imsb" a.imsb enf.streamsBidi ++ chk "imsu" a.imsu enf.streamsUni ++
  chk "acil" a.acil enf.cids ++
  (if a.mdfs > 0 && min a.mdfs receivable > enf.datagram then [("mdfs", a.mdfs, enf.datagram)] else []) ++
  (if a.mit > enf.idle then [("mit", a.mit, enf.idle)] else [])

def classOfKind : String → String
  | "imd" => "advertised_initial_max_data_above_enforced"
  | "imsdbl" | "imsdbr" | "imsdu" => "advertised_initial_max_stream_data_above_enforced"
  | "imsb" => "advertised_initial_max_streams_bidi_above_enforced"
  | "imsu" => "advertised_initial_max_streams_uni_above_enforced"
  | "mdfs" => "advertised_max_datagram_frame_size_but_datagrams_disabled"
  | "mit" => "advertised_max_idle_timeout_above_enforced"
  | _ => "-"

/-- limits read back from the implementation's `enf:` section -/
def enfOfImpl (body : String) : Option Limits := do
  let g (k : String) : Option Int := (fieldOf body k).bind (·.toInt?)
  let dg ← g "dg"
  some { connData := ← g "cw", streamBidiLocal := ← g "swbl", streamBidiRemote := ← g "swbr", streamUni := ← g "swu",
         streamsBidi := ← g "mib", streamsUni := ← g "miu", cids := ← g "cid",
         datagram := if dg == 1 then Limits.MaxDatagramSize else 0, idle := ← g "idle" }

def readbackMonitors (s : St) (impl : String) : List Fail := Id.run do
  let mut fails : List Fail := []
  if containsSub impl "local:" && !(impl.startsWith "own:") then
    -- the handshake and the settling time only see what the peer may do (connection IDs up to the limit)
    return [("no_local_error_within_advertised", "-", s!"read-back connection failed: {impl}")]
  let some own := sectionOf impl "own" | return fails
  let ownKV := parseKV (words own)
  -- (a) the qlog view of the sent parameters is the same record
  match sectionOf impl "qlog" with
  | some q => if q != own then fails := fails ++ [("record_equals_bytes", "-", s!"qlog SentTransportParameters differ from the record: {q}")]
  | none => pure ()
  -- (b) record = marshalled bytes, field by field
  match sectionOf impl "wire" with
  | none => pure ()
  | some w =>
    let hex := (fieldOf w "bytes").getD ""
    match (hexBytes hex.toList).bind (fun bs => parseTLVs bs.length bs) with
    | none => fails := fails ++ [("record_equals_bytes", "-", "marshalled parameters do not parse as RFC 9000 §18 id/length/value")]
    | some tlvs =>
      let wf := wireFields tlvs
      for (k, r, wv) in recordVsWire ownKV wf do
        let cls := if k == "mups" && r == 0 && wv.isSome then "record_omits_max_udp_payload_size" else "-"
        fails := fails ++ [("record_equals_bytes", cls, s!"{k}: record={r} wire={match wv with | some v => toString v | none => "absent"}")]
      -- the spec's list is what is marshalled (ghost listing vs bytes), spec-driven only
      if !s.plain then
        for k in keys do
          if lookup s.gWire k != lookup wf k then
            fails := fails ++ [("record_equals_bytes", "-", s!"{k}: spec lists {lookup s.gWire k} but the marshalled bytes carry {lookup wf k}")]
      let iscidRec := (fieldOf w "iscid").getD ""
      match wireISCID tlvs with
      | some bs => if hexOfBytes bs != iscidRec then
          fails := fails ++ [("record_equals_bytes", "-", s!"iscid: record={iscidRec} wire={hexOfBytes bs}")]
      | none => pure ()
      -- (c) what the peer parsed from the wire
      match sectionOf impl "peer" with
      | none => pure ()
      | some p =>
        if p != "none" then
          let pKV := parseKV (words p)
          for (k, v) in wf do
            -- (the in-tree server raises a received max_idle_timeout to MinRemoteIdleTimeout)
            let v := if k == "mit" then max v (Protocol.MinRemoteIdleTimeout / 1000000) else v
            if lookup pKV k != some v then
              fails := fails ++ [("record_equals_bytes", "-", s!"{k}: marshalled {v} but the peer received {lookup pKV k}")]
          if (wireISCID tlvs).isSome && (fieldOf p "iscid").getD "" != iscidRec then
            fails := fails ++ [("record_equals_bytes", "-", s!"iscid: record={iscidRec} peer received {(fieldOf p "iscid").getD ""}")]
  -- (d) static form of the main property: what the components enforce (read back) covers what was advertised
  match (sectionOf impl "enf").bind enfOfImpl with
  | none => pure ()
  | some enfI =>
    let a := advOf s.ghostWire
    -- a listed finding explains a mismatch only if the component enforces exactly the Config-derived value
    let known := uncovered a s.enfGhost
    for (k, adv, e) in uncovered a enfI do
      let cls := if known.any (fun (k', _, e') => k' == k && e' == e) then classOfKind k else "-"
      fails := fails ++ [("no_local_error_within_advertised", cls, s!"read-back: {k} advertised {adv} but the component enforces {e}: a peer at the advertised boundary is answered with a local error")]
    -- (e) the stream-count limits are enforced EXACTLY as advertised (a larger enforced value lets the peer open
    --     streams beyond the MAX_STREAMS it was told without STREAM_LIMIT_ERROR)
    for (k, adv, e) in [("imsb", a.imsb, enfI.streamsBidi), ("imsu", a.imsu, enfI.streamsUni)] do
      if e > adv then
        fails := fails ++ [("stream_limits_exactly_advertised", "-", s!"read-back: {k} advertised {adv} but the streams map admits {e} streams: the peer can exceed the limit it was told")]
    -- (f) the receive windows are EXACTLY the advertised ones (a larger local window is never refilled in time:
    --     the peer has used up what it was told before 25% of the local window is consumed, and stalls)
    for (k, adv, e) in [("imd", a.imd, enfI.connData), ("imsdbl", a.bl, enfI.streamBidiLocal),
                        ("imsdbr", a.br, enfI.streamBidiRemote), ("imsdu", a.uni, enfI.streamUni)] do
      if e > adv then
        fails := fails ++ [("windows_exactly_advertised", "-", s!"read-back: {k} advertised {adv} but the flow controller starts with a window of {e}: the window update is due only after {e - (3 * e) / 4} bytes were consumed")]
  return fails

def exMonitors (s : St) (ex : Ex) (impl : String) : List Fail :=
  let a := advOf s.ghostWire
  let p := planOf a ex
  if containsSub impl "local:" then
    -- which advertised-above-Config mismatch (if any) explains exactly this error?
    let cls := match p.pre with
      | some _ => "-"
      | none =>
        if ex == .idle && containsSub impl "local:idle_timeout" then
          (if a.mit > s.enfGhost.idle then classOfKind "mit" else "-")
        else match p.events.find? (fun ev => ev.fires s.enfGhost && containsSub impl (errorOf ev)) with
        | some ev => findingClass ex ev
        | none => "-"
    [("no_local_error_within_advertised", cls, s!"{impl} (advertised {fmtAdv a})")]
  else if impl.startsWith "stall" then
    [("credit_renewed", "-", s!"the peer used up the advertised credit, the application read everything, and no window update came: {impl} (advertised {fmtAdv a})")]
  else
    match p.pre with
    | some r => if impl == r then [] else [("peer_can_use_full_limit", "-", s!"expected {r}, got {impl}")]
    | none => if impl == p.okText then [] else
        [("peer_can_use_full_limit", "-", s!"the peer could not use the advertised limit to the full: expected `{p.okText}`, got `{impl}`")]

def step (s : St) (op impl : String) : St × StepOut :=
  match words op with
  | "spec" :: base :: edits =>
    if base == "plain" then
      ({ s with haveSpec := true, plain := true, mWire := [], gWire := [] }, { model := "plain", tags := ["spec:plain"] })
    else
      match (builtin base).bind (applyEdits · edits) with
      | none => ({ s with haveSpec := false }, { model := "badspec", tags := ["spec:bad"] })
      | some sl =>
        let w := sl.wire
        let model := fmtListing w (w.length + sl.others)
        let g := (parseKV (words impl)).filter (·.1 != "n")
        ({ s with haveSpec := true, plain := false, mWire := w, gWire := g },
         { model := model, tags := [if edits.isEmpty then "spec:builtin" else "spec:derived"] })
  | "cfg" :: kvs =>
    let c := cfgOf kvs
    ({ s with user := c }, { model := "ok", tags := [if c == {} then "cfg:default" else "cfg:custom"] })
  | ["readback"] =>
    if !s.haveSpec then (s, { model := "skip" }) else
    let own := s.ownModel
    let ownTxt := fmtOwn own
    let wireSec := (sectionOf impl "wire").getD ""
    let iscid := (fieldOf wireSec "iscid").getD ""
    let model := s!"own: {ownTxt} | qlog: {ownTxt} | wire: {wireSec} | peer: {fmtOwn (peerView s.modelWire)} iscid={iscid} | enf: {fmtEnf (effConfig s.plain s.user s.mWire) (effAdv s.plain s.mWire) (cidSet s.plain s.mWire)}"
    let cov := if (uncovered (advOf s.modelWire) s.enfModel).isEmpty then "readback:covered" else "readback:uncovered"
    (s, { model := model, tags := ["readback", cov], fails := readbackMonitors s impl })
  | "ex" :: rest =>
    if !s.haveSpec then (s, { model := "skip" }) else
    match parseEx rest with
    | none => (s, { model := "bad-op" })
    | some ex =>
      let a := advOf s.modelWire
      let name := " ".intercalate rest
      match predict a s.enfModel ex with
      | some m =>
        let kind := if m.startsWith "local:" then "err" else if m.startsWith "ok" then "ok" else "pre"
        (s, { model := m, tags := [s!"ex:{name}:{kind}"], fails := exMonitors s ex impl })
      | none => (s, { model := impl, tags := [s!"ex:{name}:gray"], fails := exMonitors s ex impl })
  | _ => (s, { model := "bad-op" })

def main : IO Unit := run { init := ({} : St), step := step }
