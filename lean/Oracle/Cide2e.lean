import Uquic.Oracle.Frame

open Uquic.Oracle

/-!
Oracle of the end-to-end C16 driver: one op = one complete connection between a real client and a real server.
The "model" is the property itself: the handshake succeeds, 3 PTO after the handshake none of the destination
connection IDs of the client's first flight (original DCID, Retry SCID) is routed any more while the connection's own
IDs are, and after close + closing period both transports' routing and reset-token tables are empty.
-/

def fieldOf (ws : List String) (key : String) : Option String :=
  ws.findSome? fun w => if w.startsWith key then some (w.drop key.length).toString else none

def step (_ : Unit) (op impl : String) : Unit × StepOut :=
  let w := words op
  if w.headD "" != "scn" then ((), { model := "skip", tags := ["skip"] }) else
  let iw := words impl
  let expected := "hs=ok mid_stale=0 mid_routes=some end_srv_routes=0 end_srv_tokens=0 end_cli_routes=0 end_cli_tokens=0"
  let get (k : String) : String := (fieldOf iw k).getD "?"
  let hsOK := get "hs=" == "ok"
  let f1 : List (String × String × String) :=
    if hsOK && get "mid_stale=" != "0" then
      [("handshake_ids_expired_e2e", "-", s!"{get "mid_stale="} destination connection IDs of the client's first flight are still routed to the server connection long after handshake + 3 PTO")]
    else []
  let f2 : List (String × String × String) :=
    if hsOK && (get "end_srv_routes=" != "0" || get "end_srv_tokens=" != "0" || get "end_cli_routes=" != "0" || get "end_cli_tokens=" != "0") then
      [("routing_clean_after_close_e2e", "-", s!"after close and the closing period: server routes {get "end_srv_routes="} tokens {get "end_srv_tokens="}, client routes {get "end_cli_routes="} tokens {get "end_cli_tokens="}")]
    else []
  let tags := (w.drop 1).filter fun x => x.startsWith "retry=" || x.startsWith "ccid=" || x.startsWith "closer="
  ((), { model := expected, tags := ["scn"] ++ tags ++ ["scid"] , fails := f1 ++ f2 })

def main : IO Unit := run { init := (), step := step }
