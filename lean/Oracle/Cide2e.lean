import Uquic.Oracle.Frame
import Uquic.Model.ConnID.Redial

open Uquic.Oracle

/-!
Oracle of the end-to-end C16 driver: one op = one complete connection between a real client and a real server.
The "model" is the property itself: the handshake succeeds, 3 PTO after the handshake none of the destination
connection IDs of the client's first flight (original DCID, Retry SCID) is routed any more while the connection's own
IDs are, and after close + closing period both transports' routing and reset-token tables are empty.
-/

def fieldOf (ws : List String) (key : String) : Option String :=
  ws.findSome? fun w => if w.startsWith key then some (w.drop key.length).toString else none

/-- `mig`: a client that probes more paths over further transports (Conn.AddPath / Probe / Switch), see the driver -/
def stepMig (op impl : String) : Unit × StepOut :=
  let w := words op
  let iw := words impl
  let get (k : String) : String := (fieldOf iw k).getD "?"
  -- whether a probe / a migration succeeds is not part of the property (it depends on spare connection IDs and timing):
  -- echoed, and shown in the coverage tags
  let expected := s!"hs=ok probe={get "probe="} sw={get "sw="} mid=ok end_srv=0/0 end_cli=0/0 end_p1=0/0 end_p2=0/0 end_p3=0/0"
  let hsOK := get "hs=" == "ok"
  let ends := ["end_srv=", "end_cli=", "end_p1=", "end_p2=", "end_p3="]
  let dirty := ends.filter fun k => get k != "0/0"
  let f1 : List (String × String × String) :=
    if hsOK && !dirty.isEmpty then
      [("routing_clean_after_close_e2e", "-",
        s!"after close and the closing period (routes/tokens): server {get "end_srv="}, client transport {get "end_cli="}, second transport {get "end_p1="}, third transport {get "end_p2="}, fourth transport {get "end_p3="}")]
    else []
  let f2 : List (String × String × String) :=
    if hsOK && get "probe=" == "ok" && get "mid=" != "ok" then
      [("probed_path_routing_e2e", "-", s!"after path validation: {get "mid="} (a probed transport must route the connection's IDs in use, and only IDs the first transport routes too)")]
    else []
  let tags := (w.drop 1).filter fun x => x.startsWith "paths=" || x.startsWith "plan=" || x.startsWith "switch=" || x.startsWith "back=" || x.startsWith "closer="
  let outcome := [if get "probe=" == "ok" then "mig:probe-ok" else "mig:probe-failed",
                  if get "sw=" == "ok" then "mig:switch-ok" else if get "sw=" == "-" then "mig:no-switch" else "mig:switch-failed"]
  ((), { model := expected, tags := ["mig"] ++ tags.map (fun t => "mig:" ++ t) ++ outcome, fails := f1 ++ f2 })

/-- `redial`: two connections, one after the other, dialled on the same client transport (Transport.doDial /
    UTransport.doDial register the new connection's ID). The prediction comes from `Model.ConnID.Redial`: whatever the
    closing period of the first connection is, the ID of the second one is routed to the second one. -/
def stepRedial (op impl : String) : Unit × StepOut :=
  let w := words op
  let iw := words impl
  let get (k : String) : String := (fieldOf iw k).getD "?"
  let arg (k : String) : String := (fieldOf w k).getD "?"
  let zeroLen := arg "cli=" == "plain0" || arg "cli=" == "chrome"
  let how := arg "how="
  let gap : Int := intOf (arg "gap=")
  let hold : Int := intOf (arg "hold=")
  -- the closing period (3 PTO) is not known to the oracle: the prediction must not depend on it
  let cancelled := how == "cancel" && get "d1=" == "cancelled"
  let preds := [1, gap, gap + 1, gap + hold, gap + hold + 1, 1000000].map fun e =>
    Uquic.Model.ConnID.redialScenario zeroLen (if cancelled then .destroy else .close (how != "closes") e) gap hold
  let reg := if preds.all (fun p => p.2.1 == "conn") then "conn" else "conn|" ++ "|".intercalate (preds.map (·.2.1))
  let late := if preds.all (fun p => p.2.2 == "conn") then "conn" else "conn|" ++ "|".intercalate (preds.map (·.2.2))
  let live := if preds.all (fun p => p.1 == 0) then "0" else "0|" ++ "|".intercalate (preds.map fun p => toString p.1)
  -- a cancelled dial may have completed its handshake just before the deadline: then it was closed by the client
  let d1 := if how == "vn" then "vn" else if cancelled then "cancelled" else "ok"
  let expected := s!"d1={d1} after1={if how == "vn" then "-" else live} d2reg={if how == "vn" then "-" else reg} d2=ok d2route={reg} echo=ok late={late} end_srv=0/0 end_cli=0/0"
  let firstOK := get "d1=" == d1
  let f0 : List (String × String × String) :=
    if firstOK && get "after1=" != "0" && get "after1=" != "-" then
      [("closed_connection_still_routed_e2e", "-",
        s!"the first connection on the transport is over ({how}), yet {get "after1="} entries of the client's routing table still route to a live connection when the next dial begins")]
    else []
  let bad := (get "d2reg=" != "conn" && get "d2reg=" != "-") || get "d2=" != "ok" || get "d2route=" != "conn" ||
    get "echo=" != "ok" || get "late=" != "conn"
  let f1 : List (String × String × String) :=
    if firstOK && bad then
      [("redial_routed_e2e", "-",
        s!"a second connection dialled on the same transport ({arg "cli="}, first connection ended by {how}, {arg "gap="} ms before): its connection ID is routed to '{get "d2reg="}' right after the dial registered it, dial: {get "d2="}, routed to '{get "d2route="}' when Dial returned, echo over the new connection after the first one's closing period: {get "echo="}, routed then: '{get "late="}' (must be: conn, ok, conn, ok, conn)")]
    else []
  let f2 : List (String × String × String) :=
    if firstOK && !bad && (get "end_srv=" != "0/0" || get "end_cli=" != "0/0") then
      [("routing_clean_after_close_e2e", "-", s!"after both connections closed and the closing period (routes/tokens): server {get "end_srv="}, client {get "end_cli="}")]
    else []
  let gapTag := if gap == 0 then "0" else if gap < 600 then "short" else "long"
  let idTag := if zeroLen then "same-id" else "fresh-id"
  let tags := ["redial", s!"redial:cli={arg "cli="}", s!"redial:how={how}", s!"redial:{idTag}", s!"redial:gap-{gapTag}"]
  let tags := tags ++ [s!"redial:first-{d1}"] ++ (if arg "retry=" == "1" then ["redial:retry"] else [])
  ((), { model := expected, tags := tags, fails := f0 ++ f1 ++ f2 })

def step (_ : Unit) (op impl : String) : Unit × StepOut :=
  let w := words op
  if w.headD "" == "mig" then stepMig op impl else
  if w.headD "" == "redial" then (if impl == "skip" then ((), { model := "skip", tags := ["skip"] }) else stepRedial op impl) else
  if w.headD "" != "scn" then ((), { model := "skip", tags := ["skip"] }) else
  let iw := words impl
  let expected := "hs=ok mid_stale=0 mid_routes=some end_srv_routes=0 end_srv_tokens=0 end_cli_routes=0 end_cli_tokens=0"
  let get (k : String) : String := (fieldOf iw k).getD "?"
  let hsOK := get "hs=" == "ok"
  let f1 : List (String × String × String) :=
    if hsOK && get "mid_stale=" != "0" then
      [("handshake_ids_expired_e2e", "-", s!"{get "mid_stale="} destination connection IDs of the client's first flight are still routed to the server connection long after handshake + 3 PTO")]
    else []
  let f2 : List (String × String × String) :=
    if hsOK && (get "end_srv_routes=" != "0" || get "end_srv_tokens=" != "0" || get "end_cli_routes=" != "0" || get "end_cli_tokens=" != "0") then
      [("routing_clean_after_close_e2e", "-", s!"after close and the closing period: server routes {get "end_srv_routes="} tokens {get "end_srv_tokens="}, client routes {get "end_cli_routes="} tokens {get "end_cli_tokens="}")]
    else []
  let tags := (w.drop 1).filter fun x => x.startsWith "retry=" || x.startsWith "ccid=" || x.startsWith "closer="
  ((), { model := expected, tags := ["scn"] ++ tags ++ ["scid"] , fails := f1 ++ f2 })

def main : IO Unit := run { init := (), step := step }
