import Uquic.Oracle.Frame
import Uquic.Model.ConnID.Runners
import Uquic.Spec.CidRunnersMon

/-!
Oracle of driver `cidmr` (property C16): one real connIDGenerator registered with several real packetHandlerMaps.
The model is `Uquic.Model.ConnID.Runners` with the faithful `ReplaceWithClosed`; the monitors are
`Uquic.Spec.CidRunnersMon`.
-/

open Uquic.Oracle Uquic.Model.ConnID Uquic.Spec.CidMon Uquic.Spec.CidRunnersMon

/-! ## text <-> values (as in Oracle/Cid.lean) -/

def hexDigit (n : Nat) : Char := if n < 10 then Char.ofNat (48 + n) else Char.ofNat (87 + n)

def hx (b : Bytes) : String :=
  if b.isEmpty then "-" else String.ofList (b.flatMap fun x => [hexDigit (x / 16 % 16), hexDigit (x % 16)])

def hexVal (c : Char) : Nat :=
  if '0' ≤ c ∧ c ≤ '9' then c.toNat - 48
  else if 'a' ≤ c ∧ c ≤ 'f' then c.toNat - 87
  else if 'A' ≤ c ∧ c ≤ 'F' then c.toNat - 55 else 0

def unhxChars : List Char → Bytes
  | a :: b :: rest => (hexVal a * 16 + hexVal b) :: unhxChars rest
  | _ => []

def unhx (s : String) : Bytes := if s == "-" || s == "" then [] else unhxChars s.toList

def insertBy {α} (lt : α → α → Bool) (x : α) : List α → List α
  | [] => [x]
  | y :: ys => if lt x y then x :: y :: ys else y :: insertBy lt x ys

/-- stable insertion sort -/
def sortBy {α} (lt : α → α → Bool) (l : List α) : List α :=
  l.reverse.foldl (fun acc x => insertBy (fun a b => !lt b a) x acc) []

/-- the driver's ConnectionIDGenerator -/
def mkID (len : Nat) (k : Nat) : Bytes :=
  (List.range len).map fun i => if i = 0 then (128 + k) % 256 else (i * 17 + k / 128) % 256

def fmtList (l : List String) (sep : String) : String := if l.isEmpty then "-" else sep.intercalate l

/-- a list of connection IDs that came out of a Go map iteration: sorted hex strings -/
def fmtIDList (ids : List Bytes) : String :=
  if ids.isEmpty then "empty" else ";".intercalate (sortBy (fun a b => decide (a < b)) (ids.map hx))

def parseIDList (s : String) : List Bytes := if s == "empty" then [] else (s.splitOn ";").map unhx

def fmtGEv : GEv → String
  | .addRoute id => "A" ++ hx id
  | .rmRoute id => "D" ++ hx id
  | .newFrame s id => s!"N{s}:{hx id}"
  | .replaceClosed ids l e => s!"C{if l then 1 else 0}:{e}:{fmtIDList ids}"

def field (ws : List String) (key : String) : Option String :=
  ws.findSome? fun w => if w.startsWith key then some (w.drop key.length).toString else none

def fmtRes : Res → String
  | .ok => "ok"
  | .panic => "PANIC"
  | .err .protocolViolation => "E:PROTOCOL_VIOLATION"
  | .err _ => "E:other"

def gevID : GEv → Bytes
  | .addRoute id => id
  | .rmRoute id => id
  | _ => []

def isFrame : GEv → Bool
  | .newFrame _ _ => true
  | _ => false

/-! ## printing the model state -/

def fmtRoutes (r : Routing) : String :=
  let hs := sortBy (fun (a b : Bytes × Handler) => Uquic.Spec.CidRunnersMon.bytesLt a.1 b.1) r.handlers
  let kind : Handler → String
    | .conn c => (if c == 0 then "conn" else "conn2") | .closedLocal _ => "local" | .closedRemote => "remote"
  if hs.isEmpty then "none" else "/".intercalate (hs.map fun kv => s!"{hx kv.1}:{kind kv.2}")

def fmtGen (g : Generator) : String :=
  let act := sortBy (fun (a b : Nat × Bytes) => decide (a.1 < b.1)) g.active
  let a := fmtList (act.map fun kv => s!"{kv.1}:{hx kv.2}") "/"
  let rt := fmtList (g.toRetire.map fun c => s!"{c.1}:{hx c.2}") "/"
  let icd := match g.initialClientDest with | some i => hx i | none => "none"
  s!" | act={a} ret={rt} icd={icd} hs={g.highestSeq} |"

structure St where
  s : Option MSys := none
  closed : Bool := false
  /-- per transport: the list it was handed by ReplaceWithClosed (then, now) -/
  handed : List (Option (List Bytes × List Bytes)) := []
  gh : RGhost := {}

def idxs (n : Nat) : List Nat := List.range n

/-- per-transport callbacks of this op: `evsOf k` -/
def fmtTail (s : MSys) (handed : List (Option (List Bytes × List Bytes))) (frames : List GEv) (evsOf : Nat → List GEv) : String :=
  let n := s.runners.length
  let ts := " ".intercalate ((idxs n).map fun k => s!"t{k}={fmtList ((evsOf k).map fmtGEv) ","}")
  let rs := " ".intercalate ((idxs n).map fun k => s!"r{k}={fmtRoutes ((s.runners.getD k {}).table)}")
  let sh := " ".intercalate ((idxs n).map fun k =>
    match handed.getD k none with
    | none => s!"sh{k}=none"
    | some (a, b) => s!"sh{k}={fmtIDList a}>{fmtIDList b}")
  s!" ev={fmtList (frames.map fmtGEv) ","} {ts}" ++ fmtGen s.g ++ s!" {rs} | {sh}"

/-! ## parsing what the implementation printed -/

def parseRoutesOf (ws : List String) (k : Nat) : List (Bytes × String) :=
  match field ws s!"r{k}=" with
  | some "none" | none => []
  | some s => (s.splitOn "/").filterMap fun e =>
      match e.splitOn ":" with
      | [i, kd] => some (unhx i, kd)
      | _ => none

def parseShOf (ws : List String) (k : Nat) : Option (List Bytes × List Bytes) :=
  match field ws s!"sh{k}=" with
  | some "none" | none => none
  | some s => match s.splitOn ">" with
    | [a, b] => some (parseIDList a, parseIDList b)
    | _ => some ([], [])

def parseNews (ws : List String) : List (Nat × Bytes) :=
  match field ws "ev=" with
  | some "-" | none => []
  | some evs => (evs.splitOn ",").filterMap fun e =>
    if e.startsWith "N" then
      match ((e.drop 1).toString).splitOn ":" with
      | [sq, i] => some (natOf sq, unhx i)
      | _ => none
    else none

def lookupSeqG (s : Nat) : List (Nat × Bytes) → Option Bytes
  | [] => none
  | (k, v) :: rest => if k = s then some v else lookupSeqG s rest

/-- finish an op: print the model, run the monitors on the implementation's text -/
def finish (st : St) (s' : MSys) (handed : List (Option (List Bytes × List Bytes))) (head : String) (frames : List GEv)
    (evsOf : Nat → List GEv) (gh' : RGhost) (impl : String) (tags : List String) (extra : List Fail) (closed : Bool := false) :
    St × StepOut :=
  let ws := words impl
  let n := s'.runners.length
  let routes := (idxs n).map fun k => parseRoutesOf ws k
  let sh := (idxs n).map fun k => parseShOf ws k
  let fails := routeMonitors gh' routes ++ sharedMonitors gh' sh ++ extra
  ({ st with s := some s', handed := handed, gh := gh', closed := st.closed || closed },
   { model := head ++ fmtTail s' handed frames evsOf, tags := tags, fails := fails })

def skip (st : St) : St × StepOut := (st, { model := "skip", tags := ["skip"] })

/-- callbacks of a generator step, per transport: every registered runner sees the routing callbacks -/
def routeEvs (evs : List GEv) : List GEv := evs.filter fun e => !isFrame e

def stepCore (st : St) (op impl : String) : St × StepOut :=
  let w := words op
  let implHead := (words impl).headD ""
  let iw := words impl
  match w with
  | ["init", idLen, initial, cd, n] =>
    if st.s.isSome then skip st else
    let n := natOf n
    if n < 1 || n > 6 then skip st else
    let cdo := if cd == "none" then none else some (unhx cd)
    let initial := unhx initial
    let s := MSys.new (natOf idLen) initial cdo (n - 1)
    let gh : RGhost := { inited := true, ntr := n, act := [(0, initial)], icd := cdo, reg := [0],
                          known := ((initial :: cdo.toList).foldl addNew []) :: List.replicate (n - 1) [],
                          closedPkts := List.replicate n 0 }
    finish st s (List.replicate n none) "ok" [] (fun _ => []) gh impl
      ["init", if cdo.isSome then "init:server" else "init:client", if natOf idLen == 0 then "init:zero-length" else "init:nonzero", s!"init:{n}-transports"] []
  | _ =>
  match st.s with
  | none => skip st
  | some s =>
  let regd (k : Nat) : Bool := (s.runners.getD k {}).registered
  let n := s.runners.length
  match w with
  | ["limit", l] =>
    if st.closed then skip st else
    let r := s.g.step (mkID s.g.idLen) (.setMax (natOf l))
    let s' := s.step (mkID s.g.idLen) (.gen (.setMax (natOf l)))
    let gh' := st.gh.issued (parseNews iw)
    finish st s' st.handed "ok" (r.2.1.filter isFrame) (fun k => if regd k then routeEvs r.2.1 else []) gh' impl
      [if r.2.1.isEmpty then "limit:none" else "limit:issue"] []
  | ["retire", seq, dst, exp] =>
    if st.closed || s.g.generated ≥ 100 then skip st else
    let seq := natOf seq; let dst := unhx dst; let exp := intOf exp
    let r := s.g.step (mkID s.g.idLen) (.retire seq dst exp)
    let s' := s.step (mkID s.g.idLen) (.gen (.retire seq dst exp))
    let news := parseNews iw
    let held := lookupSeqG seq st.gh.act
    let want := if seq > st.gh.highest then "E:PROTOCOL_VIOLATION"
                else match held with
                  | none => "ok"
                  | some i => if i == dst then "E:PROTOCOL_VIOLATION" else "ok"
    let rf : List Fail := if implHead == want then [] else
      [("retire_rules", "-", s!"RETIRE_CONNECTION_ID seq {seq} (highest issued {st.gh.highest}) answered {implHead}, expected {want}")]
    let gh1 := if implHead == "ok" then
        match held with
        | some i => { st.gh with act := st.gh.act.filter (fun kv => kv.1 ≠ seq), ret := st.gh.ret ++ [(exp, i)] }
        | none => st.gh
      else st.gh
    let gh' := gh1.issued news
    let tag := match r.2.2 with
      | .ok => if r.2.1.isEmpty then (if (lookupSeq seq s.g.active).isSome then "retire:seq0" else "retire:dup")
               else if (s.runners.filter (·.registered)).length > 1 then "retire:replace-multi" else "retire:replace"
      | _ => if seq > s.g.highestSeq then "retire:unissued" else "retire:own-dcid"
    finish st s' st.handed (fmtRes r.2.2) (r.2.1.filter isFrame) (fun k => if regd k then routeEvs r.2.1 else []) gh' impl [tag] rf
  | ["hsdone", exp] =>
    if st.closed then skip st else
    let exp := intOf exp
    let s' := s.step (mkID s.g.idLen) (.gen (.hsDone exp))
    let gh' := match st.gh.icd with
      | some i => { st.gh with icd := none, ret := st.gh.ret ++ [(exp, i)] }
      | none => st.gh
    finish st s' st.handed "ok" [] (fun _ => []) gh' impl [if s.g.initialClientDest.isSome then "hsdone:server" else "hsdone:noop"] []
  | ["expire", now] =>
    if st.closed then skip st else
    let now := intOf now
    let r := s.g.step (mkID s.g.idLen) (.removeRetired now)
    let s' := s.step (mkID s.g.idLen) (.gen (.removeRetired now))
    let gh' := st.gh.swept now
    -- a transport added after an ID was retired is told to remove an ID it never routed
    let blind := (idxs n).any fun k => regd k && r.2.1.any fun e => (lookupH (gevID e) (s.runners.getD k {}).table.handlers).isNone
    finish st s' st.handed "ok" [] (fun k => if regd k then r.2.1 else []) gh' impl
      ([if r.2.1.isEmpty then "expire:none" else "expire:remove"] ++ (if blind then ["expire:unknown-to-a-transport"] else [])) []
  | ["addpath", k] =>
    if st.closed then skip st else
    let k := natOf k
    if k ≥ n then skip st else
    let s' := s.step (mkID s.g.idLen) (.addRunner k)
    let evs : List GEv := if regd k then [] else
      sortBy (fun a b => Uquic.Spec.CidRunnersMon.bytesLt (gevID a) (gevID b)) (s.g.currentIDs.map GEv.addRoute)
    let gh' := st.gh.pathAdded k
    finish st s' st.handed "ok" [] (fun i => if i == k then evs else []) gh' impl
      [if regd k then "addpath:again" else if s.g.toRetire.isEmpty then "addpath:new" else "addpath:new-with-retired-ids-pending"] []
  | ["removeall"] =>
    if st.closed then skip st else
    let evs := sortBy (fun a b => Uquic.Spec.CidRunnersMon.bytesLt (gevID a) (gevID b)) s.g.removeAll
    let s' : MSys := { s with runners := s.removeAll }
    let gh' := { st.gh with closed := true, closedIDs := [], deadline := st.gh.clock, known := st.gh.known.map fun _ => [] }
    finish st s' st.handed "ok" [] (fun k => if regd k then evs else []) gh' impl
      [if (s.runners.filter (·.registered)).length > 1 then "removeall:multi" else "removeall:single"] [] true
  | ["replace", l, exp] =>
    if st.closed then skip st else
    let l := l == "1"; let exp := intOf exp
    let r := s.replaceWithClosed .faithful l exp
    let s' : MSys := { s with runners := r.2 }
    let handed := (idxs n).map fun k => if regd k then some (s.g.allIDs, r.1) else none
    let gh' := { st.gh with closed := true, replaced := true, closedLocal := l, closedIDs := st.gh.live, deadline := st.gh.clock + exp }
    let misses := (idxs n).any fun k => regd k && s.g.allIDs.any fun i => (lookupH i (s.runners.getD k {}).table.handlers).isNone
    finish st s' handed "ok" [] (fun k => if regd k then [GEv.replaceClosed s.g.allIDs l exp] else []) gh' impl
      ([if l then "replace:local" else "replace:remote",
        if (s.runners.filter (·.registered)).length > 1 then "replace:multi" else "replace:single"] ++
       (if misses then ["replace:a-transport-misses-retired-ids"] else [])) [] true
  | ["timer", d] =>
    let d := intOf d
    let s' := s.step (mkID s.g.idLen) (.tick d)
    let gh' := { st.gh with clock := st.gh.clock + d }
    let before : Nat := (s.runners.map fun r => r.table.handlers.length).foldl (· + ·) 0
    let after : Nat := (s'.runners.map fun r => r.table.handlers.length).foldl (· + ·) 0
    finish st s' st.handed "ok" [] (fun _ => []) gh' impl [if after < before then "timer:expire" else "timer:idle"] []
  | ["dial2", k, id] =>
    if !st.closed then skip st else
    let k := natOf k; let id := unhx id
    if k ≥ n then skip st else
    let s' : MSys := { s with runners := modifyAt (fun r => { r with table := r.table.install id 1 }) k s.runners }
    let gh' := { st.gh with second := if st.gh.second.contains (k, id) then st.gh.second else (k, id) :: st.gh.second }
    finish st s' st.handed "ok" [] (fun _ => []) gh' impl ["dial2"] []
  | ["pkt", k, id] =>
    let k := natOf k; let id := unhx id
    if k ≥ n then skip st else
    let (t', dl) := (s.runners.getD k {}).table.deliver id
    let s' : MSys := { s with runners := modifyAt (fun r => { r with table := t' }) k s.runners }
    let head := match dl with
      | .none => "none conn=0 cc=0"
      | .conn c => if c == 0 then "conn conn=1 cc=0" else "conn2 conn=0 cc=0"
      | .closedLocal b => s!"local conn=0 cc={if b then 1 else 0}"
      | .closedRemote => "remote conn=0 cc=0"
    -- ghost: on EVERY transport only issued, unexpired IDs of a live connection reach it; on every transport the
    -- connection is registered with, every ID it was told about does
    let reached := field iw "conn=" == some "1"
    let live := !st.gh.closed && st.gh.live.contains id
    let told := !st.gh.closed && (st.gh.known.getD k []).contains id
    let pf1 : List Fail :=
      if reached && !live then [("foreign_or_retired_id_reaches_connection", "-", s!"transport {k}: packet for {hx id} was handed to the connection")]
      else if !reached && told then [("issued_id_not_routed", "-", s!"transport {k}: packet for issued connection ID {hx id} was not handed to the connection")]
      else []
    let mine := (st.gh.second.filter (·.1 == k)).map (·.2)
    let pf3 : List Fail := if mine.contains id && implHead != "conn2" then
        [("expiry_keeps_foreign_entry", "-", s!"transport {k}: packet for {hx id} did not reach the second connection ({implHead})")] else []
    -- the closed stand-in of transport k answers the 1st, 2nd, 4th, 8th … packet IT receives (whatever the ID) with a copy
    -- of the CONNECTION_CLOSE after a local close, and never after a remote close; nothing else ever does
    let inClosing := (implHead == "local" || implHead == "remote") && !mine.contains id
    let cnt := st.gh.closedPkts.getD k 0 + 1
    let cc := natOf ((field iw "cc=").getD "0")
    let pf2 : List Fail :=
      if !inClosing then
        (if cc == 0 then [] else [("closed_conn_backoff", "-", s!"transport {k}: {cc} CONNECTION_CLOSE retransmissions for a packet that did not reach a closed stand-in")])
      else
      let wantCC := if st.gh.closedLocal && isPow2 cnt then 1 else 0
      if cc == wantCC then [] else
        [("closed_conn_backoff", "-", s!"transport {k}: packet {cnt} to the closed connection: {cc} CONNECTION_CLOSE retransmissions, expected {wantCC}")]
    let gh' := if inClosing then { st.gh with closedPkts := st.gh.closedPkts.set k cnt } else st.gh
    finish st s' st.handed head [] (fun _ => []) gh' impl
      [match dl with | .none => "pkt:none" | .conn c => (if c == 0 then (if k == 0 then "pkt:conn" else "pkt:conn-other-transport") else "pkt:conn2")
                     | .closedLocal b => if b then "pkt:local-resend" else "pkt:local-quiet" | .closedRemote => "pkt:remote"]
      (pf1 ++ pf2 ++ pf3)
  | _ => skip st

def step (st : St) (op impl : String) : St × StepOut := stepCore st op impl

def main : IO Unit := run { init := ({} : St), step := step }
