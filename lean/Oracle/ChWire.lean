import Uquic.Oracle.Frame
import Uquic.Model.UQuic.ChWire

/-!
Oracle for the `chwire` driver (property C11, end to end). Ops (see harness/drivers/chwire/chwire_test.go):

  env <spec> <rnd> <pad> <fb> <srv> <rtt> <faults>  => ok
  dial <ms>  => hs=<ok|err|panic> pp=<-|panics> tl=<-|tails> ch=<ver>:<hex>[+<hex>…]|… pk=<ver>,<key>,<pn>,<tok>:<frames>;…

Everything a real dial produces is random (keys, GREASE, frame cuts), so the model side is an echo: the line is
parsed and printed again (a line the oracle does not understand is a DIFF). The judgement is in the monitors,
which evaluate the executable predicates of `Uquic.Model.ChWire` (proved in `Uquic.Props.C11Wire` to be exactly
"every receiver rebuilds the ClientHello") on the two observations of the dial:
`ch` — what the TLS stack handed over for the Initial CRYPTO stream; `pk` — every Initial packet that left the client.

  wire_crypto_is_clienthello   every CRYPTO frame of every Initial packet is the slice of its connection's
                               stream at the frame's offset (firstUnfaithful = none)
  clienthello_fully_sent       per key generation (before / after a Retry) that carries CRYPTO data at all, the
                               frames cover the whole first ClientHello — and, when the handshake completed, the
                               last generation covers everything written (second ClientHello) (firstGap = none)
  initial_packet_opens         every Initial packet opens with the Initial keys of a connection ID the client used
  initial_frames_parse         an Initial payload holds only PADDING / PING / ACK / CRYPTO / CONNECTION_CLOSE
  tap_is_clienthello           every Initial-level write of the TLS stack is one ClientHello handshake message
  datagram_tail_is_padding     behind the last long header packet of a datagram that holds an Initial packet there
                               is nothing, zeros only (UDPDatagramMinSize), or a short header packet — never stale
                               buffer contents (the packet buffer pool is poisoned with 0xA5-filled buffers)
  client_packer_does_not_panic the client's packer never panics (found: a Handshake / 1-RTT packet appended behind
                               an Initial packet that was zero-padded to UDPDatagramMinSize overran the packet
                               buffer; repaired in /repo by 9faccbf, regression corpus coalesced-behind-padded-initial)
-/

open Uquic.Oracle Uquic.Model.ChWire

namespace ChWireOracle

def hexDigit (c : Char) : Option Nat :=
  if '0' ≤ c && c ≤ '9' then some (c.toNat - '0'.toNat)
  else if 'a' ≤ c && c ≤ 'f' then some (c.toNat - 'a'.toNat + 10)
  else none

def parseHexChars : List Char → List Nat → Option (List Nat)
  | [], acc => some acc.reverse
  | a :: b :: r, acc =>
    match hexDigit a, hexDigit b with
    | some x, some y => parseHexChars r ((x * 16 + y) :: acc)
    | _, _ => none
  | _, _ => none

def parseHex (s : String) : Option (List Nat) :=
  if s == "-" then some [] else parseHexChars s.toList []

def afterPrefix (s pre : String) : String := (s.drop pre.length).toString

/-- one connection's record: version, Initial-level writes in order -/
structure Rec where
  ver : Nat
  writes : List (List Nat)

structure Pk where
  ver : Nat
  key : Option Nat
  pn : Nat
  tok : Nat
  crypto : List (Frame Nat)
  stopped : Bool          -- the payload did not parse to its end
  emptyCrypto : Bool

def parseRec (s : String) : Option Rec :=
  match s.splitOn ":" with
  | [v, ws] => do
    let ver ← v.toNat?
    let writes ← (ws.splitOn "+").mapM parseHex
    pure { ver := ver, writes := if ws == "-" then [] else writes }
  | _ => none

def parseFrames (s : String) : Option (List (Frame Nat) × Bool) :=
  if s == "-" || s == "" then some ([], false) else
  (s.splitOn "/").foldlM (fun (acc : List (Frame Nat) × Bool) t =>
    if t.startsWith "c" then
      match (afterPrefix t "c").splitOn "." with
      | [o, h] => do
        let off ← o.toNat?
        let d ← parseHex h
        pure (acc.1 ++ [(off, d)], acc.2)
      | _ => none
    else if t == "p" || t == "a" then some acc
    else if t.startsWith "z" then (afterPrefix t "z").toNat?.map (fun _ => acc)
    else if t.startsWith "x" then (afterPrefix t "x").toNat?.map (fun _ => acc)
    else if t.startsWith "!" then some (acc.1, true)
    else none) ([], false)

def parsePk (s : String) : Option Pk :=
  match s.splitOn ":" with
  | [h, fr] =>
    match h.splitOn "," with
    | [v, k, pn, tok] => do
      let ver ← v.toNat?
      let pn ← pn.toNat?
      let tok ← tok.toNat?
      let (fs, stopped) ← parseFrames fr
      let key ← if k == "?" then some none else k.toNat?.map some
      pure { ver := ver, key := key, pn := pn, tok := tok, crypto := fs, stopped := stopped,
             emptyCrypto := fs.any (·.2.isEmpty) }
    | _ => none
  | _ => none

structure DialObs where
  hs : String
  panics : List String
  tails : List String
  recs : List Rec
  pks : List Pk

def parseDial (impl : String) : Option DialObs :=
  match words impl with
  | [a, pp, tl, b, c] =>
    if a.startsWith "hs=" && pp.startsWith "pp=" && tl.startsWith "tl=" && b.startsWith "ch=" && c.startsWith "pk=" then do
      let chs := afterPrefix b "ch="
      let pks := afterPrefix c "pk="
      let recs ← if chs == "-" then some [] else (chs.splitOn "|").mapM parseRec
      let ps ← if pks == "-" then some [] else (pks.splitOn ";").mapM parsePk
      let pps := afterPrefix pp "pp="
      let tls := afterPrefix tl "tl="
      let tails := if tls == "-" then [] else tls.splitOn ","
      if !tails.all (fun t => (t.startsWith "z" || t.startsWith "s" || t.startsWith "g") && ((t.drop 1).toString.toNat?).isSome) then none
      pure { hs := afterPrefix a "hs=", panics := if pps == "-" then [] else pps.splitOn ";", tails := tails, recs := recs, pks := ps }
    else none
  | _ => none

def streamOf (recs : List Rec) (ver : Nat) : Option Rec := recs.find? (·.ver == ver)

def dedupNat (l : List Nat) : List Nat := l.foldl (fun acc x => if acc.contains x then acc else acc ++ [x]) []

def monitors (o : DialObs) : List (String × String × String) × List String := Id.run do
  let mut fails : List (String × String × String) := []
  let mut tags : List String := [s!"hs:{o.hs}"]
  -- the client must survive
  for pn in o.panics do
    fails := fails ++ [("client_packer_does_not_panic", "-", s!"the client's packer panicked: {pn}")]
    tags := tags ++ ["packer-panic"]
  -- what follows the packets of a datagram
  for t in o.tails do
    if t.startsWith "g" then
      fails := fails ++ [("datagram_tail_is_padding", "-", s!"{(t.drop 1).toString} bytes behind the last long header packet of a datagram with an Initial packet are neither zero padding nor a short header packet")]
    if t.startsWith "s" then tags := tags ++ ["coalesced-1rtt"]
    if t.startsWith "z" then tags := tags ++ ["zero-padded-datagram"]
  -- the tap
  for r in o.recs do
    for w in r.writes do
      if !isClientHello w then
        fails := fails ++ [("tap_is_clienthello", "-", s!"ver={r.ver} a {w.length}-byte Initial-level write is not one ClientHello message")]
    if r.writes.length ≥ 2 then tags := tags ++ ["hrr"]
    if r.writes.flatten.length > 1150 then tags := tags ++ ["multi-datagram"]
  if o.recs.length ≥ 2 then tags := tags ++ ["second-connection"]
  -- every packet
  for p in o.pks do
    if p.stopped then
      fails := fails ++ [("initial_frames_parse", "-", s!"ver={p.ver} pn={p.pn}: a frame that is not PADDING/PING/ACK/CRYPTO/CONNECTION_CLOSE")]
    if p.emptyCrypto then tags := tags ++ ["empty-crypto-frame"]
    match p.key with
    | none => fails := fails ++ [("initial_packet_opens", "-", s!"ver={p.ver}: an Initial packet that the Initial keys of no connection ID used so far open")]
    | some _ =>
      if !p.crypto.isEmpty then
        match streamOf o.recs p.ver with
        | none => fails := fails ++ [("wire_crypto_is_clienthello", "-", s!"ver={p.ver} pn={p.pn}: CRYPTO data of a connection whose TLS stack wrote nothing")]
        | some r =>
          let S := r.writes.flatten
          match firstUnfaithful S p.crypto with
          | none => pure ()
          | some f =>
            fails := fails ++ [("wire_crypto_is_clienthello", "-",
              s!"ver={p.ver} pn={p.pn} token={p.tok}: CRYPTO frame off={f.1} len={f.2.length} is not bytes [{f.1},{f.1 + f.2.length}) of the {S.length}-byte stream the TLS stack produced (first difference at offset {firstMismatch S f})")]
  -- coverage per (version, key generation)
  for v in dedupNat (o.pks.map (·.ver)) do
    let ks := dedupNat ((o.pks.filter (fun p => p.ver == v)).filterMap (·.key))
    if ks.length ≥ 2 then tags := tags ++ ["retry"]
    match streamOf o.recs v with
    | none => pure ()
    | some r =>
      let first := (r.writes.headD []).length
      let total := r.writes.flatten.length
      let last := ks.foldl max 0
      for k in ks do
        let fs := (o.pks.filter (fun p => p.ver == v && p.key == some k)).flatMap (·.crypto)
        if fs.any (fun f => !f.2.isEmpty) then
          let n := if o.hs == "ok" && k == last then total else first
          if (fs.map (·.2.length)).foldl (· + ·) 0 > n then tags := tags ++ ["retransmission"]
          match firstGap fs n with
          | none => pure ()
          | some i =>
            fails := fails ++ [("clienthello_fully_sent", "-",
              s!"ver={v} key-generation={k}: no Initial packet carries stream offset {i} (of {n} bytes to send)")]
  return (fails, tags)

structure St where
  env : Bool := false
  envTags : List String := []
  dials : Nat := 0

def validEnv (f : List String) : Bool :=
  match f with
  | [_, spec, rnd, pad, fb, srv, rtt, _] =>
    ["QUICFirefox_116A", "QUICFirefox_116B", "QUICFirefox_116C", "QUICChrome_115_IPv4", "QUICChrome_115_IPv6",
      "QUICChrome_146_IPv4", "QUICChrome_146_IPv6"].contains spec &&
    (rnd == "0" || rnd == "1") && (pad.toNat?.getD 9999 ≤ 4000) && ["=", "nil", "rf", "fl"].contains fb &&
    ["plain", "retry", "hrr", "vn", "silent"].contains srv && (match rtt.toNat? with | some r => 1 ≤ r && r ≤ 1000 | none => false)
  | _ => false

def step (s : St) (op impl : String) : St × StepOut :=
  let f := words op
  match f with
  | "env" :: _ =>
    if s.env || !validEnv f then (s, { model := "bad-op" })
    else
      let tg := [s!"srv:{f.getD 5 ""}", s!"fb:{f.getD 4 ""}"] ++ (if f.getD 3 "0" != "0" then ["padded"] else []) ++
        (if f.getD 7 "-" != "-" then ["faults"] else [])
      ({ s with env := true, envTags := tg }, { model := "ok", tags := tg })
  | ["dial", ms] =>
    if !s.env then (s, { model := "skip" })
    else if !(match ms.toNat? with | some m => 1 ≤ m && m ≤ 20000 | none => false) then (s, { model := "bad-op" })
    else
      match parseDial impl with
      | none => (s, { model := "E:parse" })
      | some o =>
        let (fails, tags) := monitors o
        let tags := tags ++ (if s.dials ≥ 1 then ["redial"] else [])
        ({ s with dials := s.dials + 1 }, { model := impl, tags := tags, fails := fails })
  | _ => (s, { model := "bad-op" })

end ChWireOracle

def main : IO Unit := Uquic.Oracle.run { init := ({} : ChWireOracle.St), step := ChWireOracle.step }
