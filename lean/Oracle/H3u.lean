/-
Oracle of the h3u driver (property C18): per-type bookkeeping of the peer's unidirectional streams.
Model: `Uquic.Model.H3.uniStep` over the regenerated table.  Monitor `uni_stream_rules` judges the
implementation against RFC 9114 §6.2 directly (ghost from the operation only): one control, one
QPACK encoder and one QPACK decoder stream are legal in any order; a second one of a kind closes the
connection with H3_STREAM_CREATION_ERROR (0x103); a push stream closes it with 0x103 (server) /
H3_ID_ERROR 0x108 (client); any other type only has its reading aborted with 0x103.
-/
import Uquic.Oracle.Frame
import Uquic.Model.H3.Uni

open Uquic.Oracle Uquic.Model.H3

def fmtOuts (outs : List UniOut) : String × String :=
  let conn := (outs.findSome? fun o => match o with | .connClosed c => some (toString c) | _ => none).getD "alive"
  let ss := outs.map fun o => match o with
    | .accepted => "ok" | .cancelled c => s!"stop:{c}" | .connClosed _ => "x" | .dead => "x"
  (conn, ",".intercalate ss)

def runModel (isServer : Bool) (ts : List Nat) : List UniOut :=
  (ts.foldl (fun (acc : UniSt × List UniOut) t => let r := uniStep isServer acc.1 t; (r.1, acc.2 ++ [r.2])) ({}, [])).2

/-- RFC 9114 §6.2, written down independently of the code -/
def rfcOuts (isServer : Bool) (ts : List Nat) : List UniOut :=
  (ts.foldl (fun (acc : (List Nat × Bool) × List UniOut) t =>
    let (seen, closed) := acc.1
    if closed then (acc.1, acc.2 ++ [.dead])
    else if t == 0 || t == 2 || t == 3 then
      if seen.contains t then ((seen, true), acc.2 ++ [.connClosed 0x103]) else ((t :: seen, false), acc.2 ++ [.accepted])
    else if t == 1 then ((seen, true), acc.2 ++ [.connClosed (if isServer then 0x103 else 0x108)])
    else (acc.1, acc.2 ++ [.cancelled 0x103])) (([], false), [])).2

def step (_ : Unit) (op impl : String) : Unit × StepOut :=
  match words op with
  | ["uni", srv, tys] =>
    let isServer := srv == "srv=1"
    let ts := (((tys.drop 6).toString).splitOn ",").map natOf
    let (mc, ms) := fmtOuts (runModel isServer ts)
    let (rc, rs) := fmtOuts (rfcOuts isServer ts)
    let want := s!"conn={rc} s={rs}"
    let fails := if impl != want then
      [("uni_stream_rules", "-", s!"types {tys.drop 6} ({if isServer then "server" else "client"}): implementation `{impl}`, RFC 9114 §6.2 `{want}`")] else []
    let tags := [if isServer then "server" else "client", s!"conn:{mc}"] ++
      (if ts.contains 0 then ["control"] else []) ++ (if ts.contains 2 && ts.contains 3 then ["enc+dec"] else []) ++
      (if ts.any (fun t => t > 3) then ["unknown"] else []) ++ (if ts.contains 1 then ["push"] else [])
    ((), { model := s!"conn={mc} s={ms}", tags := tags, fails := fails })
  | _ => ((), { model := "bad-op" })

def main : IO Unit := run { init := (), step := step }
