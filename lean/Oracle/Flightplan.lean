import Uquic.Oracle.Frame
import Uquic.Model.UQuic.FlightPlan
import Uquic.Spec.FlightMon

open Uquic.Oracle Uquic.Model.UQuic.FlightPlan Uquic.Spec.FlightMon

abbrev Fail := String × String × String

structure St where
  written : Option Plan := none     -- the plan as the `mk` op wrote it (ghost state of the monitors)
  cur : Option Plan := none         -- the model's plan VALUE (what the builds so far left behind)
  mkText : String := ""
  builds : Nat := 0
  lastLen : Option Nat := none

def stepBuild (s : St) (first : Bool) (wr cur : Plan) (n : Nat) (impl : String) : St × StepOut := Id.run do
  let x := if first then buildFirst (treeWB cur) cur n else buildFlight (treeWB cur) cur n
  let model := renderRes x.2 n
  let mut tags : List String := [if first then "fp:first" else "fp:build"]
  tags := tags ++ [match x.2 with | .ok _ => "fp:ok" | .err e => "fp:err_" ++ errName e]
  if s.builds ≥ 1 then tags := tags ++ ["fp:rebuild"]
  match s.lastLen with
  | some l => if l < n then tags := tags ++ ["fp:len_grew"] else if n < l then tags := tags ++ ["fp:len_shrank"] else pure ()
  | none => pure ()
  if x.1 ≠ cur then tags := tags ++ ["fp:plan_written"]
  let mut fails : List Fail := []
  -- the property on the builder level: a plan that, AS WRITTEN, serves a ClientHello of this length yields that
  -- flight for this connection — whatever was built from the same value before
  if !first then
    match docFlight wr n with
    | some ivs =>
      tags := tags ++ ["fp:plan_serves_len"]
      let want := renderFlight ivs n
      if impl ≠ want then
        fails := fails ++ [("plan_serves_every_dial", "-",
          s!"build #{s.builds + 1} on one plan value ({s.mkText}) for a {n} byte ClientHello: the plan as written lays out {want}, got {impl}")]
    | none => tags := tags ++ ["fp:plan_does_not_serve_len"]
  else
    match wr.dgs.head? with
    | some d =>
      match docDG wr.random n d with
      | some iv =>
        let want := renderFlight [iv] n
        if impl ≠ want then
          fails := fails ++ [("plan_serves_every_dial", "-",
            s!"Build (first datagram's layout) #{s.builds + 1} on one plan value ({s.mkText}) for {n} bytes: as written {want}, got {impl}")]
      | none => pure ()
    | none => pure ()
  -- whatever a build returns must be bytes of THIS stream at the offsets it claims
  if impl.startsWith "ok" && !(Uquic.Spec.FlightMon.words impl).contains "data=1" then
    fails := fails ++ [("flight_bytes_faithful", "-", s!"a CRYPTO frame of the built flight does not carry the stream's bytes at its offset: {impl}")]
  return ({ s with cur := some x.1, builds := s.builds + 1, lastLen := some n }, { model := model, tags := tags, fails := fails })

def step (s : St) (op impl : String) : St × StepOut :=
  let w := Uquic.Spec.FlightMon.words op
  let a := w.drop 1
  match w.head? with
  | some "mk" =>
    match parsePlan ((getKV a "kind").getD "") ((getKV a "plan").getD "") with
    | none => ({}, { model := "skip", tags := ["fp:skip"] })
    | some p =>
      ({ written := some p, cur := some p, mkText := (getKV a "plan").getD "" },
       { model := "ok", tags := [if p.random then "fp:mk_random" else "fp:mk_fixed"] ++
                               (if endRelative p then ["fp:end_relative"] else ["fp:absolute"]) ++
                               [s!"fp:dgs_{min p.dgs.length 4}"] })
  | some kind =>
    if kind ≠ "build" ∧ kind ≠ "first" then (s, { model := "bad-op" }) else
    match s.written, s.cur, ((getKV a "len").bind (·.toNat?)) with
    | some wr, some cur, some n => stepBuild s (kind == "first") wr cur n impl
    | _, _, _ => (s, { model := "skip", tags := ["fp:skip"] })
  | none => (s, { model := "bad-op" })

def main : IO Unit := run { init := {}, step := step }
