import Uquic.Oracle.Frame
import Uquic.Spec.AmpMon

/-!
Oracle of the end-to-end support driver `retrye2e` (C14): one real server, up to three real clients, handshakes
paused at the ClientHello / token-carrying datagrams held and re-addressed by the router.  There is no model to
compare with (the text is echoed).  Monitors, all with ghost state from the ops and the wire events only:

* `retry_cids_at_use`            the original_destination_connection_id / retry_source_connection_id transport
                                 parameters a client RECEIVED are the destination connection ID of its first Initial
                                 and the source connection ID of the Retry packet the router saw going to it (absent
                                 when no Retry went to it) — whatever the server decoded for other clients meanwhile;
* `retry_handshake_fails`        a client whose datagrams were not re-addressed does not fail its handshake within the
                                 first 4 s (no legitimate timeout can have fired);
* `wire_send_at_limit_per_address`  per remote ADDRESS: a datagram leaves towards an address that has not proved
                                 itself (no Handshake packet from it, no token that a Retry carried to that same
                                 address) only while the bytes written to it so far are fewer than 3x the bytes that
                                 arrived from it (`Spec.AmpMon.WireSt`, the observable statement of the property).
-/
open Uquic.Oracle Uquic.Spec.AmpMon

structure Client where
  idx : Nat
  gate : Bool
  hold : Bool
  spoof : Bool
  released : Bool := false
  delivered : Bool := false

structure RSt where
  /-- per address name (x0, y0, …) -/
  wires : List (String × WireSt) := []
  /-- token number ↦ address a Retry carried it to -/
  tokens : List (Nat × String) := []
  clients : List Client := []
  elapsedMs : Nat := 0
  wantsRetry : Bool := true
  /-- a gated client's connection may exist and be paused -/
  pausedConn : Bool := false

def wireOf (s : RSt) (a : String) : WireSt := (s.wires.lookup a).getD {}
def setWire (s : RSt) (a : String) (w : WireSt) : RSt :=
  { s with wires := (a, w) :: s.wires.filter (·.1 != a) }

inductive Ev
  | inn (n : Nat) (hs : Bool) (tok : Option (Option Nat)) (addr : String)
  | retry (n : Nat) (k : Nat) (addr : String)
  | out (n : Nat) (addr : String)

def digits (s : String) : String := String.ofList (s.toList.takeWhile Char.isDigit)

def parseEv (e : String) : Option Ev :=
  match e.splitOn "@" with
  | [body, addr] =>
    if body.startsWith "i" then
      let rest := (body.drop 1).toString
      let n := natOf (digits rest)
      let after := (rest.drop (digits rest).length).toString
      let hs := after.startsWith "H"
      let after := if hs then (after.drop 1).toString else after
      let tok : Option (Option Nat) :=
        if after.startsWith "T?" then some none
        else if after.startsWith "T" then some (some (natOf (digits (after.drop 1).toString)))
        else none
      some (.inn n hs tok addr)
    else if body.startsWith "r" then
      match ((body.drop 1).toString).splitOn "#" with
      | [n, k] => some (.retry (natOf n) (natOf k) addr)
      | _ => none
    else if body.startsWith "o" then some (.out (natOf (body.drop 1).toString) addr)
    else none
  | _ => none

def step (s : RSt) (op impl : String) : RSt × StepOut := Id.run do
  let w := words op
  let (headPart, tailPart) := match impl.splitOn " | " with
    | [a] => (a, "")
    | a :: rest => (a, " | ".intercalate rest)
    | [] => ("", "")
  let iw := words headPart
  let okOp := iw.headD "" == "ok"
  let evs := match iw.findSome? (fun x => if x.startsWith "ev=" then some (x.drop 3).toString else none) with
    | some "-" => []
    | some e => (e.splitOn ",").filterMap parseEv
    | none => []
  let mut s := s
  let mut tags : List String := []
  let mut fails : List (String × String × String) := []
  match w with
  | ["start", long, wr] =>
    if okOp then
      s := { s with wantsRetry := wr == "1" }
      tags := tags ++ [if long == "1" then "start:long" else "start:short", if wr == "1" then "start:retry" else "start:noretry"]
  | ["dial", c, g, h, sp] =>
    if okOp && !(s.clients.any (·.idx == natOf c)) then
      s := { s with clients := s.clients ++ [{ idx := natOf c, gate := g == "1", hold := h == "1", spoof := h == "1" && sp == "1" }] }
      tags := tags ++ [s!"dial:{if g == "1" then "gate" else "free"}{if h == "1" then (if sp == "1" then "+hold+spoof" else "+hold") else ""}"]
  | ["deliver", c] =>
    if okOp then
      s := { s with clients := s.clients.map fun x => if x.idx == natOf c then { x with delivered := true } else x }
      tags := tags ++ [if s.wantsRetry then "deliver" else "deliver:noretry-wanted"]
  | ["release", c] =>
    if okOp then
      s := { s with clients := s.clients.map fun x => if x.idx == natOf c then { x with released := true } else x }
      tags := tags ++ ["release"]
  | ["wantretry", b] => if okOp then s := { s with wantsRetry := b == "1" }; tags := tags ++ [s!"wantretry:{b}"]
  | ["run", ms] => if okOp then s := { s with elapsedMs := s.elapsedMs + natOf ms }
  | _ => pure ()
  -- the wire, per address
  for ev in evs do
    match ev with
    | .inn n hs tok addr =>
      let mut ws := (wireOf s addr).step (.inn n)
      let provedByToken := match tok with
        | some (some k) => (s.tokens.lookup k) == some addr
        | _ => false
      if (hs || provedByToken) && !ws.validated then
        ws := ws.step .validate
        tags := tags ++ [if hs then "validated:handshake" else "validated:token"]
      match tok with
      | some (some k) =>
        if (s.tokens.lookup k) != some addr then tags := tags ++ ["token-from-other-address"]
        -- a token reaches the server while an earlier client's handshake is paused after its connection was made
        if s.clients.any (fun c => c.gate && !c.released) then tags := tags ++ ["token-while-handshake-paused"]
      | _ => pure ()
      s := setWire s addr ws
    | .retry n k addr =>
      let before := wireOf s addr
      if !before.validated && !belowLimit before.outB before.inB then
        fails := fails ++ [("wire_send_at_limit_per_address", "-", s!"a Retry of {n} bytes written to {addr} with sent={before.outB} received={before.inB}")]
      s := setWire { s with tokens := (k, addr) :: s.tokens.filter (·.1 != k) } addr (before.step (.out n))
      tags := tags ++ ["retry-sent"]
    | .out n addr =>
      let before := wireOf s addr
      if !before.validated then
        if belowLimit before.outB before.inB then
          tags := tags ++ ["out:unvalidated-below"]
        else
          fails := fails ++ [("wire_send_at_limit_per_address", "-",
            s!"{n} bytes written to {addr} with sent={before.outB} received={before.inB} (3x = {3 * before.inB}) although that address never proved itself (no Handshake packet from it, no token a Retry carried to it)")]
      s := setWire s addr (before.step (.out n))
  -- the clients' view
  for cw in words tailPart do
    match cw.splitOn "=" with
    | [name, v] =>
      if name.startsWith "c" then
        let idx := natOf (name.drop 1).toString
        match v.splitOn ",", s.clients.find? (·.idx == idx) with
        | [hs, seenO, seenR, wireO, wireR], some c =>
          if seenO != "-" then
            tags := tags ++ [if wireR != "-" then "params:after-retry" else "params:no-retry"]
            if wireO != "-" && !c.spoof then
              let expectR := if wireR == "-" then "none" else wireR
              if seenO != wireO || seenR != expectR then
                fails := fails ++ [("retry_cids_at_use", "-",
                  s!"client {idx} received original_destination_connection_id={seenO} retry_source_connection_id={seenR}; on the wire its first Initial went to {wireO} and the Retry it got came from {expectR}")]
          if hs == "ok" then tags := tags ++ ["hs:ok"]
          if hs.startsWith "err" then
            tags := tags ++ ["hs:err"]
            if !c.spoof && s.elapsedMs ≤ 4000 then
              fails := fails ++ [("retry_handshake_fails", "-", s!"client {idx} (its datagrams reached the server from its own address) failed its handshake with {hs} after {s.elapsedMs} ms")]
        | _, _ => pure ()
    | _ => pure ()
  return (s, { model := impl, tags := tags, fails := fails })

def main : IO Unit := run { init := ({} : RSt), step := step }
