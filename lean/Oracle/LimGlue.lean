import Uquic.Oracle.Frame
import Uquic.Spec.LimitsMon
import Uquic.Model.UQuic.LimitsGlue

/-!
Oracle of the C12 glue driver `limglue`: one real client connection per case (hook-built, no network), the
driver plays the peer and the run loop. The MODEL side re-executes `Uquic.Model.UQuic.LimitsGlue` on the ops;
the MONITORS judge what the implementation printed against ghost state built from the ops and from the credit
the implementation itself granted (the MAX_STREAM_DATA / MAX_DATA it printed):

* `no_local_error_within_advertised` — every frame of the peer stayed within what it was told (advertised
  transport parameters, later credit, the advertised active_connection_id_limit counted after the whole frame)
  and the client still raised a local error;
* `stream_limits_exactly_advertised` — the peer opened a stream beyond the advertised count and was not refused;
* `idle_deadline_covers_advertised` — the idle deadline lies before (last packet received + the timeout the peer
  may count on);
* `credit_renewed` — the peer has used up its credit, the application has read everything, a packet leaves, and
  it carries no higher limit;
* `stream_limit_never_revoked` — a MAX_STREAMS frame that does not raise what the peer was already told (the
  advertised initial_max_streams_*, earlier MAX_STREAMS): the enforced limit moved backwards; the peer's next
  stream within the highest limit it was ever told is then judged by `no_local_error_within_advertised`;
* `stream_credit_renewed` — the peer has opened every stream it was allowed, all of them are finished by both
  sides, a packet leaves, and it carries no higher MAX_STREAMS.
-/

open Uquic.Oracle Uquic.Gen Uquic.Model.UQuic.Limits Uquic.Model.UQuic.LimitsGlue Uquic.Spec.LimitsMon

abbrev Fail := String × String × String

/-- ghost state of the monitors -/
structure Ghost where
  alive : Bool := false
  adv : Adv := { imd := 0, bl := 0, br := 0, uni := 0, imsb := 0, imsu := 0, acil := 0, mdfs := 0, mit := 0 }
  /-- the timeout the peer may count on, µs (none: no timeout promised) -/
  promised : Option Int := none
  lastRecvUs : Int := 0
  -- connection IDs as the peer counts them
  issued : List Nat := [0]
  rpt : Nat := 0
  -- streams / credit
  opened : Int := 0
  highest : List (Int × Int) := []
  read : List (Int × Int) := []
  credit : List (Int × Int) := []
  connCredit : Int := 0
  /-- the highest stream count the peer was told, per kind (advertised, then MAX_STREAMS the client printed) -/
  toldB : Int := 0
  toldU : Int := 0
  /-- the highest stream number the peer opened, per kind -/
  openedB : Int := 0
  openedU : Int := 0
  /-- a FIN was sent: streams may complete, the enforced limit may run ahead of the MAX_STREAMS not yet packed,
      so "beyond the told count ⇒ refused" is no longer judged -/
  finSeen : Bool := false
  fins : List (Int × Int) := []
  /-- streams whose EOF the application read / whose send side it closed -/
  eofs : List Int := []
  closedSend : List Int := []
  /-- streams the application stopped reading -/
  stops : List Int := []
  /-- the peer left what it was told: later local errors are its own fault -/
  peerLeft : Bool := false

structure St where
  haveSpec : Bool := false
  plain : Bool := false
  mWire : List (String × Int) := []
  gWire : List (String × Int) := []
  user : Config := {}
  g : Option Glue := none
  /-- the model stopped predicting (a case outside the model: echo) -/
  dead : Bool := false
  lastT : Int := 0
  gh : Ghost := {}

def St.pc (s : St) : Config := populateConfig s.user
def St.modelWire (s : St) : List (String × Int) := if s.plain then plainWire (plainParams s.pc) else s.mWire
def St.ghostWire (s : St) : List (String × Int) := if s.plain then plainWire (plainParams s.pc) else s.gWire

def cidSet (plain : Bool) (wire : List (String × Int)) : Int :=
  if plain then 0 else (populate (toParamList wire)).activeConnectionIDLimit
def effConfig (plain : Bool) (user : Config) (wire : List (String × Int)) : Config :=
  if plain then populateConfig user else specConfig user (populate (toParamList wire))
def effAdv (plain : Bool) (wire : List (String × Int)) : Option OwnParams :=
  if plain then none else specStreamAdv (populate (toParamList wire))

def fieldOf (body key : String) : Option String :=
  (words body).findSome? fun w => if w.startsWith (key ++ "=") then some (w.drop (key.length + 1)).toString else none

def intField (body key : String) : Option Int := (fieldOf body key).bind (·.toInt?)

def lookupI (l : List (Int × Int)) (k : Int) : Option Int := (l.find? (·.1 == k)).map (·.2)
def setI (l : List (Int × Int)) (k v : Int) : List (Int × Int) :=
  if l.any (·.1 == k) then l.map fun e => if e.1 == k then (k, v) else e else l ++ [(k, v)]

def parseFrame (w : String) : Option Frame :=
  match w.splitOn ":" with
  | ["ping"] => some .ping
  | ["ncid", a, b] => do some (.ncid (← a.toNat?) (← b.toNat?))
  | ["strm", a, b, c] => do some (.strm (← a.toInt?) (← b.toInt?) (← c.toInt?) false)
  | ["strm", a, b, c, "fin"] => do some (.strm (← a.toInt?) (← b.toInt?) (← c.toInt?) true)
  | ["dgram", a] => do some (.dgram (← a.toInt?))
  | _ => none

def parseFrames (ws : List String) : Option (List Frame) :=
  (ws.filter (· != "pad")).mapM parseFrame

def fmtList (l : List String) : String := if l.isEmpty then "-" else ",".intercalate l

def sortNat (l : List Nat) : List Nat := (l.toArray.qsort (· < ·)).toList
def sortPairs (l : List (Int × Int)) : List (Int × Int) := (l.toArray.qsort (fun a b => a.1 < b.1)).toList

/-- `a:b,c:d` -/
def parsePairs (s : String) : List (Int × Int) :=
  if s == "-" then [] else
  (s.splitOn ",").filterMap fun p => match p.splitOn ":" with
    | [a, b] => do some ((← a.toInt?), (← b.toInt?))
    | _ => none

/-! ## ghost: is a frame within what the peer was told? -/

def Ghost.streamCredit (gh : Ghost) (sid : Int) : Int :=
  let init := match sidKind sid with
    | .clientBidi => gh.adv.bl | .serverBidi => gh.adv.br | .serverUni => gh.adv.uni | .clientUni => 0
  max init ((lookupI gh.credit sid).getD 0)

def Ghost.total (gh : Ghost) : Int := gh.highest.foldl (fun acc e => acc + e.2) 0
/-- what the application has consumed: bytes read, and everything of a stream it stopped reading once the final
    size is known (the unread rest is handed back to the connection window) -/
def Ghost.totalRead (gh : Ghost) : Int :=
  gh.highest.foldl (fun acc e =>
    acc + (if gh.stops.contains e.1 && (lookupI gh.fins e.1).isSome then e.2 else (lookupI gh.read e.1).getD 0)) 0

inductive Judged
  | within (gh : Ghost)
  /-- beyond the advertised stream count only: must be refused with STREAM_LIMIT_ERROR -/
  | overStreams (num adv : Int)
  | outside
  /-- the monitors do not judge this frame -/
  | unknown

def Ghost.judge (gh : Ghost) : Frame → Judged
  | .ping => .within gh
  | .ncid seq rpt =>
    if rpt > seq then .outside else
    let issued := if gh.issued.contains seq then gh.issued else gh.issued ++ [seq]
    let r := max gh.rpt rpt
    let active := (issued.filter (· ≥ r)).length
    if (active : Int) ≤ gh.adv.acil then .within { gh with issued := issued, rpt := r } else .outside
  | .strm sid off len fin =>
    let kind := sidKind sid
    if kind == .clientUni then .outside else
    if kind == .clientBidi && sidNum sid > gh.opened then .outside else
    let lim := if kind == .serverBidi then gh.toldB else gh.toldU
    let cur := (lookupI gh.highest sid).getD 0
    let hi := max cur (off + len)
    -- the final size: nothing beyond it, one value only, not below what was already sent (RFC 9000 4.5)
    let finOk := match lookupI gh.fins sid with
      | some f => off + len ≤ f && (!fin || off + len == f)
      | none => !fin || (off + len ≥ cur && len > 0)
    let dataOk := hi ≤ gh.streamCredit sid && gh.total - cur + hi ≤ gh.connCredit && finOk
    if kind != .clientBidi && sidNum sid > lim then
      (if gh.finSeen then .unknown else if dataOk then .overStreams (sidNum sid) lim else .outside)
    else if dataOk then
      let gh := { gh with highest := setI gh.highest sid hi }
      let gh := if fin then { gh with fins := setI gh.fins sid (off + len), finSeen := true } else gh
      .within (match kind with
        | .serverBidi => { gh with openedB := max gh.openedB (sidNum sid) }
        | .serverUni => { gh with openedU := max gh.openedU (sidNum sid) }
        | _ => gh)
    else .outside
  | .dgram len =>
    if gh.adv.mdfs > 0 && len + 3 ≤ min gh.adv.mdfs 1200 then .within gh else .unknown

/-- judge a packet: frames in order. Returns the ghost after the frames that were within, and what the FIRST frame
    outside says (none: all within) -/
def Ghost.judgeAll (gh : Ghost) : List Frame → Ghost × Option Judged
  | [] => (gh, none)
  | f :: fs =>
    match gh.judge f with
    | .within gh' => gh'.judgeAll fs
    | j => (gh, some j)

def idleMonitor (gh : Ghost) (what impl : String) : List Fail :=
  match gh.promised, intField impl "dl" with
  | some p, some dl =>
    if dl < gh.lastRecvUs + p then
      [("idle_deadline_covers_advertised", "-",
        s!"{what}: the idle deadline {dl} µs lies before last packet received ({gh.lastRecvUs} µs) + the timeout the peer may count on ({p} µs)")]
    else []
  | _, _ => []

def fmtAdv (a : Adv) : String :=
  s!"imd={a.imd} imsdbl={a.bl} imsdbr={a.br} imsdu={a.uni} imsb={a.imsb} imsu={a.imsu} acil={a.acil} mdfs={a.mdfs} mit={a.mit}"

def pktMonitors (gh : Ghost) (tUs : Int) (fs : List Frame) (impl : String) : Ghost × List Fail :=
  if !gh.alive then (gh, []) else
  let gh := { gh with lastRecvUs := tUs }
  let (gh', first) := gh.judgeAll fs
  let isErr := !(impl.startsWith "ok")
  match first with
  | none =>
    if isErr then
      (if gh.peerLeft then ({ gh' with alive := false }, []) else
       ({ gh' with alive := false },
        [("no_local_error_within_advertised", "-", s!"every frame was within what the peer was told, the client answered {impl} (advertised {fmtAdv gh.adv})")]))
    else (gh', idleMonitor gh' "packet received" impl)
  | some (.overStreams num adv) =>
    if isErr then ({ gh' with alive := false }, [])
    else ({ gh' with peerLeft := true },
          [("stream_limits_exactly_advertised", "-", s!"the peer opened stream number {num} of its kind, {adv} were advertised, and was not refused: {impl}")])
  | some _ =>
    if isErr then ({ gh' with alive := false }, []) else ({ gh' with peerLeft := true }, idleMonitor gh' "packet received" impl)

def packMonitors (gh : Ghost) (impl : String) : Ghost × List Fail := Id.run do
  if !gh.alive then return (gh, [])
  let md := (intField impl "md").getD 0
  let msd := parsePairs ((fieldOf impl "msd").getD "-")
  let ms := (fieldOf impl "ms").getD "-"
  let mut fails : List Fail := []
  -- credit_renewed: blocked and drained ⇒ a higher limit leaves with this packet
  if !gh.peerLeft then
    for (sid, hi) in gh.highest do
      let cred := gh.streamCredit sid
      -- (a stream whose final size is known needs no further credit, one the application stopped reading gets none)
      if hi > 0 && hi == cred && (lookupI gh.read sid).getD 0 == hi && (lookupI gh.fins sid).isNone && !gh.stops.contains sid then
        match lookupI msd sid with
        | some v =>
          if v ≤ cred then
            fails := fails ++ [("credit_renewed", "-", s!"stream {sid}: the peer used up its credit {cred}, everything was read, MAX_STREAM_DATA {v} does not raise it")]
        | none =>
          fails := fails ++ [("credit_renewed", "-", s!"stream {sid}: the peer used up its credit {cred}, everything was read, and no MAX_STREAM_DATA leaves")]
    if gh.total > 0 && gh.total == gh.connCredit && gh.totalRead == gh.total && md ≤ gh.connCredit then
      fails := fails ++ [("credit_renewed", "-", s!"connection: the peer used up its credit {gh.connCredit}, everything was read, MAX_DATA {md} does not raise it")]
  let mut gh := gh
  -- MAX_STREAMS: `b:<n>` / `u:<n>`
  let msVals : List (Bool × Int) := if ms == "-" then [] else
    (ms.splitOn ",").filterMap fun p => match p.splitOn ":" with
      | ["b", n] => n.toInt?.map fun v => (false, v)
      | ["u", n] => n.toInt?.map fun v => (true, v)
      | _ => none
  let maxOf (uni : Bool) : Int := (msVals.filter (·.1 == uni)).foldl (fun acc e => max acc e.2) 0
  for uni in [false, true] do
    let told := if uni then gh.toldU else gh.toldB
    let kind := if uni then "unidirectional" else "bidirectional"
    -- stream_limit_never_revoked: every MAX_STREAMS raises what the peer was told
    for (_, v) in msVals.filter (·.1 == uni) do
      if v ≤ told then
        fails := fails ++ [("stream_limit_never_revoked", "-",
          s!"MAX_STREAMS ({kind}) {v} does not raise the {told} the peer was already told (initial_max_streams / earlier MAX_STREAMS): the enforced stream limit moved backwards")]
    -- stream_credit_renewed: every stream the peer was allowed is open and finished ⇒ a higher limit leaves
    if !gh.peerLeft then
      let opened := if uni then gh.openedU else gh.openedB
      let first : Int := if uni then 3 else 1
      let allDone := (List.range opened.toNat).all fun i =>
        let sid := first + 4 * (i : Int)
        (gh.eofs.contains sid || (gh.stops.contains sid && (lookupI gh.fins sid).isSome)) && (uni || gh.closedSend.contains sid)
      if opened > 0 && opened == told && allDone && maxOf uni ≤ told then
        fails := fails ++ [("stream_credit_renewed", "-",
          s!"the peer opened all {told} {kind} streams it was told, every one is finished and accepted, and no higher MAX_STREAMS leaves ({ms})")]
    if maxOf uni > told then
      gh := if uni then { gh with toldU := maxOf uni } else { gh with toldB := maxOf uni }
  for (sid, v) in msd do
    if v > (lookupI gh.credit sid).getD 0 then gh := { gh with credit := setI gh.credit sid v }
  if md > gh.connCredit then gh := { gh with connCredit := md }
  return (gh, fails)

/-! ## the step function -/

def clock (s : St) (t : Int) : St × Int :=
  let t := if t < s.lastT then s.lastT else t
  ({ s with lastT := t }, t * 1000)

def fmtPack (o : PackOut) : String :=
  let msd := (sortPairs o.maxStreamData).map fun (a, b) => s!"{a}:{b}"
  -- (the driver sorts the strings)
  let ms := ((o.maxStreams.map fun (u, n) => s!"{if u then "u" else "b"}:{n}").toArray.qsort (· < ·)).toList
  s!"md={o.maxData} msd={fmtList msd} ms={fmtList ms} ret={fmtList ((sortNat o.retire).map toString)}"

def step (s : St) (op impl : String) : St × StepOut :=
  match words op with
  | "spec" :: base :: edits =>
    if base == "plain" then
      ({ s with haveSpec := true, plain := true, mWire := [], gWire := [], g := none, dead := false, gh := {} },
       { model := "plain", tags := ["spec:plain"] })
    else
      match (builtin base).bind (applyEdits · edits) with
      | none => ({ s with haveSpec := false, g := none }, { model := "badspec", tags := ["spec:bad"] })
      | some sl =>
        let w := sl.wire
        let gw := (parseKV (words impl)).filter (·.1 != "n")
        ({ s with haveSpec := true, plain := false, mWire := w, gWire := gw, g := none, dead := false, gh := {} },
         { model := fmtListing w (w.length + sl.others), tags := [if edits.isEmpty then "spec:builtin" else "spec:derived"] })
  | "cfg" :: kvs =>
    let c := cfgOf kvs
    ({ s with user := c }, { model := "ok", tags := [if c == {} then "cfg:default" else "cfg:custom"] })
  | "new" :: kvs =>
    if !s.haveSpec then (s, { model := "skip" }) else
    let pmit := (lookup (parseKV kvs) "pmit").getD 0
    let cfg := effConfig s.plain s.user s.mWire
    let adv := effAdv s.plain s.mWire
    let enf := enforced cfg adv (cidSet s.plain s.mWire)
    let idleMs := if pmit > 0 then min enf.idle pmit else enf.idle
    let pto3 := (intField impl "pto3").getD 0
    let g := Glue.new enf cfg adv (cidSet s.plain s.mWire).toNat (idleMs * 1000) pto3
    let a := advOf s.ghostWire
    let gh : Ghost := { alive := impl.startsWith "ok", adv := a,
                        -- (a spec that lists no max_idle_timeout promises nothing: the hypothesis of the theorems)
                        promised := if a.mit > 0 then (promisedIdle a.mit pmit).map (· * 1000) else none,
                        connCredit := a.imd, toldB := a.imsb, toldU := a.imsu }
    let s' := { s with g := some g, dead := false, lastT := 0, gh := gh }
    (s', { model := s!"ok idle={idleMs} pto3={pto3} dl={g.deadline}",
           tags := ["new", if pmit == 0 then "new:peer-no-idle" else if pmit < enf.idle then "new:peer-idle-smaller" else "new:own-idle"],
           fails := idleMonitor gh "handshake" impl })
  | _ =>
    match s.g with
    | none => (s, { model := "skip" })
    | some g =>
      if g.closed && !s.dead then
        (s, { model := "closed", tags := ["closed"] })
      else
      match words op with
      | "pkt" :: t :: fws =>
        match t.toInt?, parseFrames fws with
        | some t, some fs =>
          let (s1, tUs) := clock s t
          let (gh', fails) := pktMonitors s.gh tUs fs impl
          let s1 := { s1 with gh := gh' }
          if s.dead then (s1, { model := impl, tags := ["gray"], fails := fails }) else
          let r := g.packet tUs fs
          match r.2.1 with
          | .ok => ({ s1 with g := some r.1 }, { model := s!"ok dl={r.1.deadline}", tags := "pkt" :: r.2.2, fails := fails })
          | .err e => ({ s1 with g := some r.1 }, { model := e, tags := "pkt:err" :: r.2.2, fails := fails })
          | .gray => ({ s1 with g := some r.1, dead := true }, { model := impl, tags := "gray" :: r.2.2, fails := fails })
        | _, _ => (s, { model := "bad-op" })
      | ["snd", t, ae] =>
        match t.toInt? with
        | none => (s, { model := "bad-op" })
        | some t =>
          let (s1, tUs) := clock s t
          let g' := g.sentPacket tUs (ae == "ae")
          let fails := if s.gh.alive then idleMonitor s.gh "packet sent" impl else []
          if s.dead then (s1, { model := impl, tags := ["gray"], fails := fails }) else
          let tag := if ae == "ae" then (if g.idle.firstAE.isNone then "snd:first-ae" else "snd:later-ae") else "snd:na"
          ({ s1 with g := some g' }, { model := s!"dl={g'.deadline}", tags := [tag], fails := fails })
      | ["open"] =>
        let r := g.openBidi
        let gh := match intField impl "sid" with
          | some _ => { s.gh with opened := s.gh.opened + 1 }
          | none => s.gh
        if s.dead then ({ s with gh := gh }, { model := impl, tags := ["gray"] }) else
        ({ s with g := some r.1, gh := gh }, { model := s!"sid={r.2}", tags := ["open"] })
      | ["rd", sid, n] =>
        match sid.toInt?, n.toInt? with
        | some sid, some n =>
          let gh := match intField impl "n" with
            | some k => { s.gh with read := setI s.gh.read sid ((lookupI s.gh.read sid).getD 0 + k) }
            | none => s.gh
          let gh := if (words impl).contains "eof" && !gh.eofs.contains sid then { gh with eofs := gh.eofs ++ [sid] } else gh
          if s.dead then ({ s with gh := gh }, { model := impl, tags := ["gray"] }) else
          let r := g.read sid n
          match r.2 with
          | none => ({ s with gh := gh }, { model := "nostream", tags := ["rd:nostream"] })
          | some (k, eof) =>
            let completed := r.1.life.ms.length > g.life.ms.length
            ({ s with g := some r.1, gh := gh },
             { model := if eof then s!"n={k} eof" else s!"n={k}",
               tags := [if r.1.queued.contains sid then "rd:queued-update" else "rd"] ++ (if eof then ["rd:eof"] else []) ++
                       (if completed then ["life:completed-by-read"] else []) })
        | _, _ => (s, { model := "bad-op" })
      | ["acc", k] =>
        if k != "b" && k != "u" then (s, { model := "bad-op" }) else
        if s.dead then (s, { model := impl, tags := ["gray"] }) else
        let r := g.acceptNext (k == "u")
        match r.2 with
        | some sid => ({ s with g := some r.1 }, { model := s!"sid={sid}", tags := ["acc"] })
        | none => ({ s with g := some r.1 }, { model := "none", tags := ["acc:none"] })
      | ["stop", sid] =>
        match sid.toInt? with
        | none => (s, { model := "bad-op" })
        | some sid =>
          let gh := if impl == "ok" && !s.gh.stops.contains sid then { s.gh with stops := s.gh.stops ++ [sid] } else s.gh
          if s.dead then ({ s with gh := gh }, { model := impl, tags := ["gray"] }) else
          let r := g.stopRead sid
          let completed := r.1.life.recvDone.length > g.life.recvDone.length
          ({ s with g := some r.1, gh := gh },
           { model := if r.2 then "ok" else "nostream",
             tags := [if r.2 then "stop" else "stop:nostream"] ++ (if completed then ["life:abandoned-at-stop"] else []) })
      | ["cls", sid] =>
        match sid.toInt? with
        | none => (s, { model := "bad-op" })
        | some sid =>
          let gh := if impl == "ok" && !s.gh.closedSend.contains sid then { s.gh with closedSend := s.gh.closedSend ++ [sid] } else s.gh
          if s.dead then ({ s with gh := gh }, { model := impl, tags := ["gray"] }) else
          let r := g.closeSend sid
          ({ s with g := some r.1, gh := gh }, { model := if r.2 then "ok" else "nostream", tags := [if r.2 then "cls" else "cls:nostream"] })
      | ["pack", t] =>
        match t.toInt? with
        | none => (s, { model := "bad-op" })
        | some t =>
          let (s1, tUs) := clock s t
          let (gh', fails) := packMonitors s.gh impl
          let s1 := { s1 with gh := gh' }
          if s.dead then (s1, { model := impl, tags := ["gray"], fails := fails }) else
          let r := g.pack tUs
          if r.2.gray then ({ s1 with g := some r.1, dead := true }, { model := impl, tags := ["gray", "pack:near-threshold"], fails := fails })
          else
            let grew := r.1.streams.any fun e => match g.stream? e.1 with | some o => e.2.size > o.size | none => false
            let tags := ["pack"] ++ (if r.2.maxData > 0 then ["pack:max-data"] else []) ++
              (if !r.2.maxStreamData.isEmpty then ["pack:max-stream-data"] else []) ++
              (if !r.2.retire.isEmpty then ["pack:retire"] else []) ++ (if grew then ["pack:window-grew"] else []) ++
              (if !r.2.maxStreams.isEmpty then ["pack:max-streams"] else []) ++
              (if r.1.life.inB.nextAccept < r.1.life.inB.nextOpen || r.1.life.inU.nextAccept < r.1.life.inU.nextOpen
               then (if !r.2.maxStreams.isEmpty then ["life:max-streams-while-unaccepted"] else ["life:unaccepted"]) else [])
            ({ s1 with g := some r.1 }, { model := fmtPack r.2, tags := tags, fails := fails })
      | _ => (s, { model := "bad-op" })

def main : IO Unit := run { init := ({} : St), step := step }
