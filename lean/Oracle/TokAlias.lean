import Uquic.Oracle.Frame
import Uquic.Model.UQuic.TokenHeap

/-!
Oracle of the `tokalias` driver (property C10, memory side of the synthesised token).

One op = one dial's worth of token handling on ONE spec value (`QUICSpec.UpdateConfig` on a fresh Config, then
`TokenStore.Pop`), or a second `Pop` on the same store, or a `Put`.  The implementation reports the new token,
what every EARLIER token reads now, how many random bytes were drawn and the caller's whole buffer (the bytes
in front of the prefix, the prefix, its spare capacity).

* MODEL: `Model.TokenHeap` — the heap model the theorems of `Props.C10Alias` are about — is run on the op
  sequence and its prediction compared as text (`DIFF`).
* MONITORS judge the implementation's output against a ghost computed from the op lines alone, value level
  (no heap): the prefix bytes and the scripted random tail of every `pop` so far, and the buffer as built.
-/

open Uquic.Oracle Uquic.Model.Initial Uquic.Model.TokenHeap

def hexVal (c : Char) : Nat :=
  if '0' ≤ c ∧ c ≤ '9' then c.toNat - '0'.toNat
  else if 'a' ≤ c ∧ c ≤ 'f' then c.toNat - 'a'.toNat + 10
  else if 'A' ≤ c ∧ c ≤ 'F' then c.toNat - 'A'.toNat + 10 else 0

def hexBytes (s : String) : List Nat :=
  if s == "-" then [] else
  let rec go : List Char → List Nat → List Nat
    | a :: b :: rest, acc => go rest ((hexVal a * 16 + hexVal b) :: acc)
    | _, acc => acc.reverse
  go s.toList []

def hexDigit (n : Nat) : Char := if n < 10 then Char.ofNat ('0'.toNat + n) else Char.ofNat ('a'.toNat + n - 10)

def fmtBytes (b : List Nat) : String :=
  if b.isEmpty then "-" else String.ofList (b.flatMap fun x => [hexDigit (x / 16), hexDigit (x % 16)])

def fmtList (l : List (List Nat)) : String := if l.isEmpty then "-" else ".".intercalate (l.map fmtBytes)

def kvOf (ws : List String) (key : String) : String :=
  (ws.findSome? fun w => if w.startsWith (key ++ "=") then some (w.drop (key.length + 1)).toString else none).getD ""

def canary : Nat := 0xc5

structure OSt where
  key : String := ""
  /-- model: heap and tokens -/
  st : St := { heap := [[]] }
  pre : Slice := { arr := 0, off := 0, len := 0, cap := 0 }
  hasStore : Bool := false
  hasLast : Bool := false
  /-- ghost, from the op lines only: the caller's buffer as built and the value of every token popped so far -/
  gbuf : List Nat := []
  gtoks : List (List Nat) := []

def step (o : OSt) (op impl : String) : OSt × StepOut :=
  let ws := words op
  let kind := ws.headD ""
  if kind ≠ "pop" ∧ kind ≠ "repop" ∧ kind ≠ "put" then (o, { model := "bad-op" }) else
  let preS := kvOf ws "pre"
  let p := hexBytes preS
  let poff := natOf (kvOf ws "poff")
  let slk := natOf (kvOf ws "slk")
  let len := natOf (kvOf ws "len")
  if poff > 256 ∨ slk > 256 ∨ len > 200 ∨ p.length > 200 then (o, { model := "bad-op out of range" }) else
  let key := s!"{preS}/{poff}/{slk}/{len}"
  -- a new spec value: new caller buffer, no tokens
  let o : OSt := if o.key == key then o else
    let buf := List.replicate poff canary ++ p ++ List.replicate slk canary
    { key := key, st := { heap := [buf] }, pre := { arr := 0, off := poff, len := p.length, cap := p.length + slk },
      gbuf := buf }
  let script := (hexBytes (kvOf ws "script")).toArray
  let s : Nat → Nat := fun k => if k < script.size then script[k]! else 0xee
  let tokLen := max len p.length
  let iw := words impl
  -- ---------------- monitors on what the implementation printed (ghost: op lines only)
  let monitors (newTok : Option (List Nat)) : List (String × String × String) :=
    let tokS := kvOf iw "tok"
    let prevS := kvOf iw "prev"
    let bufS := kvOf iw "buf"
    (match newTok with
     | some t =>
       (if tokS ≠ fmtBytes t then [("token_as_specified", "-", s!"token {tokS}, specified {fmtBytes t} (prefix {fmtBytes p}, length {tokLen})")] else []) ++
       (if tokLen - p.length ≥ 4 ∧ o.gtoks.any (fun g => fmtBytes g == tokS && g ≠ t) then
          [("token_fresh_per_dial", "-", s!"token {tokS} repeats an earlier dial's although the random source supplied other bytes")] else [])
     | none => []) ++
    (if prevS ≠ fmtList o.gtoks then
       [("token_stable_across_dials", "-", s!"tokens of earlier dials now read {prevS}, they were made as {fmtList o.gtoks}")] else []) ++
    (if bufS ≠ fmtBytes o.gbuf then
       [("spec_buffers_untouched", "-", s!"the caller's buffer around ClientTokenPrefix reads {bufS}, it was {fmtBytes o.gbuf}")] else [])
  let cfgTags := [if p.isEmpty then (if poff + slk > 0 then "pre:empty-window" else "pre:nil") else "pre:some",
                  if slk = 0 then "slack:none" else if slk ≥ tokLen - p.length then "slack:fits-tail" else "slack:short",
                  if poff > 0 then "poff:some" else "poff:0",
                  if len < p.length then "len:lt-pre" else if len = p.length then "len:eq-pre" else "len:gt-pre"]
  let render (st : St) (tok : String) (rd : Nat) (prev : List (Slice × List Nat)) : String :=
    s!"tok={tok} rd={rd} prev={fmtList (prev.map fun t => bytesOf st.heap t.1)} buf={fmtBytes (readArr st.heap 0)}"
  if kind == "put" then
    if !o.hasStore ∨ !o.hasLast then (o, { model := "skip", tags := ["put:skip"] })
    else (o, { model := render o.st "put" 0 o.st.toks, tags := ["put"] ++ cfgTags, fails := monitors none })
  else if kind == "repop" ∧ !o.hasStore then (o, { model := "skip", tags := ["repop:skip"] })
  else if tokLen = 0 then
    -- getTokenStore returns nil: the Config keeps its (nil) store
    ({ o with hasStore := false }, { model := render o.st "nostore" 0 o.st.toks, tags := ["pop:nostore"] ++ cfgTags, fails := monitors none })
  else
    let st' := dial o.pre len o.st { s := s, off := 0 }
    let newSl := (st'.toks.getLast?.map (·.1)).getD default
    let model := render st' (fmtBytes (bytesOf st'.heap newSl)) (tokLen - p.length) o.st.toks
    let expected := p ++ takeStream s 0 (tokLen - p.length)
    let fails := monitors (some expected)
    ({ o with st := st', hasStore := true, hasLast := true, gtoks := o.gtoks ++ [expected] },
     { model := model, fails := fails,
       tags := [if kind == "repop" then "repop" else if o.gtoks.isEmpty then "pop:first" else "pop:later",
                if tokLen = p.length then "tail:none" else "tail:random", s!"toks:{min o.gtoks.length 4}"] ++ cfgTags })

def main : IO Unit := run { init := ({} : OSt), step := step }
