import Uquic.Oracle.Frame
import Uquic.Model.Crypto.PN
import Uquic.Spec.PNMon

open Uquic.Oracle Uquic.Model.PN Uquic.Spec.PNMon

inductive Gen where
  | none
  | seq (g : SeqGen)
  | skip (g : SkipGen)

structure St where
  gen : Gen := .none
  g : GenGhost := {}

def implField (impl : String) (key : String) : Option String :=
  (words impl).findSome? fun w => if w.startsWith key then some (w.drop key.length).toString else none

def fmtSkipped (s : Bool) (pn : Int) : String := if s then s!"{pn - 1}" else "-"

def step (s : St) (op impl : String) : St × StepOut :=
  let w := words op
  let iw := words impl
  match w with
  | ["pndec", len, largest, trunc] =>
    let len := natOf len; let largest := intOf largest; let trunc := intOf trunc
    let r := decodePN len largest trunc
    let win : Int := 2 ^ (8 * len)
    let cand := candidateBits (8 * len) (largest + 1) trunc
    let tag := if r = cand + win then "pndec:up" else if r = cand - win then "pndec:down" else "pndec:same"
    -- RFC 9000 A.3: for a well-formed truncated number the result is a packet number (0 ≤ · < 2^62) congruent to it
    let ir := intOf impl
    let wellFormed := decide (1 ≤ len) && decide (len ≤ 4) && decide (-1 ≤ largest) && decide (largest + 1 < 2 ^ 62) && decide (0 ≤ trunc) && decide (trunc < win)
    let fails :=
      (if wellFormed && (ir < 0 || ir ≥ 2 ^ 62) then [("pn_decoded_in_range", "-", s!"len={len} largest={largest} truncated={trunc} decoded={ir}")] else []) ++
      (if wellFormed && ir % win ≠ trunc then [("pn_decoded_congruent", "-", s!"len={len} truncated={trunc} decoded={ir}")] else [])
    (s, { model := s!"{r}", tags := [tag], fails := fails })
  | ["pnlen", pn, la] =>
    let r := pnLenForHeader (intOf pn) (intOf la)
    (s, { model := s!"{r}", tags := [s!"pnlen:{r}"] })
  | ["rt", pn, la, l] =>
    let pn := intOf pn; let la := intOf la; let L := intOf l
    let len := pnLenForHeader pn la
    let t := truncatePN len pn
    let d := decodePN len L t
    -- monitors on the implementation's own numbers
    let (ilen, idec) := match iw with
      | [a, _, c] => (natOf a, intOf c)
      | _ => (0, -2)
    let fails :=
      (if inWindow ilen pn L && idec ≠ pn then
        [("pn_roundtrip", "-", s!"pn={pn} len={ilen} L={L} decoded={idec}")] else []) ++
      (if senderHyp pn la L && idec ≠ pn then
        [("pn_roundtrip_sender", "-", s!"pn={pn} largestAcked={la} L={L} len={ilen} decoded={idec}")] else [])
    let tag := if d = pn then (if inWindow len pn L then "rt:ok" else "rt:ok-outside") else "rt:outside-wrong"
    (s, { model := s!"{len} {t} {d}", tags := [tag, s!"rt:len{len}"], fails := fails })
  | ["gnew", kind, initial, period, maxPeriod] =>
    let initial := intOf initial; let period := intOf period; let maxPeriod := intOf maxPeriod
    if kind == "seq" then
      ({ gen := .seq { next := initial }, g := {} }, { model := "nts=-1", tags := ["gnew:seq"] })
    else
      -- the draw is read back from the implementation's nextToSkip and range-checked
      let nts := (implField impl "nts=").map intOf |>.getD 0
      let d := nts - initial - 3
      let g0 : SkipGen := { period := period, maxPeriod := maxPeriod, next := initial, nextToSkip := 0 }
      if g0.drawOk d then
        ({ gen := .skip (SkipGen.new initial period maxPeriod d), g := {} }, { model := s!"nts={nts}", tags := ["gnew:skip"] })
      else
        ({ gen := .none, g := {} }, { model := "nts=<draw-out-of-range>" })
  | ["peek"] =>
    match s.gen with
    | .none => ({ s with g := { s.g with lastPeek := if impl == "skip" then none else iw.head?.map intOf } },
                { model := if impl == "skip" then "skip" else "<model-diverged>" })
    | .seq g => ({ s with g := { s.g with lastPeek := iw.head?.map intOf } }, { model := s!"{g.peek}", tags := ["peek:seq"] })
    | .skip g => ({ s with g := { s.g with lastPeek := iw.head?.map intOf } },
        { model := s!"{g.peek}", tags := [if g.next = g.nextToSkip then "peek:skip" else "peek:plain"] })
  | ["pop"] =>
    if impl == "skip" && (match s.gen with | .none => true | _ => false) then (s, { model := "skip" }) else
    let nts := (implField impl "nts=").map intOf |>.getD 0
    let (gen', model, tags) : Gen × String × List String := match s.gen with
      | .seq g => let (g', sk, pn) := g.pop; (.seq g', s!"{pn} skipped={fmtSkipped sk pn} nts=-1", ["pop:seq"])
      | .skip g =>
        if g.next = g.nextToSkip then
          let d := nts - (g.next + 2) - 3
          if ({ g with next := g.next + 2 } : SkipGen).drawOk d then
            let (g', sk, pn) := g.pop d
            (.skip g', s!"{pn} skipped={fmtSkipped sk pn} nts={g'.nextToSkip}",
              ["pop:skip", if g'.period = g.period then "pop:period-capped" else "pop:period-doubled"])
          else (.none, "<draw-out-of-range>", [])
        else
          let (g', sk, pn) := g.pop 0
          (.skip g', s!"{pn} skipped={fmtSkipped sk pn} nts={g'.nextToSkip}", ["pop:plain"])
      | .none => (.none, "<model-diverged>", [])
    -- monitors on the implementation's output (ghost only: they keep running after a divergence)
    let ipn := iw.head?.map intOf |>.getD (-2)
    let isk := (implField impl "skipped=").bind (fun x => if x == "-" then none else some (intOf x))
    let gh := s.g
    let fails :=
      (if gh.outs.any (· ≥ ipn) then [("pn_increasing", "-", s!"pn={ipn} after {gh.outs.headD (-1)}")] else []) ++
      (if gh.skipped.contains ipn then [("skipped_returned", "-", s!"pn={ipn} was reported skipped")] else []) ++
      (match isk with
        | some sk =>
          (if gh.outs.contains sk then [("skipped_returned", "-", s!"skipped={sk} was returned before")] else []) ++
          (if sk + 1 ≠ ipn then [("skip_flag_wrong", "-", s!"skipped={sk} pn={ipn}")] else []) ++
          (if gh.skipped.contains (sk - 1) || gh.skipped.contains (sk + 1) then [("consecutive_skips", "-", s!"skipped={sk}")] else [])
        | none =>
          -- a gap without a skip report would be an unreported skip
          (match gh.outs with
            | last :: _ => if ipn ≠ last + 1 then [("gap_unreported", "-", s!"pn={ipn} after {last}")] else []
            | [] => [])) ++
      (match gh.lastPeek with
        | some p => if p ≠ ipn then [("peek_matches_pop", "-", s!"peek={p} pop={ipn}")] else []
        | none => [])
    let gh' : GenGhost := { outs := ipn :: gh.outs, skipped := (match isk with | some sk => sk :: gh.skipped | none => gh.skipped), lastPeek := none }
    ({ gen := gen', g := gh' }, { model := model, tags := tags, fails := fails })
  | _ => (s, { model := "bad-op" })

def main : IO Unit := run { init := ({} : St), step := step }
