import Uquic.Oracle.Frame
import Uquic.Model.Reassembly.Sorter
import Uquic.Model.Reassembly.Crypto
import Uquic.Spec.ReasmMon

/-!
Oracle of driver `sorter`: one `frameSorter` and one `cryptoStream` per case.

  init <salt>
  push <id> <off> <len> <x> <cb>        => ok|E:gaps|PANIC d=<ids> g=<#gaps> q=<#entries>
  bulk <id0> <off> <stride> <len> <cnt> => ok|E:gaps@<k>|PANIC@<k> d=<#done> g= q=
  pop                                   => <off> <bytes|nil> <cb|->    (the driver then calls the callback)
  peek <off> <n>                        => ok <hex> | E:little
  more                                  => 0|1
  dump                                  => rp=<readPos> g=<s-e,…> q=<off:len:cb01,…>
  cframe <off> <len> <x>                => ok|E:T<code>|E:gaps|PANIC
  cget                                  => <hex|nil>
  cfinish                               => ok|E:T<code>
-/

open Uquic.Oracle Uquic.Model.Reassembly Uquic.Spec.Reasm

structure St where
  m : Sorter := {}
  c : CryptoStream := {}
  salt : Nat := 0
  mdead : Bool := false   -- the model's push failed (gap limit / panic): the connection is closed, the sorter is not used again
  -- ghost of the sorter, from the ops and the implementation's answers only
  recv : IvSet := []
  rp : Nat := 0
  tainted : Bool := false
  dead : Bool := false
  cbPushed : List Nat := []
  doneIds : List Nat := []
  -- ghost of the crypto stream
  crecv : IvSet := []
  crp : Nat := 0
  ctainted : Bool := false
  cdead : Bool := false
  cfinished : Bool := false
  chighest : Nat := 0

abbrev Fail := String × String × String

def fmtIds (l : List Nat) : String :=
  if l.isEmpty then "-" else ",".intercalate ((l.mergeSort (· ≤ ·)).map toString)

def parseIds (s : String) : List Nat :=
  if s == "-" || s == "" then [] else (s.splitOn ",").map natOf

def field (ws : List String) (key : String) : Option String :=
  ws.findSome? fun w => if w.startsWith key then some (w.drop key.length).toString else none

def fmtPushRes : PushRes → String
  | .ok => "ok" | .dup => "ok" | .tooManyGaps => "E:gaps" | .panic => "PANIC"

def tErr (code : Int) : String := s!"E:T{code}"

def fmtCryptoErr : Option CryptoErr → String
  | none => "ok"
  | some .cryptoBufferExceeded => tErr Uquic.Gen.Reassembly.CryptoBufferExceeded
  | some .protocolViolation => tErr Uquic.Gen.Reassembly.ProtocolViolation
  | some .tooManyGaps => "E:gaps"
  | some .panic => "PANIC"

def fmtData : Option Bytes → String
  | none => "nil"
  | some d => fmtBytes d

/-- monitors for callbacks reported done by one op -/
def doneFails (s : St) (ids : List Nat) : List Fail := Id.run do
  let mut fails : List Fail := []
  let mut seen := s.doneIds
  for i in ids do
    if seen.contains i then
      fails := fails ++ [("buffer_done_once", "-", s!"buffer {i} released twice")]
    seen := i :: seen
  return fails

/-- which branches of `push` the frame takes (coverage only; recomputed from the model's state) -/
def pushTrace (s : Sorter) (data : Bytes) (off : Nat) : List String :=
  if data.length = 0 then ["push:empty"] else
  let en := off + data.length
  match findStartGap s.gaps off with
  | none => []
  | some (i, sIn) =>
    match s.gaps.drop i with
    | [] => []
    | sg :: rest =>
      let startTag := if sIn then (if off = sg.2 then "start:at-gap-end" else "start:in-gap") else "start:before-gap"
      let endTags := match findEndGap (sg :: rest) en with
        | .found 0 => ["end:in-startgap"]
        | .found _ => ["end:in-later-gap"]
        | .prev 0 => ["end:below-startgap"]
        | .prev 1 => ["end:behind-startgap"]
        | .prev _ => ["end:behind-later-gap"]
        | .nogap => []
      let lp := replaceLoop (s.queue.length + 1) s.queue off en false
      let loopTag := match lp.stop with
        | .dup => "loop:dup"
        | .cut => "loop:cut"
        | .noEntry => if lp.replaced then "loop:replaced" else "loop:none"
      [startTag, loopTag] ++ endTags

def pushTags (old new : Sorter) (res : PushRes) (done : List Nat) (cb : Option Nat) (len : Nat) : List String :=
  let g := new.gaps.length; let g0 := old.gaps.length
  [match res with | .ok => "push:ok" | .dup => "push:dup" | .tooManyGaps => "push:gaplimit" | .panic => "push:panic"] ++
  (if g > g0 then ["push:split"] else if g < g0 then ["push:fill"] else []) ++
  (if g + 2 ≤ g0 then ["push:multigap"] else []) ++
  (if done.any (fun i => some i ≠ cb) then ["push:replace"] else []) ++
  (if cb.any (done.contains ·) && res == .ok && new.queue.length ≥ old.queue.length then ["push:copy-or-dup"] else []) ++
  (if len ≥ minStreamFrameBufferSize then ["push:long"] else ["push:short"])

/-- one `Push` on the model + the ghost; returns the new state, the model's result text pieces and monitor failures -/
def doPush (s : St) (id off len x : Nat) (hasCb : Bool) (implRes : String) (implDone : List Nat)
    : St × PushRes × List Nat × List String × List Fail :=
  let data := srcSeg s.salt x off len
  let cb := if hasCb then some id else none
  let ri := s.m.pushInner data off cb
  let r : PushOut := match ri.res with     -- `Sorter.push` (computed from `pushInner` once)
    | .dup => ⟨ri.s, .ok, ri.done ++ cbList cb⟩
    | _ => ri
  -- ghost
  let fails := doneFails s implDone
  let recv' := if len = 0 then s.recv else ivInsert s.recv off (off + len)
  let expectLimit := ivGapCount recv' > maxStreamFrameSorterGaps
  let inContract := off + len < maxByteCount
  let fails := fails ++
    (if !inContract then []
     else if !s.dead && expectLimit && implRes != "E:gaps" then
       [("gap_limit_enforced", "-", s!"push [{off},{off+len}) leaves {ivGapCount recv'} gaps, answered {implRes}")]
     else if !s.dead && !expectLimit && implRes != "ok" then
       [("push_spurious_error", "-", s!"push [{off},{off+len}) answered {implRes} with {ivGapCount recv'} gaps")]
     else [])
  let accepted := implRes == "ok"
  let s' := { s with m := r.s, mdead := r.res != .ok && r.res != .dup,
                     recv := if accepted then recv' else s.recv,
                     tainted := s.tainted || (x ≠ 0 && len > 0),
                     dead := s.dead || !accepted,
                     cbPushed := if hasCb && accepted then id :: s.cbPushed else s.cbPushed,
                     doneIds := implDone ++ s.doneIds }
  (s', r.res, r.done, pushTags s.m r.s ri.res r.done cb len ++ pushTrace s.m data off, fails)

def fmtGaps (g : List Gap) : String :=
  if g.isEmpty then "-" else ",".intercalate (g.map fun x => s!"{x.1}-{x.2}")

def fmtQueue (q : Queue) : String :=
  let q := q.mergeSort (fun a b => a.1 ≤ b.1)
  if q.isEmpty then "-" else ",".intercalate (q.map fun (o, e) => s!"{o}:{e.data.length}:{if e.cb.isSome then 1 else 0}")

def step (s : St) (op impl : String) : St × StepOut :=
  let w := words op
  let iw := words impl
  let implHead := iw.headD ""
  let sorterOp := match w with
    | op :: _ => ["push", "bulk", "pop", "peek", "more", "dump"].contains op
    | [] => false
  if sorterOp && s.mdead then (s, { model := "skip" }) else
  match w with
  | ["init", salt] => ({ s with salt := natOf salt }, { model := "ok" })
  | ["push", id, off, len, x, cb] =>
    let implDone := parseIds ((field iw "d=").getD "-")
    let (s', res, done, tags, fails) := doPush s (natOf id) (natOf off) (natOf len) (natOf x) (cb == "1") implHead implDone
    (s', { model := s!"{fmtPushRes res} d={fmtIds done} g={s'.m.gaps.length} q={s'.m.queue.length}", tags := tags, fails := fails })
  | ["bulk", id0, off, stride, len, cnt] => Id.run do
    let id0 := natOf id0; let off := natOf off; let stride := natOf stride; let len := natOf len; let cnt := natOf cnt
    -- the implementation stops at the first error: "E:gaps@k" / "PANIC@k"
    let implStop : Option Nat := match implHead.splitOn "@" with
      | [_, k] => some (natOf k)
      | _ => none
    let mut st := s
    let mut ndone := 0
    let mut tags : List String := ["bulk"]
    let mut fails : List Fail := []
    let mut head := "ok"
    for k in [0:cnt] do
      -- per-piece ghost verdict: the implementation accepted every piece before its stop index
      let implRes := match implStop with
        | some j => if k < j then "ok" else if k == j then (implHead.splitOn "@").headD "" else "skip"
        | none => "ok"
      if implRes == "skip" && head != "ok" then break
      let (st', res, done, tg, fl) := doPush st (id0 + k) (off + k * stride) len 0 true implRes []
      st := st'
      ndone := ndone + done.length
      tags := dedup (tags ++ tg)
      fails := fails ++ fl
      if res != .ok && res != .dup then
        head := s!"{fmtPushRes res}@{k}"
        break
    return (st, { model := s!"{head} d={ndone} g={st.m.gaps.length} q={st.m.queue.length}", tags := tags, fails := fails })
  | ["pop"] =>
    match s.m.pop with
    | (m', .panic) => ({ s with m := m', dead := true, mdead := true }, { model := "PANIC", tags := ["pop:panic"] })
    | (m', .ok off data cb) => Id.run do
      let model := s!"{off} {fmtData data} {match cb with | some i => toString i | none => "-"}"
      let mut fails : List Fail := []
      let mut s' := { s with m := m' }
      match iw with
      | [ioff, idata, icb] =>
        let ioff := natOf ioff
        if !s.dead then
          if ioff ≠ s.rp then
            fails := fails ++ [("pop_contiguous", "-", s!"pop at offset {ioff}, delivered so far {s.rp}")]
          if idata == "nil" then
            if ivCovers s.recv s.rp then
              fails := fails ++ [("pop_progress", "-", s!"byte {s.rp} was received but pop returns nothing")]
          else
            let n := tokLen idata
            if n == 0 then
              fails := fails ++ [("pop_nonempty", "-", "empty frame popped")]
            if !ivCoversRange s.recv s.rp (s.rp + n) then
              fails := fails ++ [("pop_only_received", "-", s!"[{s.rp},{s.rp + n}) delivered but not all of it was received")]
            if !s.tainted && idata != fmtBytes (srcSeg s.salt 0 s.rp n) then
              fails := fails ++ [("pop_exact_bytes", "-", s!"[{s.rp},{s.rp + n}) delivered as {idata}, the source has {fmtBytes (srcSeg s.salt 0 s.rp n)}")]
            s' := { s' with rp := s.rp + n }
        if icb != "-" then
          fails := fails ++ doneFails s [natOf icb]
          s' := { s' with doneIds := natOf icb :: s'.doneIds }
      | _ => s' := { s' with dead := true }
      return (s', { model := model, tags := [if data.isSome then "pop:data" else "pop:none"] ++ (if cb.isSome then ["pop:cb"] else []), fails := fails })
  | ["peek", off, n] =>
    let off := natOf off; let n := natOf n
    let r := s.m.peek off n
    let model := match r with | some d => s!"ok {fmtBytes d}" | none => "E:little"
    let fails : List Fail :=
      match iw with
      | ["ok", d] =>
        let gn := tokLen d
        (if !s.dead && gn ≠ n then [("peek_length", "-", s!"asked {n} got {gn}")] else []) ++
        (if !s.dead && !ivCoversRange s.recv off (off + gn) then [("peek_only_received", "-", s!"[{off},{off+gn}) peeked but not received")] else []) ++
        (if !s.dead && !s.tainted && d != fmtBytes (srcSeg s.salt 0 off gn) then
           [("peek_exact_bytes", "-", s!"[{off},{off+gn}) peeked as {d}")]
         else [])
      | _ => []
    (s, { model := model, tags := [if r.isSome then "peek:ok" else "peek:little"], fails := fails })
  | ["more"] =>
    let model := if s.m.hasMoreData then "1" else "0"
    let pending := ivSize (s.recv.filterMap fun iv => if iv.2 ≤ s.rp then none else some (max iv.1 s.rp, iv.2))
    let fails : List Fail :=
      if s.dead then [] else
      (if implHead == "0" && pending > 0 then [("more_complete", "-", s!"{pending} received bytes are undelivered but HasMoreData=false")] else []) ++
      (if implHead == "1" && pending == 0 then [("more_sound", "-", "HasMoreData=true but everything received was delivered")] else []) ++
      (if implHead == "0" then
         match s.cbPushed.find? (fun i => !s.doneIds.contains i) with
         | some i => [("buffer_released", "-", s!"queue is empty but buffer {i} was never released")]
         | none => []
       else [])
    (s, { model := model, tags := [s!"more:{model}"], fails := fails })
  | ["dump"] =>
    (s, { model := s!"rp={s.m.readPos} g={fmtGaps s.m.gaps} q={fmtQueue s.m.queue}", tags := ["dump"] })
  | ["cframe", off, len, x] =>
    let off := natOf off; let len := natOf len; let x := natOf x
    let (c', err) := s.c.handleCryptoFrame off (srcSeg s.salt x off len)
    let model := fmtCryptoErr err
    let hi := off + len
    let expect : String :=
      if hi > maxCryptoStreamOffset then tErr Uquic.Gen.Reassembly.CryptoBufferExceeded
      else if s.cfinished then (if hi > s.chighest then tErr Uquic.Gen.Reassembly.ProtocolViolation else "ok")
      else if ivGapCount (if len = 0 then s.crecv else ivInsert s.crecv off hi) > maxStreamFrameSorterGaps then "E:gaps"
      else "ok"
    let fails : List Fail :=
      if !s.cdead && implHead != expect then [("crypto_limits", "-", s!"CRYPTO [{off},{hi}) finished={s.cfinished} highest={s.chighest}: answered {implHead}, expected {expect}")] else []
    let accepted := implHead == "ok" && !s.cfinished && hi ≤ maxCryptoStreamOffset
    let s' := { s with c := c',
                       crecv := if accepted && len > 0 then ivInsert s.crecv off hi else s.crecv,
                       chighest := if accepted then max s.chighest hi else s.chighest,
                       ctainted := s.ctainted || (x ≠ 0 && len > 0),
                       cdead := s.cdead || implHead == "E:gaps" || implHead == "PANIC" }
    (s', { model := model, tags := [s!"cframe:{model}"], fails := fails })
  | ["cget"] =>
    let (c', data, pan) := s.c.getCryptoData
    let model := if pan then "PANIC" else fmtData data
    Id.run do
      let mut fails : List Fail := []
      let mut s' := { s with c := c' }
      if !s.cdead then
        if implHead == "nil" then
          if ivCovers s.crecv s.crp then
            fails := fails ++ [("crypto_progress", "-", s!"byte {s.crp} was received but GetCryptoData returns nil")]
        else if implHead != "PANIC" then
          let n := tokLen implHead
          if n == 0 || !ivCoversRange s.crecv s.crp (s.crp + n) then
            fails := fails ++ [("crypto_only_received", "-", s!"[{s.crp},{s.crp + n}) delivered but not received")]
          if !s.ctainted && implHead != fmtBytes (srcSeg s.salt 0 s.crp n) then
            fails := fails ++ [("crypto_exact_bytes", "-", s!"[{s.crp},{s.crp + n}) delivered as {implHead}")]
          s' := { s' with crp := s.crp + n }
      return (s', { model := model, tags := [if data.isSome then "cget:data" else "cget:none"], fails := fails })
  | ["cfinish"] =>
    let (c', err) := s.c.finish
    let model := fmtCryptoErr err
    let pending := ivSize (s.crecv.filterMap fun iv => if iv.2 ≤ s.crp then none else some (max iv.1 s.crp, iv.2))
    let expect := if pending > 0 then tErr Uquic.Gen.Reassembly.ProtocolViolation else "ok"
    let fails : List Fail :=
      if !s.cdead && implHead != expect then [("crypto_finish", "-", s!"Finish with {pending} undelivered bytes answered {implHead}")] else []
    ({ s with c := c', cfinished := s.cfinished || implHead == "ok" }, { model := model, tags := [s!"cfinish:{model}"], fails := fails })
  | _ => (s, { model := "bad-op" })

def main : IO Unit := run { init := ({} : St), step := step }
