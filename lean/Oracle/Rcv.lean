import Uquic.Oracle.Frame
import Uquic.Model.Ack.Rcv
import Uquic.Spec.RcvMon
import Uquic.Spec.RcvSet

open Uquic.Oracle Uquic.Model.Rcv Uquic.Spec.RcvMon Uquic.Spec.RcvSet

structure St where
  h : Handler := {}
  g : Ghost := {}
  trimmed : Bool := false     -- some space ever exceeded the range cap (dup_complete then not judged)
  preBroken : Bool := false   -- IgnorePacketsBelow was called above the largest received number (the connection never does)
  diverged : Bool := false
  -- the set-based reference (Uquic.Spec.RcvSet), driven by the ops only
  setI : SetHist := {}
  setH : SetHist := {}
  setA : SetHist := {}
  low1rtt : Int := invalidPN

def ecnNotECT : Nat := Uquic.Gen.Protocol.ECNNon.toNat

def parseLevel : String → Option Level
  | "I" => some .initial | "H" => some .handshake | "Z" => some .zeroRTT | "A" => some .oneRTT | _ => none

def fmtRanges (rs : List Range) : String :=
  ";".intercalate (rs.map fun r => s!"{r.1}-{r.2}")

def fmtAck : Option Ack → String
  | none => "-"
  | some a => s!"d={a.delay} e={a.ect0},{a.ect1},{a.ecnce} r={fmtRanges a.ranges}"

def parseRange (s : String) : Option Range :=
  match s.splitOn "-" with
  | [a, b] => match a.toInt?, b.toInt? with
    | some x, some y => some (x, y)
    | _, _ => none
  | _ => none

/-- parse the implementation's ACK text; `none` = "-" or unparsable -/
def parseImplAck (w : List String) : Option (Int × List Range) :=
  match w with
  | d :: _e :: r :: _ =>
    if d.startsWith "d=" && r.startsWith "r=" then
      let rs := ((r.drop 2).toString.splitOn ";").filterMap parseRange
      some (intOf (d.drop 2).toString, rs)
    else none
  | _ => none

def suffix (h : Handler) : String :=
  s!" a={h.alarm} q={if h.app.ackQueued then 1 else 0}"

def getSet (s : St) : Level → SetHist
  | .initial => s.setI | .handshake => s.setH | _ => s.setA
def putSet (s : St) (l : Level) (x : SetHist) : St :=
  match l with
  | .initial => { s with setI := x } | .handshake => { s with setH := x } | _ => { s with setA := x }

def getSpace (g : Ghost) : Level → SpaceGhost
  | .initial => g.ini | .handshake => g.hs | _ => g.app
def setSpace (g : Ghost) (l : Level) (s : SpaceGhost) : Ghost :=
  match l with
  | .initial => { g with ini := s } | .handshake => { g with hs := s } | _ => { g with app := s }

def implField (impl : String) (key : String) : Option String :=
  (words impl).findSome? fun w => if w.startsWith key then some (w.drop key.length).toString else none

def modelLowestStart (h : Handler) : Level → Option Int
  | .initial => h.initial.bind (·.hist.ranges.getLast?.map (·.1))
  | .handshake => h.handshake.bind (·.hist.ranges.getLast?.map (·.1))
  | _ => h.app.t.hist.ranges.getLast?.map (·.1)

def numRanges (h : Handler) : Level → Nat
  | .initial => (h.initial.map (·.hist.ranges.length)).getD 0
  | .handshake => (h.handshake.map (·.hist.ranges.length)).getD 0
  | _ => h.app.t.hist.ranges.length

def step (s : St) (op impl : String) : St × StepOut :=
  let w := words op
  let iw := words impl
  let implHead := iw.headD ""
  let fin (s' : St) (model : String) (tags : List String) (fails : List (String × String × String)) : St × StepOut :=
    let full := model ++ suffix s'.h
    ({ s' with diverged := s'.diverged || full ≠ impl }, { model := full, tags := tags, fails := fails })
  match w with
  | ["recv", l, pn, ecn, ae, t] =>
    match parseLevel l with
    | none => (s, { model := "bad-op" })
    | some lvl => Id.run do
      let pn := intOf pn; let ecn := natOf ecn; let ae := ae == "1"; let t := intOf t
      let (h', out) := s.h.receivedPacket pn ecn lvl t ae
      let model := match out with
        | .ok => "ok" | .bug => "E:bug" | .zeroRTTAfter1RTT => "E:0rtt" | .panic => "PANIC"
      -- ghost + monitors on the implementation's answer
      let sp := getSpace s.g lvl
      let isApp := lvl == .zeroRTT || lvl == .oneRTT
      let floor := if isApp then s.g.forgetBelow else 0
      let seenBefore := sp.R.contains pn
      let mut fails : List (String × String × String) := []
      -- a packet number received before (and still tracked) must not be accepted as new
      if implHead == "ok" && seenBefore && !s.trimmed && !sp.dropped && pn ≥ floor then
        fails := fails ++ [("dup_processed_twice", "-", s!"pn={pn} accepted again")]
      -- the BUG error only for numbers that were received before or forgotten
      if implHead == "E:bug" && !seenBefore && pn ≥ floor then
        fails := fails ++ [("tracker_no_bug_error", "-", s!"pn={pn} fresh but rejected")]
      let accepted := implHead == "ok" && !sp.dropped
      let sp' := if implHead == "ok" || implHead == "E:bug" || (implHead == "PANIC" && isApp) then
          { sp with R := if seenBefore then sp.R else pn :: sp.R,
                    unackedAE := if accepted && ae && !seenBefore then (pn, t) :: sp.unackedAE else sp.unackedAE }
        else sp
      let g' := setSpace s.g lvl sp'
      let g' := if isApp && accepted && ae then { g' with aeSinceAck := g'.aeSinceAck + 1 } else g'
      -- timeliness, judged on the implementation's alarm / queued flags
      let implQ := implField impl "q=" == some "1"
      let implA := (implField impl "a=").map intOf |>.getD 0
      if isApp && accepted then
        for (p, tp) in (getSpace g' lvl).unackedAE do
          if !(implQ || (implA ≠ 0 && implA ≤ tp + maxAckDelay)) then
            fails := fails ++ [("ack_timely", "-", s!"pn={p} rcvd={tp} alarm={implA} queued={implQ}")]
        if ae && g'.aeSinceAck ≥ packetsBeforeAck.toNat && !implQ then
          fails := fails ++ [("ack_on_second", "-", s!"pn={pn}")]
        if ae && ecn == ecnCE && !implQ then
          fails := fails ++ [("ack_on_ce", "-", s!"pn={pn}")]
        match sp.lastAck with
        | some rs =>
          if ae && pn ≥ floor && !covers rs pn && (match rs with | r :: _ => pn < r.2 | [] => false) && !implQ then
            fails := fails ++ [("ack_on_gap_fill", "-", s!"pn={pn}")]
        | none => pure ()
      -- set-based reference: is this number handed to the tracker, and is it new?
      let registered := match lvl with
        | .initial | .handshake => !sp.dropped
        | .zeroRTT => !(s.low1rtt ≠ invalidPN ∧ pn > s.low1rtt)
        | .oneRTT => true
      let (set', specNew) := if registered then (getSet s lvl).recv pn else (getSet s lvl, false)
      if registered && specNew && implHead == "E:bug" then
        fails := fails ++ [("spec_recv_new", "-", s!"pn={pn} is not in the tracked set but was rejected as old")]
      if registered && !specNew && implHead == "ok" && !(lvl == .handshake && sp.dropped) then
        fails := fails ++ [("spec_recv_dup", "-", s!"pn={pn} is in the tracked set (or below the forget threshold) but was accepted as new")]
      let low1rtt' := if lvl == .oneRTT && (s.low1rtt = invalidPN || pn < s.low1rtt) then pn else s.low1rtt
      let tags := [s!"recv:{model}"] ++
        (if numRanges h' lvl > numRanges s.h lvl then ["recv:newrange"] else
         if numRanges h' lvl < numRanges s.h lvl then ["recv:merge"] else []) ++
        (if h'.app.ackQueued && !s.h.app.ackQueued then ["recv:queued"] else [])
      let trimmed := s.trimmed || numRanges h' lvl ≥ maxNumAckRanges
      return fin (putSet { s with h := h', g := g', trimmed := trimmed, low1rtt := low1rtt' } lvl set') model tags fails
  | ["fill", l, cnt, start, stp, t] =>
    match parseLevel l with
    | none => (s, { model := "bad-op" })
    | some lvl =>
      let cnt := natOf cnt; let start := intOf start; let stp := intOf stp; let t := intOf t
      let (h', bad) := (List.range cnt).foldl (fun (acc : Handler × Bool) j =>
        let (h1, o) := acc.1.receivedPacket (start + Int.ofNat j * stp) ecnNotECT lvl t false
        (h1, acc.2 || o != .ok)) (s.h, false)
      let sp := getSpace s.g lvl
      let sp' := { sp with R := (List.range cnt).foldl (fun R j =>
        let p := start + Int.ofNat j * stp
        if R.contains p then R else p :: R) sp.R }
      let trimmed := s.trimmed || numRanges h' lvl ≥ maxNumAckRanges
      let set' := (List.range cnt).foldl (fun (x : SetHist) j => (x.recv (start + Int.ofNat j * stp)).1) (getSet s lvl)
      let low := if lvl == .oneRTT && cnt > 0 && (s.low1rtt = invalidPN || start < s.low1rtt) then start else s.low1rtt
      fin (putSet { s with h := h', g := setSpace s.g lvl sp', trimmed := trimmed, low1rtt := low } lvl set') (if bad then "E:bug" else "ok") ["fill"] []
  | ["dup", l, pn] =>
    match parseLevel l with
    | none => (s, { model := "bad-op" })
    | some lvl => Id.run do
      let pn := intOf pn
      let model := match s.h.isPotentiallyDuplicate pn lvl with
        | none => "PANIC" | some true => "1" | some false => "0"
      let sp := getSpace s.g lvl
      let isApp := lvl == .zeroRTT || lvl == .oneRTT
      let floor := if isApp then s.g.forgetBelow else 0
      let mut fails : List (String × String × String) := []
      if implHead == "1" && !(sp.R.contains pn || pn < floor) then
        fails := fails ++ [("dup_sound", "-", s!"pn={pn} never received")]
      if implHead == "0" && (pn < floor || (sp.R.contains pn &&
            !s.trimmed)) then
        fails := fails ++ [("dup_complete", "-", s!"pn={pn} was received and is within the tracked history")]
      let specDup := (getSet s lvl).isDup pn
      if !sp.dropped && implHead == "1" && !specDup then
        fails := fails ++ [("spec_dup", "-", s!"pn={pn} reported duplicate but is not tracked")]
      if !sp.dropped && implHead == "0" && specDup then
        fails := fails ++ [("spec_dup", "-", s!"pn={pn} is tracked (or below the forget threshold) but not reported duplicate")]
      return fin s model [s!"dup:{model}"] fails
  | ["ack", l, now, oiq] =>
    match parseLevel l with
    | none => (s, { model := "bad-op" })
    | some lvl => Id.run do
      let now := intOf now; let oiq := oiq == "1"
      let (h', a) := s.h.getAckFrame lvl now oiq
      let model := fmtAck a
      let sp := getSpace s.g lvl
      let isApp := lvl == .oneRTT
      let floor := if isApp then s.g.forgetBelow else 0
      let mut fails : List (String × String × String) := []
      let mut g' := s.g
      match parseImplAck iw with
      | some (_, rs) =>
        if rs != (getSet s lvl).ranges then
          fails := fails ++ [("spec_ack_ranges", "-", s!"ack={fmtRanges rs} tracked-set runs={fmtRanges (getSet s lvl).ranges}")]
        if !rangesValid rs && !(s.preBroken && rs.isEmpty) then
          fails := fails ++ [("ack_ranges_wf", "-", fmtRanges rs)]
        if !coveredSubset rs sp.R floor then
          fails := fails ++ [("ack_sound", "-", s!"ranges={fmtRanges rs} floor={floor}")]
        match maxOf sp.R, rs with
        | some m, r :: _ => if !(r.1 ≤ m && m ≤ r.2) && m ≥ floor then
            fails := fails ++ [("ack_includes_largest", "-", s!"max={m} top={r.1}-{r.2}")]
        | _, _ => pure ()
        -- a returned ACK covers every pending ack-eliciting packet, unless the range cap
        -- (MaxNumAckRanges) has dropped its range: that is the code's deliberate DoS bound, and the
        -- theorems (ack_timely, dup_complete) are stated with the same exception
        if !s.trimmed then
          for (p, _) in sp.unackedAE do
            if p ≥ floor && !covers rs p then
              fails := fails ++ [("ack_misses_pending", "-", s!"pn={p} not covered by {fmtRanges rs}")]
        let sp' := { sp with lastAck := some rs, unackedAE := [] }
        g' := setSpace g' lvl sp'
        if isApp then g' := { g' with aeSinceAck := 0 }
      | none =>
        -- Initial/Handshake: every ack-eliciting packet is acknowledged immediately
        if (lvl == .initial || lvl == .handshake) && !sp.dropped && !sp.unackedAE.isEmpty && implHead == "-" then
          fails := fails ++ [("ack_immediate", "-", s!"{sp.unackedAE.length} ack-eliciting packets unacknowledged")]
        -- app data: an ACK that is due (alarm passed) must be produced
        if isApp && implHead == "-" then
          for (p, tp) in sp.unackedAE do
            if now ≥ tp + maxAckDelay && p ≥ floor then
              fails := fails ++ [("ack_due_not_sent", "-", s!"pn={p} rcvd={tp} now={now}")]
      return fin { s with h := h', g := g' } model [if a.isSome then "ack:some" else "ack:none"] fails
  | ["ignore", pn] =>
    let pn := intOf pn
    let h' := s.h.ignorePacketsBelow pn
    let g' := { s.g with forgetBelow := max s.g.forgetBelow pn }
    -- packets below the threshold need no ACK any more
    let g' := { g' with app := { g'.app with unackedAE := g'.app.unackedAE.filter (fun (p, _) => p ≥ g'.forgetBelow) } }
    let pre := s.preBroken || !(s.g.app.R.any (· ≥ pn))
    fin { s with h := h', g := g', preBroken := pre, setA := s.setA.deleteBelow (if pn ≤ s.h.app.ignoreBelow then s.setA.floor else pn) } "ok" [if pn > s.h.app.ignoreBelow then "ignore:raise" else "ignore:noop"] []
  | ["drop", l] =>
    match parseLevel l with
    | none => (s, { model := "bad-op" })
    | some lvl =>
      match s.h.dropPackets lvl with
      | none => fin s "PANIC" ["drop:panic"] []
      | some h' =>
        let sp := getSpace s.g lvl
        let g' := if lvl == .initial || lvl == .handshake then setSpace s.g lvl { sp with dropped := true, unackedAE := [] } else s.g
        fin { s with h := h', g := g' } "ok" ["drop:ok"] []
  | _ => (s, { model := "bad-op" })

def main : IO Unit := run { init := ({} : St), step := step }
