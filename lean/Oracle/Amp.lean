import Uquic.Oracle.Frame
import Uquic.Model.Amp.Limit
import Uquic.Spec.AmpMon

open Uquic.Oracle Uquic.Model.Amp Uquic.Spec.AmpMon

structure ASt where
  h : Option H := none
  -- ghost, from the operations only
  isClient : Bool := false
  cav : Bool := false
  sawHandshake : Bool := false
  gSent : Nat := 0
  gRcvd : Nat := 0
  gLast : Nat := 0
  rogueSeen : Bool := false
  droppedI : Bool := false
  droppedH : Bool := false
  -- from the implementation's answers
  permitted : Bool := false
  implV : Bool := false

def parseLevel : String → Option Level
  | "I" => some .initial | "H" => some .handshake | "Z" => some .zeroRTT | "A" => some .oneRTT | _ => none

def splitBar (impl : String) : String × String :=
  match impl.splitOn " | " with
  | [a] => (a, "")
  | a :: rest => (a, " | ".intercalate rest)
  | [] => ("", "")

def field (ws : List String) (key : String) : Option String :=
  ws.findSome? fun w => if w.startsWith key then some (w.drop key.length).toString else none

def b01 (b : Bool) : String := if b then "1" else "0"

def stateText (h : Option H) : String :=
  match h with
  | none => " s=0 r=0 v=0 lim=0"
  | some h => s!" s={h.bytesSent} r={h.bytesReceived} v={b01 h.validated} lim={b01 h.isAmplificationLimited}"

def modeName : Mode → String
  | .none => "none" | .ack => "ack" | .ptoInitial => "ptoI" | .ptoHandshake => "ptoH" | .ptoAppData => "ptoA"
  | .pacingLimited => "pacing" | .any => "any"

def parsePk (a : String) : Option (String × Nat) :=
  match a.splitOn ":" with
  | [l, n] => match n.toNat? with
    | some k => if l == "I" || l == "H" || l == "A" then some (l, k) else none
    | none => none
  | _ => none

def step (s : ASt) (op impl : String) : ASt × StepOut :=
  let w := words op
  let (implHeadPart, tail) := splitBar impl
  let iw := words implHeadPart
  let implHead := iw.headD ""
  -- finish: compose the predicted text, run the every-prefix monitors on the implementation's numbers
  let fin (s' : ASt) (head : String) (tags : List String) (fails : List (String × String × String)) : ASt × StepOut := Id.run do
    let model := head ++ stateText s'.h ++ " | " ++ tail
    let mut fails := fails
    let mut s' := s'
    if s'.h.isSome then
      let gVal := mayBeValidated s'.isClient s'.cav s'.sawHandshake
      let iS := (field iw "s=").bind (·.toNat?)
      let iR := (field iw "r=").bind (·.toNat?)
      let iV := field iw "v=" == some "1"
      let iLim := field iw "lim=" == some "1"
      if iS ≠ some s'.gSent then
        fails := fails ++ [("accounting_sent", "-", s!"bytesSent={iS} but {s'.gSent} bytes were handed to SentPacket")]
      if iR ≠ some s'.gRcvd then
        fails := fails ++ [("accounting_received", "-", s!"bytesReceived={iR} but {s'.gRcvd} bytes were handed to ReceivedBytes")]
      if iV && !gVal then
        fails := fails ++ [("validated_only_by_handshake_or_token", "-", "address counts as validated without a Handshake packet or a validated token")]
      if s'.implV && !iV then
        fails := fails ++ [("validated_monotone", "-", "address became unvalidated again")]
      if !gVal && !iLim && !belowLimit s'.gSent s'.gRcvd then
        fails := fails ++ [("limit_not_enforced", "-", s!"sent={s'.gSent} received={s'.gRcvd} unvalidated, but not amplification limited")]
      if !gVal && !s'.rogueSeen && !boundOk s'.gSent s'.gRcvd s'.gLast then
        fails := fails ++ [("amp_bound", "-", s!"sent={s'.gSent} > 3*{s'.gRcvd} + last datagram {s'.gLast}")]
      s' := { s' with implV := iV }
    return (s', { model := model, tags := tags, fails := fails })
  match w with
  | ["new", p, c] =>
    match s.h with
    | some _ => fin s "skip" [] []
    | none =>
      let pers := if p == "C" then Persp.client else Persp.server
      let cav := c == "1"
      let h := H.new pers cav
      fin { s with h := some h, isClient := pers == .client, cav := cav }
        "ok" [if pers == .client then "new:client" else if cav then "new:server-validated" else "new:server"] []
  | _ =>
  match s.h with
  | none => fin s (if w.headD "" ∈ ["rcvbytes", "rcvpkt", "mode?", "send", "timeout", "ack", "drop"] then "skip" else "bad-op") [] []
  | some h =>
  match w with
  | ["rcvbytes", n, _t] =>
    let n := natOf n
    let h' := h.receivedBytes n
    let tags := [if h.isAmplificationLimited && !h'.isAmplificationLimited then "rcvbytes:unblocks"
                 else if h'.isAmplificationLimited then "rcvbytes:still-limited" else "rcvbytes:free"]
    fin { s with h := some h', gRcvd := s.gRcvd + n } "ok" tags []
  | ["rcvpkt", l, _t] =>
    match parseLevel l with
    | none => (s, { model := "bad-op" })
    | some lvl =>
      let h' := h.receivedPacket lvl
      let tags := [if h'.validated && !h.validated then "rcvpkt:validates" else if h.validated then "rcvpkt:already-valid" else "rcvpkt:no-validation"]
      fin { s with h := some h', sawHandshake := s.sawHandshake || lvl == .handshake } "ok" tags []
  | ["mode?", _t] => Id.run do
    -- the non-amplification part of SendMode is environment input: read back from the implementation
    let implCode := intOf implHead
    let limited := h.isAmplificationLimited
    let head := if limited then s!"{Mode.none.code}"
                else if implCode == Mode.none.code then "nonzero"   -- MaxTrackedSentPackets is out of the driver's reach
                else implHead
    let gVal := mayBeValidated s.isClient s.cav s.sawHandshake
    let mut fails : List (String × String × String) := []
    let permits := implCode ≠ Mode.none.code
    if permits && !gVal && !belowLimit s.gSent s.gRcvd then
      fails := fails ++ [("mode_permits_only_below_limit", "-", s!"SendMode={implHead} with sent={s.gSent} received={s.gRcvd}")]
    let tags := [if limited then "mode:limited" else if h.validated then "mode:validated" else "mode:below-limit"] ++
      (match Mode.ofCode implCode with | some m => [s!"mode:{modeName m}"] | none => ["mode:?"])
    return fin { s with permitted := permits } head tags fails
  | "send" :: rogue :: _ae :: _t :: pks =>
    match pks.mapM parsePk with
    | none => (s, { model := "bad-op" })
    | some pks => Id.run do
      if pks.isEmpty then return (s, { model := "bad-op" })
      let rogue := rogue == "1"
      let hitsDropped := pks.any fun (l, _) => (l == "I" && s.droppedI) || (l == "H" && s.droppedH)
      if hitsDropped then return fin s "skip" ["send:skip-dropped"] []
      if !rogue && !s.permitted then return fin s "skip" ["send:skip-not-permitted"] []
      let sizes := pks.map (·.2)
      let total := Uquic.Model.Amp.sum sizes
      let h' := h.sentDatagram sizes
      let gVal := mayBeValidated s.isClient s.cav s.sawHandshake
      let mut fails : List (String × String × String) := []
      if !rogue && !gVal && !belowLimit s.gSent s.gRcvd then
        fails := fails ++ [("send_was_permitted_at_limit", "-", s!"datagram of {total} sent with sent={s.gSent} received={s.gRcvd}")]
      let lim := amplificationFactor * h'.bytesReceived
      let tags := [if rogue then "send:rogue" else "send:ok"] ++ (if pks.length > 1 then ["send:coalesced"] else []) ++
        (if h'.validated then [] else if h'.bytesSent == lim then ["send:lands-on-limit"]
         else if h'.bytesSent > lim then ["send:crosses-limit"] else ["send:stays-below"])
      return fin { s with h := some h', gSent := s.gSent + total, gLast := total, permitted := false,
                          rogueSeen := s.rogueSeen || rogue } "ok" tags fails
  | ["timeout", _t] => fin s "done" ["timeout"] []
  | ["ack", l, _t, _pns] =>
    if (l == "I" && s.droppedI) || (l == "H" && s.droppedH) then fin s "skip" [] []
    else if l == "I" || l == "H" || l == "A" then fin s "done" ["ack"] []
    else (s, { model := "bad-op" })
  | ["drop", l, _t] =>
    if l == "I" then (if s.droppedI then fin s "skip" [] [] else fin { s with droppedI := true } "done" ["drop:I"] [])
    else if l == "H" then (if s.droppedH then fin s "skip" [] [] else fin { s with droppedH := true } "done" ["drop:H"] [])
    else (s, { model := "bad-op" })
  | _ => (s, { model := "bad-op" })

def main : IO Unit := run { init := ({} : ASt), step := step }
