import Uquic.Oracle.Frame
import Uquic.Model.Ack.Sent
import Uquic.Spec.SentMon

open Uquic.Oracle Uquic.Model.Sent Uquic.Spec.SentMon

structure St where
  s : State := State.new 0 false true 0
  g : Ghost := Ghost.init true false
  /-- `nextToSkip` of the default handler is not known before the first line -/
  fresh : Bool := true
  -- uSentPacketHandler configuration
  u : Bool := false
  pl : Int := 0
  pls : List Int := []
  base : Int := 0
  /-- the state the implementation printed after the previous operation -/
  prev : String := ""

def parseLevel : String → Level
  | "I" => .initial | "H" => .handshake | "Z" => .zeroRTT | "A" => .oneRTT | _ => .invalid

def spaceIdx : Level → Nat
  | .initial => 0 | .handshake => 1 | _ => 2

def fmtLevel : Level → String
  | .initial => "I" | .handshake => "H" | .zeroRTT => "Z" | .oneRTT => "A" | .invalid => "-"

def fmtPNs (l : List Int) : String := ";".intercalate (l.map toString)

def fmtSpace : Option Space → String
  | none => "-"
  | some sp =>
    let h := sp.hist
    s!"n{h.packets.length},f{h.first},h{h.highest},o{h.numOutstanding},la{sp.largestAcked},ls{sp.largestSent},lt{sp.lossTime},ae{sp.lastAETime},sk[{fmtPNs h.skipped}],pp[{fmtPNs (h.probes.map (·.1))}],g{sp.gen.next}/{sp.gen.nextToSkip}/{sp.gen.period}"

def fmtState (s : State) : String :=
  let tt := match s.alarm.typ with | .none => "-" | .ack => "ack" | .pto => "pto" | .pathProbe => "pp"
  let bit (b : Bool) := if b then "1" else "0"
  s!"a={s.alarm.time},{tt},{fmtLevel s.alarm.level} bfl={s.bytesInFlight} bs={s.bytesSent} br={s.bytesReceived} pc={s.ptoCount} np={s.numProbesToSend} pm={s.ptoMode} fl={bit s.peerCompleted}{bit s.peerValidated}{bit s.handshakeConfirmed} ab={s.ackedBuf} I={fmtSpace s.initial} H={fmtSpace s.handshake} A={fmtSpace (some s.app)}"

def fmtEv : Ev → Option String
  | .acked f => if f.handler then some s!"a{f.id}" else none
  | .lost f => if f.handler then some s!"l{f.id}" else none
  | .ignore pn => some s!"i{pn}"

def fmtEvs (evs : List Ev) : String :=
  match evs.filterMap fmtEv with
  | [] => "ev=-"
  | l => "ev=" ++ ",".intercalate l

def fmtErr : ErrCode → String
  | .ackUnsent => "E:PROTOCOL_VIOLATION:unsent"
  | .ackSkipped => "E:PROTOCOL_VIOLATION:skipped"
  | .bugAckedNotEmpty => "E:bug-acked"
  | .bugWrongPacket => "E:bug-wrong"
  | .notFound => "E:notfound"
  | .bugPTO => "E:bug-pto"
  | .ptoLevel => "E:pto-level"

/-- the three ` | `-separated parts of a result line -/
def implParts (impl : String) : String × String × String :=
  match impl.splitOn " | " with
  | [a, b, c] => (a, b, c)
  | [a, b] => (a, b, "")
  | [a] => (a, "", "")
  | _ => ("", "", "")

def field (txt key : String) : Option String :=
  (words txt).findSome? fun w => if w.startsWith key then some (w.drop key.length).toString else none

def parseEnv (envTxt : String) : StepEnv :=
  match ((envTxt.drop 4).toString.splitOn ",").map intOf with
  | [a, b, c, d, e] => { env := { latestRTT := a, smoothedRTT := b, pto0 := c, pto1 := d }, nts := e }
  | _ => {}

def parseRange (s : String) : Option Range :=
  match s.splitOn "-" with
  | [a, b] => match a.toInt?, b.toInt? with
    | some x, some y => some (x, y)
    | _, _ => none
  | _ => none

def parseFrames (s : String) : List Frame × List Frame × List Nat :=
  if s = "-" then ([], [], []) else
  (s.splitOn ",").foldl (fun (acc : List Frame × List Frame × List Nat) t =>
    let k := (t.take 1).toString
    let id := (t.drop 1).toString.toNat?.getD 0
    let hd := k = "c" ∨ k = "s"
    let f : Frame := { id := id, handler := hd }
    let ids := if hd then acc.2.2 ++ [id] else acc.2.2
    if k = "c" ∨ k = "C" then (acc.1 ++ [f], acc.2.1, ids) else (acc.1, acc.2.1 ++ [f], ids)) ([], [], [])

def implEvents (res : String) : List String :=
  match field res "ev=" with
  | some "-" => []
  | some s => s.splitOn ","
  | none => []

def stateInt (stateTxt key : String) : Int :=
  match field stateTxt key with
  | some v => intOf ((v.splitOn ",").headD "0")
  | none => 0

/-- the `lossTime` of every live packet number space in a printed state is 0 (`false` if there is no state) -/
def lossTimesZero (stateTxt : String) : Bool :=
  !stateTxt.isEmpty && ["I=", "H=", "A="].all fun k =>
    match field stateTxt k with
    | none => false
    | some "-" => true
    | some v => (v.splitOn ",").any (· = "lt0")

def peekU (st : St) (lvl : Level) (pn : Int) (dflt : Int) : Int :=
  if st.u ∧ lvl = .initial ∧ !st.pls.isEmpty then
    let idx := pn - st.base
    let idx := if idx < 0 then 0 else idx
    let idx := if idx ≥ st.pls.length then (st.pls.length : Int) - 1 else idx
    st.pls.getD idx.toNat dflt
  else if st.u ∧ lvl = .initial ∧ st.pl ≠ 0 then st.pl
  else dflt

def drawFails (oldNext oldNts oldPeriod : Int) (s' : State) : List Fail :=
  -- a new skip was drawn iff nextToSkip changed; it must lie in [next+3, next+3+2*period) of the generator after the pop
  if s'.app.gen.nextToSkip ≠ oldNts ∧ !drawOk s'.app.gen.next oldPeriod s'.app.gen.nextToSkip then
    [("skip_draw_in_range", "-", s!"next={s'.app.gen.next} (was {oldNext}) period={oldPeriod} nextToSkip={s'.app.gen.nextToSkip}")]
  else []

def setNts (s : State) (nts : Int) : State :=
  let g : Gen := { s.app.gen with nextToSkip := nts }
  let a : Space := { s.app with gen := g }
  { s with app := a }

def step (st : St) (op impl : String) : St × StepOut :=
  let w := words op
  let (resTxt, envTxt, stateTxt) := implParts impl
  if resTxt = "skip" then (st, { model := "skip", tags := ["skip"] }) else
  let e := parseEnv envTxt
  -- the default handler's first random draw becomes known with the first line (no skip can happen on it)
  let st := if st.fresh then { st with s := setNts st.s e.nts, fresh := false } else st
  let implBif := stateInt stateTxt "bfl="
  let implAlarm := stateInt stateTxt "a="
  let fin (st' : St) (res : String) (tags : List String) (fails : List Fail) : St × StepOut :=
    let g := st'.g
    let gImpl := if resTxt.startsWith "PANIC" ∨ resTxt.startsWith "E:bug" ∨ resTxt.startsWith "E:notfound" ∨ resTxt.startsWith "E:other" ∨
                    resTxt.startsWith "E:pto-level" ∨ resTxt.startsWith "E:transport"
             then { g with broken := true } else g
    let fails := if gImpl.broken then [] else fails ++ gImpl.checkState implBif implAlarm
    let tags := tags ++ (if st'.s.alarm.typ ≠ st.s.alarm.typ ∨ st'.s.alarm.level ≠ st.s.alarm.level then
      [s!"alarm:{match st'.s.alarm.typ with | .none => "none" | .ack => "ack" | .pto => "pto" | .pathProbe => "pp"}{fmtLevel st'.s.alarm.level}"] else [])
    ({ st' with g := gImpl, prev := stateTxt },
     { model := s!"{res} | {envTxt} | {fmtState st'.s}", tags := tags, fails := fails })
  match w with
  | "init" :: rest =>
    let kv (k : String) : String := (rest.findSome? fun t => if t.startsWith (k ++ "=") then some (t.drop (k.length + 1)).toString else none).getD ""
    let client := kv "client" = "1"
    let s := State.new (intOf (kv "pn")) (kv "val" = "1") client e.nts
    let pls := if kv "pls" = "-" ∨ kv "pls" = "" then [] else ((kv "pls").splitOn ";").map intOf
    fin { s := s, g := Ghost.init client (kv "val" = "1"), fresh := false, u := kv "u" = "1", pl := intOf (kv "pl"), pls := pls, base := intOf (kv "base") }
      "ok" [s!"init:{if client then "client" else "server"}{if kv "u" = "1" then ":u" else ""}"] []
  | ["send", l, now, la, size, mtu, probe, frames] =>
    let lvl := parseLevel l
    let (fr, sfr, ids) := parseFrames frames
    let size := intOf size
    let g0 := st.s.app.gen
    let (s', out) := st.s.step (.send lvl (intOf now) (intOf la) size (mtu = "1") (probe = "1") fr sfr) e
    let res := match out.res with
      | .panic _ => "PANIC ev=-"
      | _ => s!"pn={out.pn} sk={if out.skipped.isEmpty then "-" else fmtPNs out.skipped}"
    -- ghost: packet number and skip as reported by the implementation
    let sp := spaceIdx lvl
    let g := st.g
    let g := match (field resTxt "pn=").map intOf with
      | some pn =>
        let g := { g with bytesSent := g.bytesSent + size, largestSent := g.largestSent.set sp pn,
                          pkts := g.pkts ++ [{ pn := pn, space := sp, size := size, sendTime := intOf now, frames := ids.map (·, false),
                                               ackEliciting := !(fr.isEmpty && sfr.isEmpty), mtu := mtu = "1", probe := probe = "1",
                                               zeroRTT := lvl = .zeroRTT }] }
        match field resTxt "sk=" with
        | some "-" => g
        | some v => { g with skipped := g.skipped ++ (v.splitOn ";").map intOf }
        | none => g
      | none => g
    let fails := if sp = 2 then drawFails g0.next g0.nextToSkip g0.period s' else []
    let tags := [s!"send:{l}"] ++ (if !out.skipped.isEmpty then ["send:skip"] else []) ++
      (if probe = "1" then ["send:pathprobe"] else if mtu = "1" then ["send:mtu"] else if fr.isEmpty && sfr.isEmpty then ["send:nonAE"] else []) ++
      (if out.res.isPanic then ["send:panic"] else [])
    fin { st with s := s', g := g } res tags fails
  | ["ack", l, now, _delay, _ecn, rs] =>
    let lvl := parseLevel l
    let ranges := ((rs.drop 2).toString.splitOn ";").filterMap parseRange
    let (s', out) := st.s.step (.ack lvl (intOf now) ranges) e
    let res := match out.res with
      | .panic _ => s!"PANIC {fmtEvs out.evs}"
      | .err c => s!"{fmtErr c} {fmtEvs out.evs}"
      | .ok => s!"ok f={if out.flag then 1 else 0} {fmtEvs out.evs}"
    let sp := spaceIdx lvl
    let largest := (ranges.head?.map (·.2)).getD (-1)
    let evs := implEvents resTxt
    let implOk := resTxt.startsWith "ok"
    let implPV := resTxt.startsWith "E:PROTOCOL_VIOLATION"
    let (g, f1) := st.g.observe evs (some (sp, ranges))
    let (g, f2) := if implOk then g.afterAck sp ranges else (g, [])
    -- an ACK for a packet number that was never sent
    let f3 : List Fail := if largest > g.largestSent.getD sp (-1) ∧ !(implPV ∧ evs.isEmpty) ∧ !(g.dropped.getD sp false) then
      [("ack_of_unsent", "-", s!"largest acked {largest} > largest sent {g.largestSent.getD sp (-1)} but result `{resTxt}`")] else []
    -- an ACK for a deliberately skipped packet number
    let f4 : List Fail := if lvl = .oneRTT ∧ largest ≤ g.largestSent.getD sp (-1) ∧ !(implPV ∧ evs.isEmpty) then
      match g.skipped.find? (covers ranges) with
      | some p =>
        let newer := (g.skipped.dropWhile (· ≠ p)).length - 1
        [("ack_of_skipped", if newer ≥ maxSkippedPackets then "skipped_older_than_cap" else "-",
          s!"ACK covers skipped packet number {p} ({newer} newer skips since) but result `{resTxt}`")]
      | none => []
      else []
    -- loss detection ran (something was visibly acknowledged): overdue packets must be resolved now
    let g := if lvl ≠ .initial then { g with completed := true } else g
    let newlyAcked := implOk ∧ evs.any (·.startsWith "a")
    let g := if newlyAcked then { g with largestAcked := g.largestAcked.set sp (max (g.largestAcked.getD sp (-1)) largest) } else g
    let f5 : List Fail := if newlyAcked then g.overdueNotLost sp (intOf now) (lossDelayOf e.env) else []
    let tags := [s!"ack:{l}:{match out.res with | .ok => if out.evs.isEmpty then "nothing" else "ok" | .err c => fmtErr c | .panic _ => "panic"}"] ++
      (if ranges.length > 1 then ["ack:multi"] else []) ++
      (if out.evs.any (fun x => match x with | .lost _ => true | _ => false) then ["ack:loss"] else []) ++
      (if out.evs.any (fun x => match x with | .ignore _ => true | _ => false) then ["ack:ignore"] else []) ++
      (if s'.app.lossTime ≠ 0 ∨ (s'.initial.any (·.lossTime ≠ 0)) ∨ (s'.handshake.any (·.lossTime ≠ 0)) then ["ack:losstime"] else [])
    fin { st with s := s', g := g } res (tags ++ (if newlyAcked then ["ack:lossdetect"] else [])) (f1 ++ f2 ++ f3 ++ f4 ++ f5)
  | ["timeout", now] =>
    let g0 := st.s.app.gen
    let (s', out) := st.s.step (.timeout (intOf now)) e
    let sk := if out.skipped.isEmpty then "-" else fmtPNs out.skipped
    let res := match out.res with
      | .panic _ => s!"PANIC {fmtEvs out.evs}"
      | .err c => s!"{fmtErr c} {fmtEvs out.evs} sk={sk}"
      | .ok => s!"ok {fmtEvs out.evs} sk={sk}"
    let (g, f1) := st.g.observe (implEvents resTxt) none
    let g := match field resTxt "sk=" with
      | some "-" => g
      | some v => { g with skipped := g.skipped ++ (v.splitOn ";").map intOf }
      | none => g
    -- the anti-deadlock probe: judged on the ghost as it was when the timer fired
    let adArmed := st.g.antiDeadlockState && lossTimesZero st.prev
    let f2 := st.g.antiDeadlockProbe (lossTimesZero st.prev) resTxt (stateInt stateTxt "np=") (stateInt stateTxt "pm=") implBif
    let tags := [if s'.ptoCount > st.s.ptoCount then s!"timeout:pto{s'.ptoMode}" else if !out.evs.isEmpty then "timeout:loss" else "timeout:noop"] ++
      (if adArmed then [if implBif > 0 then "timeout:antideadlock:inflight" else "timeout:antideadlock"] else []) ++
      (if out.skipped.length > 1 then ["timeout:doubleskip"] else []) ++
      (if s'.app.hist.skipped.length = maxSkippedPackets ∧ g.skipped.length > maxSkippedPackets then ["timeout:skipevict"] else [])
    fin { st with s := s', g := g } res tags (f1 ++ f2 ++ drawFails g0.next g0.nextToSkip g0.period s')
  | ["probe", l] =>
    let (s', out) := st.s.step (.probe (parseLevel l)) e
    let res := match out.res with
      | .panic _ => "PANIC ev=-"
      | _ => s!"{if out.flag then 1 else 0} {fmtEvs out.evs}"
    let (g, f1) := st.g.observe (implEvents resTxt) none
    fin { st with s := s', g := g } res [s!"probe:{if out.res.isPanic then "panic" else if out.flag then "queued" else "none"}"] f1
  | ["drop", l, now] =>
    let lvl := parseLevel l
    let (s', out) := st.s.step (.drop lvl (intOf now)) e
    let res := match out.res with | .panic _ => "PANIC ev=-" | _ => "ok"
    let g := st.g
    let g := if resTxt.startsWith "ok" then
        match lvl with
        | .initial => g.dropSpace 0
        | .handshake => { g.dropSpace 1 with confirmed := true, completed := true }
        | .zeroRTT =>
          -- the leading run of 0-RTT packets of the application-data space is discarded
          -- (if only 0-RTT packets were sent so far, as in a real connection, that is all of them)
          let only0 := g.pkts.all fun p => p.space ≠ 2 || p.zeroRTT || p.gone
          { g with pkts := g.pkts.map fun p => if p.space = 2 ∧ p.zeroRTT then
              (if only0 then { p with gone := true } else { p with maybeGone := true }) else p }
        | _ => g
      else g
    fin { st with s := s', g := g } res [s!"drop:{l}:{if out.res.isPanic then "panic" else if out.disc.isEmpty then "empty" else "frames"}"] []
  | ["retry", _now] =>
    let (s', out) := st.s.step .retry e
    let res := match out.res with | .panic _ => s!"PANIC {fmtEvs out.evs}" | _ => s!"ok {fmtEvs out.evs}"
    let (g, f1) := st.g.observe (implEvents resTxt) none
    -- a Retry reports every frame still tracked in the Initial and application-data spaces as lost (path probes excepted)
    let f2 : List Fail := if resTxt.startsWith "ok" then g.pkts.foldl (fun (acc : List Fail) p =>
        if p.space ≠ 1 ∧ !p.probe ∧ !p.gone ∧ !p.maybeGone ∧ p.frames.any (fun f => !f.2) then
          acc ++ [("ledger_missing_after_retry", "-", s!"packet {p.pn} (space {p.space}) dropped by the Retry but frames {(p.frames.filter (fun f => !f.2)).map (·.1)} not reported lost")]
        else acc) [] else []
    -- everything in the Initial and application-data spaces is resolved now; packet numbers skipped before are forgotten
    let g := { g with pkts := g.pkts.map (fun p => if p.space ≠ 1 then { p with gone := true } else p), skipped := [],
                      largestAcked := (g.largestAcked.set 0 (-1)).set 2 (-1) }
    fin { st with s := s', g := g } res ["retry"] (f1 ++ f2)
  | ["migrate", now, _mds] =>
    let (s', out) := st.s.step (.migrate (intOf now)) e
    let res := match out.res with | .panic _ => s!"PANIC {fmtEvs out.evs}" | _ => s!"ok {fmtEvs out.evs}"
    let (g, f1) := st.g.observe (implEvents resTxt) none
    let g := { g with pkts := g.pkts.map fun p =>
      if p.space = 2 ∧ p.probe then { p with maybeGone := true } else if p.space = 2 ∧ p.frames.isEmpty then { p with gone := true } else p }
    fin { st with s := s', g := g } res [if out.disc.isEmpty then "migrate" else "migrate:probes"] f1
  | ["rcvbytes", n, now] =>
    let (s', _) := st.s.step (.rcvBytes (intOf n) (intOf now)) e
    fin { st with s := s', g := { st.g with bytesReceived := st.g.bytesReceived + intOf n } } "ok"
      [if s'.alarm ≠ st.s.alarm then "rcvbytes:rearm" else "rcvbytes"] []
  | ["rcvpkt", l, now] =>
    let lvl := parseLevel l
    let (s', _) := st.s.step (.rcvPacket lvl (intOf now)) e
    let g := if lvl = .handshake then { st.g with validated := true } else st.g
    fin { st with s := s', g := g } "ok" [if s'.peerValidated ∧ !st.s.peerValidated then "rcvpkt:validated" else "rcvpkt"] []
  | ["mode", _now] =>
    let cs := field resTxt "cs=" = some "1"
    let pb := field resTxt "pb=" = some "1"
    let m := st.s.sendMode cs pb
    fin st s!"{m} cs={if cs then 1 else 0} pb={if pb then 1 else 0}" [s!"mode:{m}"] []
  | ["peek", l] =>
    let lvl := parseLevel l
    match st.s.peekPacketNumber lvl with
    | none => fin st "PANIC ev=-" ["peek:panic"] []
    | some (pn, len) => fin st s!"{pn} {peekU st lvl pn len}" [s!"peek:{peekU st lvl pn len}"] []
  | ["mad", _] => fin st "ok" [] []
  | _ => (st, { model := "bad-op" })

def main : IO Unit := run { init := ({} : St), step := step }
