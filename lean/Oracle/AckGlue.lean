import Uquic.Oracle.Frame
import Uquic.Model.Ack.Glue
import Uquic.Spec.RcvMon

/-!
Oracle of the `ackglue` driver (C07, glue in connection.go).

* `coal` / `short` / `timer`: the model (`Uquic.Model.AckGlue`) predicts the implementation's answer (the packet
  numbers, which the sent-packet handler draws with random skips, and the PTO, an input computed by rttStats, are
  echoed) — a difference is a DIFF; the monitors judge the implementation's answer against the op only.
* `rcv` / `peerack` / `ackq` / `dup`: real handlers wired by the real constructor; the answers are echoed and judged by
  monitors against ghost state from the ops only: the set of numbers handed in per space and the highest threshold
  the peer ALLOWED the endpoint to forget (largest acked + 1 of acknowledged 1-RTT packets that carried an ACK).
-/

open Uquic.Oracle Uquic.Model.Rcv Uquic.Model.AckGlue Uquic.Spec.RcvMon

structure SentG where
  lvl : String
  ack : Option Int
  probe : Bool := false

structure St where
  rI : List Int := []
  rH : List Int := []
  rA : List Int := []
  freshI : Bool := false
  freshH : Bool := false
  freshA : Bool := false
  floorA : Int := 0            -- upper bound of every legitimate forget threshold so far
  sent : List SentG := []      -- registered packets of this case, in order

def getR (s : St) : String → List Int
  | "I" => s.rI | "H" => s.rH | _ => s.rA
def setR (s : St) (l : String) (r : List Int) (fresh : Bool) : St :=
  match l with
  | "I" => { s with rI := r, freshI := fresh }
  | "H" => { s with rH := r, freshH := fresh }
  | _ => { s with rA := r, freshA := fresh }
def getFresh (s : St) : String → Bool
  | "I" => s.freshI | "H" => s.freshH | _ => s.freshA
def floorOf (s : St) (l : String) : Int := if l == "A" then s.floorA else 0

def parseOptInt (t : String) : Option Int := if t == "-" then none else t.toInt?

/-- `<L>:<la|->:<ae>` -/
def parsePart (t : String) : Option (String × Option Int) :=
  match t.splitOn ":" with
  | [l, a, _] => if l == "I" || l == "H" || l == "A" then some (l, parseOptInt a) else none
  | _ => none

/-- `<L><pn>:<la>` of the implementation's answer -/
def parseReg (t : String) : Option (String × String × Int) :=
  match t.splitOn ":" with
  | [a, b] =>
    let l := (a.take 1).toString
    some (l, (a.drop 1).toString, intOf b)
  | _ => none

def parseRange (s : String) : Option Range :=
  match s.splitOn "-" with
  | [a, b] => match a.toInt?, b.toInt? with
    | some x, some y => some (x, y)
    | _, _ => none
  | ["", a, b] => match a.toInt?, b.toInt? with   -- a negative start never occurs; be total
    | some x, some y => some (-x, y)
    | _, _ => none
  | _ => none

def kvGet (w : List String) (k : String) : Option String :=
  w.findSome? fun t => if t.startsWith (k ++ "=") then some (t.drop (k.length + 1)).toString else none

def kvInt (w : List String) (k : String) : Int := ((kvGet w k).bind (·.toInt?)).getD 0
def kvOpt (w : List String) (k : String) : Option Int := (kvGet w k).bind parseOptInt

/-- an arbitrary positive origin for the absolute times of the model (the op carries offsets from "now") -/
def base : Int := 1000000000000000000

def absT (o : Option Int) : Int := match o with | some d => base + d | none => 0

def blockOf : Int → BlockMode
  | 1 => .congestionLimited
  | 2 => .hardBlocked
  | _ => .none

/-- model text and monitors for the registrations of one `coal`/`short` op -/
def judgeRegs (expect : List (String × Option Int × Bool)) (iw : List String) :
    String × List (String × String × String) := Id.run do
  let regs := (iw.drop 1).filterMap parseReg
  let mut model := iw.headD "ok"
  if model != "ok" then model := "ok"
  let mut fails : List (String × String × String) := []
  let mut i := 0
  for (l, ack, probe) in expect do
    let want := if probe then invalidPN else largestAckedOf ack
    match regs[i]? with
    | some (il, ipn, ila) =>
      model := model ++ s!" {l}{ipn}:{want}"
      if il != l then
        fails := fails ++ [("registered_level", "-", s!"packet {i}: registered in space {il}, packed for {l}")]
      if ila != want then
        fails := fails ++ [("registered_largest_acked_is_own_ack", "-",
          s!"packet {i} ({l}{ipn}) carries {match ack with | some a => s!"an ACK with largest acked {a}" | none => "no ACK frame"}{if probe then " (path probe)" else ""} but was registered with largestAcked={ila}")]
    | none =>
      model := model ++ s!" {l}?:{want}"
      fails := fails ++ [("registered_every_packet", "-", s!"packet {i} ({l}) was not registered")]
    i := i + 1
  if regs.length > expect.length then
    fails := fails ++ [("registered_every_packet", "-", s!"{regs.length} registrations for {expect.length} packets")]
  return (model, fails)

/-- a packet number is handed to the received-packet handler: ghost update and monitors -/
def judgeRcv (s : St) (l : String) (pn : Int) (ae : Bool) (implHead : String) : St × List (String × String × String) := Id.run do
  let r := getR s l
  let fl := floorOf s l
  let seen := r.contains pn
  let mut fails : List (String × String × String) := []
  if implHead == "E" && !seen && pn ≥ fl then
    fails := fails ++ [("glue_rcv_rejected_fresh", "-", s!"{l} pn={pn} was never received and is not below the allowed forget threshold {fl}, but was rejected")]
  if implHead == "ok" && seen && pn ≥ fl then
    fails := fails ++ [("glue_dup_processed_twice", "-", s!"{l} pn={pn} accepted a second time")]
  -- only an ack-eliciting packet makes a new ACK frame necessary
  let fresh := getFresh s l || (!seen && pn ≥ fl && ae)
  return (setR s l (if seen then r else pn :: r) fresh, fails)

def step (s : St) (op impl : String) : St × StepOut :=
  let w := words op
  let iw := words impl
  let implHead := iw.headD ""
  if implHead == "skip" || implHead == "bad-op" then (s, { model := impl, tags := ["skip"] }) else
  match w with
  | ["rcv", l, pn, ae] =>
    let (s', fails) := judgeRcv s l (intOf pn) (ae == "1") implHead
    (s', { model := impl, tags := [s!"rcv:{l}:{implHead}"], fails := fails })
  | "coal" :: ps =>
    let parts := ps.filterMap parsePart
    let expect := parts.map fun (l, a) => (l, a, false)
    let (model, fails) := judgeRegs expect iw
    -- tie to the model function itself
    let long := (parts.filter (·.1 != "A")).map fun (l, a) => ({ lvl := if l == "I" then .initial else .handshake, pn := 0, ack := a } : LongPart)
    let short := (parts.find? (·.1 == "A")).map fun (_, a) => ({ pn := 0, ack := a } : ShortPart)
    let mregs := sendPackedCoalesced long short
    let agree := mregs.map (·.largestAcked) == expect.map fun (_, a, _) => largestAckedOf a
    let shape := "+".intercalate (parts.map fun (l, a) => l ++ (if a.isSome then "a" else ""))
    let s' := { s with sent := s.sent ++ parts.map fun (l, a) => ({ lvl := l, ack := a } : SentG) }
    (s', { model := if agree then model else "model-bug", tags := [s!"coal:{shape}"], fails := fails })
  | ["short", a, _ae, probe] =>
    let ack := parseOptInt a
    let pr := probe == "1"
    let (model, fails) := judgeRegs [("A", ack, pr)] iw
    let m := registerShort { pn := 0, ack := ack } pr
    let agree := m.largestAcked == (if pr then invalidPN else largestAckedOf ack)
    let s' := { s with sent := s.sent ++ [{ lvl := "A", ack := ack, probe := pr }] }
    (s', { model := if agree then model else "model-bug", tags := [s!"short:{if pr then "probe" else if ack.isSome then "ack" else "noack"}"], fails := fails })
  | ["peerack", idx, pn, ae] =>
    match s.sent[natOf idx]? with
    | none => (s, { model := impl, tags := ["peerack:dangling"] })
    | some p =>
      -- what the peer allows to be forgotten: largest acked + 1 of an acknowledged 1-RTT packet that carried an ACK
      let calls := forgetCalls [{ lvl := if p.lvl == "A" then .oneRTT else if p.lvl == "I" then .initial else .handshake,
                                  pn := 0, largestAcked := if p.probe then invalidPN else largestAckedOf p.ack }]
      let fl := calls.foldl max s.floorA
      let tag := if calls.isEmpty then s!"peerack:{p.lvl}:nothreshold" else if fl > s.floorA then "peerack:A:raise" else "peerack:A:same"
      -- the carrying packet is then recorded (after the frames, as the connection does)
      let (s', fails) := judgeRcv { s with floorA := fl } p.lvl (intOf pn) (ae == "1") implHead
      (s', { model := impl, tags := [tag], fails := fails })
  | ["ackq", l] => Id.run do
    let r := getR s l
    let fl := floorOf s l
    let mut fails : List (String × String × String) := []
    if implHead == "-" then
      if getFresh s l then
        fails := fails ++ [("glue_ack_missing", "-", s!"{l}: new ack-eliciting packets were received since the last ACK but no ACK frame is generated")]
      return (s, { model := impl, tags := ["ackq:none"], fails := fails })
    let rs := (implHead.splitOn ";").filterMap parseRange
    if !coveredSubset rs r (-1) then
      fails := fails ++ [("glue_ack_sound", "-", s!"{l}: ranges {implHead} cover numbers never received")]
    for p in r do
      if p ≥ fl && !covers rs p then
        fails := fails ++ [("glue_ack_keeps_unforgotten", "-", s!"{l}: pn={p} was received and is not below the allowed forget threshold {fl}, but the ACK {implHead} does not cover it")]
    if !rs.isEmpty && !rangesValid rs then
      fails := fails ++ [("glue_ack_ranges_wf", "-", implHead)]
    return (setR s l r false, { model := impl, tags := [s!"ackq:{if rs.length > 1 then "gaps" else "one"}"], fails := fails })
  | ["dup", l, pn] => Id.run do
    let pn := intOf pn
    let r := getR s l
    let fl := floorOf s l
    let mut fails : List (String × String × String) := []
    if implHead == "1" && !r.contains pn && pn ≥ fl then
      fails := fails ++ [("glue_dup_sound", "-", s!"{l} pn={pn} was never received and is not below the allowed forget threshold {fl}, but is reported as duplicate")]
    if implHead == "0" && r.contains pn && r.length ≤ 30 then
      fails := fails ++ [("glue_dup_complete", "-", s!"{l} pn={pn} was received but is not recognised as duplicate")]
    return (s, { model := impl, tags := [s!"dup:{implHead}"], fails := fails })
  | "timer" :: kvs => Id.run do
    let blk := blockOf (kvInt kvs "blk")
    let ar := kvOpt kvs "ar"
    let pto := kvInt iw "pto"
    let alarm := match ar with | some d => base + d + maxAckDelay | none => 0
    let i : TimerIn := {
      handshakeComplete := kvInt kvs "hc" == 1
      creationTime := base + kvInt kvs "cr"
      handshakeIdleTimeout := kvInt kvs "hi"
      lastPacketReceivedTime := base + kvInt kvs "lr"
      firstAckElicitingAfterIdle := absT (kvOpt kvs "fa")
      idleTimeout := kvInt kvs "it"
      pto := pto
      keepAlivePeriod := kvInt kvs "ka"
      keepAlivePingSent := kvInt kvs "ks" == 1
      keepAliveInterval := kvInt kvs "ki"
      blocked := blk
      ackAlarm := alarm
      lossTimeout := absT (kvOpt kvs "ls")
      pacingDeadline := absT (kvOpt kvs "pd") }
    let fire := fireAfter i base
    let alTxt := match ar with | some d => s!"{d + maxAckDelay}" | none => "-"
    let model := s!"pto={pto} al={alTxt} fire={fire}"
    let implFire := kvInt iw "fire"
    let mut fails : List (String × String × String) := []
    if blk != .hardBlocked then
      match ar with
      | some d =>
        let due := max 0 (d + maxAckDelay)
        if implFire > due then
          fails := fails ++ [("ack_alarm_always_armed", "-",
            s!"blocked={kvInt kvs "blk"}: an ack-eliciting packet arrived at now{d}ns, its ACK is due in {due}ns, but the connection timer fires only after {implFire}ns")]
      | none => pure ()
      match kvOpt kvs "ls" with
      | some d =>
        if implFire > max 0 d then
          fails := fails ++ [("loss_timeout_always_armed", "-", s!"blocked={kvInt kvs "blk"}: loss detection timeout in {d}ns, timer fires after {implFire}ns")]
      | none => pure ()
    let which :=
      if blk == .hardBlocked then "base" else
      if fire == 0 then "past" else
      if alarm ≠ 0 && timerDeadline i == alarm then "ack" else
      if i.lossTimeout ≠ 0 && timerDeadline i == i.lossTimeout then "loss" else
      if i.pacingDeadline ≠ 0 && timerDeadline i == i.pacingDeadline then "pacing" else "base"
    return (s, { model := model, tags := [s!"timer:blk{kvInt kvs "blk"}:{which}", s!"timer:hc{kvInt kvs "hc"}"], fails := fails })
  | _ => (s, { model := "bad-op" })

def main : IO Unit := run { init := ({} : St), step := step }
