/-
Oracle of the ringq driver (property C18, round 5): internal/utils/ringbuffer.RingBuffer through its
exported API.  Model: `Uquic.Model.Util.RingBuffer` (the Go fields and branches, `grow` included).

Monitors (ghost state = a plain FIFO list built from the op lines only):
* `ring_fifo_order` — PopFront / PeekFront hand out the oldest queued element (a stream id that was
  queued is handed out exactly once per activation, in order), and panic exactly on an empty queue;
* `ring_len_consistent` — Len / Empty agree with the number of elements pushed and not yet popped.
-/
import Uquic.Oracle.Frame
import Uquic.Model.Util.RingBuffer

open Uquic.Oracle Uquic.Model.Util.RingBuffer

structure St where
  rb : RB := {}
  ghost : List Int := []
  fresh : Bool := true
  grown : Bool := false

abbrev Fail := String × String × String

def capTag (before after : RB) : List String :=
  if after.cap > before.cap then
    (if before.head != 0 then ["grow:wrapped"] else if before.cap == 0 then ["grow:first"] else ["grow:head0"])
  else []

def step (s : St) (op impl : String) : St × StepOut :=
  let s1 := { s with fresh := false }
  match words op with
  | ["init", n] =>
    match n.toNat? with
    | some k => if s.fresh && k ≤ 65536 then ({ s1 with rb := s.rb.init k }, { model := "ok", tags := ["init"] }) else (s1, { model := "skip" })
    | none => (s1, { model := "skip" })
  | ["push", x] =>
    match x.toInt? with
    | some v =>
      if s.rb.len > 65536 then (s1, { model := "skip" })
      else
        let rb' := s.rb.pushBack v
        ({ s1 with rb := rb', ghost := s.ghost ++ [v] },
         { model := "ok", tags := ["push"] ++ capTag s.rb rb' ++ (if rb'.full then ["full"] else []) ++ (if rb'.tail < rb'.head then ["wrapped"] else []) })
    | none => (s1, { model := "skip" })
  | ["pop"] =>
    let (o, rb') := s.rb.popFront
    let model := match o with | some v => toString v | none => "PANIC"
    let fails : List Fail := match s.ghost with
      | v :: _ => if impl != toString v then [("ring_fifo_order", "-", s!"PopFront returned `{impl}`; the oldest of the {s.ghost.length} queued elements is {v}")] else []
      | [] => if impl != "PANIC" then [("ring_fifo_order", "-", s!"PopFront on an empty queue returned `{impl}` (it panics by contract)")] else []
    ({ s1 with rb := rb', ghost := s.ghost.drop 1 }, { model := model, tags := [if o.isSome then "pop" else "pop:empty"], fails := fails })
  | ["peek"] =>
    let o := s.rb.peekFront
    let model := match o with | some v => toString v | none => "PANIC"
    let fails : List Fail := match s.ghost with
      | v :: _ => if impl != toString v then [("ring_fifo_order", "-", s!"PeekFront returned `{impl}`; the oldest queued element is {v}")] else []
      | [] => if impl != "PANIC" then [("ring_fifo_order", "-", s!"PeekFront on an empty queue returned `{impl}`")] else []
    (s1, { model := model, tags := [if o.isSome then "peek" else "peek:empty"], fails := fails })
  | ["len"] =>
    let fails : List Fail := if impl != toString s.ghost.length then
      [("ring_len_consistent", "-", s!"Len() = `{impl}` with {s.ghost.length} elements pushed and not yet popped")] else []
    (s1, { model := toString s.rb.len, tags := ["len"], fails := fails })
  | ["empty"] =>
    let fails : List Fail := if impl != toString s.ghost.isEmpty then
      [("ring_len_consistent", "-", s!"Empty() = `{impl}` with {s.ghost.length} elements queued")] else []
    (s1, { model := toString s.rb.empty, tags := ["empty"], fails := fails })
  | ["clear"] => ({ s1 with rb := s.rb.clear, ghost := [] }, { model := "ok", tags := ["clear"] })
  | _ => (s1, { model := "skip" })

def main : IO Unit := run { init := {}, step := step }
